------------------------------- MODULE XFloat -------------------------------
(***************************************************************************)
(* C19: the life of a floating-point constant.                             *)
(*                                                                         *)
(*   mem  --Save-->  file  --Load-->  mem  --TakeApart--> parts            *)
(*    ^                                ^                    |              *)
(*    +--------------------------------+----Reassemble------+              *)
(*                                                                         *)
(* Save  = bufWrSFloat/bufWrDFloat  = xsfFrNative/xdfFrNative (foamToBuffer*)
(*         case 'f'/'d'); Load = bufRdSFloat/bufRdDFloat, fintRdSFloat/... *)
(*         = xsfToNative/xdfToNative (foamFrBuffer, the interpreter's      *)
(*         loader); TakeApart/Reassemble = sfDissemble/sfAssemble          *)
(*         (fiSFloDissemble/fiSFloAssemble and the DFlo pair).             *)
(* One action per public operation; Save and Load are split by the branch  *)
(* of the C case analysis they take, so that -coverage shows every branch  *)
(* exercised.                                                              *)
(*                                                                         *)
(* A constant either starts in memory (origin "native": every pattern of   *)
(* the scaled format, or sign x every exponent x boundary fractions at the *)
(* real widths) or is found in a file written elsewhere (origin "foreign": *)
(* any portable pattern); in the second case the value obtained by the     *)
(* first Load is the constant whose survival is then demanded.             *)
(***************************************************************************)
EXTENDS XFloatOps, TLC

CONSTANTS FracMode,    \* "all" | "boundary" | "lite" | "mini"
          Origins,     \* subset of {"native", "foreign"}
          MaxTrips     \* number of Save/Load round trips followed

VARIABLES orig,   \* the constant (native pattern), <<>> until known
          nat,    \* the value in memory
          port,   \* the bytes in the object file (<<>> if none yet)
          parts,  \* result of the last TakeApart
          pc,     \* "mem" | "file" | "parts"
          trips

vars == <<orig, nat, port, parts, pc, trips>>

NoParts == [set |-> FALSE, sign |-> 0, exp |-> 0, frac |-> <<>>, of |-> <<>>]

---------------------------------------------------------------------------
(* Enumerations                                                            *)

Fracs(n) == FamFracs(FracMode, n)

NativeFracs == Fracs(FB)
XFracs      == Fracs(XFB)

NativeExps == 0..(Pow2[EB] - 1)          \* every exponent, at every width

(* portable exponent fields: all of them in the scaled format; at the real *)
(* widths the ends of the range and a band around every case boundary of   *)
(* xsfToNative                                                             *)
XExps ==
  IF FracMode = "all" THEN 0..(Pow2[XEB] - 1)
  ELSE LET top == Pow2[XEB] - 1
           band(c, r) == {e \in (c - r)..(c + r) : e >= 0 /\ e <= top}
       IN {0, 1, 2, top - 2, top - 1, top}
            \cup band(XExcess + ExponMin, XFB + 3)      \* normal / subnormal / underflow
            \cup band(XExcess + ExponNAN, 3)            \* normal / overflow
            \cup band(XExcess, 3)

MkNative(s, e, f)   == <<s>> \o NatToBits(e, EB) \o f
MkPortable(s, e, f) == <<s>> \o NatToBits(e, XEB) \o f

---------------------------------------------------------------------------

Init ==
  /\ parts = NoParts /\ trips = 0
  /\ \/ /\ "native" \in Origins
        /\ \E s \in 0..1, e \in NativeExps, f \in NativeFracs :
             /\ orig = MkNative(s, e, f) /\ nat = orig
        /\ port = <<>> /\ pc = "mem"
     \/ /\ "foreign" \in Origins
        /\ \E s \in 0..1, e \in XExps, f \in XFracs : port = MkPortable(s, e, f)
        /\ orig = <<>> /\ nat = <<>> /\ pc = "file"

(* bufWrSFloat: xsfFrNative(&xs, &s); bufAddn(buf, &xs, XSFLOAT_BYTES) *)
Save ==
  /\ port' = XFrNative(nat)
  /\ pc' = "file"
  /\ parts' = NoParts
  /\ UNCHANGED <<orig, nat, trips>>

CanSave(path) == pc = "mem" /\ trips < MaxTrips /\ FrPath(nat) = path

SaveNanInf    == CanSave("A") /\ Save
SaveZero      == CanSave("E") /\ Save
SaveSubnormal == CanSave("B") /\ Save
SaveNormal    == CanSave("C") /\ Save

(* bufRdSFloat / fintRdSFloat: xsfToNative(pxs, &s) *)
Load ==
  /\ nat' = XToNative(port)
  /\ orig' = IF orig = <<>> THEN nat' ELSE orig
  /\ pc' = "mem"
  /\ trips' = IF orig = <<>> THEN trips ELSE trips + 1     \* the load that discovers a foreign constant is not a trip
  /\ UNCHANGED <<port, parts>>

CanLoad(path) == pc = "file" /\ ToPath(port) = path

LoadNanInf    == CanLoad("A") /\ Load
LoadOverflow  == CanLoad("B") /\ Load
LoadZero      == CanLoad("E") /\ Load
LoadSubnormal == CanLoad("C") /\ Load
LoadNormal    == CanLoad("D") /\ Load

(* sfDissemble / fiSFloDissemble *)
TakeApart ==
  /\ pc = "mem" /\ ~parts.set
  /\ LET d == Dissemble(nat)
     IN parts' = [set |-> TRUE, sign |-> d.sign, exp |-> d.exp, frac |-> d.frac, of |-> nat]
  /\ pc' = "parts"
  /\ UNCHANGED <<orig, nat, port, trips>>

(* sfAssemble / fiSFloAssemble *)
Reassemble ==
  /\ pc = "parts"
  /\ nat' = Assemble(parts.sign, parts.exp, parts.frac)
  /\ pc' = "mem"
  /\ UNCHANGED <<orig, port, parts, trips>>

Next == \/ SaveNanInf \/ SaveZero \/ SaveSubnormal \/ SaveNormal
        \/ LoadNanInf \/ LoadOverflow \/ LoadZero \/ LoadSubnormal \/ LoadNormal
        \/ TakeApart \/ Reassemble

Spec == Init /\ [][Next]_vars

---------------------------------------------------------------------------
(* Invariants                                                              *)

TypeOK ==
  /\ pc \in {"mem", "file", "parts"}
  /\ trips \in 0..MaxTrips
  /\ (orig = <<>> \/ IsBits(orig, NBits))
  /\ (nat  = <<>> \/ IsBits(nat, NBits))
  /\ (port = <<>> \/ IsBits(port, XBits))
  /\ (pc \in {"mem", "parts"} => nat # <<>>)
  /\ (pc = "file" => port # <<>>)
  /\ (parts.set => IsBits(parts.frac, W) /\ parts.sign \in {0, 1}
                   /\ parts.exp \in ExponMin..ExponNAN)

(* C19, first clause: same bits come back (signed zero, subnormals,        *)
(* infinities included); NaN stays NaN.                                    *)
Survives == (pc = "mem" /\ orig # <<>>) => SameValue(orig, nat)

(* What this implementation does beyond the statement: NaN payloads and    *)
(* signs come back bit for bit as well.                                    *)
SurvivesBitExact == (pc = "mem" /\ orig # <<>>) => nat = orig

(* C19, second clause: taking apart and reassembling is the identity       *)
(* (for every pattern, NaNs included).                                     *)
PartsIdentity == (pc = "mem" /\ parts.set) => nat = parts.of

(* What TakeApart reports is what the format says                          *)
PartsMeaning ==
  parts.set =>
    LET x == parts.of  c == Classify(x)
    IN /\ parts.sign = x[1]
       /\ (c \in {ZERO, DENORM} <=> parts.exp = ExponMin)
       /\ (c \in {NAN, INF} <=> parts.exp = ExponNAN)
       /\ SubSeq(parts.frac, 1, FB) = FracBits(x)
       /\ ~HasOne(SubSeq(parts.frac, FB + 1, W))

(* The file holds a value of the corresponding class (subnormals become    *)
(* normalised), with the sign, and the same file is written every time.    *)
FileForm ==
  (pc = "file" /\ orig # <<>>) =>
     /\ FileClassOk(orig)
     /\ XSign(port) = Sign(orig)
     /\ (~IsNaN(orig) => port = XFrNative(orig))

(* The portable form denotes the number the native pattern denotes (under  *)
(* the reading documented at PortableDenotes in XFloatOps).                *)
FileDenotes == (pc = "file" /\ orig # <<>>) => DenotesOk(orig)

(* Loading never invents a NaN from a number or a number from a NaN, and   *)
(* keeps the sign, for any file contents.                                  *)
LoadSane ==
  (pc = "mem" /\ port # <<>>) =>
     /\ Sign(nat) = XSign(port)
     /\ (XClassify(port) = NAN => Classify(nat) \in {NAN, INF})   \* low payload bits may be cut off
     /\ (XClassify(port) = INF => Classify(nat) = INF)
     /\ (XClassify(port) = ZERO => Classify(nat) = ZERO)
     /\ (XClassify(port) \in {NORM, DENORM} => Classify(nat) # NAN)

=============================================================================
