----------------------------- MODULE StoreAbsMC -----------------------------
(***************************************************************************)
(* Exhaustive small configuration of StoreAbs: a heap of `Heap' addresses, *)
(* every interleaving of Alloc / Free / Resize / Recode / Fill / Write /   *)
(* SetRoot / Collect(S) / Audit with every placement and every survivor    *)
(* set the specification allows.  TLC checks the invariants of the         *)
(* property in every reachable state and the action properties on every    *)
(* transition; -coverage 1 shows that every action is taken.               *)
(***************************************************************************)
EXTENDS StoreAbs

CONSTANTS Heap,      \* number of addresses 0..Heap-1
          ReqSizes,  \* request sizes
          Slack,     \* the allocator may round a request up by 0..Slack
          Codes, Tags, MaxLive

Addrs   == 0 .. (Heap - 1)
Targets == Addrs \cup {Null}

DoAlloc   == \E c \in Codes, n \in ReqSizes, a \in Addrs, d \in 0..Slack, t \in Tags :
                /\ Cardinality(Live) < MaxLive
                /\ a + n + d <= Heap
                /\ Alloc(c, n, a, n + d, t)
DoFree    == \E a \in Live : Free(a)
DoResize  == \E a \in Live, n \in ReqSizes, b \in Addrs, d \in 0..Slack :
                /\ b + n + d <= Heap
                /\ Resize(a, n, b, n + d, live[a].code, TRUE)
DoRecode  == \E a \in Live, c \in Codes : Recode(a, c, a)
DoFill    == \E a \in Live, t \in Tags : Fill(a, t)
DoWrite   == \E a \in Live, i \in 1..MaxSlots, x \in Targets : Write(a, i, x)
DoSetRoot == \E k \in 1..NRoots, x \in Targets : SetRoot(k, x)
DoCollect == \E S \in SUBSET Live : Collect(S)
DoAudit   == Audit(TRUE)

Next == \/ DoAlloc \/ DoFree \/ DoResize \/ DoRecode \/ DoFill
        \/ DoWrite \/ DoSetRoot \/ DoCollect \/ DoAudit

Spec == Init /\ [][Next]_vars

(* `last' is a history variable that only the action properties read, and  *)
(* they read only its primed value; two states that differ in `last' alone *)
(* have the same successors, so TLC may identify them (VIEW).              *)
View == <<live, roots>>

TypeOK == /\ \A a \in Live : /\ a \in Addrs
                             /\ live[a].req \in ReqSizes
                             /\ live[a].size \in 1..Heap
                             /\ live[a].code \in Codes
                             /\ live[a].tag \in Tags
                             /\ \A i \in 1..Len(live[a].slots) : live[a].slots[i] \in Targets
          /\ \A k \in 1..NRoots : roots[k] \in Targets

InHeap == \A a \in Live : a + live[a].size <= Heap
=============================================================================
