----------------------------- MODULE ReportGen -----------------------------
(***************************************************************************)
(* Generator of report layouts for the replay of C15 (see Report.tla):     *)
(* Include.tla's environment with a history variable, started after a      *)
(* fixed prelude of Pre lines in the top file.  Final states in which two  *)
(* remembered lines have the same line number (in different files, or in   *)
(* differently renumbered stretches of one file) are exported; the binding *)
(* renders each as real files, plants diagnostics on the lines and         *)
(* compares the compiler's reports with Report (spec/TraceSrcPos.tla).     *)
(***************************************************************************)
EXTENDS Report, Json

CONSTANT Pre           \* lines of the fixed prelude at the head of the top file

VARIABLE hist

gvars == << ivars, items, hist >>

GInit ==
  /\ stack = << [Frame(TopFile) EXCEPT !.lno = Pre, !.lastg = Pre] >>
  /\ glno = Pre
  /\ T = IF Pre = 0 THEN TblInit ELSE [t |-> << Seg(1, TopFile, 1) >>, gp |-> 1]
  /\ included = {TopFile}
  /\ wits = << >>
  /\ done = FALSE
  /\ items = 0
  /\ hist = << >>

H(k, n, f) == hist' = Append(hist, [file |-> Top.file, k |-> k, n |-> n, f |-> f])

GLines   == \E n \in RunLens : CanRead(n) /\ DoLines(n, AllToks(n)) /\ Count /\ H("lines", n, "")
GInclude == CanRead(1) /\ \E f \in FileNames \ {Top.file} : DoInclude(f, 0) /\ Count /\ H("include", 0, f)
GLineDir == "line" \in Feat /\ CanRead(1) /\ \E n \in LineNums, nm \in LineNames \cup {NoName} :
              (AvoidCollide /\ nm # NoName => NoCollide(nm)) /\ DoLineDir(n, nm) /\ Count /\ H("line", n, nm)
GIf      == "if" \in Feat /\ CanRead(1) /\ Len(Top.ifs) <= MaxIf /\ \E on \in BOOLEAN :
              DoIf(on, 0) /\ Count /\ H("if", IF on THEN 1 ELSE 0, "")
GElse    == "if" \in Feat /\ CanRead(1) /\ IfTop(Top) # "NoIf" /\ DoElse(0) /\ Count /\ H("else", 0, "")
GEndif   == "if" \in Feat /\ CanRead(1) /\ IfTop(Top) # "NoIf" /\ DoEndif(0) /\ Count /\ H("endif", 0, "")
GEOF     == (AvoidEofIf => EofClean) /\ Len(Top.ifs) = 1 /\ DoEOF(0) /\ Count /\ H("eof", 0, "")

GNext == GLines \/ GInclude \/ GLineDir \/ GIf \/ GElse \/ GEndif \/ GEOF

\* remembered lines with the same line number, by physical (serial) line
Clashes == {<< wits[i].g, wits[j].g >> : << i, j >> \in
              {p \in (1..Len(wits)) \X (1..Len(wits)) : p[1] < p[2] /\ wits[p[1]].rl = wits[p[2]].rl}}

Export ==
  (done /\ Clashes # {}) =>
     PrintT("CASE " \o ToJson([hist |-> hist, lines |-> [i \in 1..Len(wits) |-> wits[i].g],
                               clash |-> Clashes, nfiles |-> Cardinality(included)]))

\* the prelude the binding renders leads to GInit (checked once, in the initial state)
PreludeOk ==
  (items = 0 /\ Pre > 0) =>
     LET T1 == NewTimes(TblInit, TopFile, 1, 1, 1) IN
     T = SposNew(T1, TopFile, 2, 2, 1, Policy)[1]
=============================================================================
