SPECIFICATION Spec
CONSTANTS W = 8
          FullB = TRUE
INVARIANT AllOk
CHECK_DEADLOCK FALSE
