SPECIFICATION Spec
CONSTANTS W = 8
          FullA = TRUE
          FullB = TRUE
INVARIANT AllOk
CHECK_DEADLOCK FALSE
