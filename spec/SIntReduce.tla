----------------------------- MODULE SIntReduce -----------------------------
(***************************************************************************)
(* The one re-expression property C05 permits: foam.c:foamSIntReduce.       *)
(*                                                                         *)
(* The flat FOAM buffer of an object file stores a machine integer in       *)
(* SINT_BYTES = 4 bytes.  A constant that is not a 32-bit value             *)
(* (longIsInt32: n < -2^31 or n >= 2^31) is therefore replaced, when the    *)
(* unit is written (foamToBuffer) or compared (foamEqualModBuffer), by an   *)
(* expression over unsigned 31-bit pieces:                                  *)
(*     negative = c < 0;  number = negative ? -c : c                        *)
(*     parts[i] = number & 0x7fffffff, number >>= 31     (i = 0..hunks-1)   *)
(*     e = SInt(parts[top]);  for i = top-1 .. 0:                           *)
(*         e = BCall(SIntOr, BCall(SIntShiftUp, e, SInt 31), SInt parts[i]) *)
(*     if negative: e = BCall(SIntNegate, e)                                *)
(* This module transcribes that text with the word width W and the piece    *)
(* width P as constants (W = 64, P = 31 in the compiler; W = 8, P = 3 for   *)
(* the exhaustive check) on top of Word.tla / BigZ.tla, gives the meaning   *)
(* of the produced expression in W-bit two's-complement arithmetic (Eval:   *)
(* SIntShiftUp, SIntOr, SIntNegate as the builtin table defines them), and  *)
(* states the theorem                                                      *)
(*        \A c \in SInt(W) : Eval(Reduce(c)) = c.                           *)
(* Note -c and >> are done on a *signed* long in the C text: for c = -2^(W-1)*)
(* the negation wraps to c itself and the shifts are arithmetic, the top    *)
(* piece becomes 2^P - 2 and the value is recovered only because ShiftUp    *)
(* discards the bits that leave the word.  The transcription keeps this.    *)
(*                                                                         *)
(* Expression trees:  [o |-> "lit", v |-> z] | [o |-> "shl", a, k] |        *)
(*                    [o |-> "or", a, b] | [o |-> "neg", a]                 *)
(***************************************************************************)
EXTENDS Word, TLC

CONSTANTS W,    \* bits of a machine integer
          P     \* bits of one piece (the stored word has P + 1 bits)

Lit(z)     == [o |-> "lit", v |-> z]
ShlE(a, k) == [o |-> "shl", a |-> a, k |-> k]
OrE(a, b)  == [o |-> "or", a |-> a, b |-> b]
NegE(a)    == [o |-> "neg", a |-> a]

(* longIsInt32 generalised: the value fits the stored word of P + 1 bits     *)
FitsStored(c) == Le(Neg(Pow2Z(P)), c) /\ Lt(c, Pow2Z(P))

Hunks == (W \div P) + (IF W % P # 0 THEN 1 ELSE 0)
Mask  == Sub(Pow2Z(P), One)

(* parts[1] is the least significant piece                                    *)
Parts(c) ==
  LET number == IF c.neg THEN WNegate(c, W) ELSE c        \* wraps for the most negative value
  IN FoldLeft(LAMBDA acc, i : <<WShr(acc[1], P), Append(acc[2], WAnd(acc[1], Mask, W))>>,
              <<number, <<>> >>, Ix(1, Hunks))[2]

RECURSIVE TopIndex(_, _)
TopIndex(ps, i) == IF i = 0 THEN 0 ELSE IF ~IsZero(ps[i]) THEN i ELSE TopIndex(ps, i - 1)

Reduce(c) ==
  IF FitsStored(c) THEN Lit(c)
  ELSE LET ps  == Parts(c)
           top == TopIndex(ps, Len(ps))               \* > 0: c # 0 here
           e   == FoldLeft(LAMBDA acc, j : OrE(ShlE(acc, P), Lit(ps[top - j])), Lit(ps[top]), Ix(1, top - 1))
       IN IF c.neg THEN NegE(e) ELSE e

(* meaning of an expression tree in W-bit arithmetic (builtins SIntShiftUp, SIntOr, SIntNegate) *)
RECURSIVE Eval(_)
Eval(t) == CASE t.o = "lit" -> t.v
             [] t.o = "shl" -> WShl(Eval(t.a), t.k, W)
             [] t.o = "or"  -> WOr(Eval(t.a), Eval(t.b), W)
             [] t.o = "neg" -> WNegate(Eval(t.a), W)

(* every literal that remains in the expression fits the stored word, is non-negative when the *)
(* constant was wide, and every shift count is P                                              *)
RECURSIVE Storable(_)
Storable(t) == CASE t.o = "lit" -> FitsStored(t.v)
                 [] t.o = "shl" -> Storable(t.a) /\ t.k = P
                 [] t.o = "or"  -> Storable(t.a) /\ Storable(t.b)
                 [] t.o = "neg" -> Storable(t.a)

Correct(c)  == Eq(Eval(Reduce(c)), c)
Portable(c) == Storable(Reduce(c))

---------------------------------------------------------------------------
(* the checked statement: one state per constant of the domain                *)
CONSTANT Domain          \* "all" (every W-bit value, small W) or "boundary"

P2(k) == Pow2Z(k)
Around(z) == {Sub(z, One), z, Add(z, One)}
BoundarySet ==
  LET pos == UNION {Around(P2(k)) : k \in {0, 1, P - 1, P, P + 1, 2 * P - 1, 2 * P, 2 * P + 1, W - 2}}
             \cup {SMax(W), Sub(SMax(W), One), Zero, P2(W - 1 - P), Sub(P2(2 * P), P2(P)), Add(P2(2 * P), Mask),
                   Add(Shl(Mask, P), Mask), Add(Shl(Mask, 2 * P - 2), One)}
      ok  == {z \in pos : InS(z, W)}
  IN ok \cup {Neg(z) : z \in ok} \cup {SMin(W), Add(SMin(W), One)}
AllSet == {FromInt(n) : n \in (0 - Pow2[W - 1])..(Pow2[W - 1] - 1)}

VARIABLE c
Init == c \in (IF Domain = "all" THEN AllSet ELSE BoundarySet)
Next == UNCHANGED c
Spec == Init /\ [][Next]_c

Theorem  == Correct(c)
Storage  == Portable(c)
InDomain == InS(c, W)
=============================================================================
