SPECIFICATION Spec
CONSTANTS
  EB = 11
  FB = 52
  XEB = 15
  XFB = 64
  FracMode = "mini"
  Origins = {"native"}
  MaxTrips = 1
INVARIANTS
  TypeOK
  Survives
  SurvivesBitExact
  PartsIdentity
  FileForm
CHECK_DEADLOCK FALSE
