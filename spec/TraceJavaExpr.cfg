SPECIFICATION Spec
INVARIANT Progress
CHECK_DEADLOCK FALSE
