\* the property-level layer real traces are validated against (phases may be skipped, multi-part outputs, link/interp), 1-2 files, safety only: re-opening a complete kind (split C, several java classes) is a cycle, so Total is checked in DriverLayer.cfg with MultiPart = FALSE
SPECIFICATION Spec
CONSTANTS
  MaxFiles = 1
  MaxFaults = 2
  MaxErrs = 1
  Strict = FALSE
  MultiPart = TRUE
  PostUsed = {"link", "interp"}
  ChecksIo = TRUE
  MaxKinds = 2
  CleanupKept = TRUE
  PhasesUsed = {"putao", "putc"}
  KindsUsed = {"ao", "c"}
INVARIANTS TypeOK HonestExit CompleteOnSuccess NoOutputAfterError FailureSurfaces NothingOpenAtSuccess PendingIsReported
CHECK_DEADLOCK TRUE
