\* C07 call shapes: every base application of a signature with <= 4 parameters and every one-defect variant (strided by checks/c07.py)
SPECIFICATION Spec
CONSTANTS
  MaxParams = 4
  Pats = {1, 2}
  Ovs = {"none", "arity", "types", "ret"}
  Stride = 1
  Seed = 0
  Export = TRUE
INVARIANTS Exported BaseValid AlwaysBad DropLaw Trailing
CHECK_DEADLOCK FALSE
