------------------------------ MODULE MapSat ------------------------------
(***************************************************************************)
(* Function values whose parameters are domains (C06, tfsat.c:tfSatMap0).  *)
(*                                                                         *)
(* Categories K1 < K2 < .. < KN form a chain: K(i+1) extends Ki by one     *)
(* more operation (a1 .. ai are the operations of Ki).  A domain is what   *)
(* it exports: Dj exports a1 .. aj.  A function                            *)
(*     fn(T1: Ka1, .., Tn: Kan): R == a_a1()$T1 + .. + a_an()$Tn           *)
(* uses, of every parameter, the last operation its category promises.     *)
(* It is passed to                                                         *)
(*     use(f: (R1: Kf1, .., Rm: Kfm) -> S): S == f(D, .., D)               *)
(* which may apply f to ANY domains satisfying Kf1 .. Kfm.                 *)
(*                                                                         *)
(* The typing rule is derived here from what it protects, not written as   *)
(* "contravariant": the call use(fn) is well typed iff the arities and the *)
(* result types agree and every application use may make is one fn can     *)
(* serve, i.e. for every choice of domains satisfying the formal           *)
(* categories the operations fn calls exist.  ContraVariant (the rule      *)
(* tfSatMap0 implements: each formal parameter type satisfies the actual   *)
(* one) is checked by TLC to be the same predicate.                        *)
(***************************************************************************)
EXTENDS Naturals, Sequences, FiniteSets, TLC, Json

CONSTANTS NCat,        \* length of the category chain
          MaxAr,       \* largest number of parameters
          Rets         \* result types

Cats     == 1..NCat
Domains  == 1..NCat                       \* Dj exports a1..aj
Exports(d) == 1..d
Satisfies(d, k) == (1..k) \subseteq Exports(d)       \* d has every operation Kk lists

Tuples(n) == [1..n -> Cats]
Sigs == UNION {[ps : {t}, ret : Rets] : t \in UNION {Tuples(n) : n \in 0..MaxAr}}

\* the operations fn's body calls on the domains it is given: a_{actual[i]} of the i-th argument
BodyOk(actual, ds) == \A i \in 1..Len(actual) : actual[i] \in Exports(ds[i])

WellTyped(formal, actual) ==
  /\ Len(formal.ps) = Len(actual.ps)
  /\ formal.ret = actual.ret
  /\ \A ds \in [1..Len(formal.ps) -> Domains] :
        (\A i \in 1..Len(formal.ps) : Satisfies(ds[i], formal.ps[i])) => BodyOk(actual.ps, ds)

ContraVariant(formal, actual) ==
  /\ Len(formal.ps) = Len(actual.ps)
  /\ formal.ret = actual.ret
  /\ \A i \in 1..Len(formal.ps) : actual.ps[i] <= formal.ps[i]      \* K_formal satisfies K_actual

VARIABLES formal, actual
vars == <<formal, actual>>
Init == formal \in Sigs /\ actual \in Sigs
Export == PrintT("CASE " \o ToJson([formal |-> formal, actual |-> actual, ok |-> WellTyped(formal, actual)])) /\ UNCHANGED vars
Spec == Init /\ [][Export]_vars

RuleIsContravariance == WellTyped(formal, actual) <=> ContraVariant(formal, actual)
\* the space is not vacuous: both verdicts occur with equal and with different parameter categories
=============================================================================
