SPECIFICATION ExportSpec
CONSTANTS
  Modes = {"ltr", "rtl"}
  Fuel = 4000
  WrapSI <- WrapSI32
INVARIANT NoStuck
CHECK_DEADLOCK FALSE
