SPECIFICATION Spec
CONSTANTS
  EB = 4
  FB = 5
  XEB = 6
  XFB = 6
  FracMode = "all"
  Origins = {"native", "foreign"}
  MaxTrips = 2
INVARIANTS
  TypeOK
  Survives
  SurvivesBitExact
  PartsIdentity
  PartsMeaning
  FileForm
  FileDenotes
  LoadSane
CHECK_DEADLOCK FALSE
