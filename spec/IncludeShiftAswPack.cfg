\* C15 two-run form, packer as written: EXPECTED violation (an overflowing column lands on a line that does not move with the insertion)
CONSTANTS
  CNO = 2
  LNO = 3
  Packer = "aswritten"
  Policy = "required"
  EofPolicy = "required"
  FileNames = {"a", "b"}
  TopFile = "a"
  LineNames = {"a", "b"}
  LineNums = {1, 4}
  Cols = {1, 3, 4, 9}
  RunLens = {1, 4}
  MaxLines = 12
  MaxIf = 1
  MaxItems = 4
  Feat = {"line", "if", "misc"}
  AvoidEofIf = FALSE
  AvoidCollide = FALSE
  InsLens = {1, 3}
INIT Init
NEXT Next
CHECK_DEADLOCK FALSE
INVARIANT ShiftFaithful
