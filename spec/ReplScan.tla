------------------------------ MODULE ReplScan ------------------------------
(***************************************************************************)
(* scanIsContinued (scan.c), the function the interactive loop asks after  *)
(* every input line whether the step goes on, transcribed operator by      *)
(* operator (property C13).  It is a small machine over static variables:  *)
(*                                                                         *)
(*   braces      unmatched ( and { seen so far (never negative between     *)
(*               lines: a surplus closer resets it)                        *)
(*   defining    the first line ended in `==': every following line that   *)
(*               starts with white space belongs to the definition         *)
(*   instr, esc  inside a string literal / after the escape character      *)
(*   (topLine is initialised to true and never cleared in scan.c, so it    *)
(*   does not appear.)                                                     *)
(*                                                                         *)
(* Lines are sequences of character codes ending in the newline.  This     *)
(* module is implementation-shaped: ReplLines.tla compares it with the     *)
(* real function (drift), ReplReader.tla uses it only to predict where the *)
(* loop departs from the required grouping (to keep such forms in sessions *)
(* of their own); no verdict is taken from it.                             *)
(***************************************************************************)
EXTENDS Naturals, Integers, Sequences, SequencesExt

NL == 10  SP == 32  TAB == 9  HASH == 35  USCORE == 95  DQ == 34
LPAR == 40  RPAR == 41  LBRACE == 123  RBRACE == 125  SEMI == 59  EQ == 61

Sc0 == [braces |-> 0, defining |-> FALSE, instr |-> FALSE, esc |-> FALSE]

(* one character of the line; acc = [braces, instr, esc, semi, deq], nxt = the following character (0 at the end) *)
Char(acc, c, nxt) ==
  IF acc.esc THEN [acc EXCEPT !.esc = FALSE]
  ELSE IF acc.instr
       THEN IF c = USCORE THEN [acc EXCEPT !.esc = TRUE]
            ELSE IF c = DQ THEN [acc EXCEPT !.instr = FALSE]
            ELSE acc
  ELSE CASE c = USCORE -> [acc EXCEPT !.esc = TRUE]
         [] c = DQ     -> [acc EXCEPT !.instr = TRUE, !.deq = FALSE]
         [] c \in {LPAR, LBRACE} -> [acc EXCEPT !.braces = @ + 1]
         [] c \in {RPAR, RBRACE} -> [acc EXCEPT !.braces = @ - 1]
         [] c = SEMI   -> [acc EXCEPT !.semi = TRUE]
         [] c = EQ     -> IF nxt = EQ THEN [acc EXCEPT !.deq = TRUE] ELSE acc
         [] c \in {SP, NL} -> acc
         [] OTHER      -> [acc EXCEPT !.deq = FALSE]

(* scanIsContinued(line): [cont |-> result, s |-> state afterwards] *)
IsContinued(s, line) ==
  IF line[1] = HASH /\ s.braces = 0 THEN [cont |-> FALSE, s |-> s]
  ELSE IF line[1] = NL THEN [cont |-> TRUE, s |-> s]
  ELSE
    LET def0 == IF line[1] \notin {SP, NL, TAB} THEN FALSE ELSE s.defining
        n    == Len(line)
        a0   == [braces |-> s.braces, instr |-> s.instr, esc |-> s.esc, semi |-> FALSE, deq |-> FALSE]
        a    == FoldLeft(LAMBDA acc, i : Char(acc, line[i], IF i < n THEN line[i + 1] ELSE 0), a0, [i \in 1..n |-> i])
    IN IF a.braces < 0
       THEN [cont |-> FALSE, s |-> [braces |-> 0, defining |-> def0, instr |-> a.instr, esc |-> a.esc]]
       ELSE LET def1 == def0 \/ a.deq
                s1   == [braces |-> a.braces, defining |-> def1, instr |-> a.instr, esc |-> a.esc]
            IN IF def1 THEN [cont |-> TRUE, s |-> s1]
               ELSE IF a.braces > 0 \/ a.instr THEN [cont |-> TRUE, s |-> s1]
               ELSE [cont |-> FALSE, s |-> s1]

=============================================================================
