SPECIFICATION SpecX
CONSTANTS
  MaxDefs = 5
  MaxBody = 4
  MaxGlo = 1
  MaxN = 27
INVARIANTS LoopAgreesWithMacro SitesAgreeInv Partition HeaderIsTheHeaderFile FileNamesDistinct DeclarationsVisible CrossFileVisible StaticStaysHome InitChain FileCount
CHECK_DEADLOCK FALSE
