CONSTANTS LGR = 2  LGI = 4  DA = 4  DB = 3  SIGNS = "all"  MUT = ""
INIT Init
NEXT Next
INVARIANT Check
CHECK_DEADLOCK FALSE
