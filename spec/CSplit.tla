------------------------------- MODULE CSplit -------------------------------
(***************************************************************************)
(* genc.c:gc0ExternDecls + emit.c:emitTheC as a machine: how a unit is cut  *)
(* into C files under -Csmax=<N>.  One action per brother part the loop     *)
(* peels off, one for the rest (part of constant 0, header placement), one  *)
(* for emit.c.  Every site's answer to "is the unit split?" is recorded at  *)
(* the moment the code asks; the invariants are the requirements of         *)
(* CSplitFn!SitesAgree and what gcc / the linker need of the files.         *)
(* TLC enumerates every unit shape up to MaxDefs programs of 1..MaxBody     *)
(* statements (+ constant 0, + MaxGlo other definitions) and every limit    *)
(* 0..MaxN: every S = N, N+-1, k*N, k*N+-1, N = 1 and every "the            *)
(* definitions run out before the estimate does" (brother parts that hold   *)
(* only their initialisation function) occurs.                              *)
(* Assumption (checked on generated FOAM by the harness as drift): the      *)
(* estimate gcvNStmts is not revised while the unit is generated            *)
(* (gc0SeqStmt adds to it for a Seq directly inside a Seq).                 *)
(***************************************************************************)
EXTENDS CSplitFn, TLC, Json

CONSTANTS MaxDefs, MaxBody, MaxGlo, MaxN

Bodies == UNION {[1..m -> 1..MaxBody] : m \in 0..MaxDefs}
SumSeq(s) == LET F[i \in 0..Len(s)] == IF i = 0 THEN 0 ELSE F[i - 1] + s[i] IN F[Len(s)]

VARIABLES b0,        \* statements of constant 0 (the unit's initialisation program)
          bs,        \* statements of the other programs, in definition order
          g,         \* definitions that are no programs (globals)
          N,         \* -Csmax
          pc, nStmts, n, brothers,
          parts,     \* brother parts so far: [defs |-> set of program indices, init |-> k]
          class,     \* program index -> storage class chosen when it was generated
          qual,      \* program index -> unit-qualified C name?
          code,      \* what gc0ExternDecls returns: sequence of records (kind "H" = the declarations, "C" = a part), in list order
          files      \* what emitTheC writes: sequence of [name, what]
vars == <<b0, bs, g, N, pc, nStmts, n, brothers, parts, class, qual, code, files>>

M == Len(bs)
S == b0 + SumSeq(bs) + g
(* the macro, as every site but the loop evaluates it *)
Over == OverSMax(S, N)

Init == /\ b0 \in 1..MaxBody /\ bs \in Bodies /\ g \in 0..MaxGlo /\ N \in 0..MaxN
        /\ pc = "loop" /\ nStmts = b0 + SumSeq(bs) + g /\ n = 0 /\ brothers = 0 /\ parts = <<>>
        /\ class = <<>> /\ qual = <<>> /\ code = <<>> /\ files = <<>>

(* for (i = n; i < nDefs-1 && stmtCounter < gcvSMax; i++) stmtCounter += argc(body) + 1 *)
Cnt(lo, hi) == LET F[i \in lo..hi] == IF i = lo THEN 0 ELSE F[i - 1] + bs[i] + 1 IN F[hi]
TakeTo(lo) == CHOOSE j \in lo..M : /\ (j = M \/ Cnt(lo, j) >= N)
                                  /\ \A k \in lo..(j - 1) : Cnt(lo, k) < N

Hdr == [kind |-> "H", defs |-> {}, init |-> -1, const0 |-> FALSE, decls |-> TRUE, calls |-> {}]
Ext(lo, hi, f, v) == [i \in 1..hi |-> IF i <= lo THEN f[i] ELSE v]

(* while (nStmts > gcvSMax && gcvSMax > 0) { ...; nBrothers += 1; ...; nStmts -= gcvSMax; } *)
Brother == /\ pc = "loop" /\ nStmts > N /\ N > 0
           /\ LET j == TakeTo(n) IN
              /\ parts' = Append(parts, [defs |-> (n + 1)..j, init |-> brothers + 1])
              /\ class' = Ext(n, j, class, StorageClass(S, N))       \* gccProg: gc0OverSMax()
              /\ qual' = Ext(n, j, qual, QualifiedNames(S, N))       \* gccProgId: gc0OverSMax() && idx
              /\ n' = j
           /\ brothers' = brothers + 1 /\ nStmts' = nStmts - N
           /\ UNCHANGED <<b0, bs, g, N, pc, code, files>>

(* after the loop: the remaining programs, constant 0, the globals; if (!gc0OverSMax()) the declarations head this   *)
(* part, else they become a list element of their own that is put IN FRONT of the list                               *)
Rest == /\ pc = "loop" /\ ~(nStmts > N /\ N > 0)
        /\ class' = Ext(n, M, class, StorageClass(S, N))
        /\ qual' = Ext(n, M, qual, QualifiedNames(S, N))
        /\ LET main == [kind |-> "C", defs |-> (n + 1)..M, init |-> 0, const0 |-> TRUE, decls |-> ~Over, calls |-> 1..brothers]
               bro == [k \in 1..Len(parts) |-> [kind |-> "C", defs |-> parts[k].defs, init |-> parts[k].init, const0 |-> FALSE,
                                                decls |-> FALSE, calls |-> {}]]
           IN code' = (IF Over THEN <<Hdr>> ELSE <<>>) \o bro \o <<main>>
        /\ pc' = "emit" /\ n' = M
        /\ UNCHANGED <<b0, bs, g, N, nStmts, brothers, parts, files>>

(* emitTheC: l > 1: the FIRST element is printed into <unit>.h; element 2 -> <unit>.c, element k > 2 -> <5 chars>(k-2) *)
FileOf(k, l) == IF l = 1 THEN "unit.c" ELSE IF k = 1 THEN "unit.h" ELSE IF k = 2 THEN "unit.c" ELSE "part" \o ToString(k - 2) \o ".c"
Emit == /\ pc = "emit"
        /\ files' = [k \in 1..Len(code) |-> [name |-> FileOf(k, Len(code)), what |-> code[k], includesHeader |-> Len(code) > 1 /\ k > 1]]
        /\ pc' = "done"
        /\ UNCHANGED <<b0, bs, g, N, nStmts, n, brothers, parts, class, qual, code>>

Next == Brother \/ Rest \/ Emit
Spec == Init /\ [][Next]_vars

(* ------------------------------- requirements ------------------------------- *)
Done == pc = "done"
CFiles == {k \in 1..Len(files) : files[k].name # "unit.h"}

(* the loop and the macro give one answer *)
LoopAgreesWithMacro == Done => ((brothers > 0) = Over) /\ brothers = Brothers(S, N)
SitesAgreeInv == (Done /\ M > 0) => SitesAgree(brothers > 0, \E i \in 1..M : class[i] = "extern", \E k \in 1..Len(code) : code[k].kind = "H",
                                               \E i \in 1..M : qual[i])
(* every program is generated into exactly one part, in order *)
Partition == Done => /\ \A i \in 1..M : Cardinality({k \in 1..Len(code) : i \in code[k].defs}) = 1
                     /\ \A k \in 1..Len(code) : code[k].defs \subseteq 1..M
(* emit.c writes the header, and only the header, into <unit>.h; every other element becomes a C file of its own name *)
HeaderIsTheHeaderFile == Done => \A k \in 1..Len(files) : (files[k].name = "unit.h") = (files[k].what.kind = "H")
FileNamesDistinct == Done => \A i, k \in 1..Len(files) : i # k => files[i].name # files[k].name
(* every C file sees the declarations: either it includes <unit>.h, which exists, or it carries them itself *)
DeclarationsVisible == Done => \A k \in CFiles : \/ files[k].what.decls
                                                 \/ files[k].includesHeader /\ \E h \in 1..Len(files) : files[h].what.kind = "H" /\ files[h].name = "unit.h"
(* a program generated into a file other than the one of constant 0 (which makes its closure) is extern and qualified *)
CrossFileVisible == Done => \A k \in CFiles : (files[k].what.kind = "C" /\ ~files[k].what.const0) => \A i \in files[k].what.defs : class[i] = "extern" /\ qual[i]
(* a static program is never promised by the header of another file *)
StaticStaysHome == Done => \A i \in 1..M : class[i] = "static" => Len(files) = 1
(* the initialisation chain: the part of constant 0 calls INIT__k for each brother, each defined once *)
InitChain == Done => LET main == CHOOSE k \in CFiles : files[k].what.const0 IN
                     /\ Cardinality({k \in CFiles : files[k].what.const0}) = 1
                     /\ files[main].what.calls = {files[k].what.init : k \in CFiles \ {main}}
                     /\ \A i, k \in CFiles : i # k => files[i].what.init # files[k].what.init
FileCount == Done => Cardinality(CFiles) = NParts(S, N) /\ (Len(files) > Cardinality(CFiles)) = HasHeader(S, N)
(* brother parts that hold no program at all do occur (reachability witness for the evidence, not a requirement) *)
EmptyBrotherSeen == ~(Done /\ \E k \in CFiles : ~files[k].what.const0 /\ files[k].what.defs = {})

(* one row per (S, N) for the evidence: the unit of all-one bodies *)
Canonical == b0 = 1 /\ g = 0 /\ \A i \in 1..M : bs[i] = 1
Export == /\ pc = "done" /\ Canonical
          /\ PrintT("SPLITROW " \o ToJson([S |-> S, N |-> N, split |-> Over, cfiles |-> Cardinality(CFiles), header |-> HasHeader(S, N)]))
          /\ UNCHANGED vars
SpecX == Init /\ [][Next \/ Export]_vars
=============================================================================
