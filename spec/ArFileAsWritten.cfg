SPECIFICATION Spec
CONSTANTS
  READER = "AsWritten"
  SUM = FALSE
  PRINT = TRUE
INVARIANTS TypeOK SameIsSame IntactAccepted
CHECK_DEADLOCK FALSE
