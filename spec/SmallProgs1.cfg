SPECIFICATION Spec
CONSTANT Level = 1
CHECK_DEADLOCK FALSE
