SPECIFICATION GenSpec
CONSTANTS
  A = 4
  Depth = 1
  Mode = "Q"
INVARIANTS Export
CHECK_DEADLOCK FALSE
