SPECIFICATION Spec
CONSTANTS W = 13
          FullB = FALSE
INVARIANT AllOk
CHECK_DEADLOCK FALSE
