SPECIFICATION Spec
CONSTANTS W = 13
          FullA = FALSE
          FullB = FALSE
INVARIANT AllOk
CHECK_DEADLOCK FALSE
