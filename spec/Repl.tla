-------------------------------- MODULE Repl --------------------------------
(***************************************************************************)
(* The interactive loop (aldor -Gloop) as a machine over the language      *)
(* definition AldorSem (DESIGN.md 3.12, property C13).                     *)
(*                                                                         *)
(* A *session* is AldorSem's file-level machine stepped one top-level form *)
(* at a time: `st` between two forms is the session state (global          *)
(* environment g, store s, output o).  A *history* is the sequence of      *)
(* forms entered.  It consists of                                          *)
(*   - the forms of the program P, in file order          (kind "ok"),     *)
(*   - program forms entered too early, while a name they read is not yet  *)
(*     defined in the session                              (kind "pre"),    *)
(*   - forms of the ill-typed catalogue P.cat             (kind "bad").    *)
(* Enter(form): if the form is well typed in the session it is evaluated   *)
(* with AldorSem steps and extends the session; otherwise it is Rejected:  *)
(* one diagnostic, session unchanged.                                      *)
(*                                                                         *)
(* The same behaviour first runs the machine on the whole file (*batch*),  *)
(* keeps the result, and starts afresh for the session, so that            *)
(*   ReplEqBatch: for every history (every interleaving of the program's   *)
(*   forms with at most P.maxbad erroneous forms at any positions) the     *)
(*   session's output and final status equal the batch output and status   *)
(* is an invariant that TLC checks on every behaviour, together with the   *)
(* stepwise forms SessionPrefix / FormOutputsAlign.  Each finished history *)
(* is exported ("HIST ...") and replayed into the real loop.               *)
(*                                                                         *)
(* Programs come from the ndjson file PROGS (gen/replhist.py): an AldorSem *)
(* program plus forms : <<[k, i, defs, uses, must]>>  cat : <<[c, sh]>>  maxbad. *)
(***************************************************************************)
EXTENDS AldorSem, Sequences

VARIABLES bres,     \* result of the batch run: [o, status, n] (<<>>-valued fields while it is still running)
          phase,    \* "batch" -> "session" -> "end"
          hist,     \* the history so far: <<[k |-> "ok"|"pre"|"bad", j |-> form number / catalogue index, o0 |-> Len(st.o) at entry]>>
          bseg,     \* batch: the machine when top-level form number i of P.top started: [o |-> Len(st.o), s |-> store, g |-> globals]
          ndiag     \* diagnostics printed so far

rvars == <<pid, mode, st, bres, phase, hist, bseg, ndiag>>

St0 == [c |-> Val(VUnit), e |-> <<>>, k |-> <<[f |-> "top", i |-> 1]>>, s |-> <<>>, g |-> <<>>,
        o |-> <<>>, status |-> "run", n |-> 0]

Forms == P.forms
NForms == Len(Forms)
SeqSet(s) == {s[i] : i \in DOMAIN s}

---------------------------------------------------------------------------
(* what the session knows                                                  *)
OkIdx     == {n \in DOMAIN hist : hist[n].k = "ok"}
Entered   == {hist[n].j : n \in OkIdx}                       \* program forms accepted so far
NOk       == Cardinality(OkIdx)
NBad      == Len(hist) - NOk
Defined   == UNION {SeqSet(Forms[j].defs) : j \in Entered}   \* names the session has a meaning for
WellTypedIn(j) == SeqSet(Forms[j].uses) \subseteq Defined    \* every name the form reads has a meaning
(* a name whose absence surely makes the form ill typed (gen/replhist.py: read outside a    *)
(* macro argument and not assigned by the form itself) has no meaning                         *)
IllTypedIn(j) == SeqSet(Forms[j].must) \ Defined # {}

(* the session machine is between two forms: a value has been returned to the file level *)
Between == st.status = "run" /\ st.c.k = "val" /\ Len(st.k) = 1 /\ st.k[1].f = "top"

Item(k, j) == [k |-> k, j |-> j, o0 |-> Len(st.o)]

---------------------------------------------------------------------------
(* batch: the whole file through AldorSem.  The machine `st` first runs the  *)
(* file from beginning to end; its result is kept in bres and the machine is *)
(* started afresh for the session.                                           *)
BatchStep ==
  /\ phase = "batch" /\ st.status = "run"
  /\ Step
  /\ bseg' = IF IsVal /\ HasF /\ F.f = "top" THEN Append(bseg, [o |-> Len(st.o), s |-> st.s, g |-> st.g]) ELSE bseg
  /\ UNCHANGED <<pid, mode, bres, phase, hist, ndiag>>
BatchDone ==
  /\ phase = "batch" /\ st.status # "run"
  /\ bres' = [o |-> st.o, status |-> st.status, n |-> st.n]
  /\ st' = St0
  /\ phase' = "session"
  /\ UNCHANGED <<pid, mode, hist, bseg, ndiag>>

---------------------------------------------------------------------------
(* session                                                                   *)
(* the next form of the program, in order: accepted *)
EnterOk ==
  /\ phase = "session" /\ Between /\ NOk < NForms
  /\ LET j == NOk + 1 fm == Forms[j] IN
     /\ WellTypedIn(j)
     /\ hist' = Append(hist, Item("ok", j))
     /\ IF fm.k = "f"
        THEN st' = st                       \* a function definition: the session gains the name (Defined), nothing runs
        ELSE fm.i = st.k[1].i /\ RetTop     \* AldorSem's file-level step: start evaluating P.top[fm.i]
  /\ UNCHANGED <<pid, mode, bres, phase, bseg, ndiag>>

(* a later form of the program entered while a name it reads has no meaning yet: rejected *)
EnterPre(j) ==
  /\ phase = "session" /\ Between /\ NBad < P.maxbad
  /\ j \in (NOk + 2)..NForms /\ IllTypedIn(j)
  /\ hist' = Append(hist, Item("pre", j))
  /\ ndiag' = ndiag + 1
  /\ UNCHANGED <<pid, mode, st, bres, phase, bseg>>

(* a form of the ill-typed catalogue: rejected in every session.  An entry with sh > 0 is an  *)
(* ill-typed definition of the very name that program form sh defines.  For a function that   *)
(* the session already has, the loop answers such a form with a dialogue ("Redefine? (y/n)"),  *)
(* not with a rejection: that entry is offered only while the function is not yet defined.     *)
Offered(c) == P.cat[c].sh = 0 \/ P.cat[c].c # "rettype" \/ P.cat[c].sh \notin Entered
EnterBad(c) ==
  /\ phase = "session" /\ Between /\ NBad < P.maxbad
  /\ c \in DOMAIN P.cat /\ Offered(c)
  /\ hist' = Append(hist, Item("bad", c))
  /\ ndiag' = ndiag + 1
  /\ UNCHANGED <<pid, mode, st, bres, phase, bseg>>

(* end of input: AldorSem's file-level step past the last form *)
EndOfInput ==
  /\ phase = "session" /\ Between /\ NOk = NForms
  /\ RetTop
  /\ UNCHANGED <<pid, mode, bres, phase, hist, bseg, ndiag>>

(* evaluation of the accepted form *)
Eval ==
  /\ phase = "session" /\ st.status = "run" /\ ~Between
  /\ Step
  /\ UNCHANGED <<pid, mode, bres, phase, hist, bseg, ndiag>>

Record == [id |-> P.id, mode |-> mode, hist |-> hist, out |-> st.o, status |-> st.status,
           bout |-> bres.o, bstatus |-> bres.status, ndiag |-> ndiag, steps |-> st.n]
Finish ==
  /\ phase = "session" /\ st.status # "run"
  /\ PrintT("HIST " \o ToJson(Record))
  /\ phase' = "end"
  /\ UNCHANGED <<pid, mode, st, bres, hist, bseg, ndiag>>

RInit ==
  /\ pid \in 1..Len(Progs)
  /\ mode \in Modes
  /\ st = St0
  /\ bres = [o |-> <<>>, status |-> "run", n |-> 0]
  /\ phase = "batch" /\ hist = <<>> /\ bseg = <<>> /\ ndiag = 0

RNext == \/ BatchStep \/ BatchDone \/ EnterOk \/ EndOfInput \/ Eval \/ Finish
         \/ \E j \in 1..NForms : EnterPre(j)
         \/ \E c \in DOMAIN P.cat : EnterBad(c)

RSpec == RInit /\ [][RNext]_rvars

---------------------------------------------------------------------------
(* properties                                                                *)

(* C13, final form: same text in the same order, same end *)
ReplEqBatch == phase = "end" => (st.o = bres.o /\ st.status = bres.status)

(* C13, stepwise: what the session has printed is always a prefix of what the file prints *)
PrefixOf(a, b) == Len(a) <= Len(b) /\ SubSeq(b, 1, Len(a)) = a
SessionPrefix == phase # "batch" => PrefixOf(st.o, bres.o)

(* every accepted top-level form starts with the same amount of output behind it as in the batch run *)
FormOutputsAlign ==
  phase # "batch" =>
    \A n \in OkIdx : Forms[hist[n].j].k = "t" =>
        (Forms[hist[n].j].i <= Len(bseg) /\ bseg[Forms[hist[n].j].i].o = hist[n].o0)

(* between two forms the session (store, global environment, amount of output) is exactly the *)
(* state the batch run had at the same place of the file: the incremental state of the loop     *)
(* is the state of the whole-file run                                                           *)
SessionStateEqBatch ==
  (phase = "session" /\ Between) =>
    LET i == st.k[1].i IN i <= Len(bseg) /\ bseg[i].s = st.s /\ bseg[i].g = st.g /\ bseg[i].o = Len(st.o)

(* a rejected form leaves the session as it was and prints exactly one diagnostic *)
RejectKeepsSession ==
  [][(hist' # hist /\ hist'[Len(hist')].k # "ok") => (st' = st /\ ndiag' = ndiag + 1)]_rvars
(* an accepted form prints no diagnostic *)
AcceptIsSilent == [][(hist' # hist /\ hist'[Len(hist')].k = "ok") => ndiag' = ndiag]_rvars
DiagCount == ndiag = NBad

(* the program is well ordered: in file order every form is well typed when it is entered (so   *)
(* EnterOk never blocks) and no function is called before its definition was entered            *)
WellOrdered == (phase = "session" /\ Between /\ NOk < NForms) => WellTypedIn(NOk + 1)
FunForm(fi) == CHOOSE j \in 1..NForms : Forms[j].k = "f" /\ Forms[j].i = fi
CallsDefined == (phase = "session" /\ IsEv /\ X.e = "call") => FunForm(X.fi) \in Entered

(* type soundness of the definition on both machines *)
RNoStuck == st.status # "stuck"

(* the history stays within its bounds *)
Bounded == NBad <= P.maxbad /\ NOk <= NForms
=============================================================================
