CONSTANTS LGR = 3  LGI = 5  DA = 4  DB = 2  SIGNS = "nonneg"  MUT = ""
INIT Init
NEXT Next
INVARIANT Check
CHECK_DEADLOCK FALSE
