SPECIFICATION MCSpec
CONSTANTS
  Levels = {9}
  Routes = {"interp", "java"}
  Progs = {"p1", "p2"}
  Digests = {7, 8}
  Builds = {"ok", "compile", "javac", "timeout"}
INVARIANTS TypeOK Sound NoFalseAlarm Statement RoutesAgree
PROPERTIES WantStable ObsStable
CHECK_DEADLOCK FALSE
