SPECIFICATION GenSpec
CONSTANTS
  Kind = "B"
  MaxLen = 8
  Keys = {1, 2, 3}
  NBits = 3
  Regs = 2
  BPrefix = 0
  DelKeys = {1, 2, 3}
  IntVals = {}
INVARIANTS TypeOK MinimaInOrder CopyIsSnapshot Export
CHECK_DEADLOCK FALSE
