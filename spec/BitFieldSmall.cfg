SPECIFICATION Spec
CONSTANTS
  CB = 3
  NBs = {1, 2, 3}
  Mode = "all"
INVARIANTS UpOk DnOk FirstOk
CHECK_DEADLOCK FALSE
