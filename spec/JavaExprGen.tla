----------------------------- MODULE JavaExprGen -----------------------------
(***************************************************************************)
(* Replay generator of C12's builtin-expression family (JavaExpr.tla).     *)
(*                                                                         *)
(*  flat   every builtin the Java back end supports, applied to operand    *)
(*         tuples drawn from sign/boundary sets of a 32-bit platform (all  *)
(*         sign combinations of small values, 0, +-1, limits of byte,      *)
(*         short and int, big integers around 2^31, 2^32, 2^63, 2^64):     *)
(*         drives the run time of the Java route (foamj/Math.java and the  *)
(*         operator / method each builtin is mapped to by genjava.c).      *)
(*  nest   for every builtin P that is printed as a Java operator          *)
(*         expression, every operand slot i of P and every operator        *)
(*         builtin C whose result has the slot's type: the tree            *)
(*         P(.., C(..), ..), bare and as an operand of a further operator, *)
(*         on operands for which the Java text without the required        *)
(*         parentheses would have another value (or be ill-typed).         *)
(* Only members of the family are exported (JavaExpr!Member).  One line    *)
(*     CASE {"kind":..,"tree":..,...}                                      *)
(* per case; the harness renders the trees as Aldor text that applies the  *)
(* builtins imported from Builtin to operands read from run-time pools.    *)
(* Stride > 1 thins the large products (every value still occurs on both   *)
(* sides; the sign core is always complete); Offset comes from the seed.   *)
(***************************************************************************)
EXTENDS JavaExpr, Json

CONSTANTS Stride, Stride3, Offset,
          Core,         \* "sign": the complete products range over the sign core only; "full": also over the limits
          PerPair,      \* operand choices exported per nested pair
          NCand,        \* operand candidates examined per nested pair
          Parts         \* subset of {"flat", "nest"}

VARIABLES item, ph

---------------------------------------------------------------------------
(* operand sets of the flat part *)
P2(k) == Pow2Z(k)
Both(S) == S \cup {Neg(z) : z \in S}
SSign == Both({FromInt(4), FromInt(6), FromInt(7)}) \cup {Zero}
SVals == Both({One, FromInt(2), FromInt(3), FromInt(5), FromInt(12), FromInt(18), FromInt(31), FromInt(32), FromInt(255),
               FromInt(256), Sub(P2(15), One), P2(15), Add(P2(15), One), P2(16), Add(P2(16), One), P2(30),
               Sub(P2(31), One)}) \cup SSign \cup {Neg(P2(31))}
SCore == SSign \cup {One, Neg(One), Sub(P2(31), One), Neg(P2(31))}
BVals == Both({One, FromInt(2), FromInt(3), FromInt(10), Sub(P2(31), One), P2(31), Add(P2(31), One), Add(P2(32), One),
               P2(62), Sub(P2(63), One), P2(63), Add(P2(63), One), P2(64), Add(P2(64), One), P2(100),
               Z(FALSE, MFromDigits(<<1,0,0,0,0,0,0,0,0,0,0,0,0,0,0,0,0,0,0,0,0>>, 10))}) \cup SSign
BCore == SSign \cup {One, Neg(One), Neg(P2(31)), Add(P2(64), One), Neg(P2(63))}
HVals == {Zero, One, Neg(One), FromInt(2), FromInt(-7), FromInt(100), FromInt(255), FromInt(256),
          Sub(P2(15), One), Neg(P2(15))}
YVals == {Zero, One, FromInt(2), FromInt(100), FromInt(127), FromInt(128), FromInt(255)}
WVals == {Zero, One, FromInt(2), FromInt(3), FromInt(10), P2(15), Sub(P2(16), One), Add(P2(16), One), P2(30)}
CVals == {0, 9, 10, 32, 47, 48, 57, 58, 64, 65, 90, 91, 96, 97, 122, 123, 127}
SKs   == {FromInt(k) : k \in {0, 1, 2, 5, 15, 16, 30, 31}}
BKs   == {FromInt(k) : k \in {0, 1, 2, 31, 32, 33, 63, 64, 65, 100}}

TVals(t) == CASE t = "Bool" -> BOOLEAN [] t = "Char" -> CVals [] t = "Byte" -> YVals [] t = "HInt" -> HVals
              [] t = "SInt" -> SVals [] t = "Word" -> WVals [] t = "BInt" -> BVals
CCore == {0, 48, 57, 65, 97, 127}
TCore(t) == CASE t = "SInt" -> (IF Core = "sign" THEN SSign ELSE SCore)
              [] t = "BInt" -> (IF Core = "sign" THEN SSign ELSE BCore)
              [] t = "Char" -> CCore
              [] OTHER -> TVals(t)

UStride == IF Stride > 4 THEN 2 ELSE 1
Keep2(i, j)    == (i + 3 * j + Offset) % Stride = 0
Keep3(i, j, k) == (i + 3 * j + 7 * k + Offset) % Stride3 = 0
Pairs(A, Bs, CA, CB) ==
  LET sa == SetToSeq(A)  sb == SetToSeq(Bs) IN
  {<<sa[p[1]], sb[p[2]]>> : p \in {q \in (1..Len(sa)) \X (1..Len(sb)) : Keep2(q[1], q[2])}} \cup (CA \X CB)
Triples(A, Bs, Cs) ==
  LET sa == SetToSeq(A)  sb == SetToSeq(Bs)  sc == SetToSeq(Cs) IN
  {<<sa[p[1]], sb[p[2]], sc[p[3]]>> : p \in {q \in (1..Len(sa)) \X (1..Len(sb)) \X (1..Len(sc)) : Keep3(q[1], q[2], q[3])}}

ModN == {One, FromInt(2), FromInt(5), FromInt(7), FromInt(11), P2(15), Add(P2(16), FromInt(15)), P2(30), Sub(P2(31), One)}
ModRes(n) == {z \in {Zero, One, FromInt(2), FromInt(3), Sub(n, One), Sub(n, FromInt(2)), QuoRem(n, FromInt(2)).q} :
                 ~z.neg /\ Lt(z, n)}
MStride == IF Stride > 4 THEN 3 ELSE 1
ModCases == UNION { LET rs == SetToSeq(ModRes(n)) IN
                    {<<rs[p[1]], rs[p[2]], n>> :
                        p \in {q \in (1..Len(rs)) \X (1..Len(rs)) : (q[1] + 2 * q[2] + Offset) % MStride = 0}}
                  : n \in ModN}

StrTyped(o) == \E i \in 1..Len(SigOf(o).args) : SigOf(o).args[i] \in {"Str", "SFlo", "DFlo"}
FlatOps == {o \in DefOps \ NotInJavaSubset : ~StrTyped(o) /\ Len(SigOf(o).args) > 0}

FlatArgs(o) ==
  LET ts == SigOf(o).args  n == Len(ts) IN
  CASE o \in {"SIntShiftUp", "SIntShiftDn", "SIntBit"} -> Pairs(SVals, SKs, SCore, SKs)
    [] o \in {"BIntShiftUp", "BIntShiftDn", "BIntBit"} -> Pairs(BVals, BKs, {One, Neg(One), P2(64), Neg(Add(P2(64), One))}, BKs)
    [] o \in {"SIntPlusMod", "SIntMinusMod", "SIntTimesMod"} -> ModCases
    [] o = "CharNum" -> {<<FromInt(c)>> : c \in 0..127}
    [] o = "WordDivideDouble" -> Triples({Zero, One, FromInt(2)}, WVals, WVals \ {Zero})
    [] n = 1 -> LET sq == SetToSeq(TVals(ts[1])) IN
                {<<sq[i]>> : i \in {j \in 1..Len(sq) : (j + Offset) % UStride = 0}} \cup {<<x>> : x \in TCore(ts[1])}
    [] n = 2 -> Pairs(TVals(ts[1]), TVals(ts[2]), TCore(ts[1]), TCore(ts[2]))
    [] n = 3 -> Triples(TCore(ts[1]), TCore(ts[2]), TCore(ts[3]))
    [] OTHER -> {}
FlatTree(o, a) == Node(o, [i \in 1..Len(a) |-> Leaf(SigOf(o).args[i], a[i])])
FlatCases(o) == {t \in {FlatTree(o, a) : a \in FlatArgs(o)} : Member(t)}

---------------------------------------------------------------------------
(* the nested part *)
Parents  == OperatorOps \ NotInJavaSubset
Children == {o \in OperatorOps \ NotInJavaSubset : Len(SigOf(o).res) = 1}
NestItems == {<<"nest", p, i, c>> : p \in Parents, i \in 1..3, c \in Children}
NestOk(p, i, c) == i <= Len(SigOf(p).args) /\ SigOf(c).res[1] = SigOf(p).args[i]

NSI == <<5, 3, 6, -7, 2, 12, -2, 1, 100, -1, 0, 4, 9, -12, 31, 7>>
AbsI(n) == IF n < 0 THEN -n ELSE n
(* candidate k: the leaves of the parent carry the numbers of their slots (1..3), those of the child 4..6, the     *)
(* leaf of the enclosing operator 7.  Integers walk through NSI with a different odd step per leaf; booleans take  *)
(* one bit of k each, so that 16 candidates hold every combination.  Operand slots with a narrow domain get        *)
(* values inside it: a shift count is taken modulo 32, the residues of a modular operation are non-negative and    *)
(* its modulus is a prime above every operand value.                                                               *)
BitPos(j) == CASE j \in {1, 2} -> 0 [] j = 4 -> 1 [] j = 5 -> 2 [] OTHER -> 3
IntAt(k, j) == NSI[((k * (2 * j + 1) + 3 * j * j + Offset) % Len(NSI)) + 1]
ShiftOps == {"SIntShiftUp", "SIntShiftDn", "SIntBit"}
ModOps   == {"SIntPlusMod", "SIntMinusMod", "SIntTimesMod"}
(* the leaf in slot s of operation o; j is the leaf's number *)
LeafAt(o, s, k, j) ==
  LET ty == SigOf(o).args[s] IN
  Leaf(ty, CASE ty = "Bool" -> ((k + Offset) \div Pow2[BitPos(j)]) % 2 = 1
             [] ty = "Byte" -> FromInt(AbsI(IntAt(k, j)))
             [] o \in ShiftOps /\ s = 2 -> FromInt(AbsI(IntAt(k, j)) % 32)
             [] o \in ModOps /\ s = 3 -> FromInt(1009)
             [] o \in ModOps -> FromInt(AbsI(IntAt(k, j)))
             [] OTHER -> FromInt(IntAt(k, j)))
ChildTree(c, k, j0) == Node(c, [j \in 1..Len(SigOf(c).args) |-> LeafAt(c, j, k, j0 + j)])
NestTree(p, i, c, k) ==
  Node(p, [j \in 1..Len(SigOf(p).args) |-> IF j = i THEN ChildTree(c, k, 3) ELSE LeafAt(p, j, k, j)])
(* the same tree as an operand of a further operator, on the side where that operator requires parentheses *)
Wrapped(t, k) ==
  CASE TypeOf(t) = "SInt" -> Node("SIntMinus", <<LeafAt("SIntMinus", 1, k, 7), t>>)
    [] TypeOf(t) = "Bool" -> Node("BoolNE", <<LeafAt("BoolNE", 1, k, 7), t>>)
    [] OTHER -> t
(* The nested part is about the text of the expression.  A Byte result of 128 and more belongs to the flat part     *)
(* (there the Java route's signed byte shows, a recorded finding), so the operands are chosen below it.             *)
ByteSafe(t) == TypeOf(t) = "Byte" => Lt(Value(t)[1], FromInt(128))
Good(p, i, c, t) == Member(t) /\ ByteSafe(t) /\ (Required(SlotCtx(p, i), RootOp(c)) => Distinguishes(t, i))
(* the first PerPair candidates that are members and tell the two readings apart; when there are fewer, members *)
Picks(p, i, c, want) ==
  FoldLeft(LAMBDA acc, k : IF Len(acc) >= PerPair THEN acc
                           ELSE LET t == NestTree(p, i, c, k) IN
                                IF (IF want THEN Good(p, i, c, t) ELSE Member(t) /\ ByteSafe(t)) THEN Append(acc, <<k, t>>) ELSE acc,
           <<>>, Ix(1, NCand))
NestCases(p, i, c) ==
  LET g == Picks(p, i, c, TRUE)
      r == IF Len(g) > 0 THEN g ELSE Picks(p, i, c, FALSE)
  IN [n \in 1..Len(r) |->
        [tree |-> IF n % 2 = 0 /\ Member(Wrapped(r[n][2], r[n][1])) THEN Wrapped(r[n][2], r[n][1]) ELSE r[n][2],
         dist |-> Len(g) > 0]]

---------------------------------------------------------------------------
(* JSON form of a tree: integers as <<sign, d1, d2, ..>> (radix 2^11), booleans and character codes natively *)
EncVal(v, ty) == IF B32!IsIntType(ty) THEN B32!ZJ(v) ELSE v
RECURSIVE EncTree(_)
EncTree(t) == IF IsLeaf(t) THEN [k |-> "leaf", t |-> t.t, v |-> EncVal(t.v, t.t)]
              ELSE [k |-> "op", op |-> t.op, args |-> [i \in 1..Len(t.args) |-> EncTree(t.args[i])]]

Items == (IF "flat" \in Parts THEN {<<"flat", o>> : o \in FlatOps} ELSE {})
         \cup (IF "nest" \in Parts THEN {x \in NestItems : NestOk(x[2], x[3], x[4])} ELSE {})

ASSUME PrintT("SIG " \o ToJson(Tab))          \* the signature table, for the renderer

Init == item \in Items /\ ph = 0
Emit ==
  IF item[1] = "flat"
  THEN \A t \in FlatCases(item[2]) : PrintT("CASE " \o ToJson([kind |-> "flat", op |-> item[2], tree |-> EncTree(t)]))
  ELSE LET cs == NestCases(item[2], item[3], item[4])
           req == Required(SlotCtx(item[2], item[3]), RootOp(item[4]))
       IN /\ \A n \in 1..Len(cs) :
               PrintT("CASE " \o ToJson([kind |-> "nest", op |-> item[2], slot |-> item[3], child |-> item[4],
                                          req |-> req, dist |-> cs[n].dist, tree |-> EncTree(cs[n].tree)]))
          /\ LatentAt(SlotCtx(item[2], item[3]), RootOp(item[4])) =>
               PrintT("LATENT " \o ToJson([op |-> item[2], slot |-> item[3], child |-> item[4]]))
          /\ (Len(cs) = 0 \/ (req /\ ~cs[1].dist)) =>
               PrintT("NODIST " \o ToJson([op |-> item[2], slot |-> item[3], child |-> item[4], req |-> req, n |-> Len(cs)]))
Next == ph = 0 /\ ph' = 1 /\ item' = item /\ Emit
Spec == Init /\ [][Next]_<<item, ph>>

(* the printer's rule (model of javacode.c) is sound for every pair the generator reaches *)
PrinterSound == item[1] = "nest" => PrinterSoundAt(SlotCtx(item[2], item[3]), RootOp(item[4]))
(* (pairs on which the rule would fail but which the simplifier removes before code generation are exported as      *)
(*  LATENT lines; how many pairs require parentheses is counted by the harness, so the requirement is not vacuous)   *)
=============================================================================
