----------------------------- MODULE TraceLibFile -----------------------------
(***************************************************************************)
(* Validation of observations recorded from the REAL compiler against the  *)
(* vocabulary and the verdict of LibFile.tla.  The trace is an ndjson file *)
(* (IOEnv.TRACE); each line is one consuming compilation of one damaged    *)
(* real file:                                                              *)
(*   {"ev":"Case","id":n,"fmt":"ao","route":"fc","kind":"subst","off":143, *)
(*    "val":0,"cls":"tbl.length","sect":"fileid","byte":0,                 *)
(*    "exit":0,"sig":0,"timeout":false,"fault":false,"diag":false,         *)
(*    "same":false}                                                        *)
(* A line whose format / class / kind is outside the spec's vocabulary is  *)
(* matched by no action (the trace is not accepted: machinery error).      *)
(* A line whose outcome is not Admissible is REJECTED: in the default      *)
(* configuration every rejected line is exported and counted (the check    *)
(* needs all of them to match them against known findings); with           *)
(* TraceLibFileStrict.cfg the invariant NoReject stops at the first one.   *)
(***************************************************************************)
EXTENDS LibFile, IOUtils

Trc == ndJsonDeserialize(IOEnv.TRACE)

VARIABLES l, nrej, fin

tvars == <<l, nrej, fin>>

TraceInit == Init /\ l = 1 /\ nrej = 0 /\ fin = FALSE

Outcome(e) == Classify(e.timeout, e.sig, e.fault, e.exit, e.diag, e.same)

Case ==
  /\ l <= Len(Trc)
  /\ LET e == Trc[l] IN
     /\ e.ev = "Case"
     /\ e.fmt \in Formats /\ e.kind \in DamageKinds
     /\ (e.kind = "none" \/ e.cls \in ClassesOf(e.fmt))
     /\ e.exit \in 0..255 /\ e.sig \in 0..64
     /\ LET o == Outcome(e) IN
        IF Admissible(e.kind, o)
        THEN nrej' = nrej
        ELSE /\ PrintT(ToJson([reject |-> e.id, outcome |-> o]))
             /\ nrej' = nrej + 1
  /\ l' = l + 1
  /\ UNCHANGED <<fin, vars>>

TraceEnd ==
  /\ l = Len(Trc) + 1 /\ ~fin
  /\ PrintT(ToJson([accepted |-> Len(Trc), rejected |-> nrej]))
  /\ fin' = TRUE
  /\ UNCHANGED <<l, nrej, vars>>

TraceNext == Case \/ TraceEnd

TraceSpec == TraceInit /\ [][TraceNext]_<<tvars, vars>>

NoReject == nrej = 0
=============================================================================
