----------------------------- MODULE CDeclEval ------------------------------
(***************************************************************************)
(* Input C16_DECL = ndjson records                                          *)
(*   [ev |-> "prog", id, items]   a program of the declarator family         *)
(*       (gen/c16_decl.py renders it): functions whose parameters are of     *)
(*       every kind (SFlo, DFlo, Char, HInt, Byte, Bool, Arr, Ptr, closure,  *)
(*       multiple-value returns) and arrays (PrimitiveArray, Array) whose    *)
(*       elements are user-defined domains.  The module DEFINES what each    *)
(*       item prints; floating values are carried as integers in quarters    *)
(*       (all values are small multiples of 1/4: exact in single precision). *)
(*   [ev |-> "head", prog, fn, std, oldhead, olddecls, intended]             *)
(*       the head of one function definition as emitted with -Cstandard      *)
(*       (std: one token sequence per parameter) and with -Cold (oldhead:    *)
(*       the name list, olddecls: the declarations between `)' and `{').     *)
(*       Judged with CDeclFn!ReadParam: both dialects must read back, for    *)
(*       every parameter, the same name and type; in old C every name has    *)
(*       exactly one declaration; where the generator knows the kinds        *)
(*       (intended = <<<<shape, type>>...>>, e1 not included) the types are   *)
(*       the intended ones (element type of a raw array: free).              *)
(***************************************************************************)
EXTENDS CDeclFn, TLC, Json, IOUtils, SequencesExt

Trc == ndJsonDeserialize(IOEnv.C16_DECL)

Str(n) == ToString(n)
JoinSp(s) == FoldLeft(LAMBDA acc, x : IF acc = "" THEN x ELSE acc \o " " \o x, "", s)
Cat(s) == FoldLeft(LAMBDA acc, x : acc \o x, "", s)
Pair(p) == "(" \o Str(p[1]) \o "," \o Str(p[2]) \o ")"

(* array of points: new(n, pt(0,0)); element i := pt(a*i+b, i*i); then the updates in order; rd = indices read back *)
PArr(it) == LET base == [i \in 1..it.n |-> <<it.a * i + it.b, i * i>>]
                upd == FoldLeft(LAMBDA arr, u : [arr EXCEPT ![u[1]] = <<u[2], u[3]>>], base, it.upd)
            IN Cat([j \in 1..Len(it.rd) |-> Pair(upd[it.rd[j]]) \o " "])
(* Array Pt: element i := pt(i+a, i*b); prints the elements read and #array *)
AArr(it) == LET base == [i \in 1..it.n |-> <<i + it.a, i * it.b>>]
            IN Cat([j \in 1..Len(it.rd) |-> Pair(base[it.rd[j]]) \o " "]) \o Str(it.n)
Cells(it) == Cat([j \in 1..Len(it.rd) |-> "<" \o Str(it.rd[j] * it.m) \o ">"])

Line(it) ==
  CASE it.k = "fmix"   -> Str(IF it.c = 1 THEN it.x4 * it.kk + it.y4 ELSE it.x4)
    [] it.k = "dmix"   -> Str(2 * it.x4 + it.z4)
    [] it.k = "narrow" -> Str(IF it.t = 1 THEN it.h + it.b + it.n ELSE it.h - it.b)
    [] it.k = "two"    -> JoinSp(<<Str(it.a + it.b), Str(it.a * it.b)>>)
    [] it.k = "twof"   -> JoinSp(<<Str(2 * it.b4), Str(2 * it.a4)>>)
    [] it.k = "three"  -> JoinSp(<<it.ch, Str(it.a + 1), Str(2 * it.x4)>>)
    [] it.k = "app"    -> Str(4 * it.x4)
    [] it.k = "appd"   -> Str(2 * it.x4)
    [] it.k = "asum"   -> Str(it.vals[1] + it.vals[Len(it.vals)])
    [] it.k = "ptr"    -> JoinSp(<<Str(it.n), Str(it.n + 1)>>)
    [] it.k = "parr"   -> PArr(it)
    [] it.k = "arr"    -> AArr(it)
    [] it.k = "cells"  -> Cells(it)

Behaviour(p) == [id |-> p.id, out |-> [i \in 1..Len(p.items) |-> Line(p.items[i])], status |-> "done"]

(* ---- recorded heads ---- *)
N(e) == Len(e.std)
StdRead(e, i) == ReadParam("std", e.std, <<>>, i)
OldRead(e, i) == ReadParam("old", e.oldhead, e.olddecls, i)
HeadProblems(e) ==
  IF Len(e.oldhead) # N(e) THEN {"parameter-count"}
  ELSE UNION {
    (IF OldRead(e, i).ndecl # 1 THEN {"old-c-declarations-of-" \o OldRead(e, i).name \o "=" \o Str(OldRead(e, i).ndecl)} ELSE {})
    \cup (IF OldRead(e, i).name # StdRead(e, i).name THEN {"name-" \o Str(i)} ELSE {})
    \cup (IF OldRead(e, i).type # StdRead(e, i).type THEN {"dialects-differ-" \o OldRead(e, i).name} ELSE {})
    \cup (IF i >= 2 /\ Len(e.intended) >= i - 1
          THEN LET k == Kind(e.intended[i - 1][1], e.intended[i - 1][2])
                   want == Intended(k)
               IN (IF StdRead(e, i).type.ptr # want.ptr \/ (k.shape # "arr" /\ StdRead(e, i).type.base # want.base)
                   THEN {"standard-c-type-of-" \o StdRead(e, i).name} ELSE {})
                  \cup (IF OldRead(e, i).type.ptr # want.ptr \/ (k.shape # "arr" /\ OldRead(e, i).type.base # want.base)
                        THEN {"old-c-type-of-" \o OldRead(e, i).name} ELSE {})
          ELSE {})
    : i \in 1..N(e)}

VARIABLES k, nprog, nhead, nbad
Init == k = 0 /\ nprog = 0 /\ nhead = 0 /\ nbad = 0
Prog == /\ k < Len(Trc) /\ Trc[k + 1].ev = "prog"
        /\ PrintT("DECLBEHAV " \o ToJson(Behaviour(Trc[k + 1])))
        /\ k' = k + 1 /\ nprog' = nprog + 1 /\ UNCHANGED <<nhead, nbad>>
JudgeHead == /\ k < Len(Trc) /\ Trc[k + 1].ev = "head"
        /\ LET e == Trc[k + 1]  ps == HeadProblems(e) IN
           /\ (ps # {} => PrintT("BADHEAD " \o ToJson([prog |-> e.prog, fn |-> e.fn, problems |-> SetToSeq(ps)])))
           /\ nbad' = nbad + (IF ps = {} THEN 0 ELSE 1)
        /\ k' = k + 1 /\ nhead' = nhead + 1 /\ UNCHANGED nprog
End == /\ k = Len(Trc) /\ k' = k + 1
       /\ PrintT("DECLEND " \o ToJson([events |-> Len(Trc), progs |-> nprog, heads |-> nhead, bad |-> nbad]))
       /\ UNCHANGED <<nprog, nhead, nbad>>
Spec == Init /\ [][Prog \/ JudgeHead \/ End]_<<k, nprog, nhead, nbad>>
=============================================================================
