SPECIFICATION Spec
CONSTANTS
  READER = "Required"
  SUM = TRUE
  PRINT = FALSE
INVARIANTS TypeOK SameIsSame IntactAccepted DamagedRefused
CHECK_DEADLOCK FALSE
