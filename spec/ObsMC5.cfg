SPECIFICATION Spec
CONSTANTS
  Inputs = {i1, i2, i3}
  Cfgs = {c1, c2}
  Values = {o1, o2, o3}
  MaxLen = 5
INVARIANTS Complete Witness Minimal SeenIsFirst
PROPERTY ObsStable
CHECK_DEADLOCK FALSE
