------------------------------ MODULE StoreImpl ------------------------------
(***************************************************************************)
(* Implementation-shaped model of aldor/aldor/src/store.c (the B-tree      *)
(* allocator, STO_USE_BTREE) at scaled constants, checked by TLC to        *)
(* refine the property-level module StoreAbs (C10).                        *)
(*                                                                         *)
(* What is modelled, function by function (names as in store.c):           *)
(*   page map            pgMap[], pgmapFindFree with its search hint       *)
(*                       (pgmapFoundFreeLastTime) and its "free run too    *)
(*                       close to the end => give up" rule, pagesGet,      *)
(*                       pagesAdd (heap grows at the end by >= PgGroup),   *)
(*                       pagesPut                                          *)
(*   sections            sectPrepare: header, qmCount, data aligned to the *)
(*                       end of the last page, per-quantum info            *)
(*                       (Follow / FreeFirst / BusyFirst, code, mark)      *)
(*   fixed pieces        fixedSizeFor, piecesGetFixed (one page, pieces    *)
(*                       chained in address order), LIFO free lists,       *)
(*                       stoAlloc / stoFree fixed paths                    *)
(*   mixed pieces        MxMem headers (nbytesPrev, nbytesThis, isFree,    *)
(*                       isFirst, isLast), the free tree as size -> DLL    *)
(*                       (mxmemLink's insertion rule, mxmemUnlink),        *)
(*                       pieceGetMixed (best fit from the tree with split, *)
(*                       frontier discard / new section / split or         *)
(*                       consume), piecePutMixed (merge next / prev),      *)
(*                       mxmemSplit, mxmemMerge; the pages taken by the    *)
(*                       B-tree node pool and the DLL node pool            *)
(*   stoResize           same true size => same block; else alloc, copy,   *)
(*                       free                                              *)
(*   stoRecode, stoGc    mark from the root words through pointer fields   *)
(*                       (interior pointers resolved to the piece, header  *)
(*                       included; pointer-free codes not scanned), sweep  *)
(*                       of fixed sections (free lists rebuilt in address  *)
(*                       order, empty sections returned) and of mixed      *)
(*                       sections (merge, empty sections returned unless   *)
(*                       they hold the frontier)                           *)
(*   stoAudit            the conditions asserted by stoAuditAll as the     *)
(*                       invariant AuditInv                                *)
(* Not modelled: the byte contents of B-tree nodes (the tree is the        *)
(* function mfl; StoreTree.tla refines it), the relocation of the page     *)
(* map, foreign pages, blacklisting, tallies.                              *)
(*                                                                         *)
(* Collections.  A Collect step may happen between any two operations      *)
(* (stoGc called by the client, or pagesGet collecting at the start of an  *)
(* allocation).  With Reentrant = TRUE the model also has the collections  *)
(* that start in the MIDDLE of a public operation: piecePutMixed, called   *)
(* by stoFree or by pieceGetMixed (frontier thrown away; remainder of a    *)
(* split), links the piece with mxmemLink, which for a size that has no    *)
(* carrier yet calls mxmemAllocDLL -> stoAllocInner -> pagesGet, and       *)
(* pagesGet runs stoGc when no page is free.  Such an operation is split   *)
(* into Begin (everything up to the page request), an optional PendGc (the *)
(* nested collection, on the half-done state) and PendEnd (the rest).      *)
(* SweeperOk is what stoGcSweepMixed relies on in the state it then sees;  *)
(* see the section "Re-entrant collection" below.                          *)
(*                                                                         *)
(* Addresses are in abstract units; a page has PgSize units.  The client   *)
(* side (request size, content tag, pointer fields, roots) is kept next to *)
(* the allocator state so that the refinement mapping                      *)
(*       live == busy pieces with their client data                        *)
(* can be stated; every step records a witness (operation and the values   *)
(* the allocator returned) and the property Refines says that the step is  *)
(* the StoreAbs action of that name with those values.                     *)
(***************************************************************************)
EXTENDS Naturals, Integers, Sequences, FiniteSets, TLC

CONSTANTS PgSize,        \* units per page
          HeadUnits,     \* section header + info array, in units
          FixedSizes,    \* ascending sequence of fixed piece sizes (units)
          MxHead,        \* MxMemHeadSize in units
          PgGroup,       \* pages requested from the OS at once (at least)
          MixedPgGroup,  \* minimum pages of a mixed section
          MaxPages,      \* bound of the model: the heap never exceeds this
          ReqSizes, Codes, PtrFreeCodes, Tags, NRoots, MaxLive, MaxOps,
          GraphOps,      \* FALSE: no pointer fields, roots, recode, fill (deeper allocator histories)
          Probe,         \* a step label whose reachability ProbeInv tests ("none" otherwise)
          CarPerPage,    \* carriers (MxMemDLL) carved from one housekeeping page
          Reentrant,     \* TRUE: operations are split at the page requests of mxmemLink; nested collections
          FlagFirst,     \* TRUE: piecePutMixed sets isFree BEFORE mxmemLink (the two steps swapped; probe only)
          SplitPoint,    \* TRUE: also split pieceGetMixed where it re-enters the remainder of a split piece
          CutAtRisk      \* TRUE: collections that would give back a section that is not one free piece are cut off

VARIABLES s,      \* allocator state (record, see SInit)
          cl,     \* client data: user address -> [req, tag, slots]
          roots,  \* root words
          last,   \* <<operation, address>> as in StoreAbs
          wit,    \* witness of the last step
          ops     \* number of operations so far (bounds the histories)

vars == <<s, cl, roots, last, wit, ops>>

Null == -1
Q    == FixedSizes[Len(FixedSizes)]       \* MixedSizeQuantum = FixedSizeMax
FixedMax == Q

Min(S) == CHOOSE x \in S : \A y \in S : x <= y
MaxOf(a, b) == IF a >= b THEN a ELSE b
CeilDiv(a, b) == (a + b - 1) \div b
RoundUp(a, b) == CeilDiv(a, b) * b

Upd(f, k, v) == [x \in DOMAIN f \cup {k} |-> IF x = k THEN v ELSE f[x]]
Del(f, K)    == [x \in DOMAIN f \ K |-> f[x]]
RemoveAt(q, i) == [j \in 1..(Len(q) - 1) |-> IF j < i THEN q[j] ELSE q[j + 1]]
InsertAfter(q, i, x) == [j \in 1..(Len(q) + 1) |-> IF j <= i THEN q[j] ELSE IF j = i + 1 THEN x ELSE q[j - 1]]
IndexOf(q, x) == CHOOSE i \in 1..Len(q) : q[i] = x

---------------------------------------------------------------------------
(* Page map                                                                *)

NP(st)        == Len(st.pg)
PgKind(st, p) == st.pg[p + 1]
IsFreePg(st, p) == PgKind(st, p) = "Free"

SetPages(st, p, n, kind) ==
    [st EXCEPT !.pg = [i \in 1..Len(st.pg) |-> IF (i - 1) \in p..(p + n - 1) THEN kind ELSE st.pg[i]]]

SetBusy(st, p, n) ==
    [st EXCEPT !.pg = [i \in 1..Len(st.pg) |-> IF i - 1 = p THEN "BusyFirst"
                                               ELSE IF (i - 1) \in (p + 1)..(p + n - 1) THEN "BusyFollow"
                                               ELSE st.pg[i]]]

(* pgmapFindFree: the candidates are the first free page at or after the   *)
(* start of the scan and every later start of a free run; the first        *)
(* candidate whose run is long enough wins, but a candidate closer than n  *)
(* pages to the end of the map ends the whole search with "not found".     *)
RunStarts(st, lo, hi) == {i \in lo..hi : IsFreePg(st, i) /\ (i = lo \/ ~IsFreePg(st, i - 1))}
RunOk(st, i, n) == i + n <= NP(st) /\ \A j \in i..(i + n - 1) : IsFreePg(st, j)
Scan(st, lo, hi, n) ==
    LET C == {i \in RunStarts(st, lo, hi) : i + n > NP(st) \/ RunOk(st, i, n)}
    IN IF C = {} THEN <<"none", -1>>
       ELSE IF Min(C) + n > NP(st) THEN <<"fail", -1>> ELSE <<"found", Min(C)>>

(* returns <<page or -1, new hint>> *)
PagesFind(st, n) ==
    LET a == Scan(st, st.hint, NP(st) - 1, n) IN
    IF a[1] = "found" THEN <<a[2], a[2]>>
    ELSE IF a[1] = "fail" THEN <<-1, st.hint>>
    ELSE LET b == Scan(st, 0, st.hint - 1, n) IN
         IF b[1] = "found" THEN <<b[2], b[2]>>
         ELSE IF b[1] = "fail" THEN <<-1, st.hint>>
         ELSE <<-1, 0>>

(* pagesGet without the automatic collection: find, else grow and find.    *)
(* returns <<state, first page or -1>>; the pages are marked busy.         *)
PagesGet(st, n) ==
    LET f == PagesFind(st, n) IN
    IF f[1] >= 0 THEN <<SetBusy([st EXCEPT !.hint = f[2]], f[1], n), f[1]>>
    ELSE LET add == MaxOf(n, PgGroup)
             st1 == [st EXCEPT !.hint = f[2], !.pg = st.pg \o [i \in 1..add |-> "Free"]]
             g   == PagesFind(st1, n)
         IN IF NP(st) + add > MaxPages \/ g[1] < 0 THEN <<st, -1>>
            ELSE <<SetBusy([st1 EXCEPT !.hint = g[2]], g[1], n), g[1]>>

PagesPut(st, p, n) == SetPages(st, p, n, "Free")

---------------------------------------------------------------------------
(* Sections                                                                *)

QmCount(np, q) == (np * PgSize - HeadUnits) \div q

FreeQ == [k |-> "F", code |-> 0, mark |-> FALSE]
FollQ == [k |-> "o", code |-> 0, mark |-> FALSE]

SectPrepare(p, np, q, fixed, cls) ==
    LET cnt == QmCount(np, q) IN
    [fixed |-> fixed, np |-> np, q |-> q, cls |-> cls, cnt |-> cnt,
     data |-> p * PgSize + np * PgSize - cnt * q,
     info |-> [i \in 0..(cnt - 1) |-> IF fixed \/ i = 0 THEN FreeQ ELSE FollQ]]

(* sectFor: the section whose pages contain address x (or Null)            *)
SectOfPage(st, p) ==
    IF p < 0 \/ p >= NP(st) THEN Null
    ELSE IF PgKind(st, p) = "BusyFirst" THEN p
    ELSE IF PgKind(st, p) = "BusyFollow"
         THEN Min({p} \cup {b \in 0..p : \A j \in (b + 1)..p : PgKind(st, j) = "BusyFollow"})
         ELSE Null
SectFor(st, x) ==
    LET p == x \div PgSize
        b == SectOfPage(st, p)
    IN IF x < 0 THEN Null
       ELSE IF b = Null THEN Null
       ELSE IF PgKind(st, b) = "BusyFirst" THEN b ELSE Null

QmNo(st, sp, x) == (x - st.sects[sp].data) \div st.sects[sp].q

SetInfo(st, sp, qi, v) == [st EXCEPT !.sects[sp].info[qi] = v]
SetKind(st, sp, qi, k) == [st EXCEPT !.sects[sp].info[qi].k = k]

---------------------------------------------------------------------------
(* Fixed pieces                                                            *)

ClassOf(n) == Min({i \in 1..Len(FixedSizes) : FixedSizes[i] >= n})

(* stoAlloc, nbytes <= FixedSizeMax.  Result: [ok, st, a, size, path]      *)
AllocFixed(st, c, n) ==
    LET cls == ClassOf(n)
        q   == FixedSizes[cls]
        need == st.ffl[cls] = <<>>
        g   == IF need THEN PagesGet(st, 1) ELSE <<st, 0>>
        st1 == IF need /\ g[2] >= 0
               THEN LET sc == SectPrepare(g[2], 1, q, TRUE, cls)
                    IN [g[1] EXCEPT !.sects = Upd(g[1].sects, g[2], sc),
                                    !.ffl[cls] = [i \in 1..sc.cnt |-> sc.data + (i - 1) * q]]
               ELSE g[1]
    IN IF need /\ g[2] < 0 THEN [ok |-> FALSE]
       ELSE LET a  == Head(st1.ffl[cls])
                sp == a \div PgSize          \* sectOf: fixed sections are one page
                qi == QmNo(st1, sp, a)
                st2 == [st1 EXCEPT !.ffl[cls] = Tail(st1.ffl[cls])]
            IN [ok |-> TRUE, a |-> a, size |-> q,
                st |-> SetInfo(st2, sp, qi, [k |-> "B", code |-> c, mark |-> FALSE]),
                path |-> IF need THEN "fixed:new-section" ELSE "fixed:free-list"]

FreeFixed(st, sp, a) ==
    LET cls == st.sects[sp].cls
        qi  == QmNo(st, sp, a)
        st1 == SetInfo(st, sp, qi, FreeQ)
    IN [st1 EXCEPT !.ffl[cls] = <<a>> \o st1.ffl[cls]]

---------------------------------------------------------------------------
(* Mixed pieces                                                            *)

MxNext(st, m) == IF st.mx[m].last  THEN Null ELSE m + st.mx[m].size
MxPrev(st, m) == IF st.mx[m].first THEN Null ELSE m - st.mx[m].prev

(* the node pools of the B-tree and of the DLL headers take a page each    *)
EnsureBT(st) ==
    IF st.bt # Null THEN st
    ELSE LET g == PagesGet(st, 1) IN
         IF g[2] < 0 THEN [st EXCEPT !.oom = TRUE]
         ELSE [SetPages(g[1], g[2], 1, "BTree") EXCEPT !.bt = g[2]]
(* a carrier page holds CarPerPage carriers; one is in use per distinct free size (LIFO free list:   *)
(* a further page is asked for exactly when every carrier carved so far is in use)                 *)
NDllPages(st) == (IF st.dll = Null THEN 0 ELSE 1) + Cardinality(st.dllx)
CarriersExhausted(st) == Cardinality(DOMAIN st.mfl) >= NDllPages(st) * CarPerPage
EnsureDLL(st) ==
    IF ~CarriersExhausted(st) THEN st
    ELSE LET g == PagesGet(st, 1) IN
         IF g[2] < 0 THEN [st EXCEPT !.oom = TRUE]
         ELSE IF st.dll = Null THEN [SetPages(g[1], g[2], 1, "DLL") EXCEPT !.dll = g[2]]
         ELSE [SetPages(g[1], g[2], 1, "DLL") EXCEPT !.dllx = @ \cup {g[2]}]

(* mxmemUnlink + removal of an emptied DLL from the tree                   *)
Unlink(st, m) ==
    LET z == st.mx[m].size
        d == st.mfl[z]
        d1 == RemoveAt(d, IndexOf(d, m))
    IN IF d1 = <<>> THEN [st EXCEPT !.mfl = Del(st.mfl, {z})]
       ELSE [st EXCEPT !.mfl[z] = d1]

(* mxmemLink: walk from dll->pieces along linkA while mi > u and there is  *)
(* a further element, insert after the element reached.                    *)
RECURSIVE LinkPos(_, _, _)
LinkPos(d, m, i) == IF m > d[i] /\ i < Len(d) THEN LinkPos(d, m, i + 1) ELSE i
Link(st, m) ==
    LET z == st.mx[m].size IN
    IF z \in DOMAIN st.mfl
    THEN [st EXCEPT !.mfl[z] = InsertAfter(st.mfl[z], LinkPos(st.mfl[z], m, 1), m)]
    ELSE LET st1 == EnsureDLL(st) IN [st1 EXCEPT !.mfl = Upd(st1.mfl, z, <<m>>)]

(* mxmemMerge(curr, next) *)
Merge(st, c, n) ==
    LET nn  == MxNext(st, n)
        sz  == st.mx[c].size + st.mx[n].size
        sp  == st.mx[n].sect
        st1 == [st EXCEPT !.mx[c].size = sz, !.mx[c].last = st.mx[n].last]
        st2 == IF nn # Null THEN [st1 EXCEPT !.mx[nn].prev = sz] ELSE st1
        st3 == SetKind(st2, sp, QmNo(st2, sp, n), "o")
    IN [st3 EXCEPT !.mx = Del(st3.mx, {n})]

(* mxmemSplit(curr, nbytes): returns <<state, remainder>>                  *)
Split(st, c, nb) ==
    LET r   == c + nb
        nn  == MxNext(st, c)
        sp  == st.mx[c].sect
        rec == [prev |-> nb, size |-> st.mx[c].size - nb, free |-> st.mx[c].free,
                first |-> FALSE, last |-> st.mx[c].last, sect |-> sp]
        st1 == [st EXCEPT !.mx = Upd([st.mx EXCEPT ![c].last = FALSE, ![c].size = nb], r, rec)]
        st2 == IF nn # Null THEN [st1 EXCEPT !.mx[nn].prev = rec.size] ELSE st1
    IN <<SetKind(st2, sp, QmNo(st2, sp, r), "F"), r>>

(* piecePutMixed, steps 1 and 2 (merge with free neighbours): <<state, piece to link>> *)
PutMerge(st0, m) ==
    LET st  == EnsureBT(st0)
        p0  == MxPrev(st, m)
        n0  == MxNext(st, m)
        prv == IF p0 # Null /\ st.mx[p0].free THEN p0 ELSE Null
        nxt == IF n0 # Null /\ st.mx[n0].free THEN n0 ELSE Null
        st1 == IF nxt # Null THEN Merge(Unlink(st, nxt), m, nxt) ELSE st
        st2 == IF prv # Null THEN Merge(Unlink(st1, prv), prv, m) ELSE st1
    IN <<st2, IF prv # Null THEN prv ELSE m>>

(* steps 3 and 4: mxmemLink, then isFree (FlagFirst: the other way round -- the same result here, *)
(* the difference is what a collection started by mxmemLink's page request sees)                 *)
PutFinish(st, mi) == [Link(st, mi) EXCEPT !.mx[mi].free = TRUE]

(* mxmemLink(mi) will ask for a page: the size has no carrier yet and every carrier is in use *)
LinkNeedsPage(st, mi) == st.mx[mi].size \notin DOMAIN st.mfl /\ CarriersExhausted(st)

(* piecePutMixed *)
PiecePutMixed(st0, m) == LET r == PutMerge(st0, m) IN PutFinish(r[1], r[2])

(* pieceGetMixed after the tree had nothing and a too small frontier was thrown away (st1): *)
(* new section if there is no frontier, then split or consume the frontier                 *)
PGMFrontier(st1, nb, small) ==
        LET fresh == st1.frontier = Null
            nq  == CeilDiv(nb, Q)
            npg == MaxOf(CeilDiv(HeadUnits + nq * Q, PgSize), MixedPgGroup)
            g   == IF fresh THEN PagesGet(st1, npg) ELSE <<st1, 0>>
        IN IF fresh /\ g[2] < 0 THEN [ok |-> FALSE]
           ELSE
           LET st2 == IF fresh
                      THEN LET sc == SectPrepare(g[2], npg, Q, FALSE, 0)
                               mt == sc.data
                           IN [g[1] EXCEPT !.sects = Upd(g[1].sects, g[2], sc),
                                           !.mx = Upd(g[1].mx, mt, [prev |-> 0, size |-> sc.cnt * Q, free |-> FALSE,
                                                                   first |-> TRUE, last |-> TRUE, sect |-> g[2]]),
                                           !.frontier = mt]
                      ELSE st1
               mi  == st2.frontier
               mn  == st2.mx[mi].size
               st3 == IF mn > nb + Q
                      THEN LET sp == Split(st2, mi, nb) IN [sp[1] EXCEPT !.frontier = sp[2]]
                      ELSE [st2 EXCEPT !.frontier = Null]
           IN [ok |-> TRUE, m |-> mi, st |-> st3,
               path |-> (IF small THEN "mixed:frontier-discard+" ELSE "mixed:") \o
                        (IF fresh THEN "new-frontier" ELSE "frontier") \o
                        (IF mn > nb + Q THEN "-split" ELSE "-consume")]

(* pieceGetMixed(nbytes): [ok, st, m, path] *)
PieceGetMixed(st0, nb) ==
    LET st == EnsureBT(st0)
        ge == {z \in DOMAIN st.mfl : z >= nb}
    IN
    IF ge # {} THEN
        LET z   == Min(ge)
            mi  == Head(st.mfl[z])
            st1 == [Unlink(st, mi) EXCEPT !.mx[mi].free = FALSE]
        IN IF z > nb + Q
           THEN LET sp == Split(st1, mi, nb)
                    st2 == [sp[1] EXCEPT !.mx[sp[2]].free = TRUE]
                IN [ok |-> TRUE, m |-> mi, st |-> PiecePutMixed(st2, sp[2]), path |-> "mixed:tree-split"]
           ELSE [ok |-> TRUE, m |-> mi, st |-> st1, path |-> "mixed:tree-exact"]
    ELSE
        LET small == st.frontier # Null /\ st.mx[st.frontier].size < nb
            st1 == IF small THEN PiecePutMixed([st EXCEPT !.frontier = Null], st.frontier) ELSE st
        IN PGMFrontier(st1, nb, small)

(* stoAlloc after pieceGetMixed returned r *)
AllocMixedDone(r, c) ==
    IF ~r.ok THEN [ok |-> FALSE]
    ELSE LET sp == r.st.mx[r.m].sect
             qi == QmNo(r.st, sp, r.m)
         IN [ok |-> TRUE, a |-> r.m + MxHead, size |-> r.st.mx[r.m].size - MxHead, path |-> r.path,
             st |-> SetInfo(r.st, sp, qi, [k |-> "B", code |-> c, mark |-> FALSE])]

AllocMixed(st, c, n) == AllocMixedDone(PieceGetMixed(st, RoundUp(n + MxHead, Q)), c)

FreeMixed(st, sp, a) ==
    LET pc == a - MxHead
        qi == QmNo(st, sp, a)
    IN PiecePutMixed(SetInfo(st, sp, qi, FreeQ), pc)

---------------------------------------------------------------------------
(* Public operations                                                       *)

StoAlloc(st, c, n) == IF n <= FixedMax THEN AllocFixed(st, c, n) ELSE AllocMixed(st, c, n)

StoFree(st, a) ==
    LET sp == SectFor(st, a) IN
    IF st.sects[sp].fixed THEN FreeFixed(st, sp, a) ELSE FreeMixed(st, sp, a)

Usable(st, a) ==
    LET sp == SectFor(st, a) IN
    IF st.sects[sp].fixed THEN st.sects[sp].q ELSE st.mx[a - MxHead].size - MxHead

CodeOf(st, a) ==
    LET sp == SectFor(st, a) IN st.sects[sp].info[QmNo(st, sp, a)].code

TrueSize(n) == IF n <= FixedMax THEN FixedSizes[ClassOf(n)] ELSE RoundUp(n + MxHead, Q) - MxHead

(* stoResize: [ok, st, b, size, path] *)
StoResize(st, a, n) ==
    IF Usable(st, a) = TrueSize(n)
    THEN [ok |-> TRUE, st |-> st, b |-> a, size |-> Usable(st, a), path |-> "resize:same"]
    ELSE LET r == StoAlloc(st, CodeOf(st, a), n) IN
         IF ~r.ok THEN [ok |-> FALSE]
         ELSE [ok |-> TRUE, st |-> StoFree(r.st, a), b |-> r.a, size |-> r.size, path |-> "resize:move/" \o r.path]

StoRecode(st, a, c) ==
    LET sp == SectFor(st, a) IN [st EXCEPT !.sects[sp].info[QmNo(st, sp, a)].code = c]

(* user addresses of the busy pieces *)
BusyIn(st, sp) ==
    LET sc == st.sects[sp] IN
    {sc.data + i * sc.q + (IF sc.fixed THEN 0 ELSE MxHead) : i \in {j \in 0..(sc.cnt - 1) : sc.info[j].k = "B"}}
Busy(st) == UNION {BusyIn(st, sp) : sp \in DOMAIN st.sects}

---------------------------------------------------------------------------
(* Collection                                                              *)

(* the busy piece (user address) a word x leads the marker to: the piece   *)
(* whose quanta contain x, header included (stoGcMarkRange)                *)
PieceExtent(st, a) ==
    LET sp == SectFor(st, a) IN
    IF st.sects[sp].fixed THEN <<a, st.sects[sp].q>> ELSE <<a - MxHead, st.mx[a - MxHead].size>>
MarkTargets(st, x) ==
    IF x = Null THEN {}
    ELSE {a \in Busy(st) : LET e == PieceExtent(st, a) IN e[1] <= x /\ x < e[1] + e[2]}

RECURSIVE MarkClosure(_, _, _)
MarkClosure(st, c, S) ==
    LET T == S \cup UNION {IF CodeOf(st, a) \in PtrFreeCodes THEN {}
                           ELSE UNION {MarkTargets(st, c[a].slots[i]) : i \in 1..Len(c[a].slots)} : a \in S}
    IN IF T = S THEN S ELSE MarkClosure(st, c, T)

Marked(st, c, r) == MarkClosure(st, c, UNION {MarkTargets(st, r[k]) : k \in 1..NRoots})

(* stoGcSweepFixed for one section; returns the state, the section's free  *)
(* pieces are appended to the class list only if a busy piece remains      *)
SweepFixed(st, sp, M) ==
    LET sc   == st.sects[sp]
        keep == {i \in 0..(sc.cnt - 1) : sc.info[i].k = "B" /\ (sc.data + i * sc.q) \in M}
        info1 == [i \in 0..(sc.cnt - 1) |-> IF i \in keep THEN sc.info[i] ELSE FreeQ]
        frees == {i \in 0..(sc.cnt - 1) : i \notin keep}
        RECURSIVE AscSeq(_)
        AscSeq(S) == IF S = {} THEN <<>> ELSE <<sc.data + Min(S) * sc.q>> \o AscSeq(S \ {Min(S)})
    IN IF keep # {}
       THEN [st EXCEPT !.sects[sp].info = info1, !.ffl[sc.cls] = st.ffl[sc.cls] \o AscSeq(frees)]
       ELSE [PagesPut(st, sp, sc.np) EXCEPT !.sects = Del(st.sects, {sp})]

(* stoGcSweepMixed for one section: unmarked busy pieces are freed in      *)
(* address order through piecePutMixed                                     *)
RECURSIVE SweepPieces(_, _, _, _)
SweepPieces(st, sp, M, m) ==
    IF m = Null THEN st
    ELSE LET qi   == QmNo(st, sp, m)
             busy == st.sects[sp].info[qi].k = "B"
         IN IF busy /\ (m + MxHead) \notin M
            THEN LET st1 == PiecePutMixed(SetInfo(st, sp, qi, FreeQ), m)
                     \* after the merge the piece containing m may start earlier; continue after it
                     cur == CHOOSE x \in DOMAIN st1.mx : st1.mx[x].sect = sp /\ x <= m /\ m < x + st1.mx[x].size
                 IN SweepPieces(st1, sp, M, MxNext(st1, cur))
            ELSE SweepPieces(st, sp, M, MxNext(st, m))

SweepMixed(st, sp, M) ==
    LET sc  == st.sects[sp]
        st1 == SweepPieces(st, sp, M, sc.data)
        anyBusy == \E i \in 0..(sc.cnt - 1) : st1.sects[sp].info[i].k = "B"
        hasFront == st1.frontier # Null /\ st1.mx[st1.frontier].sect = sp
        \* stoGcSweepMixed gives the pages back after unlinking the piece at sect->data: it takes the
        \* section to be ONE free, linked piece.  Where it is not (possible only after a collection that
        \* started inside an operation), the model records the fact (risk) instead of the damage.
        single == {x \in DOMAIN st1.mx : st1.mx[x].sect = sp} = {sc.data} /\ st1.mx[sc.data].free
    IN IF ~anyBusy /\ ~hasFront
       THEN IF single
            THEN LET st2 == Unlink(st1, sc.data)
                     st3 == PagesPut(st2, sp, sc.np)
                 IN [st3 EXCEPT !.sects = Del(st3.sects, {sp}),
                                !.mx = Del(st3.mx, {x \in DOMAIN st3.mx : st3.mx[x].sect = sp})]
            ELSE [st1 EXCEPT !.risk = TRUE]
       ELSE st1

RECURSIVE SweepAll(_, _, _)
SweepAll(st, P, M) ==
    IF P = {} THEN st
    ELSE LET sp == Min(P)
         IN SweepAll(IF st.sects[sp].fixed THEN SweepFixed(st, sp, M) ELSE SweepMixed(st, sp, M), P \ {sp}, M)

StoGc(st, c, r) ==
    LET M   == Marked(st, c, r)
        st0 == [st EXCEPT !.ffl = [i \in DOMAIN st.ffl |-> <<>>]]
    IN SweepAll(st0, DOMAIN st.sects, M)

---------------------------------------------------------------------------
(* Re-entrant collection                                                   *)
(*                                                                         *)
(* The three places where piecePutMixed runs inside a public operation:    *)
(*   "free"     stoFree(a): quantum tagged free, piecePutMixed(piece)      *)
(*   "discard"  pieceGetMixed: mixedFrontier = 0, piecePutMixed(old        *)
(*              frontier), then a new section                              *)
(*   "split"    pieceGetMixed: piece unlinked, split, remainder flagged    *)
(*              free, piecePutMixed(remainder)       (only if SplitPoint)  *)
(* In each, piecePutMixed merges, then calls mxmemLink; if the size is new *)
(* and no carrier is left, mxmemLink asks for a page and the collector may *)
(* run on the state reached so far.  s.pend records where the operation    *)
(* stopped: [k, m (piece to link), m2 (piece being allocated, "split"),    *)
(* gcd (a nested collection has run), c, n, t, nb (pending allocation)].   *)

NoPend == [k |-> "none", m |-> Null, m2 |-> Null, gcd |-> FALSE, c |-> 0, n |-> 0, t |-> 0, nb |-> 0]
Pending(st) == st.pend.k # "none"

(* stoFree of a mixed piece up to mxmemLink: <<state, piece to link>> *)
FreePrefix(st, a) ==
    LET sp == SectFor(st, a) IN PutMerge(SetInfo(st, sp, QmNo(st, sp, a), FreeQ), a - MxHead)
FreeWaits(st, a) ==
    /\ Reentrant /\ ~st.sects[SectFor(st, a)].fixed
    /\ LET r == FreePrefix(st, a) IN LinkNeedsPage(r[1], r[2])

(* pieceGetMixed up to mxmemLink of the thrown-away frontier *)
DiscardCase(st0, nb) ==
    LET st == EnsureBT(st0) IN
    /\ {z \in DOMAIN st.mfl : z >= nb} = {}
    /\ st.frontier # Null /\ st.mx[st.frontier].size < nb
DiscardPrefix(st0) == LET st == EnsureBT(st0) IN PutMerge([st EXCEPT !.frontier = Null], st.frontier)
DiscardWaits(st, n) ==
    /\ Reentrant /\ n > FixedMax
    /\ DiscardCase(st, RoundUp(n + MxHead, Q))
    /\ LET r == DiscardPrefix(st) IN LinkNeedsPage(r[1], r[2])

(* pieceGetMixed up to mxmemLink of the remainder of a split piece: <<state, remainder, piece taken>> *)
SplitCase(st0, nb) ==
    LET st == EnsureBT(st0)
        ge == {z \in DOMAIN st.mfl : z >= nb}
    IN ge # {} /\ Min(ge) > nb + Q
SplitPrefix(st0, nb) ==
    LET st  == EnsureBT(st0)
        z   == Min({y \in DOMAIN st.mfl : y >= nb})
        mi  == Head(st.mfl[z])
        st1 == [Unlink(st, mi) EXCEPT !.mx[mi].free = FALSE]
        sp  == Split(st1, mi, nb)
        r   == PutMerge([sp[1] EXCEPT !.mx[sp[2]].free = TRUE], sp[2])      \* the code sets the flag before piecePutMixed
    IN <<r[1], r[2], mi>>
SplitWaits(st, n) ==
    /\ Reentrant /\ SplitPoint /\ n > FixedMax
    /\ SplitCase(st, RoundUp(n + MxHead, Q))
    /\ LET r == SplitPrefix(st, RoundUp(n + MxHead, Q)) IN LinkNeedsPage(r[1], r[2])

(* pieces that are neither busy nor flagged free nor the frontier: the half-done ones *)
Exposed(st) == {m \in DOMAIN st.mx : /\ ~st.mx[m].free /\ m # st.frontier
                                      /\ st.sects[st.mx[m].sect].info[QmNo(st, st.mx[m].sect, m)].k = "F"}

---------------------------------------------------------------------------
(* The specification                                                       *)

SlotsFor(n) == IF n >= 2 THEN <<Null>> ELSE <<>>     \* one pointer field in blocks of >= 2 units

SInit == [pg |-> <<"PgMap">>, hint |-> 0, sects |-> <<>>, mx |-> <<>>,
          ffl |-> [i \in 1..Len(FixedSizes) |-> <<>>], mfl |-> <<>>,
          frontier |-> Null, bt |-> Null, dll |-> Null, dllx |-> {}, oom |-> FALSE, pend |-> NoPend, risk |-> FALSE]

Init == /\ s = SInit
        /\ cl = <<>>
        /\ roots = [k \in 1..NRoots |-> Null]
        /\ last = <<"Init", Null>>
        /\ wit = [op |-> "Init", tags |-> {}]
        /\ ops = 0

(* labels of the sub-cases taken, for the reachability probes (non-vacuity) *)
FreeLabel(st, a) ==
    LET sp == SectFor(st, a) IN
    IF st.sects[sp].fixed THEN "free:fixed"
    ELSE LET pc == a - MxHead
             p0 == MxPrev(st, pc)
             n0 == MxNext(st, pc)
             mp == p0 # Null /\ st.mx[p0].free
             mn == n0 # Null /\ st.mx[n0].free
         IN IF mp /\ mn THEN "free:mixed-merge-both" ELSE IF mp THEN "free:mixed-merge-prev"
            ELSE IF mn THEN "free:mixed-merge-next" ELSE "free:mixed-merge-none"
CollectLabels(st0, st1) ==
    LET gone == Busy(st0) \ Busy(st1) IN
    {IF gone = {} THEN "collect:nothing-reclaimed"
     ELSE IF Busy(st1) = {} THEN "collect:all-reclaimed" ELSE "collect:some-reclaimed-some-kept"}
    \cup (IF \E sp \in DOMAIN st0.sects : sp \notin DOMAIN st1.sects /\ st0.sects[sp].fixed
          THEN {"collect:fixed-section-returned"} ELSE {})
    \cup (IF \E sp \in DOMAIN st0.sects : sp \notin DOMAIN st1.sects /\ ~st0.sects[sp].fixed
          THEN {"collect:mixed-section-returned"} ELSE {})

Targets == {Null} \cup DOMAIN cl \cup {a + 1 : a \in {b \in DOMAIN cl : cl[b].req >= 2}}

IAlloc == \E c \in Codes, n \in ReqSizes, t \in Tags :
    LET r == StoAlloc(s, c, n) IN
    /\ ~Pending(s) /\ ~DiscardWaits(s, n) /\ ~SplitWaits(s, n)
    /\ ops < MaxOps /\ Cardinality(DOMAIN cl) < MaxLive
    /\ r.ok /\ ~r.st.oom
    /\ s' = r.st
    /\ cl' = Upd(cl, r.a, [req |-> n, tag |-> t, slots |-> SlotsFor(n)])
    /\ last' = <<"Alloc", r.a>>
    /\ wit' = [op |-> "Alloc", c |-> c, n |-> n, a |-> r.a, sz |-> r.size, t |-> t, tags |-> {r.path}]
    /\ ops' = ops + 1 /\ UNCHANGED roots

IFree == \E a \in DOMAIN cl :
    LET st1 == StoFree(s, a) IN
    /\ ~Pending(s) /\ ~FreeWaits(s, a)
    /\ ops < MaxOps /\ ~st1.oom
    /\ s' = st1
    /\ cl' = Del(cl, {a})
    /\ last' = <<"Free", a>>
    /\ wit' = [op |-> "Free", a |-> a, tags |-> {FreeLabel(s, a)}]
    /\ ops' = ops + 1 /\ UNCHANGED roots

IResize == \E a \in DOMAIN cl, n \in ReqSizes :
    LET r == StoResize(s, a, n) IN
    /\ ~Pending(s) /\ ~Reentrant        \* (stoResize = stoAlloc + stoFree: not split; left out of the re-entrant configurations)
    /\ ops < MaxOps
    /\ r.ok /\ ~r.st.oom
    /\ s' = r.st
    /\ cl' = Upd(Del(cl, {a}), r.b, [req |-> n, tag |-> cl[a].tag,
                                     slots |-> IF n >= 2 THEN (IF cl[a].slots = <<>> THEN <<Null>> ELSE cl[a].slots) ELSE <<>>])
    /\ last' = <<"Resize", r.b>>
    /\ wit' = [op |-> "Resize", a |-> a, n |-> n, b |-> r.b, sz |-> r.size, c |-> CodeOf(r.st, r.b),
                tags |-> IF r.b = a THEN {r.path} ELSE {"resize:move", r.path}]
    /\ ops' = ops + 1 /\ UNCHANGED roots

IRecode == GraphOps /\ \E a \in DOMAIN cl, c \in Codes :
    /\ ~Pending(s) /\ ops < MaxOps /\ c # CodeOf(s, a)
    /\ s' = StoRecode(s, a, c)
    /\ last' = <<"Recode", a>>
    /\ wit' = [op |-> "Recode", a |-> a, c |-> c, tags |-> {"recode"}]
    /\ ops' = ops + 1 /\ UNCHANGED <<cl, roots>>

IFill == GraphOps /\ \E a \in DOMAIN cl, t \in Tags :
    /\ ~Pending(s) /\ ops < MaxOps /\ t # cl[a].tag
    /\ cl' = [cl EXCEPT ![a].tag = t]
    /\ last' = <<"Fill", a>>
    /\ wit' = [op |-> "Fill", a |-> a, t |-> t, tags |-> {"fill"}]
    /\ ops' = ops + 1 /\ UNCHANGED <<s, roots>>

IWrite == GraphOps /\ \E a \in DOMAIN cl, x \in Targets :
    /\ ~Pending(s) /\ ops < MaxOps /\ Len(cl[a].slots) = 1 /\ cl[a].slots[1] # x
    /\ cl' = [cl EXCEPT ![a].slots[1] = x]
    /\ last' = <<"Write", a>>
    /\ wit' = [op |-> "Write", a |-> a, i |-> 1, x |-> x, tags |-> {"write"}]
    /\ ops' = ops + 1 /\ UNCHANGED <<s, roots>>

ISetRoot == GraphOps /\ \E k \in 1..NRoots, x \in Targets :
    /\ ~Pending(s) /\ ops < MaxOps /\ roots[k] # x
    /\ roots' = [roots EXCEPT ![k] = x]
    /\ last' = <<"SetRoot", Null>>
    /\ wit' = [op |-> "SetRoot", k |-> k, x |-> x, tags |-> {"setroot"}]
    /\ ops' = ops + 1 /\ UNCHANGED <<s, cl>>

ICollect ==
    LET st1 == StoGc(s, cl, roots) IN
    /\ ~Pending(s) /\ ops < MaxOps /\ DOMAIN cl # {} /\ ~st1.oom
    /\ (CutAtRisk => ~st1.risk)
    /\ s' = st1
    /\ cl' = [a \in Busy(st1) |-> cl[a]]
    /\ last' = <<"Collect", Null>>
    /\ wit' = [op |-> "Collect", S |-> Busy(st1), tags |-> CollectLabels(s, st1)]
    /\ ops' = ops + 1 /\ UNCHANGED roots

(* --- operations that stop at mxmemLink's page request (Reentrant) --- *)

IFreeBegin == \E a \in DOMAIN cl :
    /\ ~Pending(s) /\ ops < MaxOps /\ FreeWaits(s, a)
    /\ LET r == FreePrefix(s, a) IN
       /\ ~r[1].oom
       /\ s' = [r[1] EXCEPT !.mx[r[2]].free = FlagFirst, !.pend = [NoPend EXCEPT !.k = "free", !.m = r[2]]]
    /\ cl' = Del(cl, {a})
    /\ last' = <<"Free", a>>
    /\ wit' = [op |-> "Free", a |-> a, tags |-> {FreeLabel(s, a), "reent:free-waits"}]
    /\ ops' = ops + 1 /\ UNCHANGED roots

IAllocBeginDiscard == \E c \in Codes, n \in ReqSizes, t \in Tags :
    /\ ~Pending(s) /\ ops < MaxOps /\ Cardinality(DOMAIN cl) < MaxLive /\ DiscardWaits(s, n)
    /\ LET r == DiscardPrefix(s) IN
       /\ ~r[1].oom
       /\ s' = [r[1] EXCEPT !.mx[r[2]].free = FlagFirst,
                            !.pend = [NoPend EXCEPT !.k = "discard", !.m = r[2], !.c = c, !.n = n, !.t = t, !.nb = RoundUp(n + MxHead, Q)]]
    /\ wit' = [op |-> "Stutter", tags |-> {"reent:discard-waits"}]
    /\ ops' = ops + 1 /\ UNCHANGED <<cl, roots, last>>

IAllocBeginSplit == \E c \in Codes, n \in ReqSizes, t \in Tags :
    /\ ~Pending(s) /\ ops < MaxOps /\ Cardinality(DOMAIN cl) < MaxLive /\ SplitWaits(s, n) /\ ~DiscardWaits(s, n)
    /\ LET r == SplitPrefix(s, RoundUp(n + MxHead, Q)) IN
       /\ ~r[1].oom
       /\ s' = [r[1] EXCEPT !.pend = [NoPend EXCEPT !.k = "split", !.m = r[2], !.m2 = r[3], !.c = c, !.n = n, !.t = t,
                                                    !.nb = RoundUp(n + MxHead, Q)]]
    /\ wit' = [op |-> "Stutter", tags |-> {"reent:split-waits"}]
    /\ ops' = ops + 1 /\ UNCHANGED <<cl, roots, last>>

(* what surrounds the half-done piece when the nested collection starts: exported (PrintT) so that the *)
(* harness can set up the same situations in the real allocator                                      *)
PieceKind(st, x, M) ==
    IF x = Null THEN "none" ELSE IF x = st.frontier THEN "frontier" ELSE IF st.mx[x].free THEN "free"
    ELSE IF st.sects[st.mx[x].sect].info[QmNo(st, st.mx[x].sect, x)].k # "B" THEN "half-done"
    ELSE IF (x + MxHead) \in M THEN "live" ELSE "garbage"
GcPoint ==
    LET m  == s.pend.m
        sp == s.mx[m].sect
        M  == Marked(s, cl, roots)
        p  == MxPrev(s, m)
        n  == MxNext(s, m)
    IN <<"GCPOINT", s.pend.k, PieceKind(s, p, M), PieceKind(s, n, M),
         \E a \in BusyIn(s, sp) \cap M : (a - MxHead) \notin {p, n},
         s.frontier # Null /\ s.mx[s.frontier].sect = sp>>

(* pagesGet finds no free page (or hook H1b forces it): the collector runs on the half-done state *)
IPendGc ==
    LET st1 == StoGc(s, cl, roots) IN
    /\ Pending(s) /\ ~s.pend.gcd
    /\ (CutAtRisk => ~st1.risk /\ ~(st1.mx[s.pend.m].size \in DOMAIN st1.mfl))
    /\ ~st1.oom
    /\ PrintT(GcPoint)
    /\ s' = [st1 EXCEPT !.pend.gcd = TRUE]
    /\ cl' = [a \in Busy(st1) |-> cl[a]]
    /\ last' = <<"Collect", Null>>
    /\ wit' = [op |-> "Collect", S |-> Busy(st1), tags |-> CollectLabels(s, st1) \cup {"reent:nested-collect"}]
    /\ UNCHANGED <<roots, ops>>

(* the page arrives; mxmemLink and the rest of the operation.  mxmemLink looked the size up BEFORE it *)
(* asked for the page (btreeSearchEQ: absent); if the nested collection has linked a swept piece of   *)
(* that very size, the key is inserted a second time (known finding; recorded as risk, cut off).      *)
IPendEnd ==
    /\ Pending(s)
    /\ LET pd  == s.pend
           dup == s.mx[pd.m].size \in DOMAIN s.mfl
           st1 == PutFinish([s EXCEPT !.pend = NoPend, !.risk = @ \/ dup], pd.m)
       IN /\ (CutAtRisk => ~dup)
          /\ IF pd.k = "free"
             THEN /\ ~st1.oom
                  /\ s' = st1
                  /\ wit' = [op |-> "Stutter", tags |-> {"reent:free-ends"} \cup (IF pd.gcd THEN {"reent:free-ends-after-collect"} ELSE {})]
                  /\ UNCHANGED <<cl, last>>
             ELSE LET r  == IF pd.k = "discard" THEN PGMFrontier(st1, pd.nb, TRUE)
                            ELSE [ok |-> TRUE, m |-> pd.m2, st |-> st1, path |-> "mixed:tree-split"]
                      ra == AllocMixedDone(r, pd.c)
                  IN /\ ra.ok /\ ~ra.st.oom
                     /\ s' = ra.st
                     /\ cl' = Upd(cl, ra.a, [req |-> pd.n, tag |-> pd.t, slots |-> SlotsFor(pd.n)])
                     /\ last' = <<"Alloc", ra.a>>
                     /\ wit' = [op |-> "Alloc", c |-> pd.c, n |-> pd.n, a |-> ra.a, sz |-> ra.size, t |-> pd.t,
                                tags |-> {ra.path, "reent:alloc-ends"} \cup (IF pd.gcd THEN {"reent:alloc-ends-after-collect"} ELSE {})]
    /\ UNCHANGED <<roots, ops>>

Next == IAlloc \/ IFree \/ IResize \/ IRecode \/ IFill \/ IWrite \/ ISetRoot \/ ICollect
        \/ IFreeBegin \/ IAllocBeginDiscard \/ IAllocBeginSplit \/ IPendGc \/ IPendEnd

Spec == Init /\ [][Next]_vars

View == <<s, cl, roots, ops>>

---------------------------------------------------------------------------
(* Refinement: StoreImpl => StoreAbs                                       *)

LiveMap == [a \in Busy(s) |-> [req |-> cl[a].req, size |-> Usable(s, a), code |-> CodeOf(s, a),
                               tag |-> cl[a].tag, slots |-> cl[a].slots]]

A == INSTANCE StoreAbs WITH live <- LiveMap, Align <- 1, SlotBase <- 1, SlotBytes <- 1, MaxSlots <- 1

AbsStep ==
    LET w == wit' IN
    CASE w.op = "Alloc"   -> A!Alloc(w.c, w.n, w.a, w.sz, w.t)
      [] w.op = "Free"    -> A!Free(w.a)
      [] w.op = "Resize"  -> A!Resize(w.a, w.n, w.b, w.sz, w.c, TRUE)
      [] w.op = "Recode"  -> A!Recode(w.a, w.c, w.a)
      [] w.op = "Fill"    -> A!Fill(w.a, w.t)
      [] w.op = "Write"   -> A!Write(w.a, w.i, w.x)
      [] w.op = "SetRoot" -> A!SetRoot(w.k, w.x)
      [] w.op = "Collect" -> A!Collect(w.S)
      [] w.op = "Stutter" -> LiveMap' = LiveMap /\ UNCHANGED <<roots, last>>      \* an internal step of a split operation

Refines == [][AbsStep]_vars

AbsInv == A!Disjoint /\ A!AlignedAll /\ A!SizeOk /\ A!SlotsOk

ClientOk == DOMAIN cl = Busy(s)

---------------------------------------------------------------------------
(* stoAuditAll as an invariant                                             *)

AuditPages ==
    /\ \A i \in 1..NP(s) : s.pg[i] \in {"Free", "BusyFirst", "BusyFollow", "PgMap", "BTree", "DLL"}
    /\ \A sp \in DOMAIN s.sects :
          /\ PgKind(s, sp) = "BusyFirst"
          /\ sp + s.sects[sp].np <= NP(s)
          /\ \A j \in (sp + 1)..(sp + s.sects[sp].np - 1) : PgKind(s, j) = "BusyFollow"
          /\ (sp + s.sects[sp].np < NP(s) => PgKind(s, sp + s.sects[sp].np) # "BusyFollow")
    /\ \A p \in 0..(NP(s) - 1) : PgKind(s, p) = "BusyFirst" => p \in DOMAIN s.sects

AuditFixed ==
    /\ \A sp \in DOMAIN s.sects : s.sects[sp].fixed =>
          LET sc == s.sects[sp] IN
          /\ sc.q = FixedSizes[sc.cls]
          /\ sc.data + sc.cnt * sc.q = (sp + sc.np) * PgSize
          /\ \A i \in 0..(sc.cnt - 1) : sc.info[i].k \in {"F", "B"} /\ ~sc.info[i].mark
    /\ \A cls \in 1..Len(FixedSizes) :
          /\ \A i \in 1..Len(s.ffl[cls]) :
                LET pc == s.ffl[cls][i]
                    sp == SectFor(s, pc)
                IN /\ sp # Null
                   /\ s.sects[sp].fixed /\ s.sects[sp].cls = cls
                   /\ pc >= s.sects[sp].data
                   /\ (pc - s.sects[sp].data) % FixedSizes[cls] = 0
                   /\ QmNo(s, sp, pc) < s.sects[sp].cnt
                   /\ s.sects[sp].info[QmNo(s, sp, pc)].k = "F"
          \* the number of free quanta equals the length of the free list, and no piece is listed twice
          /\ Len(s.ffl[cls]) = Cardinality({<<sp, i>> \in UNION {{<<p, j>> : j \in 0..(s.sects[p].cnt - 1)} :
                                                  p \in {x \in DOMAIN s.sects : s.sects[x].fixed /\ s.sects[x].cls = cls}} :
                                              s.sects[sp].info[i].k = "F"})
          /\ Cardinality({s.ffl[cls][i] : i \in 1..Len(s.ffl[cls])}) = Len(s.ffl[cls])

PiecesOf(sp) == {m \in DOMAIN s.mx : s.mx[m].sect = sp}

(* the pieces of every mixed section tile it; neighbours agree about their sizes (what every walk *)
(* over a section -- audit, sweeper, marker -- relies on)                                         *)
AuditMixedShape ==
    /\ \A sp \in DOMAIN s.sects : ~s.sects[sp].fixed =>
          LET sc == s.sects[sp] IN
          /\ sc.q = Q
          /\ sc.data + sc.cnt * sc.q = (sp + sc.np) * PgSize
          /\ \A m \in PiecesOf(sp) :
                LET qi == QmNo(s, sp, m)
                    nq == s.mx[m].size \div Q
                IN /\ s.mx[m].size > 1 /\ s.mx[m].size % Q = 0 /\ s.mx[m].prev % Q = 0
                   /\ (m - sc.data) % Q = 0
                   /\ s.mx[m].first = (qi = 0)
                   /\ s.mx[m].last = (qi + nq = sc.cnt)
                   /\ qi + nq <= sc.cnt
                   /\ (~s.mx[m].first => (m - s.mx[m].prev) \in PiecesOf(sp)
                                          /\ s.mx[m - s.mx[m].prev].size = s.mx[m].prev)
                   /\ (~s.mx[m].last => (m + s.mx[m].size) \in PiecesOf(sp))
                   /\ ~sc.info[qi].mark
                   /\ sc.info[qi].k \in {"F", "B"}
                   /\ \A j \in (qi + 1)..(qi + nq - 1) : sc.info[j].k = "o" /\ ~sc.info[j].mark
          \* the pieces tile the section
          /\ sc.data \in PiecesOf(sp)
          /\ \A i \in 0..(sc.cnt - 1) : sc.info[i].k # "o" => (sc.data + i * Q) \in PiecesOf(sp)
    /\ (s.mfl # <<>> => s.bt # Null /\ s.dll # Null)
    /\ (s.bt # Null => PgKind(s, s.bt) = "BTree")
    /\ (s.dll # Null => PgKind(s, s.dll) = "DLL")
    /\ \A p \in s.dllx : PgKind(s, p) = "DLL"
    /\ (s.frontier # Null => s.frontier \in DOMAIN s.mx /\ ~s.mx[s.frontier].free)

(* a piece is tagged free exactly if its flag is set or it is the frontier *)
AuditMixedKinds ==
    \A m \in DOMAIN s.mx :
        LET sc == s.sects[s.mx[m].sect] IN
        IF s.mx[m].free \/ m = s.frontier THEN sc.info[QmNo(s, s.mx[m].sect, m)].k = "F"
        ELSE sc.info[QmNo(s, s.mx[m].sect, m)].k = "B"

(* the free index and the free flags agree: every entry is a flagged piece of that size, once; *)
(* every flagged piece is in the index                                                          *)
FlagIndexOk ==
    /\ \A z \in DOMAIN s.mfl :
          /\ s.mfl[z] # <<>>
          /\ \A i \in 1..Len(s.mfl[z]) :
                /\ s.mfl[z][i] \in DOMAIN s.mx
                /\ s.mx[s.mfl[z][i]].free
                /\ s.mx[s.mfl[z][i]].size = z
          /\ Cardinality({s.mfl[z][i] : i \in 1..Len(s.mfl[z])}) = Len(s.mfl[z])
    /\ \A m \in DOMAIN s.mx : s.mx[m].free =>
          /\ s.mx[m].size \in DOMAIN s.mfl
          /\ \E i \in 1..Len(s.mfl[s.mx[m].size]) : s.mfl[s.mx[m].size][i] = m

(* two adjacent pieces are never both free (free pieces are merged).  store.c's audit does not ask  *)
(* for this, and a nested collection can leave a swept neighbour next to the piece being freed.     *)
Coalesced == \A m \in DOMAIN s.mx : (s.mx[m].free /\ ~s.mx[m].last) => ~s.mx[m + s.mx[m].size].free

AuditMixed == AuditMixedShape /\ AuditMixedKinds /\ FlagIndexOk /\ (Reentrant \/ Coalesced)

(* ... and, when it gives a section back, that the section is one free, linked piece.  NOT        *)
(* guaranteed by store.c once a collection has started inside an operation (known finding):       *)
(* the re-entrant configuration cuts such collections off (CutAtRisk), the probe shows them.      *)
NoRisk == ~s.risk

(* stoAudit is called between public operations *)
AuditInv == ~Pending(s) => AuditPages /\ AuditFixed /\ AuditMixed /\ NoRisk

(* What stoGcSweepMixed relies on when a collection starts inside a public operation: the shape, *)
(* and that it may unlink every neighbour whose flag is set.                                      *)
SweeperOk == (Pending(s) /\ ~s.pend.gcd) => AuditPages /\ AuditFixed /\ AuditMixedShape /\ FlagIndexOk

ProbeInv == Probe \notin wit.tags

(* values for configuration files (a .cfg cannot spell a sequence) *)
FS12  == <<1, 2>>
FS124 == <<1, 2, 4>>
=============================================================================
