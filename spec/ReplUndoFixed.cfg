SPECIFICATION USpec
CONSTANTS
  Names = {"x", "y"}
  MaxSteps = 6
  Variant = "fixed"
INVARIANTS NeverRefused CleanTable
CHECK_DEADLOCK FALSE
