SPECIFICATION Spec
CONSTANTS
  Ks = {1, 2, 3, 7, 50, 1000}
  MaxRep = 3
  MaxBatch = 4
INVARIANTS TypeOK CompleteIsValid ForcedNeedsCollector ConcreteFaithful BaselineValid DiffSound StarCovers MachineInSpace BatchesOk ViewsSound PairsCover
CHECK_DEADLOCK FALSE
