SPECIFICATION Spec
CONSTANTS
  Ks = {1, 2, 3, 7, 50, 1000}
  MaxRep = 3
INVARIANTS TypeOK CompleteIsValid ForcedNeedsCollector ConcreteFaithful BaselineValid DiffSound StarCovers MachineInSpace
CHECK_DEADLOCK FALSE
