"""Shared driver of the program-level checks (C01, C02, C03, C09, C12, C16 ...): abstract programs are evaluated by
TLC (spec/AldorSem.tla), rendered, run through the real compiler on a set of routes/configurations, and every run is
compared with the behaviour the specification assigns.  The verdict vocabulary:

  compile-reject   the compiler printed an error for a program of the well-typed family
  compiler-fault   the compiler itself faulted (signal, "Program fault", "Bug:")
  link-fail        generated C did not compile/link
  javac-fail       generated Java was rejected by javac (route java)
  runtime-fault    the program died by a signal / interpreter fault although the specification says it terminates normally
  wrong-output     standard output differs from the specification's output
  exit-status      success/failure class of the exit status differs
  timeout          no termination within the bound
"""
import json
import os
import re
import sys

import vlib
import progrun

sys.path.insert(0, os.path.join(vlib.VERIF, "gen"))
import progen  # noqa: E402
import render  # noqa: E402
import reduce as reducer  # noqa: E402


def first_error(text):
    m = re.search(r"\((?:Fatal )?Error\) (.*)", text)
    if not m:
        return ""
    msg = m.group(1).strip()
    msg = re.sub(r"`[^']*'", "`_'", msg)       # identifiers / literals are not part of the signature
    return msg[:80]


def program_output(res):
    """Standard output of the program proper.  The interpreter lists its call stack on stdout when a program
    halts: a diagnostic, not program output."""
    out = res["out"]
    if res["phase"] == "interp":        # (also after a halt that the program caught and survived)
        out = re.sub(r"^(#\d+ \S+ in <[^>]*> at unit \[[^\]]*\]|\.\.\.)\n", "", out, flags=re.M)
    # a failed assertion names its unit, line and source text: the specification writes "@@" for them
    # (the generator keeps assertion conditions to one-line expressions: conditionals are pretty-printed over several lines)
    out = re.sub(r"^Assertion failed at [^\n]*\n", "Assertion failed at @@\n", out, flags=re.M)
    return out


def classify(res, exp):
    """Compare one run with the specification's behaviour. Returns None if it conforms, else (kind, signature)."""
    out, err = res["out"], res["err"]
    both = out + err
    want_ok = exp["status"] == "done"
    got_ok = res["rc"] == 0
    if res.get("timeout"):
        return ("timeout", res["phase"])
    faulted = "Program fault" in both or "Bug:" in both or (res["rc"] is not None and res["rc"] < 0)
    if exp["status"] == "halt" and not ("Program fault" in both or "Bug:" in both) and res["phase"] in ("interp", "run"):
        faulted = False       # a halted executable may end through abort(): the exit class is what counts
    if faulted and res["phase"] != "link":
        sig = "Bug" if "Bug:" in both else ("Program fault" if "Program fault" in both else "signal %d" % -res["rc"])
        what = ""
        if "Bug:" in both:
            # the text of the internal-bug report (numbers removed) tells the defects apart
            lines = [l.strip() for l in both[both.index("Bug:") + 4:].split("\n") if l.strip()]
            if lines:
                what = ": " + re.sub(r"\d+", "N", lines[0])[:60]
        return ("fault", "%s in %s%s" % (sig, res["phase"], what))
    if res["phase"] in ("compile", "interp") and not got_ok and re.search(r"\((?:Fatal )?Error\)", both) \
            and re.search(r'^"[^"]*", line \d+:|\[L\d+ C\d+\]', both, re.M):
        return ("compile-reject", first_error(both))
    if res["phase"] == "compile":
        return ("compile-reject", first_error(both) or "rc=%s" % res["rc"])
    if res["phase"] == "link":
        return ("link-fail", (err or out).strip().split("\n")[0][:80])
    if res["phase"] == "javac":
        m = re.search(r"error: (.*)", both)
        return ("javac-fail", (m.group(1) if m else both.strip().split("\n")[0])[:80])
    got_out = program_output(res)
    if got_out != exp["out"]:
        return ("wrong-output", "")
    if want_ok != got_ok:
        return ("exit-status", "expected %s got rc=%s" % (exp["status"], res["rc"]))
    return None


def shape_flags(prog):
    """Syntactic shape predicates used in known-finding keys (see known_findings.jsonl)."""
    flags = set()

    def walk(x, top_loop, top_if, in_fun, in_gen=False, nested=False):
        if isinstance(x, dict):
            e = x.get("e")
            if e in ("while", "for", "forin", "pfor") and not in_fun:
                if top_if:
                    flags.add("file-level-loop-in-if")
                top_loop = True
            if e in ("rset",) and top_loop and not in_fun:
                flags.add("record-store-in-file-level-loop")
            if e in ("if", "exit", "and", "or") and top_loop and not in_fun:
                flags.add("file-level-conditional-in-loop")
            if e == "if" and x.get("t") == "unit" and not in_fun:
                flags.add("file-level-if-statement")
                top_if = True
            if e == "exit" and any(isinstance(v, dict) and has_exit(v) for v in [x.get("c")]):
                flags.add("exit-in-exit-condition")
            if e == "list" and len(x.get("args", [])) == 1 and x["args"][0].get("e") == "if":
                flags.add("singleton-bracket-if")
            if e in ("for", "forin", "pfor") and x.get("filt") and x["filt"].get("e") != "none" \
                    and (assigned_names(x["body"]) & mentioned_names(x["filt"])):
                flags.add("loop-filter-mentions-assigned-variable")
            if e == "try" and in_gen:
                flags.add("try-in-generator")
            if e == "seq" and in_gen and any(isinstance(y, dict) and y.get("e") == "call" and 0 < y.get("fi", 0) <= len(prog["funs"])
                                             and isinstance(prog["funs"][y["fi"] - 1]["rt"], list)
                                             and prog["funs"][y["fi"] - 1]["rt"][0] == "tup" for y in x.get("es", [])[:-1] + x.get("es", [])[-1:]):
                flags.add("multi-value-call-discarded-in-generator")
            if e == "try" and nested and any(h.get("ps") for h in x.get("hs", [])):
                flags.add("payload-read-in-nested-try")
            if e == "try" and any(has_try(v) for k_, v in x.items() if k_ in ("body", "hs", "fin")):
                flags.add("nested-try")
            if e == "gen":
                in_gen = True
            if e in ("lam", "gen"):
                in_fun = True
                nested = False
            if e in ("if", "while", "for", "forin", "pfor", "and", "or", "exit"):
                nested = True       # (for the payload finding) the parts of a conditional / loop
            for v in x.values():
                walk(v, top_loop, top_if, in_fun, in_gen, nested)
        elif isinstance(x, list):
            for v in x:
                walk(v, top_loop, top_if, in_fun, in_gen, nested)

    def assigned_names(x):
        out = set()
        if isinstance(x, dict):
            if x.get("e") == "asg":
                out.add(x["x"])
            if x.get("e") == "masg":
                out.update(x["xs"])
            for v in x.values():
                out |= assigned_names(v)
        elif isinstance(x, list):
            for v in x:
                out |= assigned_names(v)
        return out

    def mentioned_names(x):
        out = set()
        if isinstance(x, dict):
            if x.get("e") == "var":
                out.add(x["x"])
            for v in x.values():
                out |= mentioned_names(v)
        elif isinstance(x, list):
            for v in x:
                out |= mentioned_names(v)
        return out

    def has_try(x):
        if isinstance(x, dict):
            if x.get("e") == "try":
                return True
            return any(has_try(v) for v in x.values())
        if isinstance(x, list):
            return any(has_try(v) for v in x)
        return False

    def has_exit(x):
        if isinstance(x, dict):
            if x.get("e") == "exit":
                return True
            return any(has_exit(v) for v in x.values())
        if isinstance(x, list):
            return any(has_exit(v) for v in x)
        return False
    def try_outside_lam(x):
        if isinstance(x, dict):
            if x.get("e") in ("lam", "gen"):
                return False
            if x.get("e") == "try":
                return True
            return any(try_outside_lam(v) for v in x.values())
        return isinstance(x, list) and any(try_outside_lam(v) for v in x)

    def lam_with_try(x):
        if isinstance(x, dict):
            if x.get("e") == "lam" and has_try(x.get("body")):
                return True
            return any(lam_with_try(v) for v in x.values())
        return isinstance(x, list) and any(lam_with_try(v) for v in x)
    rec_globals = set(d_["x"] for d_ in prog["top"] if d_.get("d") == "var" and isinstance(d_.get("t"), list) and d_["t"][0] == "rec")

    def top_alias(x):
        if isinstance(x, dict):
            if x.get("e") in ("lam", "gen"):
                return False
            if x.get("e") == "asg" and x["x"] in rec_globals and isinstance(x.get("v"), dict) and x["v"].get("e") == "var" \
                    and x["v"]["x"] in rec_globals and x["v"]["x"] != x["x"]:
                return True
            return any(top_alias(v) for v in x.values())
        return isinstance(x, list) and any(top_alias(v) for v in x)
    if any(top_alias(d_.get("x")) for d_ in prog["top"] if d_.get("d") == "stmt") or \
            any(d_.get("d") == "var" and isinstance(d_.get("init"), dict) and d_["init"].get("e") == "var" and d_["init"]["x"] in rec_globals
                for d_ in prog["top"]):
        flags.add("file-level-record-alias")
    for f in prog["top"]:
        walk(f, False, False, False)
    for f in prog["funs"]:
        walk(f["body"], False, False, True)
        if try_outside_lam(f["body"]) and lam_with_try(f["body"]):
            flags.add("try-and-closure-try")
        if f.get("fuel"):
            flags.add("recursive-function")
    return sorted(flags)


class Family(object):
    """A set of abstract programs with the behaviours TLC assigned to them."""

    def __init__(self, chk, progs, name, cfg="AldorSem", workers=None, timeout=900, module="AldorSem", delassert=False):
        self.chk = chk
        self.progs = {p["id"]: p for p in progs}
        self.name = name
        exp, res = progrun.tlc_eval(progs, workers=workers, timeout=timeout, cfg=cfg, module=module, delassert=delassert)
        if res.violated and res.violated != "NoStuck":
            raise vlib.MachineryError("AldorSem: unexpected violation %s\n%s" % (res.violated, res.trace_text[:2000]))
        if res.violated == "NoStuck":
            raise vlib.MachineryError("AldorSem: a generated program is stuck (generator or spec defect)\n%s" % res.trace_text[-3000:])
        chk.add_tlc("%s[%s]" % (module, name), res)
        self.exp = exp
        self.status_count = {}
        for e in exp.values():
            self.status_count[e["status"]] = self.status_count.get(e["status"], 0) + 1
        for i in getattr(res, "dropped_overflow", []):
            exp[i] = {"out": "", "status": "fuel", "atoms": []}
        missing = [i for i in self.progs if i not in exp]
        if missing:
            raise vlib.MachineryError("AldorSem produced no behaviour for %d programs (e.g. %s)" % (len(missing), missing[0]))
        self.replayable = [p for p in progs if exp[p["id"]]["status"] in ("done", "halt", "uncaught")]


def observation(res, cls, group_compile_failed, group_compile_timeout=False):
    """What an agreement property (C03) compares between routes: the program's output and exit class, or the fact that the
    compiler produced nothing to run (it faulted, rejected the program or did not terminate: one observation, because the
    same runaway ends as a time-out on one route and as a stack overflow on the other).  The one-step interpreter route
    reports a compiler failure in phase 'interp'; it is recognised through its sibling routes of the same level."""
    trouble = group_compile_failed or group_compile_timeout
    if res["phase"] == "compile":
        return ("compile-failed",)
    if res.get("timeout"):
        return ("compile-failed",) if trouble else ("timeout", "run")
    both = res["out"] + res["err"]
    if trouble and cls is not None and cls[0] in ("fault", "compile-reject") and res["phase"] == "interp" \
            and ("Compiler bug" in both or "(Error)" in both or "Program fault" in both or (res["rc"] is not None and res["rc"] < 0)):
        return ("compile-failed",)
    return (program_output(res), res["rc"] == 0)


def replay(chk, build, fam, routes, workdir, prop=None, reduce_budget=0, agree_group=None):
    """routes: list of (label, route, qlevel, extra_args).  Compares every (program, route) run with fam.exp.
    agree_group: optional function label -> group name, for properties that demand agreement BETWEEN routes (C03): the runs
    of one program in one group that all give the same observation are not reported even when that observation is not the
    specified one (the deviation is common to the routes: another property's subject); they are tallied under
    per_route["<agree>"]."""
    jobs = []
    meta = []
    for p in fam.replayable:
        for (label, route, q, xa) in routes:
            jobs.append((p, route, q, xa))
            meta.append((p, label))
    results = progrun.run_many(build, jobs, workdir)
    nbad = 0
    per_route = {}
    common = {}
    if agree_group is not None:
        groups = {}
        for (p, label), r in zip(meta, results):
            groups.setdefault((p["id"], agree_group(label)), []).append((label, r, classify(r, fam.exp[p["id"]])))
        for gk, runs in groups.items():
            if all(c is None for (_, _, c) in runs) or len(runs) < 2:
                continue
            cf = any(r["phase"] == "compile" and not r.get("timeout") for (_, r, _) in runs)
            ct = any(r["phase"] == "compile" and r.get("timeout") for (_, r, _) in runs)
            obs = set(observation(r, c, cf, ct) for (_, r, c) in runs)
            if len(obs) == 1:
                common[gk] = sorted(set(c[0] for (_, _, c) in runs if c))
    agree = per_route.setdefault("<agree>", {"groups_off_spec_but_agreeing": 0, "examples": []}) if agree_group is not None else None
    for gk, kinds in sorted(common.items()):
        agree["groups_off_spec_but_agreeing"] += 1
        if len(agree["examples"]) < 10:
            agree["examples"].append({"program": gk[0], "group": gk[1], "kinds": kinds})
    for (p, label), (pp, route, q, xa), r in zip(meta, jobs, results):
        e = fam.exp[p["id"]]
        c = classify(r, e)
        chk.case((fam.name, p["id"], label), nontrivial=len(e["out"]) > 0)
        st = per_route.setdefault(label, {"runs": 0, "bad": 0})
        st["runs"] += 1
        if c is None:
            continue
        if agree_group is not None and (p["id"], agree_group(label)) in common:
            continue
        st["bad"] += 1
        nbad += 1
        kind, sig = c
        key = {"kind": kind, "sig": sig, "shapes": shape_flags(p), "route": route,
               "opts": (["-Q%s" % q] if q is not None else []) + list(xa)}
        detail = {"program_id": p["id"], "route": label, "kind": kind, "sig": sig,
                  "expected_out": e["out"][:4000], "expected_status": e["status"],
                  "got_out": r["out"][:4000], "got_err": r["err"][:2000], "rc": r["rc"], "phase": r["phase"],
                  "source": render.render(p), "abstract": p}
        chk.violation("%s on %s: program %s %s" % (kind, label, p["id"], sig), detail, key=key)
    chk.traces += len(jobs)
    return per_route
