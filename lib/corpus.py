"""The pinned corpus as a family for Obs-style checks (C02, C03): the repository's own test programs are run under
several configurations and every (program, configuration) observation goes through the Obs monitor (spec/Obs.tla,
spec/TraceObs.tla): TLC decides whether the observation is a function of the program alone."""
import concurrent.futures
import hashlib
import json
import os
import shutil

import vlib

TESTDIR = os.path.join(vlib.REPO, "aldor/lib/axllib/test")


# Corpus programs whose behaviour the language does not define (they are bug reports kept in the test directory): the
# observation is a function of storage layout, not of the program.  Counted as "excluded" in the evidence.
EXCLUDE = {
    "bug1022": "prints a lexical that is never initialised (the bug report it was filed for): 0 on one configuration, garbage on others",
    "bug1113": "format(1, str, 1) writes into a string literal: read-only storage in a C executable, heap storage in the interpreter",
    "bug1176": "dispose! of a string literal: frees storage the program does not own",
    "bug1041": "recursion 5000 deep: the interpreter runs out of C stack (a resource limit of the host, not behaviour of the program)",
}


def names():
    return sorted(n for n in os.listdir(TESTDIR) if os.path.exists(os.path.join(TESTDIR, n, n + ".as")))


def digest(text, ok):
    h = hashlib.sha256((("OK\n" if ok else "FAIL\n") + text).encode(errors="replace")).digest()
    return [int.from_bytes(h[i:i + 3], "big") for i in range(0, 12, 3)]


def run_one(build, name, route, opts, wd, timeout=60):
    d = os.path.join(wd, "%s-%s-%s" % (name, route, "".join(c if c.isalnum() else "_" for c in "".join(opts))))
    os.makedirs(d, exist_ok=True)
    shutil.copy(os.path.join(TESTDIR, name, name + ".as"), d)
    src = name + ".as"
    if route == "interp":
        # two steps, so that the compiler's own diagnostics (warnings go to stdout) are not mixed with the program's output
        rc, out, err, to = vlib.aldor(build, list(opts) + ["-Fao", src], d, timeout=timeout)
        if rc != 0 or to or not os.path.exists(os.path.join(d, name + ".ao")):
            return {"phase": "compile", "rc": rc, "out": out.decode(errors="replace"), "timeout": to}
        rc, out, err, to = vlib.aldor(build, list(opts) + ["-laxllib", "-Ginterp", name + ".ao"], d, timeout=timeout)
        return {"phase": "interp", "rc": rc, "out": out.decode(errors="replace"), "timeout": to}
    rc, out, err, to = vlib.aldor(build, list(opts) + ["-Fc", "-Fmain", src], d, timeout=timeout)
    if rc != 0 or to:
        return {"phase": "compile", "rc": rc, "out": out.decode(errors="replace"), "timeout": to}
    cfiles = [f for f in os.listdir(d) if f.endswith(".c")]
    rc, out, err, to = vlib.link_c(build, d, cfiles, "t")
    if rc != 0 or to:
        return {"phase": "link", "rc": rc, "out": (out + err).decode(errors="replace"), "timeout": to}
    rc, out, err, to = vlib.run(["./t"], cwd=d, timeout=timeout)
    return {"phase": "run", "rc": rc, "out": out.decode(errors="replace"), "timeout": to}


def normalise(r):
    """What C02/C03 compare: the program's standard output and the success/failure class of the exit status.
    The interpreter's stack listing after a halt is a diagnostic (as in lib/progcheck.py)."""
    import re
    out = re.sub(r"^(#\d+ \S+ in <[^>]*> at unit \[[^\]]*\]|\.\.\.)\n", "", r["out"], flags=re.M)
    return out, (r["rc"] == 0)


def observe(chk, build, sample, configs, wd, prop, reference, group=None, dump=None):
    """configs: list of (label, route, opts).  reference: label of the configuration run twice to filter out programs
    that are not deterministic or do not run at all.  group(name, label) names the Obs input an observation belongs to
    (default: the program; C03 groups by (program, level), C02 by (program, route)): observations of one input must
    agree.  Returns stats; reports disagreements as violations."""
    if group is None:
        group = lambda n, label: n
    ref = [c for c in configs if c[0] == reference][0]
    nexcl = len([n for n in sample if n in EXCLUDE])
    sample = [n for n in sample if n not in EXCLUDE]
    with concurrent.futures.ThreadPoolExecutor(max_workers=vlib.NCPU) as ex:
        r1 = list(ex.map(lambda n: run_one(build, n, ref[1], ref[2], os.path.join(wd, "ref1")), sample))
        r2 = list(ex.map(lambda n: run_one(build, n, ref[1], ref[2], os.path.join(wd, "ref2")), sample))
    usable = []
    skipped = {"does-not-run": 0, "nondeterministic": 0}
    refout = {}
    for n, a, b in zip(sample, r1, r2):
        if a["timeout"] or a["phase"] in ("compile", "link") or "Program fault" in a["out"]:
            skipped["does-not-run"] += 1
        elif normalise(a) != normalise(b):
            skipped["nondeterministic"] += 1
        else:
            usable.append(n)
            refout[n] = a
    jobs = [(n, c) for n in usable for c in configs if c[0] != reference]
    with concurrent.futures.ThreadPoolExecutor(max_workers=vlib.NCPU) as ex:
        res = list(ex.map(lambda j: run_one(build, j[0], j[1][1], j[1][2], os.path.join(wd, "cfg")), jobs))
    events = []
    detail = {}
    for n in usable:
        o, ok = normalise(refout[n])
        events.append({"ev": "Observe", "input": group(n, reference), "cfg": reference, "digest": digest(o, ok)})
        detail[(group(n, reference), reference)] = (n, o, ok, refout[n])
    unobserved = {"timeout": 0, "does-not-build": 0}
    for (n, c), r in zip(jobs, res):
        # A time-out on this shared machine, or a program that cannot be built on a route with the plain command line
        # (foreign code, extra libraries), is not an observation of the program's behaviour: counted, not compared.
        # (Non-termination of the compiler is looked for with the generated family, whose programs are small.)
        if r["timeout"]:
            unobserved["timeout"] += 1
            continue
        if r["phase"] in ("compile", "link"):
            if r["phase"] == "compile" and ("Program fault" in r["out"] or "Bug:" in r["out"]):
                # the compiler itself faulted under this configuration: that is behaviour of the configuration
                r = dict(r, out="<compiler fault>\n", rc=1)
            else:
                unobserved["does-not-build"] += 1
                continue
        o, ok = normalise(r)
        events.append({"ev": "Observe", "input": group(n, c[0]), "cfg": c[0], "digest": digest(o, ok)})
        detail[(group(n, c[0]), c[0])] = (n, o, ok, r)
        chk.case(("corpus", n, c[0]))
    trace = os.path.join(wd, "obs.ndjson")
    vlib.write_ndjson(trace, events)
    tr = vlib.tlc("TraceObs", "TraceObsAll", workers=1, env={"TRACE": trace}, timeout=900)
    chk.add_tlc("TraceObs[corpus]", tr)
    if not any(isinstance(l, str) and l.startswith("SUMMARY") for l in tr.printed):
        raise vlib.MachineryError("TraceObs did not reach the end of the corpus trace:\n" + tr.out[-1500:])
    chk.traces += 1
    nbad = 0
    for l in tr.printed:
        if isinstance(l, str) and l.startswith("DISAGREE"):
            # DISAGREE <<event, input, cfg, first cfg>>
            parts = [p.strip().strip('"') for p in l[l.index("<<") + 2:l.rindex(">>")].split(",")]
            g, cfg, first = parts[1], parts[2], parts[3]
            n, o1, ok1, _ = detail[(g, first)]
            n, o2, ok2, r2_ = detail[(g, cfg)]
            nbad += 1
            chk.violation("corpus program %s: observation under %s differs from %s" % (n, cfg, first),
                          {"program": n, "cfg": cfg, "reference": first, "out": o2[:3000], "ok": ok2,
                           "reference_out": o1[:3000], "reference_ok": ok1, "phase": r2_["phase"]},
                          key={"kind": "corpus-disagree", "program": n, "cfg": cfg})
    if dump:
        with open(dump, "w") as f:
            json.dump([{"program": v[0], "input": k[0], "cfg": k[1], "ok": v[2], "out": v[1][:2000]} for k, v in sorted(detail.items())], f)
    return {"sampled": len(sample) + nexcl, "excluded_undefined_behaviour": nexcl, "usable": len(usable), "skipped": skipped, "unobserved": unobserved,
            "observations": len(events), "disagreements": nbad}
