"""Shared machinery for the /verif checks.

Nothing in this file decides a property.  It builds the compiler from /repo's
working tree (vbuild), runs TLC on the explicit TLA+ modules under /verif/spec
(tlc), runs the compiler / interpreter / generated executables, and writes the
evidence file.  Every accept/reject decision is made by a TLC run.
"""
import hashlib
import json
import os
import re
import shutil
import subprocess
import sys
import tempfile
import time

VERIF = os.path.dirname(os.path.dirname(os.path.abspath(__file__)))
REPO = os.environ.get("VERIF_REPO", "/repo")
# VERIF_SRC lets a scratch worktree of /repo supply the *sources* (self-tests, seeded changes)
# while libraries and tools still come from /repo's build products.
SRC = os.environ.get("VERIF_SRC", os.path.join(REPO, "aldor/aldor/src"))
REPO_SRC = os.path.join(REPO, "aldor/aldor/src")
TOOLS = os.path.join(REPO, "aldor/aldor/tools/unix")
SPEC = os.path.join(VERIF, "spec")
GUARD = "ALDOR_VERIF"
CACHE_ROOT = os.environ.get("VERIF_CACHE", "/var/tmp/aldor-verif-cache")
TLA_CP = "/opt/veriftools/tla/tla2tools.jar:/opt/veriftools/tla/CommunityModules-deps.jar"
NCPU = os.cpu_count() or 4


class MachineryError(Exception):
    """Raised when the harness itself fails (exit status 2, never a VIOLATION)."""


# --------------------------------------------------------------------------
# scratch directories (outside /repo and /verif, removed when the check ends)

_scratch_dirs = []


def scratch(prefix="vf"):
    base = os.environ.get("VERIF_TMP", "/var/tmp/aldor-verif-scratch")
    os.makedirs(base, exist_ok=True)
    d = tempfile.mkdtemp(prefix="%s-%d-" % (prefix, os.getpid()), dir=base)
    _scratch_dirs.append(d)
    return d


def cleanup_scratch():
    for d in _scratch_dirs:
        shutil.rmtree(d, ignore_errors=True)
    del _scratch_dirs[:]


# --------------------------------------------------------------------------
# vbuild: compile the compiler (and the C run-time) from /repo's working tree

def _am_sources(am_text, var):
    m = re.search(r"^%s\s*=\s*((?:.*\\\n)*.*)$" % re.escape(var), am_text, re.M)
    if not m:
        raise MachineryError("Makefile.am: no %s" % var)
    return [w for w in m.group(1).replace("\\\n", " ").split() if w.endswith(".c")]


RUNTIME_C = ["aldorlib.c", "btree.c", "compopt.c", "dword.c", "foam_c.c", "foam_cfp.c",
             "foamopt.c", "opsys.c", "output.c", "stdc.c", "store.c", "table.c", "timer.c",
             "util.c", "xfloat.c", "bigint.c", "foam_i.c"]


def _hash_tree():
    h = hashlib.sha256()
    names = []
    for root, dirs, files in os.walk(SRC):
        dirs[:] = [d for d in dirs if d in ("java",)] if root == SRC else []
        for f in files:
            if f.endswith((".c", ".h", ".typ", ".am", ".msg", ".z")) and not f.endswith(("-test.c",)):
                names.append(os.path.join(root, f))
    rt = os.path.join(REPO, "aldor/aldor/lib/libfoam/al/runtime.c")
    if os.path.exists(rt):
        names.append(rt)
    for n in sorted(names):
        h.update(n.encode())
        with open(n, "rb") as fh:
            h.update(fh.read())
    return h.hexdigest()[:20]


def _generate_sources(gen):
    """axl_y.c and comsgdb.[ch] are build products of axl.z / comsgdb.msg: regenerate them from the
    working tree with the repository's own tools so that an edit to the grammar or the message
    database is seen; fall back to the copies in /repo's build tree if a tool is missing."""
    os.makedirs(gen)
    ok = False
    msgcat = os.path.join(TOOLS, "msgcat")
    if os.path.exists(msgcat):
        shutil.copy(os.path.join(SRC, "comsgdb.msg"), os.path.join(gen, "comsgdb.msg"))
        r = subprocess.run([msgcat, "-h", "-c", "-detab", "comsgdb"], cwd=gen, stdout=subprocess.PIPE, stderr=subprocess.STDOUT)
        ok = r.returncode == 0 and os.path.exists(os.path.join(gen, "comsgdb.c"))
    if not ok:
        for f in ("comsgdb.c", "comsgdb.h"):
            shutil.copy(os.path.join(REPO_SRC, f), os.path.join(gen, f))
    ok = False
    zacc = os.path.join(TOOLS, "zacc")
    if os.path.exists(zacc):
        r = subprocess.run([zacc, "-p", "-y", "axl_y.yt", "-c", "axl_y.c", os.path.join(SRC, "axl.z")], cwd=gen,
                           stdout=subprocess.PIPE, stderr=subprocess.STDOUT)
        if r.returncode == 0 and os.path.exists(os.path.join(gen, "axl_y.c")):
            r2 = subprocess.run(["sed", "-f", os.path.join(SRC, "axl_y.sed"), "axl_y.c"], cwd=gen, stdout=subprocess.PIPE)
            if r2.returncode == 0 and r2.stdout:
                open(os.path.join(gen, "axl_y.c"), "wb").write(r2.stdout)
                ok = True
    if not ok:
        shutil.copy(os.path.join(REPO_SRC, "axl_y.c"), os.path.join(gen, "axl_y.c"))


def _run_many(cmds, cwd):
    """Run shell command lines in parallel, fail on the first error."""
    procs = []
    errs = []
    maxp = NCPU

    def reap(block):
        for p, c in list(procs):
            if block:
                p.wait()
            if p.poll() is not None:
                procs.remove((p, c))
                if p.returncode != 0:
                    errs.append((c, p.stderr.read().decode(errors="replace")))
    for c in cmds:
        while len(procs) >= maxp:
            reap(False)
            if len(procs) >= maxp:
                time.sleep(0.005)
        procs.append((subprocess.Popen(c, cwd=cwd, stdout=subprocess.DEVNULL, stderr=subprocess.PIPE), c))
    while procs:
        reap(True)
    if errs:
        raise MachineryError("build failed: %s\n%s" % (" ".join(errs[0][0]), errs[0][1][-3000:]))


def vbuild(guard=True, extra_cflags=(), tag=""):
    """Build aldor + libs + C runtime from /repo's working tree; cached by content hash.

    Returns a dict: dir, aldor, libs (list of .a in link order), rt (libfoam-fresh.a),
    objdir.  guard=False builds without -DALDOR_VERIF (used by self-tests only).
    """
    key = _hash_tree() + ("g" if guard else "n") + tag + hashlib.sha1(" ".join(extra_cflags).encode()).hexdigest()[:6]
    os.makedirs(CACHE_ROOT, exist_ok=True)
    d = os.path.join(CACHE_ROOT, key)
    info = {"dir": d, "aldor": os.path.join(d, "aldor"),
            "libs": [os.path.join(d, l) for l in ("libphase.a", "libstruct.a", "libgen.a", "libport.a")],
            "rt": os.path.join(d, "libfoam-fresh.a"), "objdir": os.path.join(d, "obj"), "key": key,
            "view": os.path.join(d, "srcview")}
    if os.path.exists(os.path.join(d, "OK")):
        os.utime(os.path.join(d, "OK"))
        return info
    # keep the cache small (an entry is ~35 MB): entries beyond the 12 most recently used are removed, but never one that
    # was used in the last 3 hours (a thorough tier may run that long while other checks build other trees)
    def used(e):
        ok = os.path.join(CACHE_ROOT, e, "OK")
        try:
            return os.path.getmtime(ok)
        except OSError:
            return os.path.getmtime(os.path.join(CACHE_ROOT, e))
    ents = sorted((e for e in os.listdir(CACHE_ROOT)), key=used)
    for e in ents[:-12]:
        if time.time() - used(e) > 10800:
            shutil.rmtree(os.path.join(CACHE_ROOT, e), ignore_errors=True)
    tmp = d + ".tmp%d" % os.getpid()
    shutil.rmtree(tmp, ignore_errors=True)
    os.makedirs(os.path.join(tmp, "obj/java"))
    os.makedirs(os.path.join(tmp, "rt"))
    gen = os.path.join(tmp, "gen")
    _generate_sources(gen)
    # A view of the source directory in which the generated files (comsgdb.[ch], axl_y.c) are the freshly
    # generated ones: #include "comsgdb.h" is looked up in the directory of the including file first, so the
    # stale build products lying in the source directory would otherwise shadow them.
    view = os.path.join(tmp, "srcview")
    os.makedirs(os.path.join(view, "java"))
    generated = set(os.listdir(gen))
    for sub in ("", "java"):
        d0 = os.path.join(SRC, sub)
        for f in os.listdir(d0):
            src = os.path.join(d0, f)
            if os.path.isdir(src) or f.endswith((".o", ".a", ".i", ".s")):
                continue
            if sub == "" and f in generated:
                src = os.path.join(gen, f)
            os.symlink(src, os.path.join(view, sub, f))
    for f in generated:
        if not os.path.exists(os.path.join(view, f)):
            os.symlink(os.path.join(gen, f), os.path.join(view, f))
    am = open(os.path.join(SRC, "Makefile.am")).read()
    groups = {g: _am_sources(am, "lib%s_a_SOURCES" % g) for g in ("port", "gen", "struct", "phase")}
    groups["aldor"] = _am_sources(am, "aldor_SOURCES")
    cflags = ["-std=c99", "-O0", "-g", "-w", "-I.", "-I" + REPO_SRC, "-DVCSVERSION=\"verif\""] + list(extra_cflags)
    if guard:
        cflags.append("-D" + GUARD)
    cmds = []
    seen = set()
    for g, srcs in groups.items():
        for s in srcs:
            if s in seen:
                continue
            seen.add(s)
            sp = s
            cmds.append(["gcc"] + cflags + ["-c", sp, "-o", os.path.join(tmp, "obj", s[:-2] + ".o")])
    for s in RUNTIME_C:
        cmds.append(["gcc"] + cflags + ["-DFOAM_RTS", "-c", s, "-o", os.path.join(tmp, "rt", s[:-2] + ".o")])
    rtc = os.path.join(REPO, "aldor/aldor/lib/libfoam/al/runtime.c")
    cmds.append(["gcc"] + cflags + ["-DFOAM_RTS", "-c", rtc, "-o", os.path.join(tmp, "rt", "runtime.o")])
    _run_many(cmds, view)
    for g in ("port", "gen", "struct", "phase"):
        objs = [os.path.join(tmp, "obj", s[:-2] + ".o") for s in groups[g]]
        subprocess.check_call(["ar", "rcs", os.path.join(tmp, "lib%s.a" % g)] + objs)
    subprocess.check_call(["ar", "rcs", os.path.join(tmp, "libfoam-fresh.a")] +
                          [os.path.join(tmp, "rt", s[:-2] + ".o") for s in RUNTIME_C] + [os.path.join(tmp, "rt", "runtime.o")])
    objs = [os.path.join(tmp, "obj", s[:-2] + ".o") for s in groups["aldor"]]
    subprocess.check_call(["gcc", "-o", os.path.join(tmp, "aldor")] + objs +
                          [os.path.join(tmp, l) for l in ("libphase.a", "libstruct.a", "libgen.a", "libport.a")] + ["-lm"] +
                          [f for f in extra_cflags if f.startswith("-fsanitize")])     # sanitizer run-times are linked by the same flag
    open(os.path.join(tmp, "OK"), "w").close()
    try:
        os.rename(tmp, d)
    except OSError:
        shutil.rmtree(tmp, ignore_errors=True)  # a concurrent build won
    return info


def harness_build(name, sources, build, extra=(), defines=(), libs=True, replace_objs=None):
    """Compile a C harness from /verif/harness against the objects of `build`.
    The binary is cached inside the build's cache directory keyed by the harness text."""
    h = hashlib.sha1()
    for s in sources:
        with open(s, "rb") as fh:
            h.update(fh.read())
    h.update(repr((extra, defines, replace_objs)).encode())
    out = os.path.join(build["dir"], "h-%s-%s" % (name, h.hexdigest()[:10]))
    if os.path.exists(out):
        return out
    inc = build.get("view") if build.get("view") and os.path.isdir(build["view"]) else SRC
    cmd = ["gcc", "-std=gnu99", "-O0", "-g", "-w", "-I" + inc, "-I" + SRC, "-D" + GUARD] + ["-D" + x for x in defines]
    cmd += ["-o", out + ".tmp"] + list(sources) + list(extra)
    if libs:
        cmd += build["libs"]
    cmd += ["-lm"]
    r = subprocess.run(cmd, stdout=subprocess.PIPE, stderr=subprocess.STDOUT)
    if r.returncode != 0:
        raise MachineryError("harness build failed: %s\n%s" % (" ".join(cmd), r.stdout.decode()[-4000:]))
    os.rename(out + ".tmp", out)
    return out


# --------------------------------------------------------------------------
# running the compiler

ALDOR_BASE_ARGS = ["-Nfile=" + os.path.join(SRC, "aldor.conf"),
                   "-I" + os.path.join(REPO, "aldor/lib/axllib/include"),
                   "-Y" + os.path.join(REPO, "aldor/lib/axllib/src"),
                   "-Y" + os.path.join(REPO, "aldor/aldor/lib/libfoam/al")]


def run(cmd, cwd=None, timeout=60, stdin=None, env=None):
    """Run a command; returns (rc, stdout_bytes, stderr_bytes, timed_out). rc<0 = signal."""
    try:
        p = subprocess.run(cmd, cwd=cwd, input=stdin, stdout=subprocess.PIPE, stderr=subprocess.PIPE,
                           timeout=timeout, env=env)
        return p.returncode, p.stdout, p.stderr, False
    except subprocess.TimeoutExpired as e:
        return None, e.stdout or b"", e.stderr or b"", True


def aldor(build, args, cwd, timeout=120, stdin=None, env=None):
    return run([build["aldor"]] + ALDOR_BASE_ARGS + list(args), cwd=cwd, timeout=timeout, stdin=stdin, env=env)


def link_c(build, cwd, cfiles, exe, timeout=120):
    cmd = ["gcc", "-w", "-O0", "-I" + SRC, "-o", exe] + list(cfiles) + \
          [os.path.join(REPO, "aldor/lib/axllib/src/libaxllib.a"), build["rt"], "-lm"]
    return run(cmd, cwd=cwd, timeout=timeout)


# --------------------------------------------------------------------------
# TLC

class TlcResult(object):
    def __init__(self):
        self.rc = None
        self.out = ""
        self.states = 0        # states generated
        self.distinct = 0
        self.violated = None   # name of violated invariant/property, or None
        self.error = None      # machinery-level error text
        self.printed = []      # PrintT'ed values (strings)
        self.coverage = {}     # action -> (taken, generated)  (if -coverage)
        self.wall = 0.0
        self.diameter = None
        self.trace_text = ""

    def ok(self):
        return self.rc == 0 and self.violated is None and self.error is None


def tlc(module, cfg=None, workers=None, simulate=None, depth=None, coverage=False, env=None,
        timeout=1100, cwd=None, xss="512m", xmx="12g", seed=None, deadlock=None, extra=(), dfs=False):
    """Run TLC on spec/<module>.tla with spec/<cfg>.cfg.  Returns TlcResult."""
    cwd = cwd or SPEC
    cfg = cfg or module
    meta = scratch("tlc")
    cmd = ["java", "-XX:+UseParallelGC", "-Xss" + xss, "-Xmx" + xmx]
    if dfs:
        cmd.append("-Dtlc2.tool.queue.IStateQueue=StateDeque")
    cmd += ["-cp", TLA_CP, "tlc2.TLC", "-noGenerateSpecTE", "-metadir", meta, "-config", cfg + ".cfg" if not cfg.endswith(".cfg") else cfg]
    cmd += ["-workers", str(workers or NCPU)]
    if simulate:
        cmd += ["-simulate", "num=%d" % simulate]
    if depth:
        cmd += ["-depth", str(depth)]
    if coverage:
        cmd += ["-coverage", "1"]
    if seed is not None:
        cmd += ["-seed", str(seed)]
    if deadlock is False:
        cmd += ["-deadlock"]
    cmd += list(extra)
    cmd += [module + ".tla" if not module.endswith(".tla") else module]
    e = dict(os.environ)
    e.pop("JAVA_TOOL_OPTIONS", None)
    if env:
        e.update(env)
    t0 = time.time()
    res = TlcResult()
    try:
        p = subprocess.run(cmd, cwd=cwd, stdout=subprocess.PIPE, stderr=subprocess.STDOUT, timeout=timeout, env=e)
        res.rc = p.returncode
        res.out = p.stdout.decode(errors="replace")
    except subprocess.TimeoutExpired as ex:
        res.rc = None
        res.out = (ex.stdout or b"").decode(errors="replace")
        res.error = "TLC timeout after %ds" % timeout
    res.wall = time.time() - t0
    shutil.rmtree(meta, ignore_errors=True)
    out = res.out
    m = None
    for m in re.finditer(r"(\d+) states generated, (\d+) distinct states found", out):
        pass
    if m:
        res.states, res.distinct = int(m.group(1)), int(m.group(2))
    m = re.search(r"The depth of the complete state graph search is (\d+)", out)
    if m:
        res.diameter = int(m.group(1))
    m = re.search(r"Error: Invariant (\S+) is violated", out)
    if m:
        res.violated = m.group(1)
    m2 = re.search(r"Error: Action property (\S+) is violated|Error: Temporal properties were violated|Error: The postcondition (\S+)? ?.*(false|violated)", out)
    if m2 and not res.violated:
        res.violated = m2.group(1) or m2.group(2) or "property"
    if re.search(r"Error: Deadlock reached", out) and not res.violated:
        res.violated = "Deadlock"
    if res.violated is None and res.rc not in (0, None):
        res.error = "TLC exit %s: %s" % (res.rc, _first_error(out))
    if res.violated is None and re.search(r"^Error: ", out, re.M) and res.error is None:
        res.error = _first_error(out)
    for line in out.splitlines():
        if line.startswith('"') and line.endswith('"'):
            try:
                res.printed.append(json.loads(line))
            except ValueError:
                res.printed.append(_tla_unquote(line))
    if coverage:
        for m in re.finditer(r"^<(\w+) line .*?>: (\d+):(\d+)", out, re.M):
            t, g = int(m.group(2)), int(m.group(3))
            a = res.coverage.get(m.group(1), (0, 0))
            res.coverage[m.group(1)] = (a[0] + t, a[1] + g)
    i = out.find("Error:")
    if i >= 0:
        res.trace_text = out[i:i + 6000]
    return res


def _first_error(out):
    i = out.find("Error:")
    return out[i:i + 1500] if i >= 0 else out[-1500:]


def _tla_unquote(s):
    s = s[1:-1]
    return s.replace('\\"', '"').replace("\\\\", "\\")


def sany(module, cwd=None):
    r = subprocess.run(["java", "-cp", TLA_CP, "tla2sany.SANY", module + ".tla"], cwd=cwd or SPEC,
                       stdout=subprocess.PIPE, stderr=subprocess.STDOUT)
    return r.returncode, r.stdout.decode()


# --------------------------------------------------------------------------
# TLA+ value rendering (for generated constant modules / traces)

def tla(v):
    """Render a Python value as a TLA+ expression."""
    if isinstance(v, bool):
        return "TRUE" if v else "FALSE"
    if isinstance(v, int):
        return str(v)
    if isinstance(v, str):
        return json.dumps(v)
    if isinstance(v, (list, tuple)):
        return "<<" + ", ".join(tla(x) for x in v) + ">>"
    if isinstance(v, (set, frozenset)):
        return "{" + ", ".join(tla(x) for x in sorted(v, key=repr)) + "}"
    if isinstance(v, dict):
        if not v:
            return "<<>>"
        return "[" + ", ".join("%s |-> %s" % (k, tla(x)) for k, x in v.items()) + "]"
    raise TypeError(type(v))


def write_ndjson(path, events):
    with open(path, "w") as fh:
        for e in events:
            fh.write(json.dumps(e, separators=(",", ":")) + "\n")


# --------------------------------------------------------------------------
# evidence + findings + reporting

class Check(object):
    """One run of one property check."""

    def __init__(self, pid, tier, level="model_checking"):
        self.pid = pid
        self.tier = tier
        self.level = level
        self.seed = int(os.environ.get("VERIF_SEED", "20261004"))
        self.t0 = time.time()
        self.states = 0
        self.transitions = 0
        self.traces = 0
        self.evaluations = 0
        self.distinct = set()
        self.distinct_count_extra = 0
        self.samples = []
        self.assumptions = []
        self.extra = {}
        self.violations = []        # (what, replay_path)
        self.known_hits = []
        self.rule = ""
        self.exhaustive = False
        self.tlc_runs = []
        self.findings = load_findings(pid)
        d = os.path.join(os.environ.get("VERIF_REPLAY_DIR", os.path.join(VERIF, "replays")), pid)
        if os.path.isdir(d):
            for f in os.listdir(d):
                if f.startswith(tier + "-"):
                    os.unlink(os.path.join(d, f))

    def add_tlc(self, name, res):
        if res.error:
            raise MachineryError("TLC run %s failed: %s" % (name, res.error))
        self.states += res.distinct
        self.transitions += res.states
        ent = {"name": name, "generated": res.states, "distinct": res.distinct, "wall_s": round(res.wall, 2)}
        if res.coverage:
            ent["coverage"] = {k: list(v) for k, v in res.coverage.items()}
        self.tlc_runs.append(ent)

    def sample(self, s, cap=6):
        if len(self.samples) < cap:
            self.samples.append(s)

    def case(self, key, nontrivial=True):
        self.evaluations += 1
        if nontrivial:
            self.distinct.add(key if isinstance(key, (str, int, tuple)) else json.dumps(key, sort_keys=True))

    def violation(self, what, detail, key=None):
        """Report a violation.  `key` identifies it for the known-findings file."""
        for f in self.findings:
            if f.get("status") == "open" and key is not None and finding_matches(f, key):
                if f["key"] not in [k["key"] for k in self.known_hits]:
                    self.known_hits.append(f)
                return False
        d = os.path.join(os.environ.get("VERIF_REPLAY_DIR", os.path.join(VERIF, "replays")), self.pid)
        os.makedirs(d, exist_ok=True)
        path = os.path.join(d, "%s-%d.json" % (self.tier, len(self.violations)))
        with open(path, "w") as fh:
            json.dump({"property": self.pid, "what": what, "key": key, "detail": detail}, fh, indent=1, default=str)
        self.violations.append((what, path))
        return True

    def finish(self):
        wall = time.time() - self.t0
        nd = len(self.distinct) + self.distinct_count_extra
        cov = {"states": self.states, "transitions": self.transitions,
               "traces_validated_against_impl": self.traces,
               "samples": self.samples or ["(none)"],
               "evaluations": self.evaluations, "distinct_nontrivial": nd,
               "rule": self.rule, "exhaustive": self.exhaustive, "tlc_runs": self.tlc_runs}
        cov.update(self.extra)
        ev = {"property_id": self.pid, "tier": self.tier, "seed": self.seed, "level": self.level,
              "coverage": cov, "assumptions": self.assumptions, "wall_s": round(wall, 2),
              "violations": len(self.violations)}
        evdir = os.environ.get("VERIF_EVIDENCE_DIR", os.path.join(VERIF, "evidence"))   # (seeded-change trials write elsewhere)
        os.makedirs(evdir, exist_ok=True)
        with open(os.path.join(evdir, self.pid + ".json"), "w") as fh:
            json.dump(ev, fh, indent=1, default=str)
        for f in self.known_hits:
            print("KNOWN-FINDING: property=%s %s" % (self.pid, f["what"]))
        for what, path in self.violations[:20]:
            print("VIOLATION property=%s replay=%s" % (self.pid, path))
            print("  " + what)
        print("%s %s: %s  tlc_states=%d traces=%d evaluations=%d distinct=%d wall=%.1fs" %
              (self.pid, self.tier, "VIOLATED" if self.violations else "held",
               self.states, self.traces, self.evaluations, nd, wall))
        return 1 if self.violations else 0


def load_findings(pid):
    path = os.path.join(VERIF, "known_findings.jsonl")
    out = []
    if os.path.exists(path):
        for line in open(path):
            line = line.strip()
            if line and not line.startswith("#"):
                f = json.loads(line)
                if f.get("property") == pid:
                    out.append(f)
    return out


def finding_matches(f, key):
    """A finding's key is a dict; it matches a violation key when every field of the
    finding's key equals the violation's field (the violation may carry more fields)."""
    fk = f["key"]
    if isinstance(fk, dict) and isinstance(key, dict):
        def m(k, v):
            if isinstance(v, dict) and "contains" in v:
                return v["contains"] in (key.get(k) or [])
            if isinstance(v, dict) and "prefix" in v:
                return str(key.get(k, "")).startswith(v["prefix"])
            return key.get(k) == v
        return all(m(k, v) for k, v in fk.items())
    return fk == key
