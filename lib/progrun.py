"""Evaluate abstract programs with TLC (spec/AldorSem.tla) and run their renderings through the real compiler."""
import json
import os
import sys

import vlib

sys.path.insert(0, os.path.join(vlib.VERIF, "gen"))
import render  # noqa: E402


def tlc_eval(progs, workers=None, timeout=900, cfg="AldorSem"):
    """Returns (dict id -> {"out": text, "status": s, "atoms": [...]}, TlcResult)."""
    d = vlib.scratch("progs")
    path = os.path.join(d, "progs.ndjson")
    vlib.write_ndjson(path, progs)
    res = vlib.tlc("AldorSem", cfg, workers=workers, env={"PROGS": path}, timeout=timeout)
    out = {}
    for line in res.printed:
        if isinstance(line, str) and line.startswith("BEHAV "):
            b = json.loads(line[6:])
            e = {"out": render.expected_text(b["out"]), "status": b["status"], "atoms": b["out"]}
            prev = out.get(b["id"])
            if prev is None:
                out[b["id"]] = e
            elif "fuel" in (prev["status"], e["status"]):
                prev["status"] = "fuel"
            elif (prev["out"], prev["status"]) != (e["out"], e["status"]):
                # the operand order is undefined in the language: a program whose behaviours differ
                # is outside the family whose result the language defines
                prev["status"] = "order-dependent"
    return out, res


import concurrent.futures
import subprocess


def run_program(build, prog, route, workdir, qlevel=None, extra_args=(), timeout=60, env=None):
    """Render prog into workdir/<id>.as and run it by route 'interp' or 'c'.
    Returns dict(rc, out, err, phase) where phase tells where a failure happened."""
    name = prog["id"]
    tag = "".join(c if c.isalnum() else "_" for c in "".join(extra_args))
    d = os.path.join(workdir, name + "-" + route + ("-q%s" % qlevel if qlevel is not None else "") + tag)
    os.makedirs(d, exist_ok=True)
    src = os.path.join(d, "p.as")
    with open(src, "w") as fh:
        fh.write(render.render(prog))
    q = ["-Q%s" % qlevel] if qlevel is not None else []
    if route == "interp":
        rc, out, err, to = vlib.aldor(build, q + list(extra_args) + ["-Ginterp", "p.as"], d, timeout=timeout, env=env)
        return {"rc": rc, "out": out.decode(errors="replace"), "err": err.decode(errors="replace"), "phase": "interp", "timeout": to, "dir": d}
    if route == "ao":
        # save the machine-independent object, then interpret the saved form
        rc, out, err, to = vlib.aldor(build, q + list(extra_args) + ["-Fao", "p.as"], d, timeout=timeout, env=env)
        if rc != 0 or to or not os.path.exists(os.path.join(d, "p.ao")):
            return {"rc": rc, "out": out.decode(errors="replace"), "err": err.decode(errors="replace"), "phase": "compile", "timeout": to, "dir": d}
        rc, out, err, to = vlib.aldor(build, q + list(extra_args) + ["-laxllib", "-Ginterp", "p.ao"], d, timeout=timeout, env=env)
        return {"rc": rc, "out": out.decode(errors="replace"), "err": err.decode(errors="replace"), "phase": "interp", "timeout": to, "dir": d}
    if route == "c":
        rc, out, err, to = vlib.aldor(build, q + list(extra_args) + ["-Fc", "-Fmain", "p.as"], d, timeout=timeout, env=env)
        if rc != 0 or to:
            return {"rc": rc, "out": out.decode(errors="replace"), "err": err.decode(errors="replace"), "phase": "compile", "timeout": to, "dir": d}
        rc, out, err, to = vlib.link_c(build, d, ["p.c", "p-aldormain.c"], "p")
        if rc != 0 or to:
            return {"rc": rc, "out": out.decode(errors="replace"), "err": err.decode(errors="replace"), "phase": "link", "timeout": to, "dir": d}
        rc, out, err, to = vlib.run(["./p"], cwd=d, timeout=timeout, env=env)
        return {"rc": rc, "out": out.decode(errors="replace"), "err": err.decode(errors="replace"), "phase": "run", "timeout": to, "dir": d}
    raise ValueError(route)


def run_many(build, jobs, workdir, nproc=None):
    """jobs: list of (prog, route, qlevel, extra_args). Returns list of results in order."""
    with concurrent.futures.ThreadPoolExecutor(max_workers=nproc or vlib.NCPU) as ex:
        futs = [ex.submit(run_program, build, p, route, workdir, q, xa) for (p, route, q, xa) in jobs]
        return [f.result() for f in futs]


def exit_class(status):
    """Exit class the language definition assigns: zero / non-zero."""
    return 0 if status == "done" else 1
