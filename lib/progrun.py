"""Evaluate abstract programs with TLC (spec/AldorSem.tla) and run their renderings through the real compiler."""
import json
import re
import os
import sys

import vlib

sys.path.insert(0, os.path.join(vlib.VERIF, "gen"))
import render  # noqa: E402


def tlc_eval(progs, workers=None, timeout=900, cfg="AldorSem", module="AldorSem", delassert=False):
    """Returns (dict id -> {"out": text, "status": s, "atoms": [...]}, TlcResult).
    module: a module that EXTENDS AldorSem (e.g. AldorSemW32: 32-bit machine integer), with its own cfg."""
    d = vlib.scratch("progs")
    path = os.path.join(d, "progs.ndjson")
    progs = list(progs)
    dropped = []
    for _attempt in range(6):
        vlib.write_ndjson(path, progs)
        env = {"PROGS": path}
        if delassert:           # behaviour under -Qdel-assert (levels -Q2 and above): assertions are deleted
            env["DELASSERT"] = "1"
        res = vlib.tlc(module, cfg, workers=workers, env=env, timeout=timeout)
        # an Integer that grows beyond the reach of BigZ.tla (32-bit column sums) aborts the whole TLC run:
        # such a program is outside the evaluable family; drop it and evaluate the rest
        m = re.search(r"/\\ pid = (\d+)", res.out) if (res.error and "Overflow when computing" in res.out) else None
        if not m:
            break
        dropped.append(progs.pop(int(m.group(1)) - 1)["id"])
    res.dropped_overflow = dropped
    out = {}
    for line in res.printed:
        if isinstance(line, str) and line.startswith("BEHAV "):
            b = json.loads(line[6:])
            e = {"out": render.expected_text(b["out"]), "status": b["status"], "atoms": b["out"]}
            prev = out.get(b["id"])
            if prev is None:
                out[b["id"]] = e
            elif "fuel" in (prev["status"], e["status"]):
                prev["status"] = "fuel"
            elif (prev["out"], prev["status"]) != (e["out"], e["status"]):
                # the operand order is undefined in the language: a program whose behaviours differ
                # is outside the family whose result the language defines
                prev["status"] = "order-dependent"
    return out, res


import concurrent.futures
import hashlib
import subprocess
import threading


# ---- dialects (gen/render.py): the library a rendering is written against ----
_LIBALDOR = os.path.join(vlib.REPO, "aldor/lib/aldor")
DIALECT_ARGS = {
    "axllib": [],
    "libaldor": ["-I" + os.path.join(_LIBALDOR, "include"), "-Y" + os.path.join(_LIBALDOR, "src"),
                 "-Y" + os.path.join(vlib.REPO, "aldor/aldor/lib/libfoamlib/al")],
}
# the shipped class archives of the libraries (products of the repository's own build)
JAVA_JARS = [os.path.join(vlib.REPO, p) for p in ("aldor/aldor/lib/java/src/foamj.jar", "aldor/aldor/lib/libfoam/al/foam.jar",
                                                  "aldor/aldor/lib/libfoamlib/al/foamlib.jar", "aldor/lib/aldor/src/aldor.jar")]
_CP = {}
_CP_LOCK = threading.Lock()


def java_classpath():
    """Class path of the Java route: the foamj run time compiled from the working tree's sources
    (<src>/../lib/java/src/foamj/*.java, exactly what the repository's Makefile puts into foamj.jar; cached by content
    hash next to the compiler build) followed by the shipped library archives foam.jar, foamlib.jar, aldor.jar."""
    with _CP_LOCK:
        if "cp" in _CP:
            return _CP["cp"]
        srcdir = os.path.normpath(os.path.join(vlib.SRC, "..", "lib", "java", "src"))
        files = sorted(f for f in os.listdir(os.path.join(srcdir, "foamj")) if f.endswith(".java"))
        h = hashlib.sha256()
        for f in files:
            h.update(f.encode())
            h.update(open(os.path.join(srcdir, "foamj", f), "rb").read())
        cache = os.path.join(os.environ.get("VERIF_CACHE", "/var/tmp/aldor-verif-cache"), "foamj-" + h.hexdigest()[:20])
        if os.path.exists(os.path.join(cache, "OK")):
            os.utime(os.path.join(cache, "OK"))      # vbuild's cache cleaning keeps recently used entries
        else:
            tmp = cache + ".%d" % os.getpid()
            os.makedirs(tmp, exist_ok=True)
            rc, out, err, to = vlib.run(["javac", "-nowarn", "-g", "-d", tmp] + [os.path.join("foamj", f) for f in files],
                                        cwd=srcdir, timeout=300)
            if rc != 0 or to:
                raise vlib.MachineryError("the foamj run time does not compile:\n" + (out + err).decode(errors="replace")[:2000])
            open(os.path.join(tmp, "OK"), "w").close()
            try:
                os.rename(tmp, cache)
            except OSError:          # another process was faster
                import shutil
                shutil.rmtree(tmp, ignore_errors=True)
        _CP["cp"] = [cache] + JAVA_JARS[1:]
        return _CP["cp"]


JAVA_BATCH = 24      # programs per javac invocation (javac start-up is about 2 s)


def _aldor(build, args, cwd, timeout, env, cpu_limit=None):
    """vlib.aldor, optionally under a processor-time limit (seconds).  A wall-clock limit alone cannot tell a compiler
    that does not terminate from one that is starved on a loaded machine; with cpu_limit the run is cut when it has
    *used* that much processor time (SIGXCPU), and `timeout` is only the backstop.  Returns (rc, out, err, timed_out)
    with timed_out also true when the processor-time limit was hit."""
    if not cpu_limit:
        return vlib.aldor(build, args, cwd, timeout=timeout, env=env)
    cmd = ["prlimit", "--cpu=%d:%d" % (cpu_limit, cpu_limit + 5), build["aldor"]] + vlib.ALDOR_BASE_ARGS + list(args)
    rc, out, err, to = vlib.run(cmd, cwd=cwd, timeout=timeout, env=env)
    # the compiler handles SIGXCPU (soft limit) itself: "Exceeded time limit imposed by operating system", exit 1;
    # SIGKILL arrives at the hard limit
    if not to and (b"Exceeded time limit imposed by operating system" in out + err or (rc is not None and rc in (-24, -9))):
        to = True
    return rc, out, err, to


def dialect_of(prog):
    return prog.get("render_opts", {}).get("dialect") or "axllib"


def prog_args(prog):
    """Compiler arguments that belong to the program: its library dialect, and options the program declares itself
    (e.g. -Mno-warnings for programs that redefine a macro locally: the compiler remarks on the hiding)."""
    return DIALECT_ARGS[dialect_of(prog)] + list(prog.get("aldor_args", []))


def _res(rc, out, err, phase, to, d, **kw):
    r = {"rc": rc, "out": out.decode(errors="replace") if isinstance(out, bytes) else out,
         "err": err.decode(errors="replace") if isinstance(err, bytes) else err, "phase": phase, "timeout": to, "dir": d}
    r.update(kw)
    return r


def _jobdir(prog, route, workdir, qlevel, extra_args):
    tag = "".join(c if c.isalnum() else "_" for c in "".join(extra_args))
    d = os.path.join(workdir, prog["id"] + "-" + route + ("-q%s" % qlevel if qlevel is not None else "") + tag)
    os.makedirs(d, exist_ok=True)
    return d


def java_unit(prog, qlevel, extra_args=()):
    """Name of the compilation unit = name of the Java class aldorcode.<unit>; unique per (program, options)
    so that many units can be handed to one javac and share one class directory."""
    tag = "".join(c if c.isalnum() else "_" for c in "".join(extra_args))
    return "u_" + "".join(c if c.isalnum() else "_" for c in prog["id"]) + ("_q%s" % qlevel if qlevel is not None else "") + tag


def java_emit(build, prog, workdir, qlevel=None, extra_args=(), timeout=60, env=None, cpu_limit=None):
    """Step 1 of route 'java': aldor -Jmain -Fjava <unit>.as.  Returns a job record; job["res"] is set iff it failed."""
    d = _jobdir(prog, "java", workdir, qlevel, extra_args)
    unit = java_unit(prog, qlevel, extra_args)
    with open(os.path.join(d, unit + ".as"), "w") as fh:
        fh.write(prog.get("source_text") or render.render(prog))
    q = ["-Q%s" % qlevel] if qlevel is not None else []
    rc, out, err, to = _aldor(build, prog_args(prog) + q + list(extra_args) + ["-Jmain", "-Fjava", unit + ".as"],
                              d, timeout, env, cpu_limit)
    job = {"dir": d, "unit": unit, "java": os.path.join(d, "aldorcode", unit + ".java"), "res": None, "classes": None}
    if rc != 0 or to or not os.path.exists(job["java"]):
        job["res"] = _res(rc, out, err, "compile", to, d)
    return job


def java_compile(jobs, classdir, timeout=600):
    """Step 2: one javac for all jobs against the shipped jars; on failure every job is compiled on its own so that
    the failure is attributed to the unit that causes it.  Sets job["classes"] or job["res"] (phase 'javac')."""
    jobs = [j for j in jobs if j["res"] is None]
    if not jobs:
        return
    os.makedirs(classdir, exist_ok=True)
    cmd = ["javac", "-nowarn", "-cp", ":".join(java_classpath()), "-d", classdir] + [j["java"] for j in jobs]
    rc, out, err, to = vlib.run(cmd, cwd=classdir, timeout=timeout)
    if rc == 0 and not to:
        for j in jobs:
            j["classes"] = classdir
        return
    if len(jobs) == 1:
        jobs[0]["res"] = _res(rc, out, err, "javac", to, jobs[0]["dir"])
        return
    for i, j in enumerate(jobs):
        java_compile([j], os.path.join(classdir, "single%d" % i), timeout=timeout)


def java_run(job, timeout=60, env=None):
    """Step 3: java -cp <classes>:<jars> aldorcode.<unit>."""
    if job["res"] is not None:
        return job["res"]
    rc, out, err, to = vlib.run(["java", "-Xss64m", "-XX:TieredStopAtLevel=1", "-XX:+UseSerialGC", "-cp",
                                 ":".join([job["classes"]] + java_classpath()), "aldorcode." + job["unit"]],
                                cwd=job["dir"], timeout=timeout, env=env)
    job["res"] = _res(rc, out, err, "run", to, job["dir"])
    return job["res"]


def run_program(build, prog, route, workdir, qlevel=None, extra_args=(), timeout=60, env=None, cpu_limit=None):
    """Render prog into workdir/<id>.as and run it by route 'interp', 'ao', 'c', 'java', 'split-interp', 'split-c',
    'split0-interp' or 'split0-c' (the last four: library unit + client unit, see run_split; split0 = library at -Q0).
    Returns dict(rc, out, err, phase) where phase tells where a failure happened
    (java: 'compile' = aldor -Fjava, 'javac', 'run')."""
    if route == "java":
        job = java_emit(build, prog, workdir, qlevel, extra_args, timeout, env, cpu_limit)
        java_compile([job], os.path.join(job["dir"], "classes"))
        return java_run(job, timeout, env)
    if route in ("split-interp", "split-c", "split0-interp", "split0-c"):
        # split0-*: the library unit is compiled at -Q0 whatever the client's level (no cross-unit inlining of its code)
        r = run_split(build, prog, "split-" + route.split("-", 1)[1], workdir, qlevel, extra_args, timeout, env,
                      lib_qlevel=0 if route.startswith("split0-") else None, tag=route)
        if r is not None:
            return r
        route = route.split("-", 1)[1]   # nothing can be moved into a library unit: the program runs as one unit
    d = _jobdir(prog, route, workdir, qlevel, extra_args)
    src = os.path.join(d, "p.as")
    with open(src, "w") as fh:
        fh.write(prog.get("source_text") or render.render(prog))
    q = prog_args(prog) + (["-Q%s" % qlevel] if qlevel is not None else [])
    if route == "interp":
        rc, out, err, to = _aldor(build, q + list(extra_args) + ["-Ginterp", "p.as"], d, timeout, env, cpu_limit)
        return {"rc": rc, "out": out.decode(errors="replace"), "err": err.decode(errors="replace"), "phase": "interp", "timeout": to, "dir": d}
    if route == "ao":
        # save the machine-independent object, then interpret the saved form
        rc, out, err, to = vlib.aldor(build, q + list(extra_args) + ["-Fao", "p.as"], d, timeout=timeout, env=env)
        if rc != 0 or to or not os.path.exists(os.path.join(d, "p.ao")):
            return {"rc": rc, "out": out.decode(errors="replace"), "err": err.decode(errors="replace"), "phase": "compile", "timeout": to, "dir": d}
        rc, out, err, to = vlib.aldor(build, q + list(extra_args) + ["-laldor" if dialect_of(prog) == "libaldor" else "-laxllib", "-Ginterp", "p.ao"], d, timeout=timeout, env=env)
        return {"rc": rc, "out": out.decode(errors="replace"), "err": err.decode(errors="replace"), "phase": "interp", "timeout": to, "dir": d}
    if route == "c":
        rc, out, err, to = vlib.aldor(build, q + list(extra_args) + ["-Fc", "-Fmain", "p.as"], d, timeout=timeout, env=env)
        if rc != 0 or to:
            return {"rc": rc, "out": out.decode(errors="replace"), "err": err.decode(errors="replace"), "phase": "compile", "timeout": to, "dir": d}
        rc, out, err, to = vlib.link_c(build, d, ["p.c", "p-aldormain.c"], "p")
        if rc != 0 or to:
            return {"rc": rc, "out": out.decode(errors="replace"), "err": err.decode(errors="replace"), "phase": "link", "timeout": to, "dir": d}
        rc, out, err, to = vlib.run(["./p"], cwd=d, timeout=timeout, env=env)
        return {"rc": rc, "out": out.decode(errors="replace"), "err": err.decode(errors="replace"), "phase": "run", "timeout": to, "dir": d}
    raise ValueError(route)


def run_split(build, prog, route, workdir, qlevel=None, extra_args=(), timeout=60, env=None, lib_qlevel=None, tag=None):
    """Routes 'split-interp' / 'split-c' (separate compilation, DESIGN.md C05): the program is rendered as a library unit
    plib.as and a client unit p.as (render.split_plan: functions that throw go to the library together with the exception
    declarations, functions holding a try stay in the client); the library is compiled to plib.ao (at lib_qlevel, default
    qlevel), then the client is interpreted against it ('split-interp') or both are compiled to C and linked ('split-c').
    Returns the usual result dict with the extra fields split = True, throwers_in_lib = n, lib_funs = [names];
    None when no function of the program can be moved (run_program then falls back to the one-unit route)."""
    if prog.get("source_text") or dialect_of(prog) != "axllib":
        return None
    plan = render.split_plan(prog)
    if plan is None:
        return None
    d = _jobdir(prog, tag or route, workdir, qlevel, extra_args)
    lib_text, client_text = render.render_split(prog, plan["lib_funs"], lib_exns=plan["lib_exns"])
    with open(os.path.join(d, "plib.as"), "w") as fh:
        fh.write(lib_text)
    with open(os.path.join(d, "p.as"), "w") as fh:
        fh.write(client_text)
    info = {"split": True, "throwers_in_lib": plan["throwers"], "lib_funs": [prog["funs"][i]["name"] for i in plan["lib_funs"]]}

    def res(rc, out, err, phase, to):
        r = {"rc": rc, "out": out.decode(errors="replace"), "err": err.decode(errors="replace"), "phase": phase, "timeout": to, "dir": d}
        r.update(info)
        return r
    q = ["-Q%s" % qlevel] if qlevel is not None else []
    lq = ["-Q%s" % lib_qlevel] if lib_qlevel is not None else q
    want_c = route == "split-c"
    rc, out, err, to = vlib.aldor(build, lq + list(extra_args) + ["-Fao"] + (["-Fc"] if want_c else []) + ["plib.as"], d, timeout=timeout, env=env)
    if rc != 0 or to or not os.path.exists(os.path.join(d, "plib.ao")):
        return res(rc, out, err, "compile", to)
    if not want_c:
        rc, out, err, to = vlib.aldor(build, q + list(extra_args) + ["-Ginterp", "p.as"], d, timeout=timeout, env=env)
        return res(rc, out, err, "interp", to)
    rc, out, err, to = vlib.aldor(build, q + list(extra_args) + ["-Fc", "-Fmain", "p.as"], d, timeout=timeout, env=env)
    if rc != 0 or to:
        return res(rc, out, err, "compile", to)
    rc, out, err, to = vlib.link_c(build, d, ["p.c", "p-aldormain.c", "plib.c"], "p")
    if rc != 0 or to:
        return res(rc, out, err, "link", to)
    rc, out, err, to = vlib.run(["./p"], cwd=d, timeout=timeout, env=env)
    return res(rc, out, err, "run", to)


def run_many(build, jobs, workdir, nproc=None, timeout=60, timing=None, cpu_limit=None):
    """jobs: list of (prog, route, qlevel, extra_args). Returns list of results in order.
    Jobs of route 'java' are grouped into batches (at most JAVA_BATCH units per javac invocation, spread over the
    processors); each batch is emitted, compiled by one javac and run as soon as its own units are ready, so a unit
    whose compilation hangs delays only its batch.  timing: optional dict that receives the wall time."""
    import time
    results = [None] * len(jobs)
    t0 = time.time()
    ncpu = nproc or vlib.NCPU
    jidx = [i for i, j in enumerate(jobs) if j[1] == "java"]
    units = {}
    for i in jidx:       # a unit name must be unique inside a class directory
        u = java_unit(jobs[i][0], jobs[i][2], jobs[i][3])
        if units.setdefault(u, i) != i:
            raise vlib.MachineryError("java route: two jobs share the unit name %s" % u)
    per = min(JAVA_BATCH, max(6, -(-len(jidx) // ncpu)))
    batches = [jidx[k:k + per] for k in range(0, len(jidx), per)]
    with concurrent.futures.ThreadPoolExecutor(max_workers=ncpu) as ex, \
            concurrent.futures.ThreadPoolExecutor(max_workers=max(1, len(batches))) as bx:
        jf = {i: ex.submit(java_emit, build, jobs[i][0], workdir, jobs[i][2], jobs[i][3], timeout, None, cpu_limit) for i in jidx}
        futs = {i: ex.submit(run_program, build, p, route, workdir, q, xa, timeout, None, cpu_limit)
                for i, (p, route, q, xa) in enumerate(jobs) if route != "java"}

        def do_batch(n, b):
            jj = [jf[i].result() for i in b]
            java_compile(jj, os.path.join(workdir, "jclasses", "b%d_%d_%d" % (n, os.getpid(), int(t0 * 1000) % 100000000)))
            return [ex.submit(java_run, j, timeout) for j in jj]
        bf = [bx.submit(do_batch, n, b) for n, b in enumerate(batches)]
        for b, f in zip(batches, bf):
            for i, rf in zip(b, f.result()):
                results[i] = rf.result()
        for i, f in futs.items():
            results[i] = f.result()
    if timing is not None:
        timing["run_many_s"] = round(timing.get("run_many_s", 0) + time.time() - t0, 1)
    return results


def exit_class(status):
    """Exit class the language definition assigns: zero / non-zero."""
    return 0 if status == "done" else 1


def run_c_all(build, prog, workdir, extra_args=(), names=None, tag="", axllib=None, rt=None, cflags=(),
              qlevel=None, timeout=60, env=None, keep_exe=False):
    """Route 'c-all' (added for C16; run_program / run_many are unchanged): like route 'c', but
      * the source is rendered with `names` (the renaming argument of gen/render.py),
      * EVERY C file the compiler emitted into the job directory is compiled and linked (with -Csmax=<n> a unit is
        split into <name>.h, <name>.c, <name>001.c ...), with the extra gcc flags `cflags`,
      * the Aldor library archive and the C run time can be replaced (axllib=, rt=: archives built with the same options).
    Returns the usual result dict plus "cfiles" (names of the emitted C files, sorted) and "hfiles"."""
    import glob
    d = os.path.join(workdir, prog["id"] + "-call" + ("-q%s" % qlevel if qlevel is not None else "") +
                     "".join(c if c.isalnum() else "_" for c in "".join(extra_args)) + tag)
    os.makedirs(d, exist_ok=True)
    with open(os.path.join(d, "p.as"), "w") as fh:
        fh.write(render.render(prog, names))
    q = prog_args(prog) + (["-Q%s" % qlevel] if qlevel is not None else [])
    rc, out, err, to = vlib.aldor(build, q + list(extra_args) + ["-Fc", "-Fmain", "p.as"], d, timeout=timeout, env=env)
    cfiles = sorted(os.path.basename(f) for f in glob.glob(os.path.join(d, "*.c")))
    hfiles = sorted(os.path.basename(f) for f in glob.glob(os.path.join(d, "*.h")))
    if rc != 0 or to:
        return _res(rc, out, err, "compile", to, d, cfiles=cfiles, hfiles=hfiles)
    cmd = ["gcc", "-w", "-O0", "-I" + vlib.SRC] + list(cflags) + ["-o", "p"] + cfiles + \
          [axllib or os.path.join(vlib.REPO, "aldor/lib/axllib/src/libaxllib.a"), rt or build["rt"], "-lm"]
    rc, out, err, to = vlib.run(cmd, cwd=d, timeout=max(timeout, 300))
    if rc != 0 or to:
        return _res(rc, out, err, "link", to, d, cfiles=cfiles, hfiles=hfiles)
    rc, out, err, to = vlib.run(["./p"], cwd=d, timeout=timeout, env=env)
    if not keep_exe:
        try:
            os.unlink(os.path.join(d, "p"))
        except OSError:
            pass
    return _res(rc, out, err, "run", to, d, cfiles=cfiles, hfiles=hfiles)
