/* C16: the string hash the C generator puts into global identifiers (strops.c:strHash), computed by the
 * code itself.  One name per input line (raw bytes, no escapes); output: "<hash> <hash % VAR_HASH>" per line.
 * Linked against the objects of vbuild (libgen.a: strops.o), so a change to strHash is seen by the check. */
#include <stdio.h>
#include <string.h>
#include "axlgen.h"
#include "strops.h"

#define VAR_HASH 0x39AA3F9	/* genc.c */

int
main(int argc, char **argv)
{
	static char line[1 << 16];
	while (fgets(line, sizeof line, stdin)) {
		size_t n = strlen(line);
		if (n && line[n - 1] == '\n') line[--n] = 0;
		Hash h = strHash(line);
		printf("%lu %lu\n", (unsigned long) h, (unsigned long) (h % VAR_HASH));
	}
	return 0;
}
