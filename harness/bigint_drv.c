/*
 * bigint_drv.c -- conformance driver for property C11 (big-integer arithmetic is exact).
 *
 * Reads a work list (one operation per line, operands as [-]hex, produced by checks/c11.py),
 * performs each operation with the repository's bigint.c / foam_i.c, and writes one ndjson
 * event per operation.  Operands and results are taken from the RAW representation
 * (struct bint: isNeg/placec/placev, or the immediate long) and re-split into radix 2^11
 * digits for spec/TraceBigInt.tla; the library's own conversion routines are never used to
 * observe a value (they are operations under test themselves).
 *
 * This file decides nothing: every verdict is computed by TLC from the events.  Values
 * named "h*" in an event are HINTS (cofactors, quotients) computed with the library itself;
 * TLC only uses them through identities that prove the result (a = q*b + r etc.) and falls
 * back to its own long division when a hint does not verify.
 *
 * Compiled twice: -DDRV_LG=32 against the production objects, and -DDRV_LG=7 together with
 * bigint.c -DBIGINT_DO_DEBUG (the code's own small-radix configuration).
 *
 * usage: bigint_drv WORKLIST OUT.ndjson [first-line-to-run]
 */
#define _GNU_SOURCE
#include <stdio.h>
#include <stdlib.h>
#include <string.h>
#include <signal.h>
#include <unistd.h>

#include "axlgen.h"
#include "bigint.h"
#include "opsys.h"
#include "debug.h"
#include "foam_c.h"

#ifndef DRV_LG
# define DRV_LG 32
#endif

#define LGB 11
#define MAXBITS 70000

static FILE *out;
static long curLine = 0;
static char curOp[64] = "";

/* ------------------------------------------------------------------------- */
/* raw values: sign + bit string (little endian)                              */

typedef struct {
	int	neg;
	int	nbits;		/* number of significant bits (top bit is 1), 0 for zero */
	unsigned char *bits;
	int	imm;		/* representation: 1 immediate, 0 allocated */
	int	lz;		/* allocated: number of leading zero places */
	int	bad;		/* allocated: a place >= radix */
	int	placec;
} Raw;

static Raw
rawNew(int cap)
{
	Raw r;
	memset(&r, 0, sizeof(r));
	r.bits = (unsigned char *) calloc(cap + 64, 1);
	return r;
}

static void rawFree(Raw *r) { free(r->bits); r->bits = 0; }

static void
rawTrim(Raw *r, int n)
{
	while (n > 0 && !r->bits[n-1]) n--;
	r->nbits = n;
}

/* read the representation of b */
static Raw
rawRead(BInt b)
{
	Raw r;
	if (bintIsSmall(b)) {
		long v = bintSmall(b);
		unsigned long u = (v < 0) ? (0UL - (unsigned long) v) : (unsigned long) v;
		int i;
		r = rawNew(64);
		r.neg = v < 0;
		r.imm = 1;
		for (i = 0; i < 64; i++) r.bits[i] = (u >> i) & 1;
		rawTrim(&r, 64);
		return r;
	}
	else {
		long c = (long) b->placec, i; int k;
		if (c < 0 || c > MAXBITS) { r = rawNew(0); r.bad = 2; r.placec = (int) c; return r; }
		r = rawNew((int) c * DRV_LG);
		r.neg = b->isNeg ? 1 : 0;
		r.imm = 0;
		r.placec = (int) c;
		for (i = 0; i < c; i++) {
			unsigned long d = (unsigned long) b->placev[i];
#if DRV_LG < 32
			if (d >> DRV_LG) r.bad = 1;
#endif
			for (k = 0; k < DRV_LG; k++) r.bits[i*DRV_LG + k] = (d >> k) & 1;
		}
		for (i = c - 1; i >= 0 && b->placev[i] == 0; i--) r.lz++;
		rawTrim(&r, (int) c * DRV_LG);
		if (r.nbits == 0) r.neg = r.neg;	/* a stored zero keeps its flag: reported, judged by the spec */
		return r;
	}
}

static int
rawSame(Raw *a, Raw *b)
{
	return a->neg == b->neg && a->nbits == b->nbits && a->imm == b->imm &&
	       a->placec == b->placec && memcmp(a->bits, b->bits, a->nbits) == 0;
}

/* parse [-]hex */
static Raw
rawFromHex(const char *s)
{
	Raw r; int n, i, k;
	int neg = 0;
	if (*s == '-') { neg = 1; s++; }
	n = (int) strlen(s);
	r = rawNew(4 * n);
	for (i = 0; i < n; i++) {
		char c = s[n-1-i];
		int v = (c >= '0' && c <= '9') ? c - '0' : (c >= 'a' && c <= 'f') ? c - 'a' + 10 : (c >= 'A' && c <= 'F') ? c - 'A' + 10 : -1;
		if (v < 0) { fprintf(stderr, "bigint_drv: bad hex '%s' at line %ld\n", s, curLine); exit(3); }
		for (k = 0; k < 4; k++) r.bits[4*i + k] = (v >> k) & 1;
	}
	rawTrim(&r, 4 * n);
	r.neg = neg && r.nbits > 0;
	return r;
}

static Raw
rawFromLong(long v)
{
	Raw r = rawNew(64); int i;
	unsigned long u = (v < 0) ? (0UL - (unsigned long) v) : (unsigned long) v;
	r.neg = v < 0;
	for (i = 0; i < 64; i++) r.bits[i] = (u >> i) & 1;
	rawTrim(&r, 64);
	return r;
}

/* build a BInt holding the value (through bintFrPlacev: copies the places, normalises) */
static BInt
mk(Raw *r)
{
	int c = (r->nbits + DRV_LG - 1) / DRV_LG, i, k;
	BIntS *pv = (BIntS *) calloc(c + 1, sizeof(BIntS));
	BInt b;
	for (i = 0; i < c; i++) {
		unsigned long d = 0;
		for (k = 0; k < DRV_LG && i*DRV_LG + k < r->nbits; k++)
			d |= ((unsigned long) r->bits[i*DRV_LG + k]) << k;
		pv[i] = (BIntS) d;
	}
	b = bintFrPlacev(r->neg ? true : false, (Length) c, pv);
	free(pv);
	return b;
}

static BInt
mkHex(const char *s)
{
	Raw r = rawFromHex(s);
	BInt b = mk(&r);
	rawFree(&r);
	return b;
}

/* ------------------------------------------------------------------------- */
/* JSON output                                                                */

static void
putDigits(Raw *r)
{
	int nd = (r->nbits + LGB - 1) / LGB, i, k;
	fputc('[', out);
	for (i = 0; i < nd; i++) {
		int d = 0;
		for (k = 0; k < LGB && i*LGB + k < r->nbits; k++) d |= r->bits[i*LGB + k] << k;
		fprintf(out, i ? ",%d" : "%d", d);
	}
	fputc(']', out);
}

/* operand or hint */
static void
putRaw(const char *name, Raw *r)
{
	fprintf(out, ",\"%s\":{\"n\":%s,\"d\":", name, (r->neg && r->nbits > 0) ? "true" : "false");
	putDigits(r);
	fprintf(out, ",\"i\":%d}", r->imm);
}

static void
putZ(const char *name, BInt b)
{
	Raw r = rawRead(b);
	putRaw(name, &r);
	rawFree(&r);
}

/* result: also representation facts (drift only) and "e": the library's own comparison of
 * the result with a fresh copy of the same value (comparison must be exact on it) */
static void
putRes(const char *name, BInt b)
{
	Raw r = rawRead(b);
	int e = 1;
	if (!r.bad) {
		BInt c = mk(&r);
		e = bintEQ(b, c) && bintEQ(c, b) && !bintLT(b, c) && !bintGT(b, c);
	}
	fprintf(out, ",\"%s\":{\"n\":%s,\"d\":", name, r.neg ? "true" : "false");
	putDigits(&r);
	fprintf(out, ",\"i\":%d,\"z\":%d,\"bad\":%d,\"e\":%s,\"nz\":%s}", r.imm, r.lz, r.bad, e ? "true" : "false",
		(r.neg && r.nbits == 0) ? "true" : "false");
	rawFree(&r);
}

static void
putInt(const char *name, long v)
{
	fprintf(out, ",\"%s\":%ld", name, v);
}

static void
putBool(const char *name, int v)
{
	fprintf(out, ",\"%s\":%s", name, v ? "true" : "false");
}

/* a C long as a digit record (TLC integers are 32 bit) */
static void
putLong(const char *name, long v)
{
	Raw r = rawFromLong(v);
	putRaw(name, &r);
	rawFree(&r);
}

static void
putStr(const char *name, const char *s)
{
	int i;
	fprintf(out, ",\"%s\":[", name);
	for (i = 0; s[i]; i++) fprintf(out, i ? ",%d" : "%d", (unsigned char) s[i]);
	fputc(']', out);
}

static void
evBegin(const char *op)
{
	fprintf(out, "{\"ev\":\"Op\",\"op\":\"%s\",\"ln\":%ld,\"rx\":%d", op, curLine, DRV_LG);
}

/* ------------------------------------------------------------------------- */
/* path labels printed by bigint.c under BIGINT_DO_DEBUG (drift only)          */

static char  *dbBuf = 0;
static size_t dbLen = 0;

static void
dbReset(void)
{
#if DRV_LG == 7
	if (dbOut) { fflush(dbOut); fseek(dbOut, 0, SEEK_SET); }
#endif
}

static void
putPaths(void)
{
#if DRV_LG == 7
	static const char *lab[] = { "d = 1", "uj0 == v1", "**** 2 ****", "rhat ov", "Add Back", 0 };
	static const char *nam[] = { "d1", "ujeqv1", "iter2", "rhatov", "addback", 0 };
	int i, first = 1;
	long n;
	if (!dbOut) return;
	fflush(dbOut);
	n = ftell(dbOut);
	fprintf(out, ",\"paths\":[");
	if (n > 0 && dbBuf) {
		char save = dbBuf[n < (long) dbLen ? n : (long) dbLen];
		dbBuf[n < (long) dbLen ? n : (long) dbLen] = 0;
		for (i = 0; lab[i]; i++)
			if (strstr(dbBuf, lab[i])) { fprintf(out, first ? "\"%s\"" : ",\"%s\"", nam[i]); first = 0; }
		dbBuf[n < (long) dbLen ? n : (long) dbLen] = save;
	}
	fputc(']', out);
#endif
}

/* ------------------------------------------------------------------------- */
/* operand bookkeeping: "the bintAaaa operations do not modify their arguments" */

typedef struct { BInt b; Raw before; } Opnd;

static Opnd
opnd(const char *hex)
{
	Opnd o;
	o.b = mkHex(hex);
	o.before = rawRead(o.b);
	return o;
}

static int
unchanged(Opnd *o)
{
	Raw now = rawRead(o->b);
	int same = rawSame(&now, &o->before);
	rawFree(&now);
	return same;
}

/* ------------------------------------------------------------------------- */
/* hints                                                                      */

/* quotient of (a - m) by b, exact when m is a remainder of a by b */
static BInt
hintQuo(BInt a, BInt m, BInt b)
{
	BInt r, d = bintMinus(a, m);
	return bintDivide(&r, d, b);
}

/* non-negative residue of t modulo C > 0, with the quotient */
static BInt
modPosH(BInt t, BInt C, BInt *pq)
{
	BInt r, q = bintDivide(&r, t, C);
	if (bintIsNeg(r)) { r = bintPlus(r, C); q = bintMinus(q, bint1); }
	*pq = q;
	return r;
}

/* ------------------------------------------------------------------------- */

/* an operation that does not return within the watchdog time: reported as a Hang event */
static void
onAlarm(int sig)
{
	char buf[256];
	int n = snprintf(buf, sizeof buf, "\n{\"ev\":\"Hang\",\"op\":\"%s\",\"ln\":%ld,\"rx\":%d,\"signal\":%d}\n", curOp, curLine, DRV_LG, sig);
	if (out) { fflush(out); if (write(fileno(out), buf, n) < 0) { } }
	_exit(71);
}

static void
onFault(int sig)
{
	char buf[256];
	int n = snprintf(buf, sizeof buf, "\n{\"ev\":\"Fault\",\"op\":\"%s\",\"ln\":%ld,\"rx\":%d,\"signal\":%d}\n", curOp, curLine, DRV_LG, sig);
	if (out) { fflush(out); if (write(fileno(out), buf, n) < 0) { } }
	_exit(70);
}

#define ARG(i) (argv_[i])
#define NEED(n) if (argc_ < (n) + 1) { fprintf(stderr, "bigint_drv: line %ld: %s needs %d operands\n", curLine, op, n); exit(3); }

static void
doLine(char *line)
{
	char *argv_[8]; int argc_ = 0;
	char *tok, *op;
	for (tok = strtok(line, " \t\r\n"); tok && argc_ < 8; tok = strtok(NULL, " \t\r\n")) argv_[argc_++] = tok;
	if (argc_ == 0 || argv_[0][0] == '#') return;
	op = argv_[0];
	strncpy(curOp, op, sizeof curOp - 1);
	dbReset();

	if (!strcmp(op, "plus") || !strcmp(op, "minus") || !strcmp(op, "times")) {
		Opnd a, b; BInt r; int alias;
		NEED(2);
		alias = !strcmp(ARG(1), ARG(2));
		a = opnd(ARG(1)); b = alias ? a : opnd(ARG(2));
		r = op[0] == 'p' ? bintPlus(a.b, b.b) : op[0] == 'm' ? bintMinus(a.b, b.b) : bintTimes(a.b, b.b);
		evBegin(op); putRaw("a", &a.before); putRaw("b", &b.before); putRes("r", r);
		putBool("ua", unchanged(&a) && unchanged(&b)); putBool("alias", alias);
	}
	else if (!strcmp(op, "timesplus")) {
		Opnd a, b, c; BInt r;
		NEED(3);
		a = opnd(ARG(1)); b = opnd(ARG(2)); c = opnd(ARG(3));
		r = (BInt) fiBIntTimesPlus((FiBInt) a.b, (FiBInt) b.b, (FiBInt) c.b);
		evBegin(op); putRaw("a", &a.before); putRaw("b", &b.before); putRaw("c", &c.before); putRes("r", r);
		putBool("ua", unchanged(&a) && unchanged(&b) && unchanged(&c));
	}
	else if (!strcmp(op, "neg") || !strcmp(op, "abs")) {
		Opnd a; BInt r;
		NEED(1);
		a = opnd(ARG(1));
		r = op[0] == 'n' ? bintNegate(a.b) : bintAbs(a.b);
		evBegin(op); putRaw("a", &a.before); putRes("r", r); putBool("ua", unchanged(&a));
	}
	else if (!strcmp(op, "cmp")) {
		Opnd a, b; int alias;
		NEED(2);
		alias = !strcmp(ARG(1), ARG(2)) && argc_ > 3;	/* 4th token: use the same object twice */
		a = opnd(ARG(1)); b = alias ? a : opnd(ARG(2));
		evBegin(op); putRaw("a", &a.before); putRaw("b", &b.before);
		putBool("lt", bintLT(a.b, b.b)); putBool("gt", bintGT(a.b, b.b)); putBool("eq", bintEQ(a.b, b.b));
		putBool("le", fiBIntLE((FiBInt) a.b, (FiBInt) b.b)); putBool("ne", fiBIntNE((FiBInt) a.b, (FiBInt) b.b));
		putBool("an", bintIsNeg(a.b)); putBool("az", bintIsZero(a.b)); putBool("ap", bintIsPos(a.b));
		putBool("ua", unchanged(&a) && unchanged(&b)); putBool("alias", alias);
	}
	else if (!strcmp(op, "divide")) {
		Opnd a, b; BInt q, r; int alias;
		NEED(2);
		alias = !strcmp(ARG(1), ARG(2));
		a = opnd(ARG(1)); b = alias ? a : opnd(ARG(2));
		if (argc_ > 3) {	/* through the run-time wrapper */
			FiBInt q0, r0;
			fiBIntDivide((FiBInt) a.b, (FiBInt) b.b, &q0, &r0);
			q = (BInt) q0; r = (BInt) r0;
		}
		else
			q = bintDivide(&r, a.b, b.b);
		evBegin(op); putRaw("a", &a.before); putRaw("b", &b.before); putRes("q", q); putRes("r", r);
		putBool("ua", unchanged(&a) && unchanged(&b)); putBool("alias", alias); putPaths();
	}
	else if (!strcmp(op, "quo")) {
		Opnd a, b; BInt q;
		NEED(2);
		a = opnd(ARG(1)); b = opnd(ARG(2));
		q = (BInt) fiBIntQuo((FiBInt) a.b, (FiBInt) b.b);
		evBegin(op); putRaw("a", &a.before); putRaw("b", &b.before); putRes("q", q);
		putBool("ua", unchanged(&a) && unchanged(&b)); putPaths();
	}
	else if (!strcmp(op, "rem") || !strcmp(op, "mod")) {
		Opnd a, b; BInt m, hq;
		NEED(2);
		a = opnd(ARG(1)); b = opnd(ARG(2));
		m = op[0] == 'r' ? (BInt) fiBIntRem((FiBInt) a.b, (FiBInt) b.b) : (BInt) fiBIntMod((FiBInt) a.b, (FiBInt) b.b);
		evBegin(op); putRaw("a", &a.before); putRaw("b", &b.before); putRes("r", m);
		putBool("ua", unchanged(&a) && unchanged(&b));
		hq = hintQuo(a.b, m, b.b);
		putZ("hq", hq);
	}
	else if (!strcmp(op, "gcd")) {
		Opnd a, b; BInt g, x, y, u, v, t;
		NEED(2);
		a = opnd(ARG(1)); b = opnd(ARG(2));
		g = (BInt) fiBIntGcd((FiBInt) a.b, (FiBInt) b.b);
		evBegin(op); putRaw("a", &a.before); putRaw("b", &b.before); putRes("g", g);
		putBool("ua", unchanged(&a) && unchanged(&b));
		if (bintIsZero(g)) { x = y = u = v = bint0; }
		else {
			/* hints: cofactors and a Bezout pair for them (extended Euclid with the library) */
			BInt r0, r1, s0, s1, t0, t1, q, r2;
			x = bintDivide(&t, a.b, g);
			y = bintDivide(&t, b.b, g);
			r0 = x; r1 = y; s0 = bint1; s1 = bint0; t0 = bint0; t1 = bint1;
			while (!bintIsZero(r1)) {
				BInt s2, t2;
				q  = bintDivide(&r2, r0, r1);
				s2 = bintMinus(s0, bintTimes(q, s1));
				t2 = bintMinus(t0, bintTimes(q, t1));
				r0 = r1; r1 = r2; s0 = s1; s1 = s2; t0 = t1; t1 = t2;
			}
			u = s0; v = t0;
			if (bintIsNeg(r0)) { u = bintNegate(u); v = bintNegate(v); }
		}
		putZ("hx", x); putZ("hy", y); putZ("hu", u); putZ("hv", v);
	}
	else if (!strcmp(op, "sipower")) {
		Opnd a; long n; BInt r;
		NEED(2);
		a = opnd(ARG(1)); n = strtol(ARG(2), 0, 10);
		r = (BInt) fiBIntSIPower((FiBInt) a.b, (FiSInt) n);
		evBegin(op); putRaw("a", &a.before); putInt("e", n); putRes("r", r); putBool("ua", unchanged(&a));
	}
	else if (!strcmp(op, "bipower")) {
		Opnd a, e; BInt r;
		NEED(2);
		a = opnd(ARG(1)); e = opnd(ARG(2));
		r = (BInt) fiBIntBIPower((FiBInt) a.b, (FiBInt) e.b);
		evBegin(op); putRaw("a", &a.before); putRaw("e", &e.before); putRes("r", r);
		putBool("ua", unchanged(&a) && unchanged(&e));
	}
	else if (!strcmp(op, "powermod")) {
		Opnd a, e, c; BInt r, C, A, P, q; int i;
		NEED(3);
		a = opnd(ARG(1)); e = opnd(ARG(2)); c = opnd(ARG(3));
		r = (BInt) fiBIntPowerMod((FiBInt) a.b, (FiBInt) e.b, (FiBInt) c.b);
		evBegin(op); putRaw("a", &a.before); putRaw("e", &e.before); putRaw("c", &c.before); putRes("r", r);
		putBool("ua", unchanged(&a) && unchanged(&e) && unchanged(&c));
		/* hints: the quotients of a square-and-multiply chain on non-negative residues */
		C = bintAbs(c.b);
		fprintf(out, ",\"h\":[");
		A = modPosH(a.b, C, &q);
		{ Raw h = rawRead(q); fprintf(out, "{\"n\":%s,\"d\":", h.neg ? "true" : "false"); putDigits(&h); fputc('}', out); rawFree(&h); }
		P = bintNew(1);
		for (i = 0; i < e.before.nbits; i++) {
			Raw h;
			if (e.before.bits[i]) P = modPosH(bintTimes(P, A), C, &q); else q = bint0;
			h = rawRead(q); fprintf(out, ",{\"n\":%s,\"d\":", h.neg ? "true" : "false"); putDigits(&h); fputc('}', out); rawFree(&h);
			A = modPosH(bintTimes(A, A), C, &q);
			h = rawRead(q); fprintf(out, ",{\"n\":%s,\"d\":", h.neg ? "true" : "false"); putDigits(&h); fputc('}', out); rawFree(&h);
		}
		fputc(']', out);
	}
	else if (!strcmp(op, "length")) {
		Opnd a; long n;
		NEED(1);
		a = opnd(ARG(1));
		n = (long) bintLength(a.b);
		evBegin(op); putRaw("a", &a.before); putInt("len", n); putInt("flen", (long) fiBIntLength((FiBInt) a.b));
		putBool("single", fiBIntIsSingle((FiBInt) a.b)); putBool("ua", unchanged(&a));
	}
	else if (!strcmp(op, "bit")) {
		Opnd a; long ix;
		NEED(2);
		a = opnd(ARG(1)); ix = strtol(ARG(2), 0, 10);
		evBegin(op); putRaw("a", &a.before); putInt("ix", ix);
		putBool("bit", bintBit(a.b, (Length) ix)); putBool("fbit", fiBIntBit((FiBInt) a.b, (FiSInt) ix));
		putBool("ua", unchanged(&a));
	}
	else if (!strcmp(op, "shift")) {
		Opnd a; long n; BInt r, r2;
		NEED(2);
		a = opnd(ARG(1)); n = strtol(ARG(2), 0, 10);
		r  = bintShift(a.b, (int) n);
		r2 = n >= 0 ? (BInt) fiBIntShiftUp((FiBInt) a.b, (FiSInt) n) : (BInt) fiBIntShiftDn((FiBInt) a.b, (FiSInt) -n);
		evBegin(op); putRaw("a", &a.before); putInt("k", n); putRes("r", r); putRes("r2", r2); putBool("ua", unchanged(&a));
	}
	else if (!strcmp(op, "shiftrem")) {
		Opnd a; long n; BInt r;
		NEED(2);
		a = opnd(ARG(1)); n = strtol(ARG(2), 0, 10);
		r = (BInt) fiBIntShiftRem((FiBInt) a.b, (FiSInt) n);
		evBegin(op); putRaw("a", &a.before); putInt("k", n); putRes("r", r); putBool("ua", unchanged(&a));
	}
	else if (!strcmp(op, "frint")) {
		long n; BInt r, r2;
		NEED(1);
		n = strtol(ARG(1), 0, 10);
		r = bintNew(n);
		r2 = (BInt) fiSIntToBInt((FiSInt) n);
		evBegin(op); putLong("v", n); putRes("r", r); putRes("r2", r2);
	}
	else if (!strcmp(op, "toint")) {
		Opnd a; long v;
		NEED(1);
		a = opnd(ARG(1));
		v = (long) fiBIntToSInt((FiBInt) a.b);
		evBegin(op); putRaw("a", &a.before); putLong("v", v);
		putBool("small", bintIsSmall(a.b));
		if (bintIsSmall(a.b)) putLong("sv", bintSmall(a.b)); else putLong("sv", 0);
		putBool("single", fiBIntIsSingle((FiBInt) a.b)); putBool("ua", unchanged(&a));
	}
	else if (!strcmp(op, "tostring")) {
		Opnd a; String s; char *s2;
		NEED(1);
		a = opnd(ARG(1));
		s = bintToString(a.b);
		s2 = fiBIntToString((FiBInt) a.b);
		evBegin(op); putRaw("a", &a.before); putStr("s", s); putBool("same2", strcmp(s, s2) == 0);
		putInt("size", (long) bintStringSize(a.b)); putBool("ua", unchanged(&a));
	}
	else if (!strcmp(op, "frstring")) {
		BInt r, r2;
		NEED(1);
		r = bintFrString(ARG(1));
		r2 = (BInt) fiArrToBInt((FiArr) ARG(1));
		evBegin(op); putStr("s", ARG(1)); putRes("r", r); putRes("r2", r2);
	}
	else if (!strcmp(op, "scan")) {
		BInt r; String end = 0;
		NEED(1);
		r = bintScanFrString(ARG(1), &end);
		evBegin(op); putStr("s", ARG(1)); putRes("r", r); putInt("end", (long) (end - ARG(1)));
	}
#if DRV_LG == 32
	else if (!strcmp(op, "placev")) {
		/* 16-bit place vectors: how big literals travel from the compiler to generated C */
		Opnd a; int size = 0, i, k, n16; U16 *data = 0, *in; BInt r;
		NEED(1);
		a = opnd(ARG(1));
		bintToPlacevS(a.b, &size, &data);
		evBegin(op); putRaw("a", &a.before);
		fprintf(out, ",\"p16\":[");
		for (i = 0; i < size; i++) fprintf(out, i ? ",[%d,%d]" : "[%d,%d]", data[i] & 2047, data[i] >> 11);
		fputc(']', out);
		putBool("ua", unchanged(&a));
		/* and back: the value's own bits cut into 16-bit places by this driver */
		n16 = (a.before.nbits + 15) / 16;
		in = (U16 *) calloc(n16 + 2, sizeof(U16));
		for (i = 0; i < n16; i++) {
			unsigned d = 0;
			for (k = 0; k < 16 && 16*i + k < a.before.nbits; k++) d |= a.before.bits[16*i + k] << k;
			in[i] = (U16) d;
		}
		r = (BInt) fiBIntFrPlacev(a.before.neg, (unsigned long) n16, in);
		putRes("r", r);
	}
#endif
	else {
		fprintf(stderr, "bigint_drv: line %ld: unknown operation '%s'\n", curLine, op);
		exit(3);
	}
	fputs("}\n", out);
}

int
main(int argc, char **argv)
{
	FILE *in;
	char *line = 0; size_t cap = 0;
	long first = 1;

	if (argc < 3) { fprintf(stderr, "usage: bigint_drv WORKLIST OUT [first]\n"); return 3; }
	if (argc > 3) first = strtol(argv[3], 0, 10);
	osInit();
#if DRV_LG == 7
	dbOut = open_memstream(&dbBuf, &dbLen);
#else
	dbOut = fopen("/dev/null", "w");
#endif
	in = fopen(argv[1], "r");
	out = fopen(argv[2], "a");
	if (!in || !out) { perror("bigint_drv"); return 3; }
	signal(SIGALRM, onAlarm);
	signal(SIGSEGV, onFault); signal(SIGABRT, onFault); signal(SIGFPE, onFault); signal(SIGBUS, onFault); signal(SIGILL, onFault);
	while (getline(&line, &cap, in) > 0) {
		curLine++;
		if (curLine < first) continue;
		alarm(20);
		doLine(line);
		if ((curLine & 63) == 0) fflush(out);
	}
	fclose(out);
	return 0;
}
