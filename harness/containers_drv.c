/*
 * containers_drv.c -- conformance driver for property C20.
 *
 * Links against the objects vbuild made from /repo's working tree and drives
 * table.c, btree.c, priq.c, bitv.c and dnf.c through their public operations.
 * It decides nothing: every call and everything the call returned is written
 * as one ndjson event; spec/TraceContainers.tla and spec/TraceDnf.tla (TLC)
 * accept or reject the trace.
 *
 *   containers_drv script IN OUT [SHARD NSHARDS]
 *        IN: one case per line (produced from TLC's behaviour export)
 *            T <hash> ops..   S<k>,<v> G<k> D<k> C W R M Z I
 *            B <t> ops..      I<k>,<e> D<k> E<k> G<k> m x c d
 *            P <guess> ops..  I<k>,<e> X K C N M
 *            V <nbits> <nreg> ops..  s<r>,<i> c<r>,<i> t<r>,<i> A<r> Z<r> y<r>,<a> n<r>,<a>
 *                             &<r>,<a>,<b> |<r>,<a>,<b> -<r>,<a>,<b> #<r> k<r>,<n> x<r>
 *                             =<a>,<b> R<n> f<r>,<x> i<r> u<r>,<org>,<lim> d
 *            F <prefix formula>            a<i> n<i> T F & | ~
 *            Q <formula> ; <formula>       (q: both directions)
 *            L <natoms>                    leaf constructors
 *   containers_drv random KIND SEED STEPS PARAM OUT
 *        KIND: T (PARAM = hash mode), B (PARAM = t), P (PARAM = key range), V (PARAM ignored)
 *
 * The store is the repository's store.c.  Calls to stoAlloc/stoFree/stoResize
 * made by the modules under test are routed (ld --wrap) through a guard that
 * appends a canary pad to every block and keeps a list of live blocks, so a
 * write past the end of a block or a free of something that is not a block
 * is *observed* (fields "mem") instead of silently corrupting later cases.
 */
#define _GNU_SOURCE
#include "axlgen.h"
#include "opsys.h"
#include "store.h"
#include "debug.h"
#include "table.h"
#include "btree.h"
#include "priq.h"
#include "bitv.h"
#include "dnf.h"
#include "util.h"

#include <stdio.h>
#include <stdlib.h>
#include <string.h>
#include <stdarg.h>
#include <signal.h>
#include <setjmp.h>
#include <unistd.h>
#include <fcntl.h>
#include <sys/wait.h>
#include <sys/mman.h>

/* ------------------------------------------------------------------------
 * guarded store
 */
extern MostAlignedType *__real_stoAlloc(unsigned code, ULong n);
extern void             __real_stoFree(Pointer p);
extern MostAlignedType *__real_stoResize(Pointer p, ULong n);

#define PAD   32
#define CAN   0xC5
#define HCAP  (1L << 17)

typedef struct { char *p; unsigned long n; } Blk;
static Blk  *liveB;           /* dense array of live blocks */
static long  nlive, caplive;
static long *hslot;           /* open addressing: index+1 into liveB, 0 empty, -1 deleted */
static long  htomb;
static int   guard_on;        /* inside a call of the code under test */
static long  g_ovf, g_badfree;

static unsigned long hptr(void *p) { unsigned long x = (unsigned long)p; x ^= x >> 17; x *= 0x9E3779B97F4A7C15UL; return x >> 20; }

static long hfind(void *p)
{
	unsigned long i;
	if (!hslot) return -1;
	for (i = hptr(p) & (HCAP - 1); hslot[i] != 0; i = (i + 1) & (HCAP - 1))
		if (hslot[i] > 0 && liveB[hslot[i] - 1].p == (char *)p) return (long)i;
	return -1;
}

static void hrebuild(void)
{
	long j; unsigned long i;
	memset(hslot, 0, HCAP * sizeof(long));
	htomb = 0;
	for (j = 0; j < nlive; j++) {
		for (i = hptr(liveB[j].p) & (HCAP - 1); hslot[i] != 0; i = (i + 1) & (HCAP - 1)) ;
		hslot[i] = j + 1;
	}
}

static void track(char *p, unsigned long n)
{
	unsigned long i;
	if (!hslot) { hslot = calloc(HCAP, sizeof(long)); caplive = 1024; liveB = malloc(caplive * sizeof(Blk)); }
	if (nlive == caplive) { caplive *= 2; liveB = realloc(liveB, caplive * sizeof(Blk)); }
	if (nlive > HCAP / 4) { fprintf(stderr, "containers_drv: too many live blocks\n"); _exit(2); }
	liveB[nlive].p = p; liveB[nlive].n = n; nlive++;
	for (i = hptr(p) & (HCAP - 1); hslot[i] > 0; i = (i + 1) & (HCAP - 1)) ;
	if (hslot[i] == -1) htomb--;
	hslot[i] = nlive;
}

static int canary_bad(Blk *b)
{
	int i;
	for (i = 0; i < PAD; i++) if ((unsigned char)b->p[b->n + i] != CAN) return 1;
	return 0;
}

static void untrack(long slot)
{
	long j = hslot[slot] - 1, s2;
	hslot[slot] = -1; htomb++;
	nlive--;
	if (j != nlive) {
		s2 = hfind(liveB[nlive].p);
		liveB[j] = liveB[nlive];
		hslot[s2] = j + 1;
	}
	if (htomb > HCAP / 4) hrebuild();
}

MostAlignedType *__wrap_stoAlloc(unsigned code, ULong n)
{
	char *p;
	if (n == 0) return __real_stoAlloc(code, n);
	p = (char *)__real_stoAlloc(code, n + PAD);
	if (!p) return 0;
	memset(p + n, CAN, PAD);
	track(p, n);
	return (MostAlignedType *)p;
}

void __wrap_stoFree(Pointer p)
{
	long s;
	if (p == 0) return;
	s = hfind(p);
	if (s < 0) {
		if (guard_on) { g_badfree++; return; }   /* observed, not executed */
		__real_stoFree(p);
		return;
	}
	if (canary_bad(&liveB[hslot[s] - 1])) g_ovf++;
	untrack(s);
	__real_stoFree(p);
}

MostAlignedType *__wrap_stoResize(Pointer p, ULong n)
{
	long s = hfind(p);
	char *q;
	if (s < 0) {
		if (guard_on) g_badfree++;
		return __real_stoResize(p, n);
	}
	if (canary_bad(&liveB[hslot[s] - 1])) g_ovf++;
	untrack(s);
	q = (char *)__real_stoResize(p, n + PAD);
	if (!q) return 0;
	memset(q + n, CAN, PAD);
	track(q, n);
	return (MostAlignedType *)q;
}

static void scan_canaries(void)
{
	long j;
	for (j = 0; j < nlive; j++)
		if (canary_bad(&liveB[j])) {
			g_ovf++;
			memset(liveB[j].p + liveB[j].n, CAN, PAD);   /* report once */
		}
}

/* ------------------------------------------------------------------------
 * call wrapper: outcome of a call = returned / signal / store error
 */
static sigjmp_buf jb;
static volatile sig_atomic_t catching;
static volatile int oc;           /* 0 ok, 1..64 signal, 1000+n store error */
static int dirty;                 /* process state no longer trustworthy */

static void onsig(int s)
{
	if (catching) siglongjmp(jb, s);
	_exit(100 + s);
}

static MostAlignedType *onsto(int errnum)
{
	if (errnum == StoErr_OutOfMemory) return 0;
	if (catching) siglongjmp(jb, 1000 + errnum);
	_exit(99);
	return 0;
}

static int evoc;                  /* first non-zero outcome among the calls of the current event */

#define CALL(...) do { guard_on = 1; catching = 1; \
	if ((oc = sigsetjmp(jb, 1)) == 0) { __VA_ARGS__; } \
	catching = 0; guard_on = 0; if (oc) { dirty = 1; if (!evoc) evoc = oc; } scan_canaries(); } while (0)

/* an observation that writes into the event: if it faults, what it wrote is dropped */
#define OBS(...) do { long mark_ = elen; CALL(__VA_ARGS__); if (oc) elen = mark_; } while (0)

/* ------------------------------------------------------------------------
 * event output
 */
static FILE *T;
static char  ebuf[1 << 20];
static long  elen;
static long  nevents;

static void E(const char *fmt, ...)
{
	va_list ap;
	va_start(ap, fmt);
	elen += vsnprintf(ebuf + elen, sizeof(ebuf) - elen, fmt, ap);
	va_end(ap);
	if (elen > (long)sizeof(ebuf) - 4096) { fprintf(stderr, "containers_drv: event too long\n"); _exit(2); }
}

static void Ebegin(const char *ev) { elen = 0; evoc = 0; oc = 0; g_ovf = g_badfree = 0; E("{\"ev\":\"%s\"", ev); }

static void Eend(void)
{
	if (evoc >= 1000) E(",\"o\":\"sto%d\"", evoc - 1000);
	else if (evoc)    E(",\"o\":\"sig%d\"", evoc);
	if (g_ovf)        E(",\"mem\":\"ovf\"");
	else if (g_badfree) E(",\"mem\":\"badfree\"");
	E("}\n");
	fwrite(ebuf, 1, elen, T);
	nevents++;
	g_ovf = g_badfree = 0;
}

/* an event that exists only if the call just made went wrong (frees at the end of a case) */
static void endEvent(const char *ev)
{
	int soc = oc; long so = g_ovf, sb = g_badfree;
	if (!(soc || so || sb)) return;
	Ebegin(ev); evoc = soc; g_ovf = so; g_badfree = sb; Eend();
}

static void Eraw(const char *s) { fputs(s, T); nevents++; }

/* ------------------------------------------------------------------------
 * random numbers (all from the seed on the command line)
 */
static unsigned long long rs;
static unsigned long rnd(void)
{
	rs ^= rs >> 12; rs ^= rs << 25; rs ^= rs >> 27;
	return (unsigned long)((rs * 0x2545F4914F6CDD1DULL) >> 33);
}
static long rint_(long n) { return n <= 0 ? 0 : (long)(rnd() % (unsigned long)n); }

/* ------------------------------------------------------------------------
 * results of calls live in statics (they are read after a possible longjmp)
 */
static long     rL, rL2;
static Pointer  rP;
static int      rI, rI2;
static double   rD;
static BTree    rB;
static DNF      rDnf;
static Bitv     rBv;

/* ========================================================================
 * Table
 */
static int  full;                 /* piggyback full observations on every mutator */
static long caseNo;               /* script mode: index of the case being run */

static const unsigned long tinyH[4] = { 0, 0, 7, 1 };
static Hash hTiny(TblKey k) { return (Hash)tinyH[((long)k) & 3]; }
static Hash hM8(TblKey k)   { return (Hash)(((long)k) % 8); }
static Hash hId(TblKey k)   { return (Hash)(long)k; }
static Bool kEq(TblKey a, TblKey b) { return (long)a == (long)b; }

static Table tb, tbc;             /* the table and (optionally) its copy */

static long freedV[4096]; static int nfreed;
static void remFree(TblElt e) { if (nfreed < 4096) freedV[nfreed++] = (long)e; }
static Bool remTest(TblElt e) { return ((long)e) & 1; }
static TblElt mapInc(TblElt e) { return (TblElt)((long)e + 1); }

static void tblDumpTo(Table t, const char *nfield, const char *ifield)
{
	TableIterator it;
	int first = 1;
	E(",\"%s\":%ld,\"%s\":[", nfield, (long)tblSize(t), ifield);
	for (tblITER(it, t); tblMORE(it); tblSTEP(it)) {
		E("%s[%ld,%ld]", first ? "" : ",", (long)tblKEY(it), (long)tblELT(it));
		first = 0;
	}
	E("]");
}

static void tblObs(void)
{
	if (evoc) return;
	OBS(tblDumpTo(tb, "n", "it"); if (tbc) tblDumpTo(tbc, "cn", "cit"));
}

static void tblStart(const char *hmode)
{
	TblHashFun h = 0; TblEqFun e = kEq;
	if      (!strcmp(hmode, "tiny")) h = hTiny;
	else if (!strcmp(hmode, "m8"))   h = hM8;
	else if (!strcmp(hmode, "id"))   h = hId;
	else if (!strcmp(hmode, "null")) { h = 0; e = 0; }
	else { fprintf(stderr, "bad hash mode %s\n", hmode); _exit(2); }
	Ebegin("TNew"); E(",\"h\":\"%s\"", hmode);
	CALL(tb = tblNew(h, e));
	tbc = 0;
	Eend();
}

static void tblEnd(void)
{
	if (dirty) return;
	CALL(if (tb) tblFree(tb); if (tbc) tblFree(tbc));
	tb = tbc = 0;
	endEvent("TFree");
}

static void tSet(long k, long v)
{
	Ebegin("TSet"); E(",\"k\":%ld,\"v\":%ld", k, v);
	CALL(rP = tblSetElt(tb, (TblKey)k, (TblElt)v));
	if (!oc) E(",\"r\":%ld", (long)rP);
	if (full) tblObs();
	Eend();
}
static void tGet(long k)
{
	Ebegin("TGet"); E(",\"k\":%ld", k);
	CALL(rP = tblElt(tb, (TblKey)k, (TblElt)-1L));
	if (!oc) { if ((long)rP == -1L) E(",\"f\":false"); else E(",\"f\":true,\"v\":%ld", (long)rP); }
	if (full) tblObs();
	Eend();
}
static void tDrop(long k)
{
	Ebegin("TDrop"); E(",\"k\":%ld", k);
	CALL(rP = (Pointer)tblDrop(tb, (TblKey)k));
	if (full) tblObs();
	Eend();
}
static void tCopy(void)
{
	Ebegin("TCopy");
	CALL(if (tbc) tblFree(tbc); tbc = tblCopy(tb));
	if (full) tblObs();
	Eend();
}
static void tSwap(void)
{
	Table x;
	if (!tbc) return;
	Ebegin("TSwap"); x = tb; tb = tbc; tbc = x;
	if (full) tblObs();
	Eend();
}
static void tRemIf(void)
{
	int i;
	Ebegin("TRemIf"); nfreed = 0;
	CALL(tblRemoveIf(tb, remFree, remTest));
	E(",\"freed\":[");
	for (i = 0; i < nfreed; i++) E("%s%ld", i ? "," : "", freedV[i]);
	E("]");
	if (full) tblObs();
	Eend();
}
static void tMap(void)
{
	Ebegin("TMap"); E(",\"add\":1");
	CALL(tblNMap(mapInc, tb));
	if (full) tblObs();
	Eend();
}
static void tSize(void)
{
	Ebegin("TSize");
	CALL(rL = (long)tblSize(tb));
	if (!oc) E(",\"n\":%ld", rL);
	Eend();
}
static void tIter(void)
{
	Ebegin("TIter");
	tblObs();
	Eend();
}

/* ========================================================================
 * B-tree
 */
static BTree bt;
static int obsAll;                /* short histories: also run every observer after the call */
static void btSearches(void);

static void btDump0(BTree x, int *first)
{
	int i;
	for (i = 0; i < x->nKeys; i++) {
		if (!x->isLeaf) btDump0(x->part[i].branch, first);
		E("%s[%ld,%ld]", *first ? "" : ",", (long)x->part[i].key, (long)x->part[i].entry);
		*first = 0;
	}
	if (!x->isLeaf) btDump0(x->part[x->nKeys].branch, first);
}
static void btObs(int dump)
{
	static int first;
	if (evoc) return;
	CALL(rI = btreeCheck(bt));
	if (!oc) E(",\"rc\":%d", rI); else return;
	first = 1;
	if (dump) OBS(E(",\"it\":["); btDump0(bt, &first); E("]"));
	if (dump && full && !evoc && obsAll) OBS(btSearches());
}
/* every search, for every key of the (small) generator universe */
static void btSearches(void)
{
	long k; int ix; BTree x;
	x = btreeSearchMin(bt, &ix);
	if (x && x->nKeys > 0) E(",\"mm\":[[1,%ld,%ld]", (long)btreeKey(x, ix), (long)btreeElt(x, ix)); else E(",\"mm\":[[0,0,0]");
	x = btreeSearchMax(bt, &ix);
	if (x && x->nKeys > 0) E(",[1,%ld,%ld]]", (long)btreeKey(x, ix), (long)btreeElt(x, ix)); else E(",[0,0,0]]");
	E(",\"srch\":[");
	for (k = 0; k <= 20; k++) {
		E("%s[%ld,", k ? "," : "", k);
		x = btreeSearchEQ(bt, (BTreeKey)k, &ix);
		if (x) E("1,%ld,%ld,", (long)btreeKey(x, ix), (long)btreeElt(x, ix)); else E("0,0,0,");
		x = btreeSearchGE(bt, (BTreeKey)k, &ix);
		if (x) E("1,%ld,%ld]", (long)btreeKey(x, ix), (long)btreeElt(x, ix)); else E("0,0,0]");
	}
	E("]");
}

static void bStart(long t)
{
	Ebegin("BNew"); E(",\"t\":%ld", t);
	CALL(bt = btreeNew(t));
	Eend();
}
static void bEnd(void)
{
	if (dirty) return;
	CALL(if (bt) btreeFree(bt));
	bt = 0;
	endEvent("BFree");
}
static void bIns(long k, long e)
{
	Ebegin("BIns"); E(",\"k\":%ld,\"e\":%ld", k, e);
	CALL(btreeInsert(&bt, (BTreeKey)k, (BTreeElt)e));
	btObs(full);
	Eend();
}
/* btreeDelete of an absent key reads a branch pointer of a leaf: the caller must know the key is present */
static void bDel(long k)
{
	int ix;
	Ebegin("BDel"); E(",\"k\":%ld", k);
	CALL(rB = btreeSearchEQ(bt, (BTreeKey)k, &ix));
	if (oc || !rB) { if (!oc) E(",\"skip\":true"); Eend(); return; }
	rP = (Pointer)-1L;
	CALL(btreeDelete(&bt, (BTreeKey)k, &rP));
	if (!oc) E(",\"e\":%ld", (long)rP);
	btObs(full);
	Eend();
}
static void bEq(long k)
{
	Ebegin("BEq"); E(",\"k\":%ld", k);
	CALL(rB = btreeSearchEQ(bt, (BTreeKey)k, (int *)&rI); if (rB) { rL = (long)btreeKey(rB, rI); rP = btreeElt(rB, rI); });
	if (!oc) { if (rB) E(",\"f\":true,\"rk\":%ld,\"e\":%ld", rL, (long)rP); else E(",\"f\":false"); }
	Eend();
}
static void bGe(long k)
{
	Ebegin("BGe"); E(",\"k\":%ld", k);
	CALL(rB = btreeSearchGE(bt, (BTreeKey)k, (int *)&rI); if (rB) { rL = (long)btreeKey(rB, rI); rP = btreeElt(rB, rI); });
	if (!oc) { if (rB) E(",\"f\":true,\"rk\":%ld,\"e\":%ld", rL, (long)rP); else E(",\"f\":false"); }
	Eend();
}
/* btreeSearchMin/Max on an empty tree return an index that does not exist: only the emptiness is reported then */
static void bMinMax(int max)
{
	Ebegin(max ? "BMax" : "BMin");
	CALL(rB = max ? btreeSearchMax(bt, (int *)&rI) : btreeSearchMin(bt, (int *)&rI);
	     if (rB && rB->nKeys > 0) { rL = (long)btreeKey(rB, rI); rP = btreeElt(rB, rI); rI2 = 1; } else rI2 = 0);
	if (!oc) { if (rI2) E(",\"f\":true,\"rk\":%ld,\"e\":%ld", rL, (long)rP); else E(",\"f\":false"); }
	Eend();
}
static void bCheck(int dump)
{
	Ebegin(dump ? "BDump" : "BCheck");
	btObs(dump);
	Eend();
}

/* ========================================================================
 * Priority queue
 */
static PriQ pq;
static int  pmFirst;
static void pmFn(PriQKey k, PriQElt e) { E("%s[%ld,%ld]", pmFirst ? "" : ",", (long)k, (long)e); pmFirst = 0; }

static void pStart(long guess)
{
	Ebegin("PNew"); E(",\"g\":%ld", guess);
	CALL(pq = priqNew(guess));
	Eend();
}
static void pEnd(void)
{
	if (dirty) return;
	CALL(if (pq) priqFree(pq));
	pq = 0;
	endEvent("PFree");
}
static void pObs(void)
{
	if (evoc) return;
	E(",\"n\":%ld", (long)priqCount(pq));
	pmFirst = 1; OBS(E(",\"it\":["); priqMap(pmFn, pq); E("]"));
	if (!evoc && priqCount(pq) > 0) OBS(rP = priqPeekMin(pq, (PriQKey *)&rD); E(",\"peek\":[%ld,%ld]", (long)rD, (long)rP));
}
static void pIns(long k, long e)
{
	Ebegin("PIns"); E(",\"k\":%ld,\"e\":%ld", k, e);
	CALL(priqInsert(pq, (PriQKey)k, (PriQElt)e));
	if (full) pObs();
	Eend();
}
/* Extract/Peek on an empty queue: the module promises bug(); what it does instead is done
 * in a forked copy of this process so that the history can be reported and then ended. */
static int pEmptyCall(int peek)
{
	pid_t c; int st;
	fflush(T);
	c = fork();
	if (c == 0) {
		signal(SIGABRT, SIG_DFL); signal(SIGSEGV, SIG_DFL); signal(SIGBUS, SIG_DFL);
		stoSetHandler(0);
		if (peek) priqPeekMin(pq, (PriQKey *)&rD); else priqExtractMin(pq, (PriQKey *)&rD);
		_exit(0);
	}
	waitpid(c, &st, 0);
	if (WIFSIGNALED(st)) return WTERMSIG(st);
	return WEXITSTATUS(st) ? 1000 + WEXITSTATUS(st) : 0;
}
static void pExt(int peek)
{
	Ebegin(peek ? "PPeek" : "PExt");
	if (priqCount(pq) == 0) {
		E(",\"empty\":true");
		evoc = pEmptyCall(peek);
		Eend();
		dirty = 1;                 /* nothing after it is meaningful */
		return;
	}
	CALL(rP = peek ? priqPeekMin(pq, (PriQKey *)&rD) : priqExtractMin(pq, (PriQKey *)&rD));
	if (!oc) E(",\"k\":%ld,\"e\":%ld", (long)rD, (long)rP);
	if (full) pObs();
	Eend();
}
static void pCheck(void)
{
	int wasDirty = dirty;
	Ebegin("PCheck");
	CALL(rI = priqCheck(pq));
	if (!oc) E(",\"ok\":%s", rI ? "true" : "false");
	if (oc == SIGABRT) dirty = wasDirty;      /* bug() after a read-only scan: state is intact */
	Eend();
}
static void pCount(void)
{
	Ebegin("PCount");
	pObs();
	Eend();
}

/* ========================================================================
 * Bit vectors
 */
#define MAXREG 4
static BitvClass vcls;
static Bitv      vreg[MAXREG];
static int       vR;

static void vBits(Bitv b)
{
	int i, first = 1, n = (int)bitvClassSize(vcls);
	E("[");
	for (i = 0; i < n; i++) if (bitvTest(vcls, b, i)) { E("%s%d", first ? "" : ",", i); first = 0; }
	E("]");
}
static void vObservers(void)
{
	int r, n, nb = (int)bitvClassSize(vcls);
	E(",\"cnt\":[");  for (r = 0; r < vR; r++) E("%s%d", r ? "," : "", bitvCount(vcls, vreg[r])); E("]");
	E(",\"max\":[");  for (r = 0; r < vR; r++) E("%s%d", r ? "," : "", bitvMax(vcls, vreg[r])); E("]");
	E(",\"uniq\":["); for (r = 0; r < vR; r++) E("%s%d", r ? "," : "", bitvUnique1IndexInRange(vcls, vreg[r], 0, nb)); E("]");
	if (nb < 31) { E(",\"int\":["); for (r = 0; r < vR; r++) E("%s%d", r ? "," : "", bitvToInt(vcls, vreg[r])); E("]"); }
	if (vR >= 2) E(",\"eq\":%s", bitvEqual(vcls, vreg[0], vreg[1]) ? "true" : "false");
	if (nb <= 8) {
		E(",\"cto\":[");
		for (r = 0; r < vR; r++) { E("%s[", r ? "," : ""); for (n = 0; n <= nb; n++) E("%s%d", n ? "," : "", bitvCountTo(vcls, vreg[r], n)); E("]"); }
		E("]");
	}
}

static void vObs(void)
{
	int r;
	if (evoc) return;
	OBS(E(",\"d\":["); for (r = 0; r < vR; r++) { if (r) E(","); vBits(vreg[r]); } E("]"));
	if (full && !evoc) OBS(vObservers());
}
static void vStart(long n, long R)
{
	int r;
	Ebegin("VNew"); E(",\"n\":%ld,\"R\":%ld", n, R);
	vR = (int)R;
	CALL(vcls = bitvClassCreate((int)n); for (r = 0; r < vR; r++) { vreg[r] = bitvNew(vcls); bitvClearAll(vcls, vreg[r]); });
	Eend();
}
static void vEnd(void)
{
	int r;
	if (dirty) return;
	CALL(for (r = 0; r < vR; r++) bitvFree(vreg[r]); bitvClassDestroy(vcls));
	vR = 0;
	endEvent("VFree");
}
#define VOP(name, fields, call) do { Ebegin(name); E fields; CALL(call); if (full) vObs(); Eend(); } while (0)

static void vResize(long n)
{
	int r;
	static BitvClass nc;
	Ebegin("VResize"); E(",\"n\":%ld", n);
	CALL(nc = bitvClassCreate((int)n);
	     for (r = 0; r < vR; r++) vreg[r] = bitvResize(nc, vcls, vreg[r]);
	     bitvClassDestroy(vcls); vcls = nc);
	vObs();
	Eend();
}
static void vFromInt(long r, long x)
{
	Ebegin("VFromInt"); E(",\"r\":%ld,\"x\":%ld", r, x);
	CALL(rBv = bitvFromInt(vcls, (int)x); bitvFree(vreg[r]); vreg[r] = rBv);
	if (full) vObs();
	Eend();
}

/* ========================================================================
 * DNF
 */
static void dnfJson(DNF d)
{
	int i, j;
	E("[");
	for (i = 0; i < d->argc; i++) {
		E("%s[", i ? "," : "");
		for (j = 0; j < (int)d->argv[i]->argc; j++) E("%s%d", j ? "," : "", d->argv[i]->argv[j]);
		E("]");
	}
	E("]");
}

static char **ftok; static int fpos, fcnt;
static char  fjson[1 << 16]; static int fjl;
static int   quiet;               /* do not log the construction steps */
static int   dnfFailed;

static void FJ(const char *fmt, ...)
{
	va_list ap; va_start(ap, fmt);
	fjl += vsnprintf(fjson + fjl, sizeof(fjson) - fjl, fmt, ap);
	va_end(ap);
}

/* the events of the steps are written as they happen, so E()'s buffer is used per step */
static void dnfStep(const char *ev, DNF x, DNF y, DNF r)
{
	int soc = oc; long sovf = g_ovf, sbf = g_badfree;
	if (quiet && !oc && !g_ovf && !g_badfree) return;
	Ebegin(ev);
	evoc = soc; g_ovf = sovf; g_badfree = sbf;
	OBS(E(",\"x\":"); dnfJson(x));
	if (y) OBS(E(",\"y\":"); dnfJson(y));
	if (!soc) OBS(E(",\"r\":"); dnfJson(r));
	oc = soc;
	Eend();
}

static void dnfRelease(DNF d)
{
	int soc; long sovf, sbf;
	if (!d || dirty) return;
	evoc = 0; g_ovf = g_badfree = 0;
	CALL(dnfFree(d));
	soc = oc; sovf = g_ovf; sbf = g_badfree;
	if (soc || sovf || sbf) { Ebegin("DFree"); evoc = soc; g_ovf = sovf; g_badfree = sbf; Eend(); if (soc) dnfFailed = 1; }
}

static DNF dnfBuild(void)
{
	char *t; DNF x, y, r;
	if (fpos >= fcnt) { fprintf(stderr, "containers_drv: formula too short\n"); _exit(2); }
	t = ftok[fpos++];
	switch (t[0]) {
	/* the formula is logged as its prefix token sequence: i, -i, 100 true, 101 false, 102 not, 103 and, 104 or */
	case 'a': FJ("%s%d", fjl ? "," : "", atoi(t + 1));  CALL(rDnf = dnfAtom(atoi(t + 1)));    break;
	case 'n': FJ("%s%d", fjl ? "," : "", -atoi(t + 1)); CALL(rDnf = dnfNotAtom(atoi(t + 1))); break;
	case 'T': FJ("%s100", fjl ? "," : ""); CALL(rDnf = dnfTrue());  break;
	case 'F': FJ("%s101", fjl ? "," : ""); CALL(rDnf = dnfFalse()); break;
	case '~':
		FJ("%s102", fjl ? "," : ""); x = dnfBuild();
		if (dnfFailed) return 0;
		g_ovf = g_badfree = 0;
		CALL(rDnf = dnfNot(x));
		r = rDnf; dnfStep("DNot", x, 0, r);
		if (oc) { dnfFailed = 1; return 0; }
		dnfRelease(x);
		return r;
	case '&': case '|':
		FJ("%s%d", fjl ? "," : "", t[0] == '&' ? 103 : 104); x = dnfBuild();
		if (dnfFailed) return 0;
		y = dnfBuild();
		if (dnfFailed) return 0;
		g_ovf = g_badfree = 0;
		if (t[0] == '&') CALL(rDnf = dnfAnd(x, y)); else CALL(rDnf = dnfOr(x, y));
		r = rDnf; dnfStep(t[0] == '&' ? "DAnd" : "DOr", x, y, r);
		if (oc) { dnfFailed = 1; return 0; }
		dnfRelease(x); dnfRelease(y);
		return r;
	default:
		fprintf(stderr, "containers_drv: bad formula token %s\n", t); _exit(2);
	}
	if (oc) { int soc = oc; Ebegin("DLeafFault"); evoc = soc; Eend(); dnfFailed = 1; return 0; }
	return rDnf;
}

static void dnfLeaves(int natoms)
{
	int i; DNF d;
	for (i = 1; i <= natoms; i++) {
		Ebegin("DAtom"); E(",\"i\":%d", i); CALL(rDnf = dnfAtom(i)); d = rDnf; if (!oc) { E(",\"r\":"); dnfJson(d); } Eend();
		Ebegin("DNAtom"); E(",\"i\":%d", i); CALL(rDnf = dnfNotAtom(i)); d = rDnf; if (!oc) { E(",\"r\":"); dnfJson(d); } Eend();
	}
	Ebegin("DTrue");  CALL(rDnf = dnfTrue());  d = rDnf; if (!oc) { E(",\"r\":"); dnfJson(d); } Eend();
	Ebegin("DFalse"); CALL(rDnf = dnfFalse()); d = rDnf; if (!oc) { E(",\"r\":"); dnfJson(d); } Eend();
}

static void dnfCaseF(char **tok, int n)
{
	DNF d, c;
	ftok = tok; fpos = 0; fcnt = n; fjl = 0; fjson[0] = 0; dnfFailed = 0; quiet = 0;
	d = dnfBuild();
	if (dnfFailed || !d) return;
	Ebegin("DMk"); E(",\"f\":[%s]", fjson); OBS(E(",\"r\":"); dnfJson(d));
	CALL(rI = dnfIsTrue(d); rI2 = dnfIsFalse(d));
	if (!oc) E(",\"isT\":%s,\"isF\":%s", rI ? "true" : "false", rI2 ? "true" : "false");
	Eend();
	if (dirty) return;
	if (caseNo % 8) { dnfRelease(d); return; }
	Ebegin("DCopy"); OBS(E(",\"x\":"); dnfJson(d));
	CALL(rDnf = dnfCopy(d));
	c = rDnf;
	if (!oc) OBS(E(",\"r\":"); dnfJson(c));
	Eend();
	if (dirty) return;
	dnfRelease(c);
	dnfRelease(d);
}

static void dnfPairEv(const char *ev, DNF x, DNF y)
{
	Ebegin(ev); OBS(E(",\"x\":"); dnfJson(x)); OBS(E(",\"y\":"); dnfJson(y));
	if (!strcmp(ev, "DImp")) CALL(rI = dnfImplies(x, y)); else CALL(rI = dnfEqual(x, y));
	if (!oc) E(",\"r\":%s", rI ? "true" : "false");
	Eend();
}

/* the operands of a pair case: the formula and the DNF built for it (no verdict: it lets the trace
 * specification tell the DNFs the pinned constructors build from others) */
static void dnfMkQEv(DNF d)
{
	Ebegin("DMkQ"); E(",\"f\":[%s]", fjson); OBS(E(",\"r\":"); dnfJson(d)); Eend();
}

static int bothWays;              /* 'q' cases (random pairs): test both directions */

static void dnfCaseQ(char **tok, int n)
{
	DNF x, y; int semi;
	for (semi = 0; semi < n && strcmp(tok[semi], ";"); semi++) ;
	if (semi >= n) { fprintf(stderr, "containers_drv: Q case without ;\n"); _exit(2); }
	quiet = 1; dnfFailed = 0;
	ftok = tok; fpos = 0; fcnt = semi; fjl = 0; fjson[0] = 0; x = dnfBuild();
	if (dnfFailed || !x) return;
	quiet = 0; dnfMkQEv(x); quiet = 1; if (dirty) return;
	ftok = tok + semi + 1; fpos = 0; fcnt = n - semi - 1; fjl = 0; fjson[0] = 0; y = dnfBuild();
	if (dnfFailed || !y) return;
	quiet = 0;
	dnfMkQEv(y); if (dirty) return;
	dnfPairEv("DImp", x, y); if (dirty) return;
	dnfPairEv("DEq", x, y);  if (dirty) return;
	if (bothWays || caseNo % 16 == 0) {       /* the exhaustive pair set is ordered, so (y,x) is a case of its own */
		dnfPairEv("DImp", y, x); if (dirty) return;
		dnfPairEv("DEq", x, x);  if (dirty) return;
	}
	dnfRelease(x); dnfRelease(y);
}

/* ========================================================================
 * script interpreter
 */
static int a3(const char *s, long *a, long *b, long *c)
{
	return sscanf(s, "%ld,%ld,%ld", a, b, c);
}

static void runCase(char *line)
{
	char *tok[4096]; int n = 0; char *sv = 0, *t; int i;
	long a, b, c;
	for (t = strtok_r(line, " \t\r\n", &sv); t && n < 4096; t = strtok_r(0, " \t\r\n", &sv)) tok[n++] = t;
	if (n == 0) return;
	full = 1; dirty = 0;
#define LASTOP (i == n - 1)
	switch (tok[0][0]) {
	case 'T':
		tblStart(tok[1]);
		for (i = 2; i < n && !dirty; i++) {
			a = b = c = 0; a3(tok[i] + 1, &a, &b, &c);
			switch (tok[i][0]) {
			case 'S': tSet(a, b); break;   case 'G': tGet(a); break;   case 'D': tDrop(a); break;
			case 'C': tCopy(); break;      case 'W': tSwap(); break;   case 'R': tRemIf(); break;
			case 'M': tMap(); break;       case 'Z': tSize(); break;   case 'I': tIter(); break;
			default: fprintf(stderr, "bad T op %s\n", tok[i]); _exit(2);
			}
		}
		tblEnd();
		break;
	case 'B':
		bStart(atol(tok[1]));
		for (i = 2; i < n && !dirty; i++) {
			a = b = c = 0; a3(tok[i] + 1, &a, &b, &c);
			obsAll = LASTOP || (caseNo % 2 == 0);
			switch (tok[i][0]) {
			case 'I': bIns(a, b); break;   case 'D': bDel(a); break;   case 'E': bEq(a); break;
			case 'G': bGe(a); break;       case 'm': bMinMax(0); break; case 'x': bMinMax(1); break;
			case 'c': bCheck(0); break;    case 'd': bCheck(1); break;
			default: fprintf(stderr, "bad B op %s\n", tok[i]); _exit(2);
			}
		}
		bEnd();
		break;
	case 'P':
		pStart(atol(tok[1]));
		for (i = 2; i < n && !dirty; i++) {
			a = b = c = 0; a3(tok[i] + 1, &a, &b, &c);
			switch (tok[i][0]) {
			case 'I': pIns(a, b); break;   case 'X': pExt(0); break;   case 'K': pExt(1); break;
			case 'C': pCheck(); break;     case 'N': pCount(); break;  case 'M': pCount(); break;
			default: fprintf(stderr, "bad P op %s\n", tok[i]); _exit(2);
			}
			if (!dirty && (LASTOP || caseNo % 4 == 0)) pCheck();
		}
		pEnd();
		break;
	case 'V':
		vStart(atol(tok[1]), atol(tok[2]));
		for (i = 3; i < n && !dirty; i++) {
			a = b = c = 0; a3(tok[i] + 1, &a, &b, &c);
			switch (tok[i][0]) {
			case 's': VOP("VSet",   (",\"r\":%ld,\"i\":%ld", a, b), bitvSet(vcls, vreg[a], (int)b)); break;
			case 'c': VOP("VClr",   (",\"r\":%ld,\"i\":%ld", a, b), bitvClear(vcls, vreg[a], (int)b)); break;
			case 't': Ebegin("VTest"); E(",\"r\":%ld,\"i\":%ld", a, b); CALL(rI = bitvTest(vcls, vreg[a], (int)b));
			          if (!oc) E(",\"b\":%d", rI); Eend(); break;
			case 'A': VOP("VSetAll", (",\"r\":%ld", a), bitvSetAll(vcls, vreg[a])); break;
			case 'Z': VOP("VClrAll", (",\"r\":%ld", a), bitvClearAll(vcls, vreg[a])); break;
			case 'y': VOP("VCopy",  (",\"r\":%ld,\"a\":%ld", a, b), bitvCopy(vcls, vreg[a], vreg[b])); break;
			case 'n': VOP("VNot",   (",\"r\":%ld,\"a\":%ld", a, b), bitvNot(vcls, vreg[a], vreg[b])); break;
			case '&': VOP("VAnd",   (",\"r\":%ld,\"a\":%ld,\"b\":%ld", a, b, c), bitvAnd(vcls, vreg[a], vreg[b], vreg[c])); break;
			case '|': VOP("VOr",    (",\"r\":%ld,\"a\":%ld,\"b\":%ld", a, b, c), bitvOr(vcls, vreg[a], vreg[b], vreg[c])); break;
			case '-': VOP("VMinus", (",\"r\":%ld,\"a\":%ld,\"b\":%ld", a, b, c), bitvMinus(vcls, vreg[a], vreg[b], vreg[c])); break;
			case '#': Ebegin("VCount"); E(",\"r\":%ld", a); CALL(rI = bitvCount(vcls, vreg[a])); if (!oc) E(",\"c\":%d", rI); Eend(); break;
			case 'k': Ebegin("VCountTo"); E(",\"r\":%ld,\"n\":%ld", a, b); CALL(rI = bitvCountTo(vcls, vreg[a], (int)b)); if (!oc) E(",\"c\":%d", rI); Eend(); break;
			case 'x': Ebegin("VMax"); E(",\"r\":%ld", a); CALL(rI = bitvMax(vcls, vreg[a])); if (!oc) E(",\"m\":%d", rI); Eend(); break;
			case '=': Ebegin("VEq"); E(",\"a\":%ld,\"b\":%ld", a, b); CALL(rI = bitvEqual(vcls, vreg[a], vreg[b])); if (!oc) E(",\"q\":%s", rI ? "true" : "false"); Eend(); break;
			case 'R': vResize(a); break;
			case 'f': vFromInt(a, b); break;
			case 'i': Ebegin("VToInt"); E(",\"r\":%ld", a); CALL(rI = bitvToInt(vcls, vreg[a])); if (!oc) E(",\"x\":%d", rI); Eend(); break;
			case 'u': Ebegin("VUniq"); E(",\"r\":%ld,\"org\":%ld,\"lim\":%ld", a, b, c); CALL(rI = bitvUnique1IndexInRange(vcls, vreg[a], (int)b, (int)c)); if (!oc) E(",\"u\":%d", rI); Eend(); break;
			case 'd': Ebegin("VDump"); vObs(); Eend(); break;
			default: fprintf(stderr, "bad V op %s\n", tok[i]); _exit(2);
			}
		}
		vEnd();
		break;
	case 'L': dnfLeaves(atoi(tok[1])); break;
	case 'F': dnfCaseF(tok + 1, n - 1); break;
	case 'Q': bothWays = 0; dnfCaseQ(tok + 1, n - 1); break;
	case 'q': bothWays = 1; dnfCaseQ(tok + 1, n - 1); break;
	default: fprintf(stderr, "containers_drv: bad case %s\n", tok[0]); _exit(2);
	}
}

/* The worker runs cases from *progress on.  If a call ends in a signal or a store error the
 * event says so, the worker exits, and the parent starts a fresh worker at the next case.   */
static int scriptMode(const char *in, const char *out, long shard, long nshards)
{
	FILE *fi = fopen(in, "r");
	char **lines = 0; long nl = 0, cap = 0, i; char *buf = 0; size_t bl = 0;
	volatile long *progress;
	if (!fi) { perror(in); return 2; }
	while (getline(&buf, &bl, fi) > 0) {
		if (nl == cap) { cap = cap ? cap * 2 : 1024; lines = realloc(lines, cap * sizeof(char *)); }
		lines[nl++] = strdup(buf);
	}
	fclose(fi);
	progress = mmap(0, 4096, PROT_READ | PROT_WRITE, MAP_SHARED | MAP_ANONYMOUS, -1, 0);
	progress[0] = shard;
	T = fopen(out, "w");
	if (!T) { perror(out); return 2; }
	setvbuf(T, 0, _IOFBF, 1 << 20);
	while (progress[0] < nl) {
		pid_t c; int st;
		fflush(T);
		c = fork();
		if (c == 0) {
			for (i = progress[0]; i < nl; i += nshards) {
				progress[0] = i;
				fprintf(T, "{\"ev\":\"Reset\",\"case\":%ld}\n", i);
				caseNo = i;
				runCase(lines[i]);
				fflush(T);
				if (dirty) { progress[0] = i + nshards; fflush(T); _exit(77); }
			}
			progress[0] = nl;
			fflush(T);
			_exit(0);
		}
		waitpid(c, &st, 0);
		fseek(T, 0, SEEK_END);
		if (WIFSIGNALED(st) || (WIFEXITED(st) && WEXITSTATUS(st) != 0 && WEXITSTATUS(st) != 77)) {
			/* died outside a guarded call: no spec action matches a Fault */
			fprintf(T, "{\"ev\":\"Fault\",\"case\":%ld,\"status\":%d}\n", (long)progress[0], st);
			progress[0] += nshards;
		}
	}
	fclose(T);
	return 0;
}

/* ========================================================================
 * random long histories (one process, no per-step dumps; observations are ops)
 */
static int randomMode(const char *kind, unsigned long seed, long steps, const char *param, const char *out)
{
	long s, i;
	T = fopen(out, "w");
	if (!T) { perror(out); return 2; }
	rs = seed * 0x9E3779B97F4A7C15ULL + 0x1234567ULL; rnd(); rnd();
	full = 0; dirty = 0;
	fprintf(T, "{\"ev\":\"Reset\",\"case\":0}\n");
	if (kind[0] == 'T') {
		/* key universe 512; the live map drifts between 0 and about 400 entries */
		static unsigned char present[512]; long live = 0, serial = 0; int grow = 1;
		tblStart(param);
		for (s = 0; s < steps && !dirty; s++) {
			long r = rint_(1000), k;
			if (grow && live >= 400) grow = 0;
			if (!grow && live == 0) grow = 1;
			if (r < (grow ? 520 : 200)) {                       /* set (new or overwrite) */
				k = rint_(512); if (!present[k]) { present[k] = 1; live++; }
				tSet(k, ++serial);
			} else if (r < 760) {                               /* drop, mostly a present key */
				k = rint_(512);
				if (rint_(10) < 8 && live > 0) { long j = rint_(512); for (i = 0; i < 512; i++) { k = (j + i) % 512; if (present[k]) break; } }
				if (present[k]) { present[k] = 0; live--; }
				tDrop(k);
			} else if (r < 960) {
				tGet(rint_(512));
			} else if (r < 985) {
				tSize();
			} else if (r < 992) {
				tIter();
			} else if (r < 995) {
				tCopy();
			} else if (r < 997) {
				if (tbc) { tIter(); tSwap(); tIter(); /* the shadow of present keys is unchanged only if nothing happened since the copy: resync */
					{ TableIterator it; memset(present, 0, sizeof present); live = 0;
					  for (tblITER(it, tb); tblMORE(it); tblSTEP(it)) { long kk = (long)tblKEY(it); if (kk >= 0 && kk < 512 && !present[kk]) { present[kk] = 1; live++; } } } }
			} else if (r < 999) {
				tRemIf();
			} else {
				tMap();
			}
		}
		if (!dirty) { tIter(); tSize(); }
		tblEnd();
	} else if (kind[0] == 'B') {
		/* keys 0..999 with duplicates; live size drifts between 0 and about 300 */
		static int cnt[1000]; long live = 0, serial = 0; int grow = 1;
		bStart(atol(param));
		for (s = 0; s < steps && !dirty; s++) {
			long r = rint_(1000), k;
			if (grow && live >= 300) grow = 0;
			if (!grow && live == 0) grow = 1;
			if (r < (grow ? 500 : 180)) {
				k = rint_(8) == 0 ? rint_(20) : rint_(1000);        /* a cluster of duplicate keys */
				cnt[k]++; live++;
				bIns(k, ++serial);
				if (!dirty) { Ebegin("BCheck"); btObs(0); Eend(); }
			} else if (r < 700) {
				if (live > 0) { long j = rint_(1000); for (i = 0; i < 1000; i++) { k = (j + i) % 1000; if (cnt[k]) break; }
					cnt[k]--; live--; bDel(k);
					if (!dirty) { Ebegin("BCheck"); btObs(0); Eend(); } }
			} else if (r < 800) bEq(rint_(1000));
			else if (r < 900) bGe(rint_(1040));
			else if (r < 940) bMinMax(0);
			else if (r < 980) bMinMax(1);
			else if (r < 993) bCheck(0);
			else bCheck(1);
		}
		if (!dirty) bCheck(1);
		bEnd();
	} else if (kind[0] == 'P') {
		long range = atol(param), live = 0, serial = 0; int grow = 1;
		pStart(1);
		for (s = 0; s < steps && !dirty; s++) {
			long r = rint_(1000);
			if (grow && live >= 200) grow = 0;
			if (!grow && live == 0) grow = 1;
			if (r < (grow ? 560 : 300)) { pIns(rint_(range), ++serial); live++; }
			else if (r < 880) { if (live > 0) { pExt(0); live--; } }
			else if (r < 960) { if (live > 0) pExt(1); }
			else if (r < 985) pCheck();
			else pCount();
		}
		if (!dirty) { pCount(); while (live-- > 0 && !dirty) pExt(0); if (!dirty) pCount(); }
		pEnd();
	} else if (kind[0] == 'V') {
		static const int sizes[] = { 1, 31, 32, 63, 64, 65, 127, 128, 130, 200, 7, 0 };
		int si;
		long per = steps / 12 + 1;
		for (si = 0; si < 12 && !dirty; si++) {
			int n = sizes[si], R = 3;
			if (si) fprintf(T, "{\"ev\":\"Reset\",\"case\":%d}\n", si);
			vStart(n, R);
			for (s = 0; s < per && !dirty; s++) {
				long r = rint_(1000), a = rint_(R), b = rint_(R), c = rint_(R);
				int nb = (int)bitvClassSize(vcls);
				int ix = nb ? (rint_(4) == 0 ? (nb - 1 - (int)rint_(nb < 3 ? nb : 3)) : (int)rint_(nb)) : 0;
				if (r < 200)      { if (nb) VOP("VSet", (",\"r\":%ld,\"i\":%d", a, ix), bitvSet(vcls, vreg[a], ix)); }
				else if (r < 320) { if (nb) VOP("VClr", (",\"r\":%ld,\"i\":%d", a, ix), bitvClear(vcls, vreg[a], ix)); }
				else if (r < 400) { if (nb) { Ebegin("VTest"); E(",\"r\":%ld,\"i\":%d", a, ix); CALL(rI = bitvTest(vcls, vreg[a], ix)); if (!oc) E(",\"b\":%d", rI); Eend(); } }
				else if (r < 420) VOP("VSetAll", (",\"r\":%ld", a), bitvSetAll(vcls, vreg[a]));
				else if (r < 440) VOP("VClrAll", (",\"r\":%ld", a), bitvClearAll(vcls, vreg[a]));
				else if (r < 480) VOP("VCopy",  (",\"r\":%ld,\"a\":%ld", a, b), bitvCopy(vcls, vreg[a], vreg[b]));
				else if (r < 540) VOP("VNot",   (",\"r\":%ld,\"a\":%ld", a, b), bitvNot(vcls, vreg[a], vreg[b]));
				else if (r < 600) VOP("VAnd",   (",\"r\":%ld,\"a\":%ld,\"b\":%ld", a, b, c), bitvAnd(vcls, vreg[a], vreg[b], vreg[c]));
				else if (r < 660) VOP("VOr",    (",\"r\":%ld,\"a\":%ld,\"b\":%ld", a, b, c), bitvOr(vcls, vreg[a], vreg[b], vreg[c]));
				else if (r < 720) VOP("VMinus", (",\"r\":%ld,\"a\":%ld,\"b\":%ld", a, b, c), bitvMinus(vcls, vreg[a], vreg[b], vreg[c]));
				else if (r < 780) { Ebegin("VCount"); E(",\"r\":%ld", a); CALL(rI = bitvCount(vcls, vreg[a])); if (!oc) E(",\"c\":%d", rI); Eend(); }
				else if (r < 830) { int m = (int)rint_(nb + 1); Ebegin("VCountTo"); E(",\"r\":%ld,\"n\":%d", a, m); CALL(rI = bitvCountTo(vcls, vreg[a], m)); if (!oc) E(",\"c\":%d", rI); Eend(); }
				else if (r < 880) { Ebegin("VMax"); E(",\"r\":%ld", a); CALL(rI = bitvMax(vcls, vreg[a])); if (!oc) E(",\"m\":%d", rI); Eend(); }
				else if (r < 930) { Ebegin("VEq"); E(",\"a\":%ld,\"b\":%ld", a, b); CALL(rI = bitvEqual(vcls, vreg[a], vreg[b])); if (!oc) E(",\"q\":%s", rI ? "true" : "false"); Eend(); }
				else if (r < 950) { int lo = (int)rint_(nb + 1), hi = lo + (int)rint_(nb + 1 - lo); Ebegin("VUniq"); E(",\"r\":%ld,\"org\":%d,\"lim\":%d", a, lo, hi);
				                    CALL(rI = bitvUnique1IndexInRange(vcls, vreg[a], lo, hi)); if (!oc) E(",\"u\":%d", rI); Eend(); }
				else if (r < 965) { Ebegin("VDump"); vObs(); Eend(); }
				else if (r < 975) { if (nb < 31) { if (rint_(2)) vFromInt(a, rint_(1L << nb)); else { Ebegin("VToInt"); E(",\"r\":%ld", a); CALL(rI = bitvToInt(vcls, vreg[a])); if (!oc) E(",\"x\":%d", rI); Eend(); } } }
				else {
					/* resize within the same number of words, or shrinking (growing the word count is
					   exercised by the short histories, where every case starts from a clean process) */
					int w = (nb + 63) / 64, nn;
					if (w == 0) continue;
					nn = (int)rint_(64 * w + 1);
					if (nn == 0) nn = 1;
					vResize(nn);
				}
			}
			if (!dirty) { Ebegin("VDump"); vObs(); Eend(); }
			vEnd();
		}
	} else { fprintf(stderr, "containers_drv: unknown kind %s\n", kind); return 2; }
	fclose(T);
	return 0;
}

int main(int argc, char **argv)
{
	int dn;
	if (argc < 4) { fprintf(stderr, "usage: containers_drv script IN OUT [SHARD N] | random KIND SEED STEPS PARAM OUT\n"); return 2; }
	/* bug() and the store's error path print on stdout/stderr */
	dn = open("/dev/null", O_WRONLY);
	if (!getenv("CDRV_VERBOSE")) { dup2(dn, 1); }
	osInit();
	dbInit();
	dbOut = fopen("/dev/null", "w");
	signal(SIGSEGV, onsig); signal(SIGBUS, onsig); signal(SIGABRT, onsig); signal(SIGFPE, onsig); signal(SIGILL, onsig);
	stoSetHandler(onsto);
	if (!strcmp(argv[1], "script"))
		return scriptMode(argv[2], argv[3], argc > 5 ? atol(argv[4]) : 0, argc > 5 ? atol(argv[5]) : 1);
	if (!strcmp(argv[1], "random") && argc >= 7)
		return randomMode(argv[2], strtoul(argv[3], 0, 10), atol(argv[4]), argv[5], argv[6]);
	fprintf(stderr, "containers_drv: bad arguments\n");
	return 2;
}
