/*
 * foamcodec_drv.c -- conformance driver for property C05, class `width of indices and counts'
 * (spec/FoamCodec.tla, spec/TraceFoamCodec.tla).
 *
 * Linked against the objects vbuild made from the working tree.  It reads the node family that TLC exported from
 * FoamCodec.tla (one node per line, `(Tag arg ...)', numbers and nested nodes), builds each node with the real
 * constructors and calls the real routines of foam.c
 *     foamToBuffer                                       the writer, incl. foamTagFormat (the width choice)
 *     foamFrBuffer                                       the tree reader
 *     foamGetProgHdrFrBuffer                             the header reader (foamProgHdrFrBuffer)
 *     foamConstcFrBuffer foamConstvFrBuffer              the positions of a unit's constants: they run the
 *     foamConstFrBuffer foamFormatsFrBuffer              skipping reader (foamFrBuffer0) over formats and definitions
 * Nothing is judged here: every result is written as one ndjson event and TLC decides (the bytes must decode, with the
 * decoder of the specification, to the node; the real readers must return the node / the positions the specification's
 * skipping reader computes on the same bytes).
 *
 * For a node that is not a unit the skipping reader is driven through a wrapper unit
 *     (Unit (DFmt (DDecl 1) (DDecl 2 d d) ) (DDef (Def (Const 0) <node>) (Def (Const 1) (Nil))))
 * whose second constant lies behind the node.
 *
 * usage: foamcodec_drv tags <out>             the tag numbering and the constants of the format arithmetic
 *        foamcodec_drv run <cases> <out>
 */
#include <stdio.h>
#include <stdlib.h>
#include <string.h>
#include <ctype.h>
#include <signal.h>
#include <setjmp.h>

#include "axlgen.h"
#include "debug.h"
#include "opsys.h"
#include "store.h"
#include "util.h"
#include "bigint.h"
#include "buffer.h"
#include "foam.h"
#include "sexpr.h"
#include "absyn.h"
#include "tform.h"

#define FOAM_NARY (-1)	/* as in foam.c: the argc entry of an n-ary tag in foamInfoTable */

int verifPhFileNo __attribute__((weak)) = 0;

static FILE *in, *out;

/* ------------------------------------------------------------------ reading the cases */

static int peekc(void) { int c; do c = fgetc(in); while (c == ' ' || c == '\t' || c == '\r'); ungetc(c, in); return c; }

static int tag_by_name(const char *s)
{
	int t;
	for (t = FOAM_START; t < FOAM_LIMIT; t++)
		if (!strcmp(foamInfo(t).str, s)) return t;
	fprintf(stderr, "unknown tag %s\n", s);
	exit(2);
}

static long rd_long(void)
{
	long v;
	if (fscanf(in, " %ld", &v) != 1) { fprintf(stderr, "number expected\n"); exit(2); }
	return v;
}

static Foam rd_node(void);

static void fill(Foam foam, int tag, int si, int letter)
{
	long n;
	switch (letter) {
	case 't': foamArgv(foam)[si].data = FOAM_START + rd_long(); break;
	case 'o': foamArgv(foam)[si].data = FOAM_BVAL_START + rd_long(); break;
	case 'p': foamArgv(foam)[si].data = FOAM_PROTO_START + rd_long(); break;
	case 'D': case 'b': case 'h': case 'w': case 'X': case 'F': case 'L': case 'i':
		foamArgv(foam)[si].data = rd_long(); break;
	case 's': {
		String s;
		n = rd_long();
		s = strAlloc(n);
		memset(s, 'x', n);
		s[n] = 0;
		foamArgv(foam)[si].str = s;
		break;
	}
	case 'n': {
		U16 *data;
		long j;
		n = rd_long();
		data = (U16 *) stoAlloc(OB_Other, (n ? n : 1) * sizeof(U16));
		for (j = 0; j < n; j++) data[j] = 257;
		foamArgv(foam)[si].bint = bintFrPlacevS(0, n, data);
		stoFree(data);
		break;
	}
	case 'C': foamArgv(foam)[si].code = rd_node(); break;
	default: fprintf(stderr, "letter %c of tag %d not handled\n", letter, tag); exit(2);
	}
}

#define MAXARGS 70000
static Foam rd_node(void)
{
	char name[64];
	int tag, c, fi, si, argc;
	String argf;
	Foam foam;
	static long pending[4];	/* unused */

	(void) pending;
	c = peekc();
	if (c != '(') { fprintf(stderr, "( expected, got %c\n", c); exit(2); }
	fgetc(in);
	if (fscanf(in, " %63[A-Za-z0-9]", name) != 1) { fprintf(stderr, "tag expected\n"); exit(2); }
	tag = tag_by_name(name);
	argf = foamInfo(tag).argf;
	if (foamInfo(tag).argc != FOAM_NARY) {
		argc = foamInfo(tag).argc;
		foam = foamNewEmpty(tag, argc);
		for (fi = si = 0; si < argc; fi++, si++)
			fill(foam, tag, si, argf[fi]);
	} else {
		/* the count is not known before the closing parenthesis: read into a generous node, then copy */
		Foam big = foamNewEmpty(tag, MAXARGS);
		int letter = 0;
		for (fi = si = 0; peekc() != ')'; fi++, si++) {
			if (si >= MAXARGS) { fprintf(stderr, "too many arguments\n"); exit(2); }
			if (argf[fi] == '*') --fi;
			letter = argf[fi];
			fill(big, tag, si, letter);
		}
		argc = si;
		foam = foamNewEmpty(tag, argc);
		for (si = 0; si < argc; si++) foamArgv(foam)[si] = foamArgv(big)[si];
		stoFree(big);
	}
	if (peekc() != ')') { fprintf(stderr, ") expected after %s\n", name); exit(2); }
	fgetc(in);
	return foam;
}

/* ------------------------------------------------------------------ writing results */

static void pr_bytes(const char *key, Buffer buf, long from, long to)
{
	long i;
	unsigned char *s = (unsigned char *) bufChars(buf);
	fprintf(out, ",\"%s\":[", key);
	for (i = from; i < to; i++) fprintf(out, i > from ? ",%d" : "%d", s[i]);
	fputc(']', out);
}

static void pr_node(Foam foam)
{
	int tag = foamTag(foam), argc = foamArgc(foam), fi, si;
	String argf = foamInfo(tag).argf;
	fprintf(out, "{\"tag\":\"%s\",\"a\":[", foamInfo(tag).str);
	for (fi = si = 0; si < argc; fi++, si++) {
		int af = argf[fi];
		if (af == '*') af = argf[--fi];
		if (si) fputc(',', out);
		switch (af) {
		case 't': fprintf(out, "{\"v\":%ld}", (long) foamArgv(foam)[si].data - FOAM_START); break;
		case 'o': fprintf(out, "{\"v\":%ld}", (long) foamArgv(foam)[si].data - FOAM_BVAL_START); break;
		case 'p': fprintf(out, "{\"v\":%ld}", (long) foamArgv(foam)[si].data - FOAM_PROTO_START); break;
		case 'b': fprintf(out, "{\"v\":%ld}", (long) (foamArgv(foam)[si].data & 0xff)); break;
		case 's': fprintf(out, "{\"v\":%ld}", (long) strlen(foamArgv(foam)[si].str)); break;
		case 'n': {
			int slen; U16 *data;
			BInt b = xintStore(bintCopy(foamArgv(foam)[si].bint));
			bintToPlacevS(b, &slen, &data);
			fprintf(out, "{\"v\":%d}", slen);
			bintReleasePlacevS(data);
			break;
		}
		case 'C': pr_node(foamArgv(foam)[si].code); break;
		default:  fprintf(out, "{\"v\":%ld}", (long) foamArgv(foam)[si].data); break;
		}
	}
	fprintf(out, "]}");
}

static Foam mk(int tag, int argc) { return foamNewEmpty(tag, argc); }

static Foam decl_c(void)
{
	Foam d = mk(FOAM_Decl, 4);
	foamArgv(d)[0].data = FOAM_Word;
	foamArgv(d)[1].str = strCopy("c");
	foamArgv(d)[2].data = 0;
	foamArgv(d)[3].data = 4;
	return d;
}

static Foam wrap(Foam node)
{
	Foam d1 = mk(FOAM_DDecl, 1), d2 = mk(FOAM_DDecl, 3), dfmt = mk(FOAM_DFmt, 2), ddef = mk(FOAM_DDef, 2), unit = mk(FOAM_Unit, 2);
	Foam def0 = mk(FOAM_Def, 2), def1 = mk(FOAM_Def, 2), c0 = mk(FOAM_Const, 1), c1 = mk(FOAM_Const, 1);
	foamArgv(d1)[0].data = 1;
	foamArgv(d2)[0].data = 2;
	foamArgv(d2)[1].code = decl_c();
	foamArgv(d2)[2].code = decl_c();
	foamArgv(dfmt)[0].code = d1;
	foamArgv(dfmt)[1].code = d2;
	foamArgv(c0)[0].data = 0;
	foamArgv(c1)[0].data = 1;
	foamArgv(def0)[0].code = c0;
	foamArgv(def0)[1].code = node;
	foamArgv(def1)[0].code = c1;
	foamArgv(def1)[1].code = mk(FOAM_Nil, 0);
	foamArgv(ddef)[0].code = def0;
	foamArgv(ddef)[1].code = def1;
	foamArgv(unit)[0].code = dfmt;
	foamArgv(unit)[1].code = ddef;
	return unit;
}

static void positions(Buffer buf)
{
	int n, i, *posv;
	bufSetPosition(buf, 0);
	n = foamConstcFrBuffer(buf);
	fprintf(out, ",\"constc\":%d", n);
	if (n < 0 || n > 100000) { fprintf(out, ",\"posv\":[]"); return; }
	posv = (int *) stoAlloc(OB_Other, (n + 1) * sizeof(int));
	foamConstvFrBuffer(buf, n, posv);
	fprintf(out, ",\"posv\":[");
	for (i = 0; i < n; i++) fprintf(out, i ? ",%d" : "%d", posv[i]);
	fputc(']', out);
	stoFree(posv);
}

static sigjmp_buf crashed;
static const char *phase = "";
static void on_fault(int sig) { siglongjmp(crashed, sig); }

/* One case.  The event is assembled in memory; if a real routine faults (a reader that is handed bytes it cannot
 * digest), the event that is written holds the bytes, the phase and the signal instead of the results. */
static void one_case(long id)
{
	Foam node = rd_node(), back, hdr;
	Buffer buf = bufNew();
	long len, tend;
	FILE *real = out;
	char *mem = 0;
	size_t memlen = 0;
	int sig;

	phase = "write";
	foamToBuffer(buf, node);
	len = bufPosition(buf);
	out = open_memstream(&mem, &memlen);
	if ((sig = sigsetjmp(crashed, 1)) != 0) {
		fclose(out);
		free(mem);
		out = real;
		fprintf(out, "{\"ev\":\"Case\",\"id\":%ld,\"fault\":\"%s\",\"signal\":%d", id, phase, sig);
		pr_bytes("bytes", buf, 0, len);
		fprintf(out, "}\n");
		return;
	}
	fprintf(out, "{\"ev\":\"Case\",\"id\":%ld,\"fault\":\"\",\"signal\":0", id);
	pr_bytes("bytes", buf, 0, len);
	phase = "tree-reader";
	bufSetPosition(buf, 0);
	back = foamFrBuffer(buf);
	tend = bufPosition(buf);
	fprintf(out, ",\"tend\":%ld,\"back\":", tend);
	pr_node(back);
	phase = "header-reader";
	hdr = foamGetProgHdrFrBuffer(buf, 0);
	fprintf(out, ",\"hdr\":[");
	if (hdr) {
		int k;
		for (k = 0; k < 8; k++)
			fprintf(out, k ? ",%ld" : "%ld", (long) foamArgv(hdr)[k].data - (k == 2 ? FOAM_START : 0));
	}
	fputc(']', out);
	phase = "skipping-reader";
	if (foamTag(node) == FOAM_Unit) {
		Foam fmts;
		fprintf(out, ",\"unit\":true,\"wb\":[]");
		positions(buf);
		fmts = foamFormatsFrBuffer(buf);
		fprintf(out, ",\"fmts\":");
		pr_node(fmts);
	} else {
		Buffer wb = bufNew();
		Foam w = wrap(node);
		long wlen;
		foamToBuffer(wb, w);
		wlen = bufPosition(wb);
		fprintf(out, ",\"unit\":false");
		pr_bytes("wb", wb, 0, wlen);
		positions(wb);
		fprintf(out, ",\"fmts\":{\"tag\":\"Nil\",\"a\":[]}");
		bufFree(wb);
	}
	fprintf(out, "}\n");
	fclose(out);
	out = real;
	fwrite(mem, 1, memlen, out);
	free(mem);
	bufFree(buf);
}

int main(int argc, char **argv)
{
	if (argc < 3) { fprintf(stderr, "usage\n"); return 2; }
	osInit();
	dbInit();
	sxiInit();
	if (!strcmp(argv[1], "tags") && argc == 3) {
		int t;
		out = fopen(argv[2], "w");
		if (!out) { perror(argv[2]); return 2; }
		fprintf(out, "{\"ev\":\"Tags\",\"origin\":%d,\"limit\":%d,\"span\":%d,\"taglimit\":%d,\"names\":[",
			(int) FOAM_VECTOR_START, (int) FOAM_LIMIT, foamTagSpanLength(), foamTagLimit());
		for (t = FOAM_START; t < FOAM_LIMIT; t++)
			fprintf(out, t > FOAM_START ? ",\"%s\"" : "\"%s\"", foamInfo(t).str);
		fprintf(out, "],\"argf\":[");
		for (t = FOAM_START; t < FOAM_LIMIT; t++)
			fprintf(out, t > FOAM_START ? ",\"%s\"" : "\"%s\"", foamInfo(t).argf);
		fprintf(out, "],\"nary\":[");
		for (t = FOAM_START; t < FOAM_LIMIT; t++)
			fprintf(out, t > FOAM_START ? ",%d" : "%d", foamInfo(t).argc == FOAM_NARY ? 1 : 0);
		/* the tags of the type section (sefo.c: sefoToBuffer / tformToBuffer): abstract syntax and type form tags */
		fprintf(out, "],\"ab\":[");
		for (t = AB_START; t < AB_LIMIT; t++)
			fprintf(out, t > AB_START ? ",\"%s\"" : "\"%s\"", abInfo(t).str);
		fprintf(out, "],\"tf\":[");
		for (t = TF_START; t < TF_LIMIT; t++)
			fprintf(out, t > TF_START ? ",\"%s\"" : "\"%s\"", tformInfo(t).str);
		fprintf(out, "],\"tfclass\":[");
		for (t = TF_START; t < TF_LIMIT; t++)
			fprintf(out, t > TF_START ? ",\"%s\"" : "\"%s\"", tfIsSymTag(t) ? "sym" : tfIsAbSynTag(t) ? "absyn" : tfIsNodeTag(t) ? "node" : "?");
		fprintf(out, "],\"tfsymes\":[");
		for (t = TF_START; t < TF_LIMIT; t++)
			fprintf(out, t > TF_START ? ",%d" : "%d", tfTagHasSymes(t) ? 1 : 0);
		fprintf(out, "]}\n");
		return fclose(out) != 0 ? 2 : 0;
	}
	if (!strcmp(argv[1], "run") && argc == 4) {
		long id = 0;
		int c;
		signal(SIGSEGV, on_fault);
		signal(SIGBUS, on_fault);
		signal(SIGABRT, on_fault);
		signal(SIGFPE, on_fault);
		in = fopen(argv[2], "r");
		out = fopen(argv[3], "w");
		if (!in || !out) { perror("open"); return 2; }
		for (;;) {
			do c = fgetc(in); while (c == ' ' || c == '\n' || c == '\r' || c == '\t');
			if (c == EOF) break;
			ungetc(c, in);
			one_case(++id);
		}
		return fclose(out) != 0 ? 2 : 0;
	}
	fprintf(stderr, "bad arguments\n");
	return 2;
}
