/*
 * C13 harness: calls the real scanIsContinued (scan.c) on the lines of session texts and prints, per record, one
 * character per line: '1' = the loop goes on reading (the step is not complete), '0' = the step ends with this line.
 * scanIsContinued keeps its state in static variables, so every record is processed in a child process of its own.
 *
 * input:   R <n>\n  followed by n lines (each with its newline), repeated
 * output:  one line of n characters from {0,1} per record
 */
#include <stdio.h>
#include <stdlib.h>
#include <string.h>
#include <unistd.h>
#include <sys/wait.h>

extern int scanIsContinued(char *line);
extern void osInit(void);

int
main(int argc, char **argv)
{
	FILE *in = argc > 1 ? fopen(argv[1], "r") : stdin;
	char *buf = NULL;
	size_t cap = 0;
	ssize_t len;
	if (!in) { perror("open"); return 2; }
	osInit();
	while ((len = getline(&buf, &cap, in)) > 0) {
		int n, i, fd[2];
		pid_t pid;
		char **lines;
		if (sscanf(buf, "R %d", &n) != 1) { fprintf(stderr, "bad header: %s", buf); return 2; }
		lines = malloc(sizeof(char *) * (n + 1));
		for (i = 0; i < n; i++) {
			if ((len = getline(&buf, &cap, in)) <= 0) { fprintf(stderr, "short record\n"); return 2; }
			lines[i] = strdup(buf);
		}
		fflush(stdout);
		pid = fork();
		if (pid == 0) {
			for (i = 0; i < n; i++)
				putchar(scanIsContinued(lines[i]) ? '1' : '0');
			putchar('\n');
			fflush(stdout);
			_exit(0);
		}
		else {
			int st;
			waitpid(pid, &st, 0);
			if (!WIFEXITED(st) || WEXITSTATUS(st) != 0) { printf("FAULT\n"); fflush(stdout); }
		}
		for (i = 0; i < n; i++) free(lines[i]);
		free(lines);
	}
	return 0;
}
