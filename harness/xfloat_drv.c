/*
 * xfloat_drv.c -- conformance driver for property C19 (spec/XFloatOps.tla, spec/TraceXFloat.tla).
 *
 * Linked against the objects vbuild made from the working tree.  For every native bit pattern
 * it is given it calls the real routines
 *     sfClassify sfDissemble sfAssemble xsfFrNative xsfClassify xsfToNative        (xfloat.c)
 *     fiSFloDissemble fiSFloAssemble                                               (foam_c.c)
 *     foamNewSFlo -> foamToBuffer -> foamFrBuffer -> foamToSFlo                    (foam.c, buffer.c)
 * (and the DFlo counterparts) and writes one ndjson event with inputs and outputs as byte arrays,
 * most significant byte first.  Nothing is judged here except in the `sweep' modes, where the
 * identity that the specification establishes (TLC: XFloat.tla, invariants Survives/PartsIdentity)
 * is compared in C because 2^32 evaluations are out of TLC's reach; every failing pattern (up to a
 * cap) and a regular sample of the passing ones are still written out as full events and go
 * through TLC, and the per-chunk counts are written as `Sweep' events that the trace
 * specification accepts only if the failure count is zero.
 *
 * Modes:
 *   enum  <sfam> <dfam> <out>           sign x every exponent x a fraction family (boundary|lite|mini|none), singles and doubles
 *   rand  <seed> <nS> <nD> <out>        seeded random patterns (biased toward special exponents)
 *   file  <in> <out>                    lines "S hhhhhhhh" | "D h{16}" | "XS h{12}" | "XD h{20}"
 *   xenum <fam> <out>                   portable patterns around the case boundaries of x?fToNative
 *   sweep <lo> <hi> <stride> <out>      all singles with top byte in [lo,hi); sample every <stride>
 *   dsweep <seed> <n> <stride> <out>    n random doubles
 */
#include <stdio.h>
#include <stdlib.h>
#include <string.h>
#include <stdint.h>

#include "axlgen.h"
#include "debug.h"
#include "opsys.h"
#include "store.h"
#include "util.h"
#include "xfloat.h"
#include "buffer.h"
#include "foam.h"
#include "foam_c.h"
#include "sexpr.h"

/* Driver-event hooks (guard ALDOR_VERIF) in lib.c/emit.c refer to a counter that lives in phase.c; phase.o is not
 * pulled into this link (static archives, single pass), so provide a weak stand-in -- the real one wins if present. */
int verifPhFileNo __attribute__((weak)) = 0;

static FILE *out;
static const char *src = "file";
static const char *fam = "boundary";

/* ------------------------------------------------------------------ helpers */

static uint64_t rng_s;
static uint64_t rng(void)		/* splitmix64 */
{
	uint64_t z = (rng_s += 0x9e3779b97f4a7c15ULL);
	z = (z ^ (z >> 30)) * 0xbf58476d1ce4e5b9ULL;
	z = (z ^ (z >> 27)) * 0x94d049bb133111ebULL;
	return z ^ (z >> 31);
}

static void u32_to_be(uint32_t v, unsigned char *b) { int i; for (i = 0; i < 4; i++) b[i] = (v >> (8 * (3 - i))) & 0xff; }
static void u64_to_be(uint64_t v, unsigned char *b) { int i; for (i = 0; i < 8; i++) b[i] = (v >> (8 * (7 - i))) & 0xff; }

static void pr_bytes(const char *key, const unsigned char *b, int n)
{
	int i;
	fprintf(out, ",\"%s\":[", key);
	for (i = 0; i < n; i++) fprintf(out, i ? ",%d" : "%d", b[i]);
	fputc(']', out);
}

static float  f_of_u32(uint32_t v) { float f;  memcpy(&f, &v, 4); return f; }
static double d_of_u64(uint64_t v) { double d; memcpy(&d, &v, 8); return d; }
static uint32_t u32_of_f(float f)  { uint32_t v; memcpy(&v, &f, 4); return v; }
static uint64_t u64_of_d(double d) { uint64_t v; memcpy(&v, &d, 8); return v; }

static int s_isnan(uint32_t v) { return (v & 0x7f800000u) == 0x7f800000u && (v & 0x007fffffu) != 0; }
static int d_isnan(uint64_t v) { return (v & 0x7ff0000000000000ULL) == 0x7ff0000000000000ULL && (v & 0x000fffffffffffffULL) != 0; }

/* ------------------------------------------------------------------ one single */

struct sres {
	uint32_t x, asm_, fasm, back, fback, back2;
	int cls, sign, expo, zero, xcls, fsign, fexpo;
	unsigned char frac[4], xs[6], xs2[6], fword[8];
};

static void do_s(uint32_t x, struct sres *r, int with_foam)
{
	float f = f_of_u32(x), g, h;
	Bool sign = 0, zero = 0;
	int expo = 0;
	XSFloat xs, xs2;
	FiBool fs = 0; FiSInt fe = 0; FiWord fw = 0;

	memset(r, 0, sizeof *r);
	r->x = x;
	r->cls = (int) sfClassify(&f);
	memset(r->frac, 0, 4);
	sfDissemble(&f, &sign, &expo, r->frac, &zero);
	r->sign = sign ? 1 : 0; r->expo = expo; r->zero = zero ? 1 : 0;
	g = 0; sfAssemble(&g, sign, expo, r->frac);
	r->asm_ = u32_of_f(g);

	fiSFloDissemble(f, &fs, &fe, &fw);
	r->fsign = fs ? 1 : 0; r->fexpo = (int) fe;
	memcpy(r->fword, &fw, 8);
	r->fasm = u32_of_f(fiSFloAssemble(fs, fe, fw));

	memset(&xs, 0, sizeof xs);
	xsfFrNative(&xs, &f);
	memcpy(r->xs, &xs, 6);
	r->xcls = (int) xsfClassify(&xs);
	h = 0; xsfToNative(&xs, &h);
	r->back = u32_of_f(h);
	memset(&xs2, 0, sizeof xs2);
	xsfFrNative(&xs2, &h);
	memcpy(r->xs2, &xs2, 6);
	h = 0; xsfToNative(&xs2, &h);
	r->back2 = u32_of_f(h);

	if (with_foam) {
		Buffer	buf = bufNew();
		Foam	fm = foamNewSFlo(f), fm2;
		foamToBuffer(buf, fm);
		bufStart(buf);
		fm2 = foamFrBuffer(buf);
		r->fback = (foamTag(fm2) == FOAM_SFlo) ? u32_of_f(foamToSFlo(fm2)) : 0xdeadbeefu;
		foamFree(fm); foamFree(fm2); bufFree(buf);
	} else
		r->fback = r->back;
}

static int s_ok(const struct sres *r)
{
	int same = s_isnan(r->x) ? (s_isnan(r->back) && s_isnan(r->fback) && s_isnan(r->back2))
				 : (r->back == r->x && r->fback == r->x && r->back2 == r->x);
	return same && r->asm_ == r->x && r->fasm == r->x;
}

static void emit_s(const struct sres *r)
{
	unsigned char b[4];
	fprintf(out, "{\"ev\":\"F\",\"k\":\"S\",\"src\":\"%s\",\"fam\":\"%s\"", src, fam);
	u32_to_be(r->x, b);     pr_bytes("x", b, 4);
	fprintf(out, ",\"cls\":%d,\"sign\":%d,\"exp\":%d,\"zero\":%d", r->cls, r->sign, r->expo, r->zero);
	pr_bytes("frac", r->frac, 4);
	u32_to_be(r->asm_, b);  pr_bytes("asm", b, 4);
	fprintf(out, ",\"fsign\":%d,\"fexp\":%d", r->fsign, r->fexpo);
	pr_bytes("ffrac", r->fword, 4);
	u32_to_be(r->fasm, b);  pr_bytes("fasm", b, 4);
	pr_bytes("xs", r->xs, 6);
	fprintf(out, ",\"xcls\":%d", r->xcls);
	u32_to_be(r->back, b);  pr_bytes("back", b, 4);
	pr_bytes("xs2", r->xs2, 6);
	u32_to_be(r->back2, b); pr_bytes("back2", b, 4);
	u32_to_be(r->fback, b); pr_bytes("fback", b, 4);
	fputs("}\n", out);
}

/* ------------------------------------------------------------------ one double */

struct dres {
	uint64_t x, asm_, fasm, back, fback, back2;
	int cls, sign, expo, zero, xcls, fsign, fexpo;
	unsigned char frac[8], xd[10], xd2[10], fword[8];
};

static void do_d(uint64_t x, struct dres *r, int with_foam)
{
	double f = d_of_u64(x), g, h;
	Bool sign = 0, zero = 0;
	int expo = 0;
	XDFloat xd, xd2;
	FiBool fs = 0; FiSInt fe = 0; FiWord fw0 = 0, fw1 = 0;

	memset(r, 0, sizeof *r);
	r->x = x;
	r->cls = (int) dfClassify(&f);
	memset(r->frac, 0, 8);
	dfDissemble(&f, &sign, &expo, r->frac, &zero);
	r->sign = sign ? 1 : 0; r->expo = expo; r->zero = zero ? 1 : 0;
	g = 0; dfAssemble(&g, sign, expo, r->frac);
	r->asm_ = u64_of_d(g);

	fiDFloDissemble(f, &fs, &fe, &fw0, &fw1);
	r->fsign = fs ? 1 : 0; r->fexpo = (int) fe;
	memcpy(r->fword, &fw0, 8);
	r->fasm = u64_of_d(fiDFloAssemble(fs, fe, fw0, fw1));

	memset(&xd, 0, sizeof xd);
	xdfFrNative(&xd, &f);
	memcpy(r->xd, &xd, 10);
	r->xcls = (int) xdfClassify(&xd);
	h = 0; xdfToNative(&xd, &h);
	r->back = u64_of_d(h);
	memset(&xd2, 0, sizeof xd2);
	xdfFrNative(&xd2, &h);
	memcpy(r->xd2, &xd2, 10);
	h = 0; xdfToNative(&xd2, &h);
	r->back2 = u64_of_d(h);

	if (with_foam) {
		Buffer	buf = bufNew();
		Foam	fm = foamNewDFlo(f), fm2;
		foamToBuffer(buf, fm);
		bufStart(buf);
		fm2 = foamFrBuffer(buf);
		r->fback = (foamTag(fm2) == FOAM_DFlo) ? u64_of_d(foamToDFlo(fm2)) : 0xdeadbeefdeadbeefULL;
		foamFree(fm); foamFree(fm2); bufFree(buf);
	} else
		r->fback = r->back;
}

static int d_ok(const struct dres *r)
{
	int same = d_isnan(r->x) ? (d_isnan(r->back) && d_isnan(r->fback) && d_isnan(r->back2))
				 : (r->back == r->x && r->fback == r->x && r->back2 == r->x);
	return same && r->asm_ == r->x && r->fasm == r->x;
}

static void emit_d(const struct dres *r)
{
	unsigned char b[8];
	fprintf(out, "{\"ev\":\"F\",\"k\":\"D\",\"src\":\"%s\",\"fam\":\"%s\"", src, fam);
	u64_to_be(r->x, b);     pr_bytes("x", b, 8);
	fprintf(out, ",\"cls\":%d,\"sign\":%d,\"exp\":%d,\"zero\":%d", r->cls, r->sign, r->expo, r->zero);
	pr_bytes("frac", r->frac, 8);
	u64_to_be(r->asm_, b);  pr_bytes("asm", b, 8);
	fprintf(out, ",\"fsign\":%d,\"fexp\":%d", r->fsign, r->fexpo);
	pr_bytes("ffrac", r->fword, 8);
	u64_to_be(r->fasm, b);  pr_bytes("fasm", b, 8);
	pr_bytes("xs", r->xd, 10);
	fprintf(out, ",\"xcls\":%d", r->xcls);
	u64_to_be(r->back, b);  pr_bytes("back", b, 8);
	pr_bytes("xs2", r->xd2, 10);
	u64_to_be(r->back2, b); pr_bytes("back2", b, 8);
	u64_to_be(r->fback, b); pr_bytes("fback", b, 8);
	fputs("}\n", out);
}

/* ------------------------------------------------------------------ portable patterns ("foreign" files) */

static void emit_xs(const unsigned char *y)
{
	XSFloat xs, xs2; float h = 0, h2 = 0; unsigned char b[4];
	memcpy(&xs, y, 6);
	fprintf(out, "{\"ev\":\"X\",\"k\":\"S\",\"src\":\"%s\"", src);
	pr_bytes("y", y, 6);
	fprintf(out, ",\"ycls\":%d", (int) xsfClassify(&xs));
	xsfToNative(&xs, &h);
	u32_to_be(u32_of_f(h), b); pr_bytes("nat", b, 4);
	memset(&xs2, 0, sizeof xs2);
	xsfFrNative(&xs2, &h);
	pr_bytes("y2", (unsigned char *) &xs2, 6);
	xsfToNative(&xs2, &h2);
	u32_to_be(u32_of_f(h2), b); pr_bytes("nat2", b, 4);
	fputs("}\n", out);
}

static void emit_xd(const unsigned char *y)
{
	XDFloat xd, xd2; double h = 0, h2 = 0; unsigned char b[8];
	memcpy(&xd, y, 10);
	fprintf(out, "{\"ev\":\"X\",\"k\":\"D\",\"src\":\"%s\"", src);
	pr_bytes("y", y, 10);
	fprintf(out, ",\"ycls\":%d", (int) xdfClassify(&xd));
	xdfToNative(&xd, &h);
	u64_to_be(u64_of_d(h), b); pr_bytes("nat", b, 8);
	memset(&xd2, 0, sizeof xd2);
	xdfFrNative(&xd2, &h);
	pr_bytes("y2", (unsigned char *) &xd2, 10);
	xdfToNative(&xd2, &h2);
	u64_to_be(u64_of_d(h2), b); pr_bytes("nat2", b, 8);
	fputs("}\n", out);
}

/* ------------------------------------------------------------------ enumerations
 * The same family as XFloat.tla BoundaryFracs(n): zero, all ones, 0101.., 1010.., every single
 * bit, all-but-one bit, every prefix of ones, every suffix of ones.  TraceXFloat.tla counts the
 * `enum' events whose fraction belongs to its own BoundaryFracs, and the check compares that count
 * with the cardinality TLC computes, so a divergence of the two enumerations cannot go unnoticed. */

static int boundary_fracs(int n, uint64_t *o)
{
	int k, c = 0;
	uint64_t ones = (n == 64) ? ~0ULL : ((1ULL << n) - 1), alt = 0;
	for (k = 0; k < n; k += 2) alt |= 1ULL << k;
	if (!strcmp(fam, "none")) return 0;
	if (!strcmp(fam, "mini")) {	/* XFloatOps MiniFracs: 0, all ones, alternating (Alt(n,0): bit i = (i+0)%2, i from 1 at the top), top, low */
		o[c++] = 0; o[c++] = ones; o[c++] = (n % 2) ? (alt & ones) : ((~alt) & ones); o[c++] = 1; o[c++] = 1ULL << (n - 1);
		return c;
	}
	o[c++] = 0; o[c++] = ones; o[c++] = alt & ones; o[c++] = (~alt) & ones;
	for (k = 0; k < n; k++) o[c++] = 1ULL << k;
	if (!strcmp(fam, "lite")) return c;
	for (k = 0; k < n; k++) o[c++] = ones & ~(1ULL << k);
	for (k = 1; k <= n; k++) o[c++] = ones & ~((k == n) ? 0 : ((1ULL << (n - k)) - 1));	/* prefix of k ones */
	for (k = 1; k <= n; k++) o[c++] = (k == 64) ? ~0ULL : ((1ULL << k) - 1);		/* suffix of k ones */
	return c;
}

static int cmp64(const void *a, const void *b)
{
	uint64_t x = *(const uint64_t *) a, y = *(const uint64_t *) b;
	return x < y ? -1 : x > y;
}

static int uniq(uint64_t *v, int n)
{
	int i, m = 0;
	qsort(v, n, sizeof *v, cmp64);
	for (i = 0; i < n; i++) if (m == 0 || v[m - 1] != v[i]) v[m++] = v[i];
	return m;
}

static void mode_enum(const char *sfam, const char *dfam)
{
	uint64_t fr[4 * 64 + 8];
	int nf, s, e, i;
	struct sres rs; struct dres rd;

	src = "enum";
	fam = sfam;
	nf = uniq(fr, boundary_fracs(23, fr));
	for (s = 0; s < 2; s++) for (e = 0; e < 256; e++) for (i = 0; i < nf; i++) {
		do_s(((uint32_t) s << 31) | ((uint32_t) e << 23) | (uint32_t) fr[i], &rs, 1);
		emit_s(&rs);
	}
	fam = dfam;
	nf = uniq(fr, boundary_fracs(52, fr));
	for (s = 0; s < 2; s++) for (e = 0; e < 2048; e++) for (i = 0; i < nf; i++) {
		do_d(((uint64_t) s << 63) | ((uint64_t) e << 52) | fr[i], &rd, 1);
		emit_d(&rd);
	}
}

static void mode_xenum(const char *xfam)
{
	uint64_t fr[4 * 64 + 8];
	int nf, s, i, j, k, ne;
	int exps[400];
	unsigned char y[10];
	int kinds[2][3] = { { 32, 0x3ffe - 127, 0x3ffe + 128 }, { 64, 0x3ffe - 1023, 0x3ffe + 1024 } };

	src = "xenum";
	fam = xfam;
	for (k = 0; k < 2; k++) {
		int xfb = kinds[k][0];
		ne = 0;
		exps[ne++] = 0; exps[ne++] = 1; exps[ne++] = 2;
		exps[ne++] = 0x7ffd; exps[ne++] = 0x7ffe; exps[ne++] = 0x7fff;
		for (j = -(xfb + 3); j <= xfb + 3; j++) exps[ne++] = kinds[k][1] + j;
		for (j = -3; j <= 3; j++) exps[ne++] = kinds[k][2] + j;
		for (j = -3; j <= 3; j++) exps[ne++] = 0x3ffe + j;
		nf = uniq(fr, boundary_fracs(xfb, fr));
		for (s = 0; s < 2; s++) for (j = 0; j < ne; j++) for (i = 0; i < nf; i++) {
			int w = (s << 15) | exps[j];
			y[0] = (w >> 8) & 0xff; y[1] = w & 0xff;
			if (k == 0) { unsigned char b[4]; u32_to_be((uint32_t) fr[i], b); memcpy(y + 2, b, 4); emit_xs(y); }
			else        { unsigned char b[8]; u64_to_be(fr[i], b);            memcpy(y + 2, b, 8); emit_xd(y); }
		}
	}
}

static uint32_t rand_s(void)
{
	uint64_t r = rng();
	uint32_t v = (uint32_t) r;
	switch ((r >> 32) & 7) {
	case 0: v &= 0x807fffffu; break;			/* zero / subnormal */
	case 1: v |= 0x7f800000u; break;			/* inf / nan */
	case 2: v = (v & 0x807fffffu) | 0x00800000u; break;	/* smallest normal exponent */
	case 3: v = (v & 0x807fffffu) | 0x7f000000u; break;	/* largest normal exponent */
	default: break;
	}
	if (((r >> 35) & 3) == 0) v &= ~((1u << ((r >> 40) % 23)) - 1);	/* trailing zeros */
	return v;
}

static uint64_t rand_d(void)
{
	uint64_t r = rng(), v = rng();
	switch (r & 7) {
	case 0: v &= 0x800fffffffffffffULL; break;
	case 1: v |= 0x7ff0000000000000ULL; break;
	case 2: v = (v & 0x800fffffffffffffULL) | 0x0010000000000000ULL; break;
	case 3: v = (v & 0x800fffffffffffffULL) | 0x7fe0000000000000ULL; break;
	default: break;
	}
	if (((r >> 3) & 3) == 0) v &= ~((1ULL << ((r >> 8) % 52)) - 1);
	return v;
}

static int hexval(int c) { return c <= '9' ? c - '0' : (c | 32) - 'a' + 10; }

static void mode_file(const char *in)
{
	char line[256], kind[8], hex[64];
	FILE *fi = fopen(in, "r");
	struct sres rs; struct dres rd;
	if (!fi) { perror(in); exit(2); }
	while (fgets(line, sizeof line, fi)) {
		unsigned char y[10]; int i, n;
		if (sscanf(line, "%7s %63s", kind, hex) != 2) continue;
		n = (int) strlen(hex) / 2;
		for (i = 0; i < n && i < 10; i++) y[i] = (unsigned char) (hexval(hex[2 * i]) * 16 + hexval(hex[2 * i + 1]));
		if (!strcmp(kind, "S") && n == 4) { do_s(strtoul(hex, 0, 16), &rs, 1); emit_s(&rs); }
		else if (!strcmp(kind, "D") && n == 8) { do_d(strtoull(hex, 0, 16), &rd, 1); emit_d(&rd); }
		else if (!strcmp(kind, "XS") && n == 6) emit_xs(y);
		else if (!strcmp(kind, "XD") && n == 10) emit_xd(y);
		else { fprintf(stderr, "bad line: %s", line); exit(2); }
	}
	fclose(fi);
}

int main(int argc, char **argv)
{
	int i;
	uint16_t probe = 0x0102;
	if (argc < 3 || *(unsigned char *) &probe != 0x02 || sizeof(float) != 4 || sizeof(double) != 8
	    || sizeof(XSFloat) != 6 || sizeof(XDFloat) != 10) {
		fprintf(stderr, "usage/platform error\n");
		return 2;
	}
	osInit();
	dbInit();
	sxiInit();
	out = fopen(argv[argc - 1], "w");
	if (!out) { perror(argv[argc - 1]); return 2; }

	if (!strcmp(argv[1], "enum") && argc == 5) mode_enum(argv[2], argv[3]);
	else if (!strcmp(argv[1], "xenum") && argc == 4) mode_xenum(argv[2]);
	else if (!strcmp(argv[1], "file") && argc == 4) mode_file(argv[2]);
	else if (!strcmp(argv[1], "rand") && argc == 6) {
		long ns = atol(argv[3]), nd = atol(argv[4]);
		struct sres rs; struct dres rd;
		rng_s = strtoull(argv[2], 0, 10);
		src = "rand";
		for (i = 0; i < ns; i++) { do_s(rand_s(), &rs, 1); emit_s(&rs); }
		for (i = 0; i < nd; i++) { do_d(rand_d(), &rd, 1); emit_d(&rd); }
		for (i = 0; i < ns / 4; i++) {
			unsigned char y[6]; uint64_t r = rng(); int j, w;
			w = (int) (r & 0x8000) | ((r >> 16) % 3 == 0 ? (int) ((r >> 20) & 0x7fff) : 0x3ffe - 200 + (int) ((r >> 20) % 400));
			y[0] = (w >> 8) & 0xff; y[1] = w & 0xff;
			r = rng(); for (j = 0; j < 4; j++) y[2 + j] = (r >> (8 * j)) & 0xff;
			emit_xs(y);
		}
		for (i = 0; i < nd / 4; i++) {
			unsigned char y[10]; uint64_t r = rng(); int j, w;
			w = (int) (r & 0x8000) | ((r >> 16) % 3 == 0 ? (int) ((r >> 20) & 0x7fff) : 0x3ffe - 1150 + (int) ((r >> 20) % 2300));
			y[0] = (w >> 8) & 0xff; y[1] = w & 0xff;
			r = rng(); for (j = 0; j < 8; j++) y[2 + j] = (r >> (8 * j)) & 0xff;
			emit_xd(y);
		}
	}
	else if (!strcmp(argv[1], "sweep") && argc == 6) {
		unsigned lo = (unsigned) atoi(argv[2]), hi = (unsigned) atoi(argv[3]), t;
		unsigned long stride = strtoul(argv[4], 0, 10);
		struct sres rs;
		for (t = lo; t < hi; t++) {
			uint32_t lowv; long fails = 0, shown = 0;
			for (lowv = 0; lowv < (1u << 24); lowv++) {
				uint32_t x = (t << 24) | lowv;
				int sample = (lowv % stride) == 0;
				do_s(x, &rs, sample);
				if (!s_ok(&rs)) {
					fails++;
					if (shown < 20) { src = "sweep-fail"; do_s(x, &rs, 1); emit_s(&rs); shown++; }
				} else if (sample) { src = "sweep"; emit_s(&rs); }
			}
			fprintf(out, "{\"ev\":\"Sweep\",\"k\":\"S\",\"chunk\":%u,\"checked\":%u,\"fail\":%ld}\n", t, 1u << 24, fails);
		}
	}
	else if (!strcmp(argv[1], "dsweep") && argc == 6) {
		long n = atol(argv[3]), j, fails = 0, shown = 0, done = 0;
		unsigned long stride = strtoul(argv[4], 0, 10);
		struct dres rd;
		rng_s = strtoull(argv[2], 0, 10);
		for (j = 0; j < n; j++) {
			uint64_t x = rand_d();
			int sample = (j % stride) == 0;
			do_d(x, &rd, sample);
			done++;
			if (!d_ok(&rd)) {
				fails++;
				if (shown < 20) { src = "sweep-fail"; do_d(x, &rd, 1); emit_d(&rd); shown++; }
			} else if (sample) { src = "sweep"; emit_d(&rd); }
			if (done == (1L << 24) || j == n - 1) {
				fprintf(out, "{\"ev\":\"Sweep\",\"k\":\"D\",\"chunk\":%ld,\"checked\":%ld,\"fail\":%ld}\n", j >> 24, done, fails);
				done = 0; fails = 0; shown = 0;
			}
		}
	}
	else { fprintf(stderr, "bad arguments\n"); return 2; }

	if (fclose(out) != 0) { perror("close"); return 2; }
	return 0;
}
