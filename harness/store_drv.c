/*
 * store_drv.c -- conformance driver for the storage manager (property C10).
 *
 * Linked against the objects vbuild produced from /repo's working tree, this
 * program drives stoAlloc / stoFree / stoResize / stoRecode / stoGc / stoAudit
 * directly and writes one ndjson event per call (schema: DESIGN.md appendix D,
 * extended; see spec/TraceStore.tla which is what reads it).  It decides
 * nothing: every accept/reject decision is taken by TLC validating the trace
 * against spec/StoreAbs.tla.  What it does is *observe*:
 *   - the address (page, offset relative to the heap base), actual size
 *     (stoSize) and object code (stoCode) of every block handed out;
 *   - after every step, for every block of its registry, whether the bytes
 *     still equal the pattern of the block's content tag and its pointer
 *     fields ("bad": the blocks that differ);
 *   - after every step, which registry blocks the allocator still regards as
 *     allocated (stoIsPointer); blocks that vanished are reported as the
 *     survivor set of a Collect event if a collection ran during the call,
 *     and as a Lost event otherwise;
 *   - that stoAudit() returned ("aud"); a failed assertion, a signal or an
 *     exit through the allocator's error handler is written as a Fault event.
 *
 * The registry keeps addresses as small integers (offset from the heap base),
 * never as pointers, so that it is invisible to the conservative collector.
 * Root words are real pointers: NSTATIC of them in static data and NSTACK in
 * the frame of the driver loop (the collector scans both).
 *
 * Modes
 *   store_drv replay <script> <trace> <gc:0|1>           scripts exported by TLC
 *   store_drv chain  <script> <trace> <gc:0|1>           same, one heap for all
 *   (optional 5th argument of replay: milliseconds a script's child may run, default 60000)
 *   store_drv random <seed> <steps> <trace> <gc:0|1> <maxlive> <profile>
 * gc = 0: collections only when the driver calls stoGc (StoCtl_GcLevel_Demand)
 * gc = 1: automatic collections inside stoAlloc as well.
 */
#define _GNU_SOURCE
#include <stdio.h>
#include <stdlib.h>
#include <string.h>
#include <unistd.h>
#include <fcntl.h>
#include <signal.h>
#include <stdint.h>
#include <time.h>
#include <sys/mman.h>
#include <sys/stat.h>
#include <sys/wait.h>

#include "axlgen.h"
#include "opsys.h"
#include "store.h"

#define PAGE      4096
#define MAXB      4096		/* registry capacity (script ids in replay mode) */
#define MAXSLOTS  4
#define SLOTBYTES 8
#define SLOTBASE  8		/* pointer fields start here: the first word is always pattern */
#define NSTATIC   2
#define NSTACK    2
#define NROOTS    (NSTATIC + NSTACK)
#define PTRFREE1  30		/* object codes registered as pointer free */
#define PTRFREE2  31
#define GIANTMIN  4000		/* registry entries from here on are not used by the drain command */

#define NOINLINE __attribute__((noinline))
#define CHILD_TIMEOUT_MS 60000
static long child_timeout_ms = CHILD_TIMEOUT_MS;

/* ------------------------------------------------------------------ state */

struct blk {
	long	off;		/* address - heap base */
	long	req, size;
	int	code, tag;
	int	nslots;
	long	slot[MAXSLOTS];	/* target offsets, -1 = NULL */
	int	alive;
	int	raw;		/* the owner never wrote it (script command G): nothing to compare */
};

static struct blk  reg[MAXB];
static int	   nreg;		/* number of registry entries in use */
static long	   rootoff[NROOTS];	/* what each root word holds (offset) or -1 */
static void *volatile g_static_roots[NSTATIC];
static void *volatile *g_stack_roots;	/* points into the frame of drive() */
static char	  *heapbase;
static int	   gcmode;
static volatile long gc_count;		/* collections seen through StoCtl_GcFile */
static const char *during = "init";
static int	   finished;

/* ------------------------------------------------------------------ output */

static int  outfd = -1;
static char outbuf[1 << 20];
static long outlen;

static void out_flush(void)
{
	long done = 0;
	while (done < outlen) {
		long w = write(outfd, outbuf + done, outlen - done);
		if (w <= 0) _exit(9);
		done += w;
	}
	outlen = 0;
}

static void out_str(const char *s)
{
	long n = strlen(s);
	if (outlen + n > (long) sizeof(outbuf) - 16) out_flush();
	memcpy(outbuf + outlen, s, n);
	outlen += n;
}

static void out_long(long v)
{
	char b[32];
	snprintf(b, sizeof b, "%ld", v);
	out_str(b);
}

static void out_addr(const char *kp, const char *ko, long off)
{
	out_str(",\""); out_str(kp); out_str("\":");
	out_long(off < 0 ? -1 : off / PAGE);
	out_str(",\""); out_str(ko); out_str("\":");
	out_long(off < 0 ? 0 : off % PAGE);
}

static void out_kv(const char *k, long v)
{
	out_str(",\""); out_str(k); out_str("\":"); out_long(v);
}

/* ------------------------------------------------------------------ faults */

static void fault(int sig)
{
	while (outlen > 0 && outbuf[outlen - 1] != '\n') outlen--;	/* drop the half-written event, if any */
	out_str("{\"ev\":\"Fault\",\"sig\":"); out_long(sig);
	out_str(",\"during\":\""); out_str(during); out_str("\"}\n");
	out_flush();
	_exit(3);
}

static void on_exit_check(void)
{
	/* exitFailure() from the allocator's error handler ends here */
	if (!finished) {
		out_flush();
		out_str("{\"ev\":\"Fault\",\"sig\":0,\"during\":\""); out_str(during); out_str("\"}\n");
		out_flush();
	}
}

/* ------------------------------------------------- seeing collections run */

static ssize_t gcfile_write(void *cookie, const char *buf, size_t n)
{
	/* stoGcMarkAndSweep prints "marked %d (+ %d free), swept  %d.]" when done */
	if (n >= 7 && memcmp(buf, "marked ", 7) == 0) gc_count++;
	return n;
}

static void gcfile_install(void)
{
	cookie_io_functions_t io = { 0, gcfile_write, 0, 0 };
	FILE *f = fopencookie(0, "w", io);
	setvbuf(f, 0, _IONBF, 0);
	stoCtl(StoCtl_GcFile, f);
}

/* ---------------------------------------------------------------- content */

static int nslots_for(long n)
{
	long k = n < SLOTBASE + SLOTBYTES ? 0 : (n - SLOTBASE) / SLOTBYTES;
	return (int) (k < MAXSLOTS ? k : MAXSLOTS);
}

static inline unsigned char pat(int tag, long i)
{
	return (unsigned char) (1 + ((unsigned long) tag * 7 + i * 13 + (i >> 8) * 5 + (i >> 16) * 3) % 253);
}

/*
 * Blocks of a kilobyte and more are written and compared through reference images of the pattern
 * (one per pattern phase, filled on demand): histories with hundreds of large live blocks compare tens
 * of megabytes after every step.  All images live in ONE mapping that is read-only except while an
 * image is being extended: the collector scans writable mappings only (and os_unix.c's table of them
 * has room for 30), so the images are neither scanned nor counted.
 */
#define FASTMIN 1024
#define REFMAX  (1L << 20)
static unsigned char *refbase;
static long           reflen[253];

static NOINLINE unsigned char *ref_for(int tag, long len)
{
	int ph = (int) (((unsigned long) tag * 7) % 253);
	unsigned char *m;
	if (len > REFMAX) return 0;
	if (!refbase) {
		refbase = (unsigned char *) mmap(0, 253 * REFMAX, PROT_READ, MAP_PRIVATE | MAP_ANONYMOUS | MAP_NORESERVE, -1, 0);
		if (refbase == (unsigned char *) MAP_FAILED) _exit(9);
	}
	m = refbase + ph * REFMAX;
	if (reflen[ph] < len) {
		long n = (len + (1L << 16)) & ~((1L << 16) - 1), i;
		if (n > REFMAX) n = REFMAX;
		if (mprotect(m, n, PROT_READ | PROT_WRITE)) _exit(9);
		for (i = reflen[ph]; i < n; i++) m[i] = pat(tag, i);
		if (mprotect(m, n, PROT_READ)) _exit(9);
		reflen[ph] = n;
	}
	return m;
}

static NOINLINE void fill_block(int b)
{
	unsigned char *p = (unsigned char *) (heapbase + reg[b].off);
	long i, s1 = reg[b].nslots ? SLOTBASE + (long) reg[b].nslots * SLOTBYTES : 0;
	if (reg[b].raw) { p = 0; return; }
	for (i = 0; i < reg[b].nslots; i++) {
		long t = reg[b].slot[i];
		*(void **) (p + SLOTBASE + i * SLOTBYTES) = t < 0 ? (void *) 0 : (void *) (heapbase + t);
	}
	unsigned char *r = reg[b].size >= FASTMIN ? ref_for(reg[b].tag, reg[b].size) : 0;
	if (r) {
		memcpy(p, r, SLOTBASE);
		memcpy(p + (s1 ? s1 : SLOTBASE), r + (s1 ? s1 : SLOTBASE), reg[b].size - (s1 ? s1 : SLOTBASE));
		r = 0;
	}
	else
		for (i = 0; i < reg[b].size; i++) if (i < SLOTBASE || i >= s1) p[i] = pat(reg[b].tag, i);
	p = 0;
}

/* does the memory at `p' hold the first `len' bytes of block b's content? */
static NOINLINE int check_bytes(int b, unsigned char *p, long len)
{
	long i, s1 = reg[b].nslots ? SLOTBASE + (long) reg[b].nslots * SLOTBYTES : 0;
	if (reg[b].raw) return 1;
	for (i = 0; i < reg[b].nslots && SLOTBASE + (i + 1) * SLOTBYTES <= len; i++) {
		long t = reg[b].slot[i];
		void *want = t < 0 ? (void *) 0 : (void *) (heapbase + t);
		if (*(void **) (p + SLOTBASE + i * SLOTBYTES) != want) return 0;
	}
	unsigned char *r = len >= FASTMIN ? ref_for(reg[b].tag, len) : 0;
	if (r) {
		long from = s1 ? s1 : SLOTBASE;
		int ok = memcmp(p, r, SLOTBASE) == 0 && (len <= from || memcmp(p + from, r + from, len - from) == 0);
		r = 0;
		return ok;
	}
	for (i = 0; i < len; i++) if ((i < SLOTBASE || i >= s1) && p[i] != pat(reg[b].tag, i)) return 0;
	return 1;
}

static NOINLINE int block_ok(int b)
{
	return check_bytes(b, (unsigned char *) (heapbase + reg[b].off), reg[b].size);
}

/* ------------------------------------------------------------ observation */

static NOINLINE int still_allocated(int b)
{
	return stoIsPointer((Pointer) (heapbase + reg[b].off)) ? 1 : 0;
}

/*
 * After a call into the allocator: which registry blocks are gone?  `skip' is
 * a block the operation itself released (old block of a resize), `fresh' the
 * extent just handed out (a registry block overlapping it cannot be allocated
 * any more, whatever stoIsPointer says about that address).
 */
static NOINLINE void observe_losses(long gc0, int skip, long fresh_off, long fresh_size)
{
	int b, lost = 0;
	static int gone[MAXB];
	for (b = 0; b < nreg; b++) {
		if (!reg[b].alive || b == skip) continue;
		int dead = !still_allocated(b);
		/* a block the collector reclaimed always has its first word overwritten (free-list
		 * link or 0xDD); stoIsPointer alone is not reliable for an address whose page was
		 * given back and reused by another section during the same call */
		if (!dead && gc_count != gc0 && !block_ok(b)) dead = 1;
		if (!dead && fresh_off >= 0 &&
		    reg[b].off < fresh_off + fresh_size && fresh_off < reg[b].off + reg[b].size)
			dead = 1;
		if (dead) gone[lost++] = b;
	}
	if (!lost && gc_count == gc0) return;
	if (gc_count != gc0) {
		/* a collection ran inside the call: report its survivors */
		for (b = 0; b < lost; b++) reg[gone[b]].alive = 0;
		out_str("{\"ev\":\"Collect\",\"implicit\":true,\"gcs\":"); out_long(gc_count - gc0);
		out_str(",\"surv\":[");
		int first = 1;
		for (b = 0; b < nreg; b++) {
			if (!reg[b].alive) continue;
			if (!first) out_str(",");
			first = 0;
			out_str("["); out_long(reg[b].off / PAGE); out_str(","); out_long(reg[b].off % PAGE);
			out_str(","); out_long(reg[b].tag); out_str("]");
		}
		out_str("],\"bad\":[],\"aud\":true}\n");
	}
	else {
		for (b = 0; b < lost; b++) {
			reg[gone[b]].alive = 0;
			out_str("{\"ev\":\"Lost\""); out_addr("pg", "off", reg[gone[b]].off);
			out_str(",\"during\":\""); out_str(during); out_str("\"}\n");
		}
	}
}

/* stoAudit, then the byte patterns of all live blocks; closes the event */
static NOINLINE void finish_event(void)
{
	int b, first = 1;
	const char *d0 = during;
	out_str(",\"bad\":[");
	for (b = 0; b < nreg; b++) {
		if (!reg[b].alive) continue;
		if (!block_ok(b)) {
			if (!first) out_str(",");
			first = 0;
			out_str("["); out_long(reg[b].off / PAGE); out_str(","); out_long(reg[b].off % PAGE); out_str("]");
		}
	}
	out_str("]");
	during = "Audit";
	stoAudit();
	during = d0;
	out_str(",\"aud\":true}\n");
}

static NOINLINE void clear_stack(void)
{
	volatile char junk[96 * 1024];
	memset((void *) junk, 0, sizeof junk);
}

/* ------------------------------------------------------------- operations */

static int nlive(void)
{
	int b, n = 0;
	for (b = 0; b < nreg; b++) n += reg[b].alive;
	return n;
}

static int raw_next;	/* the next block allocated is never written by its owner (script command G) */

static NOINLINE void op_alloc(int b, int code, long n, int tag)
{
	long gc0 = gc_count;
	during = "Alloc";
	clear_stack();
	char *p = (char *) stoAlloc((unsigned) code, (ULong) n);
	if (!p) {
		out_str("{\"ev\":\"Fault\",\"sig\":-1,\"during\":\"Alloc returned 0\"}\n");
		out_flush(); finished = 1; _exit(3);
	}
	long off = p - heapbase, size = (long) stoSize(p);
	int ocode = (int) stoCode(p);
	p = 0;
	observe_losses(gc0, -1, off, size);
	reg[b].off = off; reg[b].req = n; reg[b].size = size; reg[b].code = code; reg[b].tag = tag;
	reg[b].nslots = nslots_for(n);
	for (int i = 0; i < MAXSLOTS; i++) reg[b].slot[i] = -1;
	reg[b].alive = 1;
	reg[b].raw = raw_next; raw_next = 0;
	fill_block(b);
	out_str("{\"ev\":\"Alloc\""); out_kv("code", code); out_kv("ocode", ocode); out_kv("n", n);
	out_addr("pg", "off", off); out_kv("size", size); out_kv("tag", tag);
	finish_event();
}

static NOINLINE void op_free(int b)
{
	/* a collection can start INSIDE stoFree (the free index asks for a page and none is free): the block is
	 * released first, the collection sees the rest -- the events are written in that order */
	static char later[1 << 19];
	long gc0 = gc_count, p0, n;
	during = "Free";
	out_flush();
	stoFree((Pointer) (heapbase + reg[b].off));
	reg[b].alive = 0;
	p0 = outlen;
	observe_losses(gc0, -1, -1, 0);
	n = outlen - p0;
	if (n > (long) sizeof later) n = 0;	/* (cannot happen: 4096 registry entries) */
	memcpy(later, outbuf + p0, n);
	outlen = p0;
	out_str("{\"ev\":\"Free\""); out_addr("pg", "off", reg[b].off);
	finish_event();
	if (outlen + n < (long) sizeof(outbuf) - 16) { memcpy(outbuf + outlen, later, n); outlen += n; }
}

static NOINLINE void op_resize(int b, long n)
{
	long gc0 = gc_count, ooff = reg[b].off, osize = reg[b].size;
	during = "Resize";
	clear_stack();
	char *p = (char *) stoResize((Pointer) (heapbase + ooff), (ULong) n);
	if (!p) {
		out_str("{\"ev\":\"Fault\",\"sig\":-1,\"during\":\"Resize returned 0\"}\n");
		out_flush(); finished = 1; _exit(3);
	}
	long off = p - heapbase, size = (long) stoSize(p);
	int ocode = (int) stoCode(p);
	long keep = n < osize ? n : osize;
	int prefix_ok = check_bytes(b, (unsigned char *) p, keep);
	p = 0;
	observe_losses(gc0, b, off, size);
	reg[b].off = off; reg[b].req = n; reg[b].size = size;
	int ns = nslots_for(n);
	for (int i = reg[b].nslots; i < ns; i++) reg[b].slot[i] = -1;
	for (int i = ns; i < MAXSLOTS; i++) reg[b].slot[i] = -1;
	reg[b].nslots = ns;
	fill_block(b);		/* the owner completes the block with the same tag */
	out_str("{\"ev\":\"Resize\""); out_addr("pg", "off", ooff); out_kv("n", n);
	out_addr("npg", "noff", off); out_kv("size", size); out_kv("ocode", ocode);
	out_str(prefix_ok ? ",\"prefix_ok\":true" : ",\"prefix_ok\":false");
	finish_event();
}

static NOINLINE void op_recode(int b, int code)
{
	long gc0 = gc_count;
	during = "Recode";
	char *p = (char *) stoRecode((Pointer) (heapbase + reg[b].off), (unsigned) code);
	long roff = p ? p - heapbase : -1;
	int ocode = (int) stoCode((Pointer) (heapbase + reg[b].off));
	p = 0;
	reg[b].code = code;
	observe_losses(gc0, -1, -1, 0);
	out_str("{\"ev\":\"Recode\""); out_addr("pg", "off", reg[b].off); out_kv("code", code);
	out_kv("ocode", ocode); out_addr("rpg", "roff", roff);
	finish_event();
}

static NOINLINE void op_fill(int b, int tag)
{
	during = "Fill";
	reg[b].tag = tag;
	fill_block(b);
	out_str("{\"ev\":\"Fill\""); out_addr("pg", "off", reg[b].off); out_kv("tag", tag);
	finish_event();
}

static NOINLINE void op_write(int b, int slot, long toff)
{
	during = "Write";
	reg[b].slot[slot] = toff;
	*(void **) (heapbase + reg[b].off + SLOTBASE + (long) slot * SLOTBYTES) = toff < 0 ? (void *) 0 : (void *) (heapbase + toff);
	out_str("{\"ev\":\"Write\""); out_addr("pg", "off", reg[b].off); out_kv("slot", slot + 1);
	out_addr("tpg", "toff", toff);
	finish_event();
}

static NOINLINE void op_setroot(int k, long toff)
{
	during = "SetRoot";
	void *v = toff < 0 ? (void *) 0 : (void *) (heapbase + toff);
	rootoff[k] = toff;
	if (k < NSTATIC) g_static_roots[k] = v; else g_stack_roots[k - NSTATIC] = v;
	v = 0;
	out_str("{\"ev\":\"SetRoot\""); out_kv("k", k + 1); out_addr("tpg", "toff", toff);
	finish_event();
}

static NOINLINE void op_collect(void)
{
	long gc0 = gc_count;
	int b, first = 1;
	during = "Collect";
	clear_stack();
	stoGc();
	out_str("{\"ev\":\"Collect\",\"implicit\":false,\"gcs\":"); out_long(gc_count - gc0);
	out_str(",\"surv\":[");
	for (b = 0; b < nreg; b++) {
		if (!reg[b].alive) continue;
		if (!still_allocated(b) || !block_ok(b)) { reg[b].alive = 0; continue; }
		if (!first) out_str(",");
		first = 0;
		out_str("["); out_long(reg[b].off / PAGE); out_str(","); out_long(reg[b].off % PAGE);
		out_str(","); out_long(reg[b].tag); out_str("]");
	}
	out_str("]");
	finish_event();
}

/*
 * What the allocator itself reports about its housekeeping (stoShowDetail: the free tree's sizes and
 * the page map), as a Note event: the number of distinct free mixed sizes, of free mixed pieces, and of
 * pages used for B-tree nodes (T) and for size-list carriers (L).  Information only.
 */
static NOINLINE void op_note(void)
{
	static char notebuf[1 << 18];	/* no malloc here: libc would move the program break under the allocator */
	char *buf = notebuf;
	FILE *mem, *old = osStderr;
	long keys = 0, pieces = 0, tpg = 0, lpg = 0;
	during = "Note";
	memset(notebuf, 0, sizeof notebuf);
	mem = fmemopen(notebuf, sizeof notebuf - 1, "w");
	if (!mem) return;
	osStderr = mem;
	stoShowDetail(0x20 | 0x40);	/* STO_SHOW_MIXED | STO_SHOW_PAGEMAP */
	osStderr = old;
	fclose(mem);
	if (buf) {
		char *q = strstr(buf, "Mixed-size free pieces:"), *e;
		if (q && (q = strchr(q, '\n')) != 0) {
			for (q++; *q && *q != '\n'; q++)
				if (*q == 'x' && q > buf && q[-1] >= '0' && q[-1] <= '9') {
					char *d = q - 1;
					while (d > buf && d[-1] >= '0' && d[-1] <= '9') d--;
					keys++; pieces += atol(d);
				}
		}
		q = strstr(buf, "Page map:");
		for (; q && (q = strchr(q, '\n')) != 0; ) {
			q++;
			if (*q != '|') break;
			e = strstr(q, "K ");
			if (!e) break;
			for (e += 2; *e && *e != '\n'; e++) { if (*e == 'T') tpg++; else if (*e == 'L') lpg++; }
		}
	}
	out_str("{\"ev\":\"Note\""); out_kv("freesizes", keys); out_kv("freepieces", pieces);
	out_kv("treepages", tpg); out_kv("carrierpages", lpg); out_str("}\n");
}

/* number of free heap pages, as the allocator reports it (stoShowDetail: "Pages: n: b busy, f free, ...") */
static NOINLINE long free_pages(void)
{
	static char pbuf[1024];
	FILE *mem, *old = osStderr;
	char *q;
	memset(pbuf, 0, sizeof pbuf);
	mem = fmemopen(pbuf, sizeof pbuf - 1, "w");
	if (!mem) return -1;
	osStderr = mem;
	stoShowDetail(0x01);		/* STO_SHOW_PAGES */
	osStderr = old;
	fclose(mem);
	q = strstr(pbuf, " busy, ");
	return q ? atol(q + 7) : -1;
}

/*
 * Script command D: use up the free heap pages (blocks of 256 bytes, 15 to a one-page section, registry
 * entries DRAIN0...), so that the next request for a page -- also one made by the allocator for its own
 * structures in the middle of an operation -- finds none and, in automatic mode, starts a collection.
 */
#define DRAIN0 3000
static NOINLINE void op_drain(void)
{
	int id;
	for (id = DRAIN0; id < GIANTMIN; id++) {
		if (reg[id].alive) continue;
		if (free_pages() <= 0) break;
		if (id >= nreg) nreg = id + 1;
		op_alloc(id, PTRFREE1, 256, 1 + id % 7);
	}
}

static void op_config(void)
{
	out_str("{\"ev\":\"Config\",\"auto\":"); out_str(gcmode ? "true" : "false");
	out_kv("align", (long) alignof(MostAlignedType)); out_kv("slotbase", SLOTBASE); out_str("}\n");
}

/* ------------------------------------------------------------------ setup */

static void setup(void)
{
	struct sigaction sa;
	StoInfoObj info;
	int k;

	memset(&sa, 0, sizeof sa);
	sa.sa_handler = fault;
	sigaction(SIGABRT, &sa, 0); sigaction(SIGSEGV, &sa, 0);
	sigaction(SIGBUS, &sa, 0);  sigaction(SIGFPE, &sa, 0); sigaction(SIGILL, &sa, 0);
	atexit(on_exit_check);

	osInit();
	for (k = 0; k < NROOTS; k++) rootoff[k] = -1;
	heapbase = (char *) ((uintptr_t) sbrk(0) & ~(uintptr_t) (PAGE - 1));
	stoAlloc(0, 0);		/* initialises the store (stoInit resets the GC file), allocates nothing */
	gcfile_install();
	info.code = PTRFREE1; info.hasPtrs = 0; stoRegister(&info);
	info.code = PTRFREE2; info.hasPtrs = 0; stoRegister(&info);
	stoCtl(StoCtl_GcLevel, gcmode ? StoCtl_GcLevel_Automatic : StoCtl_GcLevel_Demand);
}

/* ----------------------------------------------------------- replay mode  */

/*
 * Script lines (blocks are named by script ids, sizes are already bytes):
 *   A id code n tag | F id | R id n | K id code | L id tag
 *   W id slot tgt delta | S root tgt delta | C | X (end of one script)
 *   G id code n tag   as A, but the owner never writes or reads the block (a giant block that only
 *                     shapes the heap)          N   Note event (the allocator's own housekeeping report)
 *   D                 use up the free heap pages (see op_drain)
 * Operations on blocks that are not (or no longer) allocated are skipped.
 */
static const char *sc, *sc_end;

static long sc_long(void)
{
	long v = 0, neg = 0;
	while (sc < sc_end && *sc == ' ') sc++;
	if (sc < sc_end && *sc == '-') { neg = 1; sc++; }
	while (sc < sc_end && *sc >= '0' && *sc <= '9') v = v * 10 + (*sc++ - '0');
	return neg ? -v : v;
}

static long target_off(long tgt, long delta)
{
	if (tgt < 0 || tgt >= MAXB || !reg[tgt].alive) return -1;
	if (delta >= reg[tgt].req) delta = reg[tgt].req - 1;
	return reg[tgt].off + delta;
}

static NOINLINE int run_script(void)	/* returns 0 at end of input */
{
	while (sc < sc_end) {
		char c = *sc++;
		long a, b2, c2, d;
		if (c == '\n' || c == ' ') continue;
		switch (c) {
		case 'A': a = sc_long(); b2 = sc_long(); c2 = sc_long(); d = sc_long();
			if (a >= 0 && a < MAXB && !reg[a].alive) { if (a >= nreg) nreg = a + 1; op_alloc((int) a, (int) b2, c2, (int) d); }
			break;
		case 'G': a = sc_long(); b2 = sc_long(); c2 = sc_long(); d = sc_long();
			if (a >= 0 && a < MAXB && !reg[a].alive) { if (a >= nreg) nreg = a + 1; raw_next = 1; op_alloc((int) a, (int) b2, c2, (int) d); }
			break;
		case 'N': op_note(); break;
		case 'D': op_drain(); break;
		case 'F': a = sc_long(); if (a < nreg && reg[a].alive) op_free((int) a); break;
		case 'R': a = sc_long(); b2 = sc_long(); if (a < nreg && reg[a].alive) op_resize((int) a, b2); break;
		case 'K': a = sc_long(); b2 = sc_long(); if (a < nreg && reg[a].alive) op_recode((int) a, (int) b2); break;
		case 'L': a = sc_long(); b2 = sc_long(); if (a < nreg && reg[a].alive) op_fill((int) a, (int) b2); break;
		case 'W': a = sc_long(); b2 = sc_long(); c2 = sc_long(); d = sc_long();
			if (a < nreg && reg[a].alive && b2 < reg[a].nslots) op_write((int) a, (int) b2, target_off(c2, d));
			break;
		case 'S': a = sc_long(); b2 = sc_long(); c2 = sc_long();
			if (a < NROOTS) op_setroot((int) a, target_off(b2, c2));
			break;
		case 'C': op_collect(); break;
		case 'X': return 1;
		default: break;
		}
	}
	return 0;
}

/* release everything the registry still holds, so the next script starts with no live block */
static NOINLINE void drain(void)
{
	int b, k;
	for (k = 0; k < NROOTS; k++) if (rootoff[k] >= 0) op_setroot(k, -1);
	for (b = 0; b < nreg; b++) if (reg[b].alive) op_free(b);
	nreg = 0;
}

static NOINLINE int drive_replay(const char *script, int chain)
{
	void *volatile stack_roots[NSTACK] = { 0, 0 };
	struct stat st;
	int fd = open(script, O_RDONLY);
	if (fd < 0 || fstat(fd, &st) < 0) return 2;
	sc = (const char *) mmap(0, st.st_size ? st.st_size : 1, PROT_READ, MAP_PRIVATE, fd, 0);
	sc_end = sc + st.st_size;
	g_stack_roots = stack_roots;
	if (chain) {
		op_config();
		while (run_script()) drain();
		drain();
		return 0;
	}
	for (;;) {
		/* one pristine allocator per script: run it in a child */
		const char *start = sc;
		while (sc < sc_end && *sc != 'X') sc++;
		if (sc >= sc_end) break;
		sc++;
		out_flush();
		pid_t pid = fork();
		if (pid == 0) {
			sc = start;
			op_config();
			run_script();
			finished = 1;
			out_flush();
			_exit(0);
		}
		int status = 0, waited_ms = 0, hung = 0, polls = 0;
		/* a script is a handful of calls; a child still running after CHILD_TIMEOUT_MS does not return */
		while (waitpid(pid, &status, WNOHANG) == 0) {
			struct timespec ts = { 0, polls < 100 ? 100 * 1000 : 2 * 1000 * 1000 };
			nanosleep(&ts, 0);
			if (polls++ >= 100) waited_ms += 2;
			if (waited_ms > child_timeout_ms) {
				kill(pid, SIGKILL);
				waitpid(pid, &status, 0);
				hung = 1;
				break;
			}
		}
		if (hung) {
			out_str("{\"ev\":\"Hang\"}\n");
		}
		else if (WIFSIGNALED(status)) {
			out_str("{\"ev\":\"Fault\",\"sig\":"); out_long(WTERMSIG(status)); out_str(",\"during\":\"child\"}\n");
		}
		out_str("{\"ev\":\"Reset\"}\n");
	}
	return 0;
}

/* ------------------------------------------------------------ random mode */

static uint64_t rng;
static uint64_t rnd(void)
{
	rng ^= rng << 13; rng ^= rng >> 7; rng ^= rng << 17;
	return rng;
}
static long rnd_below(long n) { return (long) (rnd() % (uint64_t) n); }

static const long boundary[] = {
	1, 7, 8, 9, 15, 16, 17, 24, 25, 32, 33, 47, 48, 49, 64, 65, 80, 81, 96, 97, 128, 129,
	160, 161, 192, 193, 255, 256, 257, 479, 480, 481, 736, 737, 992, 993, 2016, 2017,
	4063, 4064, 4065, 4095, 4096, 4097, 7648, 7649, 7904, 7905, 8160, 8161
};
#define NBOUNDARY ((long) (sizeof boundary / sizeof boundary[0]))

static long pick_size(int profile)
{
	long r = rnd_below(1000);
	if (profile == 1) {		/* small blocks: fixed classes and their edges */
		if (r < 800) return boundary[rnd_below(28)];
		return 1 + rnd_below(300);
	}
	if (profile == 2) {		/* mixed pieces, multi-page blocks */
		if (r < 30) return 70000 + rnd_below(3) - 1;
		if (r < 80) return 20000 + rnd_below(60000);
		if (r < 500) return boundary[26 + rnd_below(NBOUNDARY - 26)];
		return 257 + rnd_below(9000);
	}
	if (r < 8)   return 70000 + rnd_below(3) - 1;
	if (r < 20)  return 10000 + rnd_below(70000);
	if (r < 620) return boundary[rnd_below(NBOUNDARY)];
	if (r < 850) return 1 + rnd_below(300);
	return 1 + rnd_below(6000);
}

static int pick_code(void)
{
	long r = rnd_below(10);
	if (r < 2) return r == 0 ? PTRFREE1 : PTRFREE2;
	return (int) rnd_below(30);
}

static int pick_alive(void)
{
	int b, n = nlive();
	if (!n) return -1;
	long k = rnd_below(n);
	for (b = 0; b < nreg; b++) if (reg[b].alive && k-- == 0) return b;
	return -1;
}

static int free_entry(void)
{
	int b;
	for (b = 0; b < nreg; b++) if (!reg[b].alive) return b;
	return nreg < MAXB ? nreg++ : -1;
}

static long pick_target(void)
{
	int t = pick_alive();
	long r = rnd_below(10);
	if (t < 0 || r == 0) return -1;
	if (r < 6) return reg[t].off;					/* start */
	if (r < 8) return reg[t].off + reg[t].req - 1;			/* last requested byte */
	return reg[t].off + rnd_below(reg[t].req);			/* interior */
}

static NOINLINE void drive_random(long steps, int maxlive, int profile)
{
	void *volatile stack_roots[NSTACK] = { 0, 0 };
	long s;
	int tagctr = 1;
	g_stack_roots = stack_roots;
	op_config();
	for (s = 0; s < steps; s++) {
		int n = nlive(), b;
		long r = rnd_below(100);
		if (n == 0 || (r < 34 && n < maxlive)) {
			b = free_entry();
			tagctr = tagctr % 200 + 1;
			op_alloc(b, pick_code(), pick_size(profile), tagctr);
			/* usually make the new block reachable: from a pointer field of another block or a root */
			long r2 = rnd_below(100);
			if (r2 < 50) {
				int o = pick_alive();
				if (o >= 0 && reg[o].nslots) { op_write(o, (int) rnd_below(reg[o].nslots), reg[b].off + (rnd_below(4) ? 0 : rnd_below(reg[b].req))); s++; }
			}
			else if (r2 < 75) { op_setroot((int) rnd_below(NROOTS), reg[b].off + (rnd_below(4) ? 0 : rnd_below(reg[b].req))); s++; }
		}
		else if (r < 34 || r < 50) {
			b = pick_alive(); op_free(b);
		}
		else if (r < 62) {
			b = pick_alive();
			long nn = rnd_below(4) == 0 ? reg[b].req + rnd_below(3) - 1 : pick_size(profile);
			if (nn < 1) nn = 1;
			op_resize(b, nn);
		}
		else if (r < 66) { b = pick_alive(); op_recode(b, pick_code()); }
		else if (r < 70) { b = pick_alive(); tagctr = tagctr % 200 + 1; op_fill(b, tagctr); }
		else if (r < 84) {
			b = pick_alive();
			if (reg[b].nslots) op_write(b, (int) rnd_below(reg[b].nslots), pick_target());
			else op_setroot((int) rnd_below(NROOTS), pick_target());
		}
		else if (r < 97) op_setroot((int) rnd_below(NROOTS), pick_target());
		else op_collect();
	}
}

/* ------------------------------------------------------------------- main */

int main(int argc, char **argv)
{
	if (argc >= 5 && (!strcmp(argv[1], "replay") || !strcmp(argv[1], "chain"))) {
		gcmode = atoi(argv[4]);
		if (argc >= 6 && atol(argv[5]) > 0) child_timeout_ms = atol(argv[5]);
		outfd = open(argv[3], O_WRONLY | O_CREAT | O_TRUNC | O_APPEND, 0644);
		if (outfd < 0) return 2;
		setup();
		int rc = drive_replay(argv[2], !strcmp(argv[1], "chain"));
		finished = 1;
		out_flush();
		return rc;
	}
	if (argc >= 8 && !strcmp(argv[1], "random")) {
		rng = strtoull(argv[2], 0, 10) * 0x9E3779B97F4A7C15ULL + 0x1234567ULL;
		if (!rng) rng = 1;
		long steps = atol(argv[3]);
		gcmode = atoi(argv[5]);
		outfd = open(argv[4], O_WRONLY | O_CREAT | O_TRUNC | O_APPEND, 0644);
		if (outfd < 0) return 2;
		setup();
		drive_random(steps, atoi(argv[6]), atoi(argv[7]));
		finished = 1;
		out_flush();
		return 0;
	}
	fprintf(stderr, "usage: store_drv replay|chain <script> <trace> <gc> | random <seed> <steps> <trace> <gc> <maxlive> <profile>\n");
	return 2;
}
