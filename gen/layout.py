"""C14: concretise the renderings exported by TLC (spec/Layout.tla) and read back what the compiler did.

Nothing here decides a property: the characters of every line (leading white space, tokens,
separators, escaped line ends) are chosen by the TLA+ operator Text; this module only joins them.
"""
import json
import re

WS = {"s": " ", "t": "\t"}


def ws(code):
    return "".join(WS[c] for c in code)


def text_of(render):
    """The source text of one exported rendering (list of line records -> str)."""
    out = []
    for ln in render["text"]:
        s = ws(ln["lead"])
        toks = ln["toks"]
        for i, t in enumerate(toks):
            if i:
                s += ws(ln["seps"][i - 1])
            s += t
        if ln["esc"]:
            s += (" _" if toks else "_") + ws(ln.get("etail", []))
        out.append(s + "\n")
    return "".join(out)


def parse_renders(printed):
    """vlib.tlc's res.printed -> list of dicts (the RENDER lines)."""
    out = []
    for p in printed:
        if isinstance(p, str) and p.startswith("RENDER "):
            out.append(json.loads(p[7:]))
    return out


def tree_key(tree):
    return json.dumps(tree, sort_keys=True, separators=(",", ":"))


def tree_text(tree):
    """Compact human-readable form of a block tree: L1 D1[L1 L2] ..."""
    def st(s):
        if not s["bl"]:
            return s["sh"]
        return s["sh"] + "".join("[" + " ".join(st(x) for x in b) + "]" for b in s["bl"])
    return " ".join(st(s) for s in tree)


def style_text(sty):
    return "%s/%s%s/w%d/%s/%s/%s%s%s%s%s" % (sty["mode"], sty["cont"], ("%d" % sty["escv"]) if sty["cont"] == "esc" and "escv" in sty else "",
                                          sty["w"], sty["noise"], sty["tabs"], sty["spacing"],
                                          "/fbreak" if sty.get("fbreak") else "", "/tsemi" if sty.get("tsemi") else "",
                                          "/allman" if sty.get("allman") else "", "/endpile" if sty.get("endpile") else "")


# ---------------------------------------------------------------------------
# -WD+lin: token lists printed by linear.c after each stage (tokPrint / listPrint)

STAGES = [("starting", "-------------- Starting with -------------"),
          ("ending", "-------------- Ending with -------------"),
          ("mid", "------- linUseNeededSep (mid) ----------"),
          ("xit", "------- linUseNeededSep (xit) ----------"),
          ("leaving", "-------------- Leaving with ------------")]

LAYOUT_PRINT = {"{": "<SETTAB>", ";": "<BACKSET>", "}": "<BACKTAB>", "<NL>": "<NL>",
                "<#pile>": "#pile", "<#endpile>": "#endpile"}


def _parse_list(body):
    """'[a, |b|, {\\n , c]' -> spellings"""
    body = body.lstrip()
    if not body.startswith("["):
        return None
    depth = 0
    end = None
    # the list ends at the last ']' of the section
    end = body.find("]\n")
    if end < 0:
        end = body.rfind("]")
    inner = body[1:end]
    if inner.strip() == "":
        return []
    toks = []
    for piece in inner.split(", "):
        p = piece.strip()
        if p == "":
            # a ', ' inside a string/comment would show up here; vocabulary avoids it
            continue
        if p in LAYOUT_PRINT:
            toks.append(LAYOUT_PRINT[p])
        elif len(p) >= 2 and p[0] == "|" and p[-1] == "|":
            toks.append(p[1:-1])
        else:
            toks.append(p)
    return toks


def parse_lin_debug(out):
    """stdout of `aldor -WD+lin` -> {stage: [spelling,...]} (first file/first linearize call)."""
    res = {}
    pos = 0
    for i, (name, hdr) in enumerate(STAGES):
        a = out.find(hdr, pos)
        if a < 0:
            continue
        a += len(hdr)
        # section ends at the next header line of dashes or at end
        m = re.compile(r"^-{5,}.*-{5,}\s*$", re.M).search(out, a)
        b = m.start() if m else len(out)
        # the tree dumps ("Converted to") come between starting and ending; skip them by
        # looking only at the text up to the first "->> linCheckPile0" for the starting list
        sect = out[a:b]
        if name == "starting":
            c = sect.find("->> linCheckPile0")
            if c >= 0:
                sect = sect[:c]
        toks = _parse_list(sect)
        if toks is not None:
            res[name] = toks
        pos = a
    return res


# ---------------------------------------------------------------------------
# Vocabulary: statement shapes made of real Aldor tokens -> spec/LayoutVocab.tla
#
# A shape is a list of items: a string is a token run (tokens separated by blanks), None is a hole for a
# block.  Two adjacent runs mark a place where the statement may continue at the same indentation
# (the second run starts with then/else).  A block may only be followed by a run that starts with a
# follower keyword (else, where, ...): after `}` anything else would be split off by linISepAfterDontPiles.

SHAPES = [
    ("L1", ["x := a + 1"]),
    ("L2", ['p ( x , y - 2 , "s" )']),
    ("L3", ["if c then x := 1", "else y := 2"]),
    ("L4", ["r : I -> I"]),
    ("L5", ["if c then x := 1"]),
    ("L6", ["z := h ( a ) where h == k"]),
    ("L7", ["y := v . 1 + 1.5"]),
    ("D1", ["f ( n : I ) : I ==", None]),
    ("I1", ["if b > 2 then", None]),
    ("W1", ["while k < n repeat", None]),
    ("F1", ["for i in 1 .. n repeat", None]),
    ("M1", ["g := ( m : I ) : I +->", None]),
    ("Q1", ["z := h ( a ) where", None]),
    ("A1", ["D : C == add", None]),
    ("C1", ["E : Category == with", None]),
    ("I2", ["if b > 2 then", None, "else", None]),
    ("Q2", ["q ( u : I ) : I ==", None, "where", None]),
    ("I3", ["if a then", None, "else if d then", None, "else", None]),
]

# Larger trees added to the enumerated ones: (shape, [block, ...]) with block = [stmt, ...]
def _t(sh, *blocks):
    return {"sh": sh, "bl": [list(b) for b in blocks]}


EXTRA_TREES = [
    [_t("Q2", [_t("L2"), _t("L3")], [_t("L5"), _t("L6")])],                       # } where {
    [_t("Q2", [_t("L5")], [_t("L2"), _t("L3")]), _t("L2")],
    [_t("I3", [_t("L2")], [_t("L3"), _t("L5")], [_t("L6")])],                      # if / else if / else
    [_t("I3", [_t("L5"), _t("L2")], [_t("L5")], [_t("L3"), _t("L2")]), _t("L3")],
    [_t("D1", [_t("I2", [_t("L5")], [_t("L6")]), _t("L2")])],
    [_t("D1", [_t("I1", [_t("I1", [_t("L5")])]), _t("L3")])],                      # nesting 4
    [_t("A1", [_t("D1", [_t("L2"), _t("L3")]), _t("D1", [_t("L5")]), _t("L2")])],  # a domain body
    [_t("C1", [_t("L4"), _t("L4")]), _t("A1", [_t("Q1", [_t("D1", [_t("L3")])])])],
    [_t("I2", [_t("Q1", [_t("L2"), _t("L5")])], [_t("I2", [_t("L3")], [_t("L5"), _t("L6")])])],
    [_t("M1", [_t("L5"), _t("M1", [_t("L2"), _t("L3")])]), _t("F1", [_t("W1", [_t("L5"), _t("L2")])])],
    [_t("Q2", [_t("I2", [_t("L2"), _t("L2")], [_t("L5")])], [_t("D1", [_t("L3"), _t("L5")])])],
    [_t("L3"), _t("I1", [_t("L3")]), _t("L3"), _t("Q2", [_t("L3"), _t("L3")], [_t("L3")])],
]

ALPHA_KW = ("add and always assert break but by case catch default define delay do else except export exquo extend "
            "finally fix for fluid free from generate goto has if import in inline is isnt iterate let local macro mod "
            "never not of or pretend quo ref rem repeat return rule select then throw to try where while with yield").split()
SYM_KW = ("' ` & , ; $ # @ := : :* :: * ** . .. = == ==> => > >> >= < << <= <- ^ ^= ~ ~= + +- +-> +->* - -> ->* / /\\ \\ \\/ "
          "[ [| { {| ( (| ] } ) | |] |} |) ||").split()
SAMPLES = ["x", "ab", "x1", "0", "1", "2", "10", "1.5", '"s"']

EXTRA_TOKENS = ["--c", "-- c", "{", "}", ";", "#pile", "#endpile", "_"] + ALPHA_KW + SYM_KW + SAMPLES


def tla_str(s):
    return '"' + s.replace("\\", "\\\\").replace('"', '\\"') + '"'


def tla_seq(xs):
    return "<<" + ", ".join(xs) + ">>"


def token_class(t):
    """The class the User Guide (formal.tex, 'Tokens') gives a spelling; only used to fill KindOf's
    sets for spellings that are not keywords.  TLC checks it against the DFA of Scan.tla."""
    if t.startswith("--"):
        return "com"
    if t.startswith('"'):
        return "str"
    if re.fullmatch(r"[01]", t):
        return "id"
    if re.fullmatch(r"[0-9]+(r[0-9A-Z]+)?", t):
        return "int"
    if re.fullmatch(r"[0-9]*\.[0-9]+([eE][+-]?[0-9]+)?|[0-9]+\.[0-9]*([eE][+-]?[0-9]+)?|[0-9]+[eE][+-]?[0-9]+", t):
        return "float"
    return "other"      # keyword or identifier: decided by the keyword table in Scan.tla


def _items_tla(items):
    out = []
    for it in items:
        if it is None:
            out.append("H")
        else:
            out.append("T(" + tla_seq([tla_str(t) for t in it.split()]) + ")")
    return tla_seq(out)


def prog_to_shapes(name, block, shapes):
    """A program written as nested lists -> (tree, shapes appended).  A statement is a list of items:
    str = token run, list = block (list of statements)."""
    tree = []
    for st in block:
        sid = "%sS%d" % (name, len(shapes) + 1)
        items = []
        blocks = []
        shapes.append((sid, items))
        for it in st:
            if isinstance(it, str):
                items.append(it)
            else:
                items.append(None)
                blocks.append(prog_to_shapes(name, it, shapes))
        tree.append({"sh": sid, "bl": blocks})
    return tree


def _tree_tla(tree):
    return tla_seq(["[sh |-> %s, bl |-> %s]" % (tla_str(s["sh"]), tla_seq([_tree_tla(b) for b in s["bl"]])) for s in tree])


def emit_vocab(path, shapes=None, progs=None):
    """Write the TLA+ module LayoutVocab: Shape, the hole-count classes, the character table and the
    literal classes.  progs: list of (name, block) -> ProgTrees."""
    shapes = list(shapes if shapes is not None else SHAPES)
    trees = []
    for name, block in (progs or []):
        trees.append((name, prog_to_shapes(name, block, shapes)))
    toks = set(EXTRA_TOKENS)
    for sid, items in shapes:
        for it in items:
            if it is not None:
                toks.update(it.split())
    toks = sorted(toks)
    L = []
    L.append("---------------------------- MODULE LayoutVocab ----------------------------")
    L.append("(* GENERATED by gen/layout.py:emit_vocab -- do not edit.  The statement shapes (real Aldor")
    L.append("   tokens), their characters, and the literal classes of the spellings. *)")
    L.append("EXTENDS Naturals, Sequences, TLC")
    L.append("")
    L.append("T(toks) == [b |-> FALSE, toks |-> toks]")
    L.append("H       == [b |-> TRUE, toks |-> <<>>]")
    L.append("")
    L.append("Shape ==")
    for i, (sid, items) in enumerate(shapes):
        L.append("  %s(%s :> %s)" % ("   " if i == 0 else "@@ ", tla_str(sid), _items_tla(items)))
    L.append("")
    for h in range(4):
        L.append("Sh%d == {%s}" % (h, ", ".join(tla_str(sid) for sid, items in shapes
                                                 if sum(1 for x in items if x is None) == h and not sid.startswith("P"))))
    L.append("")
    L.append("ShapeNo ==")
    for i, (sid, items) in enumerate(shapes):
        L.append("  %s(%s :> %d)" % ("   " if i == 0 else "@@ ", tla_str(sid), i + 1))
    L.append("")
    L.append("CharsOf ==")
    for i, t in enumerate(toks):
        L.append("  %s(%s :> %s)" % ("   " if i == 0 else "@@ ", tla_str(t), tla_seq([tla_str(c) for c in t])))
    L.append("")
    for cls, nm in (("com", "Comments"), ("int", "IntLits"), ("str", "StrLits"), ("float", "FloatLits")):
        L.append("%s == {%s}" % (nm, ", ".join(tla_str(t) for t in toks if token_class(t) == cls)))
    L.append("")
    L.append("ExtraTrees == %s" % tla_seq([_tree_tla(t) for t in EXTRA_TREES]))
    L.append("")
    L.append("ProgNames == %s" % tla_seq([tla_str(n) for n, t in trees]))
    L.append("ProgTrees == %s" % tla_seq([_tree_tla(t) for n, t in trees]))
    L.append("=============================================================================")
    text = "\n".join(L) + "\n"
    with open(path, "w") as fh:
        fh.write(text)
    return text


if __name__ == "__main__":
    import os
    import sys
    out = sys.argv[1] if len(sys.argv) > 1 else os.path.join(os.path.dirname(os.path.dirname(os.path.abspath(__file__))),
                                                              "spec", "LayoutVocab.tla")
    emit_vocab(out)
    print("wrote", out)
