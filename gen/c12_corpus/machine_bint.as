-- the machine-level builtins on values that fit 32 bits: every line must be the same on all routes
-- (left out: builtins the foamj run time declares unimplemented -- BInt powers, SInt length, modular power, rounding --
--  and BInt mod of a negative number, where the C run time is the one that is wrong: known finding of C11)
#include "aldor"
#include "aldorio"
import from Machine;
import from MachineInteger, Integer, Boolean;
Z ==> MachineInteger;
s(a: SInt): Z == a::Z;
b(a: BInt): Integer == a::Integer;
t(x: Bool): Z == if x::Boolean then 1 else 0;
p3: SInt := 3::SInt;  p20: SInt := 20::SInt;
B: BInt := (10@Integer ^ 25)::BInt;  C: BInt := (-123456789)::Integer::BInt;
stdout << "bquo " << b(B quo C) << " brem " << b(B rem C) << " bmod " << b((B - C) mod (1000::Integer::BInt)) << " bgcd " << b gcd(B, C) << newline;
(bq, br) := divide(C, (1000::Integer::BInt));
stdout << "bdivide " << b bq << " " << b br << " bneg " << b(- C) << " bnext " << b next C << " bprev " << b prev C << newline;
stdout << "btests " << t zero? C << t positive? C << t negative? C << t even? C << t odd? C << t (C < B) << t (B <= B) << t (B = C) << t single? C << t single? B << t bit(B, 25::SInt) << newline;
stdout << "btimesplus " << b _*_+(C, C, B) << newline;
stdout << "bshift " << b shiftUp(C, p3) << " " << b shiftDown(B, p20) << " " << b shiftDown(B - C, p3) << newline;
