#include "aldor"
#include "aldorio"
import from MachineInteger, Integer, String, Partial MachineInteger;
U ==> Union(i: MachineInteger, s: String, z: Integer);
import from U;
show(u: U): () == {
	u case i => stdout << "i " << u.i << newline;
	u case s => stdout << "s " << u.s << newline;
	stdout << "z " << u.z << newline;
}
show [3@MachineInteger];
show ["str"];
show [10@Integer ^ 30];
half(n: MachineInteger): Partial MachineInteger == { odd? n => failed; [n quo 2] }
for n: MachineInteger in 5..8 repeat { h := half n; if failed? h then stdout << n << " failed" << newline else stdout << n << " " << retract h << newline; }
