#include "aldor"
#include "aldorio"
import from MachineInteger, Integer;
Counter: with { new: MachineInteger -> %; bump!: % -> %; value: % -> MachineInteger; <<: (TextWriter, %) -> TextWriter }
== add {
	Rep == Record(n: MachineInteger);
	import from Rep;
	new(k: MachineInteger): % == per [k];
	bump!(c: %): % == { rep(c).n := rep(c).n + 1; c }
	value(c: %): MachineInteger == rep(c).n;
	(w: TextWriter) << (c: %): TextWriter == w << "<" << value c << ">";
}
Pair(T: with { <<: (TextWriter, %) -> TextWriter }): with { pair: (T, T) -> %; swap: % -> %; <<: (TextWriter, %) -> TextWriter }
== add {
	Rep == Record(a: T, b: T);
	import from Rep;
	pair(x: T, y: T): % == per [x, y];
	swap(p: %): % == per [rep(p).b, rep(p).a];
	(w: TextWriter) << (p: %): TextWriter == w << "(" << rep(p).a << ", " << rep(p).b << ")";
}
import from Counter, Pair Counter, Pair Integer;
c: Counter := new 5;
d: Counter := bump! bump! new 40;
stdout << c << d << " " << swap pair(c, d) << " " << swap pair(2^70, -3) << newline;
bump! c;
stdout << pair(c, c) << newline;
