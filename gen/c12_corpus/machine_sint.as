-- the machine-level builtins on values that fit 32 bits: every line must be the same on all routes
-- (left out: builtins the foamj run time declares unimplemented -- BInt powers, SInt length, modular power, rounding --
--  and BInt mod of a negative number, where the C run time is the one that is wrong: known finding of C11)
#include "aldor"
#include "aldorio"
import from Machine;
import from MachineInteger, Integer, Boolean;
Z ==> MachineInteger;
s(a: SInt): Z == a::Z;
b(a: BInt): Integer == a::Integer;
t(x: Bool): Z == if x::Boolean then 1 else 0;
m7: SInt := (-7)::SInt;  p3: SInt := 3::SInt;  p20: SInt := 20::SInt;  p12: SInt := 12::SInt;
stdout << "quo " << s(m7 quo p3) << " rem " << s(m7 rem p3) << " mod " << s(m7 mod p3) << " " << s(p20 mod p3) << newline;
(q, r) := divide(m7, p3);
stdout << "divide " << s q << " " << s r << newline;
stdout << "gcd " << s gcd(p20, p12) << " next " << s next m7 << " prev " << s prev m7 << " neg " << s(- m7) << newline;
stdout << "bits " << s(p20 /\ p12) << " " << s(p20 \/ p12) << " " << s xor(p20, p12) << " " << s shiftUp(p3, p3)
       << " " << s shiftDown(p20, 2::SInt) << " " << s shiftDown(m7, 1::SInt) << " " << t bit(p20, 2::SInt) << t bit(p20, 3::SInt) << newline;
stdout << "tests " << t zero? m7 << t positive? m7 << t negative? m7 << t even? m7 << t odd? m7 << t odd? p3 << t (m7 < p3) << t (p3 <= p3) << t (m7 = p3) << t (m7 ~= p3) << newline;
stdout << "timesplus " << s _*_+(m7, p3, p20) << " modops " << s mod_+(5::SInt, 6::SInt, 7::SInt) << " " << s mod_-(2::SInt, 6::SInt, 7::SInt) << " " << s mod_*(5::SInt, 6::SInt, 7::SInt) << newline;
