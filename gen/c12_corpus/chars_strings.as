#include "aldor"
#include "aldorio"
import from MachineInteger, Character, String;
s: String := "hello, world";
stdout << #s << " " << s.0 << s.4 << " " << (s = "hello, world") << " " << (s < "help") << newline;
for c in s repeat { if upper c ~= c then stdout << upper c; }
stdout << newline;
t: String := s + "!" + "?";
stdout << t << " " << ord(char "A") << " " << digit?(char "7") << letter?(char "7") << newline;
