-- shifting a negative big integer down (the C run time truncates towards zero)
#include "aldor"
#include "aldorio"
import from Machine;
import from MachineInteger, Integer;
b(a: BInt): Integer == a::Integer;
big(n: Integer): BInt == n::BInt;
three: SInt := 3::SInt;
stdout << b shiftDown(big(-123456789), three) << " " << b shiftDown(big(-8), three) << " " << b shiftDown(big(-1), three) << newline;
