-- shifting a negative big integer down (the C run time truncates towards zero)
#include "aldor"
#include "aldorio"
import from Machine;
import from MachineInteger, Integer;
C: BInt := (-123456789)::Integer::BInt;
stdout << (shiftDown(C, 3::SInt)::Integer) << " " << (shiftDown((-8)::Integer::BInt, 3::SInt)::Integer) << " " << (shiftDown((-1)::Integer::BInt, 1::SInt)::Integer) << newline;
