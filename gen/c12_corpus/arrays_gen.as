#include "aldor"
#include "aldorio"
import from MachineInteger, Integer, Array MachineInteger, List Integer;
a: Array MachineInteger := new(5, 7);
for i: MachineInteger in 0..4 repeat a.i := i * i - 3;
stdout << #a << ":";
for x in a repeat stdout << " " << x;
stdout << newline;
squares(n: MachineInteger): Generator Integer == generate { for i: MachineInteger in 1..n repeat yield (i::Integer) ^ 20; }
l: List Integer := [x for x in squares 5];
stdout << l << " " << #l << newline;
s: Integer := 0;
for x in squares 12 for j: MachineInteger in 1.. repeat { if odd? j then s := s + x; }
stdout << s << newline;
