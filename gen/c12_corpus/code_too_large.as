-- open finding C12 "code too large": at -Q5 and above the file-level code is inlined into one Java method beyond 64 KB
#include "aldor"
#include "aldorio"
import from MachineInteger, Integer, String;
a: Integer := 12345678901234567890;
n: MachineInteger := 7;
stdout << a << " " << n << " " << (a quo 3) << newline;
stdout << a << " " << n << " " << (a quo 3) << newline;
stdout << a << " " << n << " " << (a quo 3) << newline;
stdout << a << " " << n << " " << (a quo 3) << newline;
stdout << a << " " << n << " " << (a quo 3) << newline;
stdout << a << " " << n << " " << (a quo 3) << newline;
stdout << a << " " << n << " " << (a quo 3) << newline;
stdout << a << " " << n << " " << (a quo 3) << newline;
stdout << a << " " << n << " " << (a quo 3) << newline;
stdout << a << " " << n << " " << (a quo 3) << newline;
stdout << a << " " << n << " " << (a quo 3) << newline;
stdout << a << " " << n << " " << (a quo 3) << newline;
stdout << a << " " << n << " " << (a quo 3) << newline;
stdout << a << " " << n << " " << (a quo 3) << newline;
stdout << a << " " << n << " " << (a quo 3) << newline;
stdout << a << " " << n << " " << (a quo 3) << newline;
stdout << a << " " << n << " " << (a quo 3) << newline;
stdout << a << " " << n << " " << (a quo 3) << newline;
stdout << a << " " << n << " " << (a quo 3) << newline;
stdout << a << " " << n << " " << (a quo 3) << newline;
stdout << a << " " << n << " " << (a quo 3) << newline;
stdout << a << " " << n << " " << (a quo 3) << newline;
stdout << a << " " << n << " " << (a quo 3) << newline;
stdout << a << " " << n << " " << (a quo 3) << newline;
stdout << a << " " << n << " " << (a quo 3) << newline;
stdout << a << " " << n << " " << (a quo 3) << newline;
stdout << a << " " << n << " " << (a quo 3) << newline;
stdout << a << " " << n << " " << (a quo 3) << newline;
stdout << a << " " << n << " " << (a quo 3) << newline;
stdout << a << " " << n << " " << (a quo 3) << newline;
