-- nested builtin machine-integer operations: the operand order must survive the Java printer
#include "aldor"
#include "aldorio"
import from Machine;
import from MachineInteger;
f(a: SInt, b: SInt, c: SInt): SInt == a - (b - c);
h(a: SInt, b: SInt, c: SInt): SInt == a - (b + c);
g(a: SInt, b: SInt, c: SInt): SInt == a quo (b * c);
k(a: SInt, b: SInt, c: SInt): SInt == (a - b) - c;
x: SInt := 10::SInt;
y: SInt := 4::SInt;
z: SInt := 3::SInt;
stdout << (f(x, y, z)::MachineInteger) << " " << (h(x, y, z)::MachineInteger) << " "
       << (g(100::SInt, 5::SInt, 2::SInt)::MachineInteger) << " " << (k(x, y, z)::MachineInteger) << newline;
