-- nested builtin boolean operations
#include "aldor"
#include "aldorio"
import from Machine;
import from MachineInteger, Boolean;
p(a: Bool, b: Bool, c: Bool): Bool == (a \/ b) /\ c;
q(a: Bool, b: Bool, c: Bool): Bool == a /\ (b \/ c);
show(b: Bool): MachineInteger == if b::Boolean then 1 else 0;
t: Bool := true;
n: Bool := false;
stdout << show p(t, n, n) << " " << show p(t, t, t) << " " << show q(t, n, n) << " " << show q(n, t, t) << newline;
