-- bitwise complement of a machine integer (libaldor: ~ on MachineInteger is this builtin)
#include "aldor"
#include "aldorio"
import from MachineInteger;
a: MachineInteger := 20;
stdout << ~a << " " << ~(-1@MachineInteger) << " " << (a /\ ~5) << newline;
