-- bit length of a big integer
#include "aldor"
#include "aldorio"
import from Machine;
import from MachineInteger, Integer;
B: BInt := (10@Integer ^ 25)::BInt;
stdout << (length(B)::MachineInteger) << " " << (length((255@Integer)::BInt)::MachineInteger) << newline;
