"""The program family of C12: the slice of the typed grammar (gen/progen.py) that the Java back end supports,
rendered in the libaldor dialect (gen/render.py), for a target whose machine integer is 32 bits wide.

The Java back end represents the FOAM machine integer SInt by the Java type `int` (foamj/Foam.java: arrToSInt =
Integer.parseInt; genjava.c maps FOAM_SInt to int), the interpreter and C by a 64-bit word.  The width of the machine
integer belongs to the platform, not to the language, so the family is restricted to programs for which it does not
matter:
  * syntactically: every machine-integer literal has magnitude <= 2^31 - 1 (narrow() rewrites wider ones to the
    corresponding 32-bit boundary value; the program is re-evaluated by TLC after the rewrite, so nothing is assumed
    about the rewrite);
  * semantically: TLC evaluates each program under AldorSem (64-bit wrap) and AldorSemW32 (32-bit wrap); only programs
    with the same behaviour under both are replayed (checks/c12.py).
"""
import copy

import progen

# features of gen/progen.py admitted to the Java family; each was admitted after its libaldor rendering agreed with
# AldorSem on the interpreter route on the unchanged tree (see SELFTEST_NOTES of checks/c12.py)
FEATURES = ["bi", "str", "fun", "while", "for", "exit", "list", "rec", "clos", "brk", "rec_fun", "halt", "throw"]
# "throw": exceptions are raised but never handled.  genjava.c does not implement FOAM Catch ("Java not implemented: Tag:
# Catch"; aldor/test/jcatch.as is not among the Java tests that are built), so `try` is outside the subset the Java back end
# supports; the generator's feature "try" is used with every try node replaced by its body (type preserving).

MAX32 = 2**31 - 1

# 64-bit boundary values -> the 32-bit boundary value playing the same role
_NARROW = {2**31: 2**31 - 1, 2**32: 2**16, 2**62: 2**30, 2**63 - 1: 2**31 - 1, 12345678901234: 1234567890}


def narrow_int(n):
    a = abs(n)
    if a <= MAX32:
        return n
    a = _NARROW.get(a, a % MAX32)
    return -a if n < 0 else a


def narrow(prog):
    """Rewrite machine-integer literals wider than 32 bits; returns the number rewritten."""
    count = [0]

    def walk(x):
        if isinstance(x, dict):
            if x.get("e") == "lit" and x.get("t") == "si":
                n = int("".join(str(d) for d in x["ds"])) * (-1 if x["neg"] else 1)
                m = narrow_int(n)
                if m != n:
                    count[0] += 1
                    x["neg"] = m < 0
                    x["ds"] = [int(c) for c in str(abs(m))]
            for v in x.values():
                walk(v)
        elif isinstance(x, list):
            for v in x:
                walk(v)
    walk(prog["funs"])
    walk(prog["top"])
    return count[0]


def max_si_literal(prog):
    best = [0]

    def walk(x):
        if isinstance(x, dict):
            if x.get("e") == "lit" and x.get("t") == "si":
                best[0] = max(best[0], int("".join(str(d) for d in x["ds"])))
            for v in x.values():
                walk(v)
        elif isinstance(x, list):
            for v in x:
                walk(v)
    walk(prog["funs"])
    walk(prog["top"])
    return best[0]


def strip_try(x):
    """Replace every try node by its body (the handlers and the finaliser are dropped)."""
    if isinstance(x, dict):
        while x.get("e") == "try":
            body = x["body"]
            x.clear()
            x.update(body)
        for v in x.values():
            strip_try(v)
    elif isinstance(x, list):
        for v in x:
            strip_try(v)


def to_java_slice(prog, dialect="libaldor"):
    p = copy.deepcopy(prog)
    narrow(p)
    strip_try(p["funs"])
    strip_try(p["top"])
    ro = dict(p.get("render_opts", {}))
    ro["dialect"] = dialect
    p["render_opts"] = ro
    return p


def generate(seed, n, features=None, prefix="j", force=()):
    """n programs of the Java slice.  features: subset of FEATURES drawn per program when None."""
    out = []
    for i in range(n):
        s = seed * 100003 + i
        g = progen.ProgGen(s, features=features)
        feat = set("throw" if f == "try" else f for f in g.feat)
        if features is None:
            # ProgGen drew its features from ALL_FEATURES with the seed: keep the admitted ones
            feat = set(f for f in feat if f in FEATURES)
        feat |= set(force)
        bad = feat - set(FEATURES)
        if bad:
            raise ValueError("features outside the Java slice: %s" % sorted(bad))
        g.feat = set("try" if f == "throw" else f for f in feat)
        g.exns = ["Ex0", "Ex1", "Ex2"] if "try" in g.feat else []
        out.append(to_java_slice(g.program("%s%d_%d" % (prefix, seed, i))))
    return out


# ---- hand-built probes: one per admitted feature, plus the boundary of the family ----
def fixed_programs():
    from fixedprogs import prog, gvar, stmt, pr, iff, block
    from progen import lit, prim, var, SI, BI, BOOL, STR, UNIT
    S = lambda s: {"e": "str", "s": s}            # noqa: E731
    T, F = {"e": "bool", "b": True}, {"e": "bool", "b": False}
    LSI = ["list", SI]
    out = []
    # machine integers at the edge of 32 bits without leaving them; truncating division; big integers beyond 64 bits
    out.append(prog("J1_arith", [
        gvar("a", SI, lit(SI, 2147483647)), gvar("b", SI, prim("si.sub", prim("si.neg", var("a")), lit(SI, 1))),
        stmt(pr(var("a"), S(" "), var("b"), S(" "), prim("si.add", var("a"), var("b")))),
        stmt(pr(prim("si.quo", lit(SI, -17), lit(SI, 5)), S(" "), prim("si.rem", lit(SI, -17), lit(SI, 5)), S(" "),
                prim("si.mod", lit(SI, -17), lit(SI, 5)), S(" "), prim("si.quo", var("b"), lit(SI, -7)))),
        gvar("z", BI, prim("bi.mul", prim("si.tobi", var("a")), lit(BI, 2**64 + 1))),
        stmt(pr(var("z"), S(" "), prim("bi.pow", lit(BI, -3), lit(SI, 9)), S(" "), prim("bi.quo", var("z"), lit(BI, -10**20)), S(" "),
                prim("bi.rem", var("z"), lit(BI, -10**20)), S(" "), prim("bi.mod", prim("bi.neg", var("z")), lit(BI, 1000)))),
        stmt(pr(iff(prim("bi.lt", var("z"), lit(BI, 2**100)), S("lt"), S("ge"), STR), S(" "),
                iff({"e": "and", "a": prim("si.le", var("b"), var("a")), "b": prim("bool.not", prim("si.eq", var("a"), var("b")))},
                    lit(SI, 1), lit(SI, 0), SI)))]))
    out.append(prog("J2_list", [
        gvar("l", LSI, {"e": "list", "t": LSI, "args": [lit(SI, 3), lit(SI, -4), lit(SI, 5)]}),
        gvar("e", LSI, {"e": "list", "t": LSI, "args": []}),
        gvar("m", LSI, {"e": "cons", "t": LSI, "h": {"e": "len", "l": var("l")}, "tl": {"e": "rest", "l": var("l")}}),
        stmt(pr({"e": "first", "l": var("m")}, S(" "), {"e": "len", "l": var("m")}, S(" "), {"e": "len", "l": var("e")}, S(" "),
                iff({"e": "empty", "l": var("e")}, S("empty"), S("full"), STR))),
        stmt({"e": "forin", "x": "x", "src": var("m"), "et": SI, "body": block(pr(var("x"), S(";")))}),
        stmt({"e": "asg", "x": "l", "v": {"e": "list", "t": LSI, "args": [iff(T, lit(SI, 1), lit(SI, 2), SI)]}}),
        stmt(pr({"e": "first", "l": var("l")}))]))
    out.append(prog("J3_record", [
        gvar("r", ["rec", 0], {"e": "mkrec", "t": ["rec", 0], "args": [lit(SI, 7), lit(BI, -10**30), S("s_\"t")]}),
        stmt({"e": "rset", "r": var("r"), "i": 1, "v": prim("si.mul", {"e": "rget", "r": var("r"), "i": 1, "rt": 0}, lit(SI, -6)), "rt": 0}),
        stmt({"e": "rset", "r": var("r"), "i": 3, "v": S("new"), "rt": 0}),
        gvar("q", ["rec", 0], var("r")),
        stmt({"e": "rset", "r": var("q"), "i": 2, "v": lit(BI, 5), "rt": 0}),
        stmt(pr({"e": "rget", "r": var("r"), "i": 1, "rt": 0}, S(" "), {"e": "rget", "r": var("r"), "i": 2, "rt": 0}, S(" "),
                {"e": "rget", "r": var("r"), "i": 3, "rt": 0}))], recs=[[SI, BI, STR]]))
    FN = ["fn", [SI], SI]
    mk = {"name": "mk", "ps": ["s"], "pts": [SI], "rt": FN, "pure": False,
          "body": {"e": "let", "x": "n", "t": SI, "v": var("s"), "body":
                   {"e": "lam", "ps": ["d"], "pts": [SI], "rt": SI,
                    "body": {"e": "seq", "t": SI, "es": [{"e": "asg", "x": "n", "v": prim("si.add", var("n"), var("d"))}, var("n")]}}}}
    out.append(prog("J4_closure", [
        gvar("c1", FN, {"e": "call", "fi": 1, "args": [lit(SI, 10)]}),
        gvar("c2", FN, {"e": "call", "fi": 1, "args": [lit(SI, -10)]}),
        stmt(pr({"e": "callv", "f": var("c1"), "args": [lit(SI, 1)]})),
        stmt(pr({"e": "callv", "f": var("c1"), "args": [lit(SI, 2)]})),
        stmt(pr({"e": "callv", "f": var("c2"), "args": [lit(SI, 5)]})),
        stmt(pr({"e": "callv", "f": var("c1"), "args": [lit(SI, 0)]}))], funs=[mk]))
    loop = {"name": "lp", "ps": ["n"], "pts": [SI], "rt": SI, "pure": False,
            "body": {"e": "let", "x": "w", "t": SI, "v": lit(SI, 0), "body": {"e": "let", "x": "acc", "t": SI, "v": lit(SI, 0), "body": {
                "e": "seq", "t": SI, "es": [
                    {"e": "while", "c": prim("si.lt", var("w"), var("n")), "body": block(
                        {"e": "asg", "x": "w", "v": prim("si.add", var("w"), lit(SI, 1))},
                        iff(prim("si.eq", prim("si.rem", var("w"), lit(SI, 3)), lit(SI, 0)), {"e": "iterate"}, {"e": "unit"}, UNIT),
                        iff(prim("si.gt", var("w"), lit(SI, 7)), {"e": "break"}, {"e": "unit"}, UNIT),
                        {"e": "asg", "x": "acc", "v": prim("si.add", var("acc"), var("w"))})},
                    {"e": "for", "x": "i", "lo": lit(SI, -1), "hi": lit(SI, 2), "body": block(
                        {"e": "asg", "x": "acc", "v": prim("si.add", prim("si.mul", var("acc"), lit(SI, 2)), var("i"))})},
                    {"e": "seq", "t": SI, "es": [{"e": "exit", "c": prim("si.lt", var("acc"), lit(SI, 0)), "v": lit(SI, -1)},
                                                   {"e": "exit", "c": prim("si.gt", var("acc"), lit(SI, 100)), "v": var("acc")},
                                                   lit(SI, 0)]}]}}}}
    out.append(prog("J5_loops", [stmt(pr({"e": "call", "fi": 1, "args": [lit(SI, 20)]}, S(" "), {"e": "call", "fi": 1, "args": [lit(SI, 0)]}))],
                    funs=[dict(loop, pure=True)]))
    fact = {"name": "fact", "ps": ["n"], "pts": [SI], "rt": BI, "pure": True, "fuel": True,
            "body": iff(prim("si.le", var("n"), lit(SI, 0)), lit(BI, 1),
                        prim("bi.mul", prim("si.tobi", var("n")), {"e": "call", "fi": 1, "args": [prim("si.sub", var("n"), lit(SI, 1))]}), BI)}
    out.append(prog("J6_recursion", [stmt(pr({"e": "call", "fi": 1, "args": [lit(SI, 25)]})),
                                     stmt(pr({"e": "call", "fi": 1, "args": [lit(SI, 0)]}))], funs=[fact]))
    hf = {"name": "hf", "ps": ["n"], "pts": [SI], "rt": SI, "pure": False,
          "body": {"e": "seq", "t": SI, "es": [pr(S("in "), var("n")),
                                                 iff(prim("si.gt", var("n"), lit(SI, 1)), {"e": "error", "msg": "halt42"}, {"e": "unit"}, UNIT),
                                                 prim("si.add", var("n"), lit(SI, 1))]}}
    out.append(prog("J7_halt", [gvar("a", SI, {"e": "call", "fi": 1, "args": [lit(SI, 0)]}), stmt(pr(var("a"))),
                                gvar("b", SI, {"e": "call", "fi": 1, "args": [lit(SI, 2)]}), stmt(pr(S("not reached")))], funs=[hf]))
    out.append(prog("J8_strings", [gvar("s", STR, S("a\"b_c %~")), stmt(pr(var("s"), S("|"), S(""), S("|"), S(" , +-"))),
                                   stmt(pr(iff(F, var("s"), S("Z0"), STR)))]))
    # uncaught exception: output up to the throw, failure exit
    tf = {"name": "tf", "ps": ["n"], "pts": [SI], "rt": SI, "pure": False,
          "body": {"e": "seq", "t": SI, "es": [pr(S("tf "), var("n")),
                                                 iff(prim("si.lt", var("n"), lit(SI, 0)), {"e": "throw", "exn": "Ex1", "args": []}, {"e": "unit"}, UNIT),
                                                 prim("si.mul", var("n"), lit(SI, 3))]}}
    out.append(prog("J9_throw", [gvar("a", SI, {"e": "call", "fi": 1, "args": [lit(SI, 4)]}), stmt(pr(var("a"))),
                                 gvar("b", SI, {"e": "call", "fi": 1, "args": [lit(SI, -4)]}), stmt(pr(S("not reached")))],
                    funs=[tf], exns=["Ex0", "Ex1"]))
    # regression of the fixed finding C12 javac-fail "not a statement" (6ab265e): an unused Boolean initialised by `not (call)`, -Q1
    out.append(prog("F1_unused_not", [gvar("g7", BOOL, prim("bool.not", prim("si.lt", lit(SI, -8), lit(SI, -1)))), stmt(pr(lit(SI, 1)))]))
    # finding C12 compile-reject (front end): overloaded empty? in a file-level conditional expression
    out.append(prog("F2_file_level_if_overload", [
        gvar("g1", LSI, {"e": "list", "t": LSI, "args": [lit(SI, 1), lit(SI, 2)]}),
        stmt({"e": "asg", "x": "g1", "v": iff({"e": "empty", "l": var("g1")}, {"e": "cons", "t": LSI, "h": lit(SI, -4), "tl": var("g1")},
                                              {"e": "list", "t": LSI, "args": [lit(SI, 7)]}, LSI)}),
        stmt(pr({"e": "first", "l": var("g1")}))]))
    # open finding C12 (optimiser, both routes): emerge loses a record field store when the record variable is assigned in a loop
    out.append(prog("F3_emerge_record_store", [
        gvar("g2", LSI, {"e": "list", "t": LSI, "args": [lit(SI, 1), lit(SI, 2)]}),
        gvar("g5", ["rec", 0], {"e": "mkrec", "t": ["rec", 0], "args": [lit(SI, 7)]}),
        stmt({"e": "forin", "x": "e7", "src": var("g2"), "et": SI, "body": block(
            {"e": "asg", "x": "g5", "v": {"e": "mkrec", "t": ["rec", 0], "args": [lit(SI, 255)]}},
            {"e": "forin", "x": "e8", "src": var("g2"), "et": SI, "body": block(
                {"e": "rset", "r": var("g5"), "i": 1, "v": lit(SI, 5), "rt": 0})})}),
        stmt(pr({"e": "rget", "r": var("g5"), "i": 1, "rt": 0}))], recs=[[SI]]))
    # outside the family: the result depends on the width of the machine integer
    out.append(prog("X_width_add", [gvar("a", SI, lit(SI, 2147483647)), stmt(pr(prim("si.add", var("a"), lit(SI, 1))))]))
    out.append(prog("X_width_mul", [gvar("a", SI, lit(SI, 65536)), stmt(pr(prim("si.tobi", prim("si.mul", var("a"), var("a")))))]))
    return [to_java_slice(p) for p in out]
