"""The program family of C12: the slice of the typed grammar (gen/progen.py) that the Java back end supports,
rendered in the libaldor dialect (gen/render.py), for a target whose machine integer is 32 bits wide.

The Java back end represents the FOAM machine integer SInt by the Java type `int` (foamj/Foam.java: arrToSInt =
Integer.parseInt; genjava.c maps FOAM_SInt to int), the interpreter and C by a 64-bit word.  The width of the machine
integer belongs to the platform, not to the language, so the family is restricted to programs for which it does not
matter:
  * syntactically: every machine-integer literal has magnitude <= 2^31 - 1 (narrow() rewrites wider ones to the
    corresponding 32-bit boundary value; the program is re-evaluated by TLC after the rewrite, so nothing is assumed
    about the rewrite);
  * semantically: TLC evaluates each program under AldorSem (64-bit wrap) and AldorSemW32 (32-bit wrap); only programs
    with the same behaviour under both are replayed (checks/c12.py).
"""
import copy

import progen

# features of gen/progen.py admitted to the Java family; each was admitted after its libaldor rendering agreed with
# AldorSem on the interpreter route on the unchanged tree (see SELFTEST_NOTES of checks/c12.py)
FEATURES = ["bi", "str", "fun", "while", "for", "exit", "list", "rec", "clos", "brk", "rec_fun", "halt"]

MAX32 = 2**31 - 1

# 64-bit boundary values -> the 32-bit boundary value playing the same role
_NARROW = {2**31: 2**31 - 1, 2**32: 2**16, 2**62: 2**30, 2**63 - 1: 2**31 - 1, 12345678901234: 1234567890}


def narrow_int(n):
    a = abs(n)
    if a <= MAX32:
        return n
    a = _NARROW.get(a, a % MAX32)
    return -a if n < 0 else a


def narrow(prog):
    """Rewrite machine-integer literals wider than 32 bits; returns the number rewritten."""
    count = [0]

    def walk(x):
        if isinstance(x, dict):
            if x.get("e") == "lit" and x.get("t") == "si":
                n = int("".join(str(d) for d in x["ds"])) * (-1 if x["neg"] else 1)
                m = narrow_int(n)
                if m != n:
                    count[0] += 1
                    x["neg"] = m < 0
                    x["ds"] = [int(c) for c in str(abs(m))]
            for v in x.values():
                walk(v)
        elif isinstance(x, list):
            for v in x:
                walk(v)
    walk(prog["funs"])
    walk(prog["top"])
    return count[0]


def max_si_literal(prog):
    best = [0]

    def walk(x):
        if isinstance(x, dict):
            if x.get("e") == "lit" and x.get("t") == "si":
                best[0] = max(best[0], int("".join(str(d) for d in x["ds"])))
            for v in x.values():
                walk(v)
        elif isinstance(x, list):
            for v in x:
                walk(v)
    walk(prog["funs"])
    walk(prog["top"])
    return best[0]


def to_java_slice(prog, dialect="libaldor"):
    p = copy.deepcopy(prog)
    narrow(p)
    ro = dict(p.get("render_opts", {}))
    ro["dialect"] = dialect
    p["render_opts"] = ro
    return p


def generate(seed, n, features=None, prefix="j", force=()):
    """n programs of the Java slice.  features: subset of FEATURES drawn per program when None."""
    out = []
    for i in range(n):
        s = seed * 100003 + i
        g = progen.ProgGen(s, features=features)
        if features is None:
            # ProgGen drew its features from ALL_FEATURES with the seed: keep the admitted ones
            g.feat = set(f for f in g.feat if f in FEATURES)
        g.feat |= set(force)
        bad = g.feat - set(FEATURES)
        if bad:
            raise ValueError("features outside the Java slice: %s" % sorted(bad))
        out.append(to_java_slice(g.program("%s%d_%d" % (prefix, seed, i))))
    return out
