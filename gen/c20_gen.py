"""Renderers for property C20: TLC's exported behaviours -> script lines of harness/containers_drv.c,
and seeded random formulas (inputs only; every result is judged by TLC against spec/Dnf.tla)."""
import json
import random

TT, FF, NOT, AND, OR = 100, 101, 102, 103, 104
_TOK = {TT: "T", FF: "F", NOT: "~", AND: "&", OR: "|"}


def formula_tokens(f):
    """prefix token list of Dnf.tla -> harness tokens"""
    return " ".join(_TOK.get(t) or ("a%d" % t if t > 0 else "n%d" % -t) for t in f)


def dnf_case(rec):
    """one exported state of Dnf.tla's GenSpec"""
    if "g" in rec:
        return "Q " + formula_tokens(rec["f"]) + " ; " + formula_tokens(rec["g"])
    return "F " + formula_tokens(rec["f"])


def history_case(rec, param):
    """one exported maximal history of Containers.tla's GenSpec; param: hash mode / t / guess / (nbits, regs)"""
    k = rec["k"]
    ops = []
    for op in rec["h"]:
        name, args = op[0], op[1:]
        if name == "Xempty":
            name, args = "X", []
        ops.append(name + ",".join(str(a) for a in args))
    if k == "V":
        head = "V %d %d" % param
    else:
        head = "%s %s" % (k, param)
    return head + " " + " ".join(ops)


def random_formula(rng, natoms, depth):
    """random formula as prefix tokens; leaves mostly literals"""
    if depth == 0 or rng.random() < 0.12:
        r = rng.random()
        if r < 0.04:
            return [TT]
        if r < 0.08:
            return [FF]
        a = rng.randint(1, natoms)
        return [a if rng.random() < 0.5 else -a]
    r = rng.random()
    if r < 0.2:
        return [NOT] + random_formula(rng, natoms, depth - 1)
    op = AND if r < 0.6 else OR
    return [op] + random_formula(rng, natoms, depth - 1) + random_formula(rng, natoms, depth - 1)


def random_dnf_cases(seed, natoms, n_single, n_pairs, dmin, dmax):
    rng = random.Random(seed)
    out = ["L %d" % natoms]
    for _ in range(n_single):
        out.append("F " + formula_tokens(random_formula(rng, natoms, rng.randint(dmin, dmax))))
    for _ in range(n_pairs):
        f = random_formula(rng, natoms, rng.randint(1, dmax - 1))
        # pairs that are often related: g is f weakened/strengthened, or independent
        r = rng.random()
        if r < 0.3:
            g = [OR] + f + random_formula(rng, natoms, 1)
        elif r < 0.6:
            g = [AND] + f + random_formula(rng, natoms, 1)
        elif r < 0.7:
            g = [NOT, NOT] + f
        else:
            g = random_formula(rng, natoms, rng.randint(1, dmax - 1))
        out.append("q " + formula_tokens(f) + " ; " + formula_tokens(g))
    return out


def parse_printed(printed):
    """vlib.tlc collects PrintT'ed strings; the exports are JSON objects"""
    out = []
    for p in printed:
        if p.startswith("{"):
            out.append(json.loads(p))
    return out
