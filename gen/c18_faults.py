"""C18: concretisation of the abstract I/O faults of spec/Driver.tla (IoFault(f,k,mode)) into
file-system set-ups and strace injections, the corpus sample, and the run matrix.

fault source   Driver mode   concretisation
devfull        failWrite+failClose   the target is a symlink to /dev/full (open succeeds, the flush in fclose gets ENOSPC)
enospc         failWrite(+Close)     strace -P <target> -e inject=write:error=ENOSPC   (every write to the target fails)
enospc1        failWrite             ... :when=1   (only the first write fails; later ones and the close succeed)
closefail      failClose             strace -P <target> -e inject=close:error=EIO      (data written, close(2) fails)
dir            failOpen              the target is a directory
notdir         failOpen              -F<k>=blk/x.<k> where blk is a regular file (target inside something that is not a directory)
rmcwd          failOpen              the compiler runs in a directory that has been removed
nodir          (none)                -F<k>=nd/sub/x.<k> with nd missing: the driver creates the directories (fileEnsureDirectory),
                                     so this is a fault-free run whose output must be complete at the requested place
"""
import os
import shutil

from driver_trace import KINDS, KINDS_ALL, default_out_path, named_out_path, run_traced

PROGRAMS = {
    "fact": """#include "axllib"
import from SingleInteger;
f(n: SingleInteger): SingleInteger == if n < 2 then 1 else n * f(n - 1);
print << f(5) << newline;
""",
    "dom": """#include "axllib"
macro SI == SingleInteger;
Counter: with { new: SI -> %; bump!: % -> SI; value: % -> SI } == add {
	Rep ==> Record(n: SI);
	import from Rep;
	new(i: SI): % == per [i];
	value(c: %): SI == rep(c).n;
	bump!(c: %): SI == { rep(c).n := rep(c).n + 1; rep(c).n }
}
import from SI, Counter;
c := new 40;
bump! c; bump! c;
print << value c << newline;
""",
    "gen": """#include "axllib"
import from SingleInteger, List SingleInteger;
squares(n: SingleInteger): Generator SingleInteger == generate {
	for i in 1..n repeat yield i * i;
}
l := [x for x in squares 6];
s: SingleInteger := 0;
for x in l repeat { if x > 20 then break; s := s + x }
print << s << " " << #l << newline;
""",
    "cat": """#include "axllib"
Shape: Category == with { area: % -> SingleInteger; double: % -> SingleInteger; default { double(x: %): SingleInteger == 2 * area x } }
Sq: Shape with { sq: SingleInteger -> % } == add {
	Rep ==> SingleInteger; import from Rep;
	sq(n: SingleInteger): % == per n;
	area(s: %): SingleInteger == rep s * rep s;
}
import from SingleInteger, Sq;
print << double sq 3 << newline;
""",
    "pairA": """#include "axllib"
import from SingleInteger;
ga(n: SingleInteger): SingleInteger == n + 1;
print << ga 1 << newline;
""",
    "pairB": """#include "axllib"
import from SingleInteger;
gb(n: SingleInteger): SingleInteger == n * 2;
print << gb 21 << newline;
""",
}

def add_repo_programs(build, rng, n, timeout=20):
    """Thorough tier: extend the corpus sample with up to n programs of the repository's own axllib
    test suite that compile cleanly, stand-alone, with all nine kinds.  Returns their names."""
    import glob
    import tempfile
    import vlib
    from concurrent.futures import ThreadPoolExecutor
    cands = sorted(glob.glob(os.path.join(vlib.REPO, "aldor/lib/axllib/test/*/*.as")))
    cands = [c for c in cands if os.path.getsize(c) < 6000 and os.path.basename(c)[:-3].isalnum()]
    rng.shuffle(cands)
    cands = cands[:6 * n]

    def ok(path):
        d = tempfile.mkdtemp(prefix="aldor-verif-c18p-")
        try:
            base = os.path.basename(path)
            shutil.copy(path, os.path.join(d, base))
            rc, out, err, to = vlib.aldor(build, ["-F" + k for k in KINDS] + [base], d, timeout=timeout)
            good = rc == 0 and not to and b"Error)" not in out + err and b"Warning)" not in out + err
            return good and all(os.path.isfile(os.path.join(d, default_out_path(k, base[:-3], base[:-3]))) for k in KINDS)
        finally:
            shutil.rmtree(d, ignore_errors=True)
    with ThreadPoolExecutor(max_workers=8) as ex:
        res = list(ex.map(ok, cands))
    names = []
    for c, g in zip(cands, res):
        nm = os.path.basename(c)[:-3]
        if g and nm not in PROGRAMS and len(names) < n:
            PROGRAMS[nm] = open(c, errors="replace").read()
            names.append(nm)
    return names


SINGLE_FAULTS = ["devfull", "enospc", "enospc1", "closefail", "dir", "notdir", "nodir"]
STRACE_FAULTS = {"enospc": ("write", "ENOSPC", None), "enospc1": ("write", "ENOSPC", "1"), "closefail": ("close", "EIO", None)}
EXT = {"main": "c"}


def ext(k):
    return EXT.get(k, k)


class Case(object):
    """One planned run: which programs, which kinds, which fault on which (file, kind)."""

    def __init__(self, progs, kinds, faults, tag=""):
        self.progs = list(progs)            # program names, in command-line order
        self.kinds = [k for k in KINDS_ALL if k in kinds]
        self.faults = dict(faults)          # {(file, kind): fault source}
        self.tag = tag

    def key(self):
        return (tuple(self.progs), tuple(self.kinds), tuple(sorted(self.faults.items())))

    def describe(self):
        return {"programs": self.progs, "kinds": self.kinds,
                "faults": [[f, k, s] for (f, k), s in sorted(self.faults.items())]}

    def command(self):
        """A concrete command line (for reports): fault set-up + compiler invocation."""
        pre, args, wrap = [], [], []
        base = self.progs[0]
        for k in self.kinds:
            a = "-F" + k if k != "h" else "-Csmax=1"
            for (f, kk), s in self.faults.items():
                if kk == k and s == "notdir":
                    a = "-F%s=blk/x.%s" % (k, ext(k))
                    pre.append("touch blk")
                if kk == k and s == "nodir":
                    a = "-F%s=nd/sub/x.%s" % (k, ext(k))
            args.append(a)
        for (f, k), s in sorted(self.faults.items()):
            src = self.progs[f - 1] if f <= len(self.progs) else base
            tgt = default_out_path(k, src, base)
            if s == "devfull":
                pre.append("mkdir -p $(dirname %s); ln -s /dev/full %s" % (tgt, tgt))
            elif s == "dir":
                pre.append("mkdir -p %s" % tgt)
            elif s in STRACE_FAULTS:
                c, e, w = STRACE_FAULTS[s]
                wrap = ["strace -f -o /dev/null -P $PWD/%s -e trace=%s -e inject=%s:error=%s%s" %
                        (tgt, c, c, e, (":when=" + w) if w else "")]
            elif s == "rmcwd":
                pre = ["mkdir gone; cd gone; rmdir ../gone"]
        return "; ".join(pre + [" ".join(wrap + ["aldor <std -N -I -Y args>"] + args + [p + ".as" for p in self.progs])])


def materialise(case, root, idx):
    """Create the directory for a case and return the arguments for run_traced."""
    cwd = os.path.join(root, "c%05d" % idx)
    os.makedirs(cwd)
    nfiles = len(case.progs)
    entry = case.progs[0]
    srcs = []
    for p in case.progs:
        with open(os.path.join(cwd, p + ".as"), "w") as fh:
            fh.write(PROGRAMS[p])
        srcs.append(p + ".as")
    outs, kind_args, strace = {}, {}, []
    rmcwd = any(s == "rmcwd" for s in case.faults.values())
    # a -F<kind>=<fn> applies to every file of the command line; we only name outputs in single-file cases
    for k in case.kinds:
        files = [nfiles + 1] if k == "main" else list(range(1, nfiles + 1))
        for f in files:
            s = case.faults.get((f, k))
            base = entry if k == "main" else case.progs[f - 1]
            if s in ("notdir", "nodir"):
                assert nfiles == 1
                fn = ("blk/x." if s == "notdir" else "nd/sub/x.") + ext(k)
                kind_args[k] = "-F%s=%s" % (k, fn)
                outs[(f, k)] = named_out_path(k, fn, base)
                if s == "notdir":
                    open(os.path.join(cwd, "blk"), "w").close()
                continue
            tgt = default_out_path(k, base, entry)
            outs[(f, k)] = tgt
            full = os.path.join(cwd, tgt)
            if s == "devfull":
                os.makedirs(os.path.dirname(full), exist_ok=True)
                os.symlink("/dev/full", full)
            elif s == "dir":
                os.makedirs(full)
            elif s in STRACE_FAULTS:
                c, e, w = STRACE_FAULTS[s]
                strace.append((os.path.abspath(full), c, e, w))
    run_cwd = cwd
    if rmcwd:
        run_cwd = os.path.join(cwd, "gone")
        os.makedirs(run_cwd)
        srcs = [os.path.join(cwd, s) for s in srcs]
        outs = {fk: os.path.join("gone", p) for fk, p in outs.items()}
    return {"cwd": cwd, "run_cwd": run_cwd, "srcs": srcs, "outs": outs, "kind_args": kind_args,
            "strace": strace or None, "rmcwd": rmcwd}


def reference_case(case):
    """The fault-free twin of a case: same programs, kinds and output names, no fault.
    (nodir keeps its -F<k>=<fn> naming: the directories get pre-created instead.)"""
    keep = {fk: "nodir" for fk, s in case.faults.items() if s in ("nodir",)}
    return Case(case.progs, case.kinds, keep, tag="ref")


def execute(build, case, root, idx, refs, hooks, tracedir, timeout=40):
    m = materialise(case, root, idx)
    if case.tag == "ref":
        for fk, p in m["outs"].items():
            os.makedirs(os.path.dirname(os.path.join(m["cwd"], p)) or m["cwd"], exist_ok=True)
    label = {"case": case.describe()}
    pre = None
    if m["rmcwd"]:
        gone = m["run_cwd"]

        def pre():            # runs in the child between fork and exec
            os.chdir(gone)
            os.rmdir(gone)
    r = run_traced(build, m["cwd"], m["srcs"], case.kinds, m["outs"],
                   refs=refs, kind_args=m["kind_args"], strace=m["strace"], timeout=timeout, hooks=hooks,
                   label=label, tracedir=tracedir, preexec=pre, hook_prefix="gone" if m["rmcwd"] else None)
    r.case = case
    r.outs = m["outs"]
    contents = {}
    if refs is None:
        for fk, p in m["outs"].items():
            full = os.path.join(m["cwd"], p)
            if os.path.isfile(full) and not os.path.islink(full):
                contents[fk] = open(full, "rb").read()
    r.contents = contents
    shutil.rmtree(m["cwd"], ignore_errors=True)
    return r


# --------------------------------------------------------------------------
# the run matrix

def plan(tier, rng, extra_programs=()):
    """Returns the list of Cases.  Distinctness rule: (programs, requested kinds, {(file,kind): fault})."""
    cases = []
    singles = ["fact", "dom", "gen", "cat"] + list(extra_programs)
    allk = list(KINDS)

    def add(progs, kinds, faults, tag=""):
        cases.append(Case(progs, kinds, faults, tag))

    nrep = 1 if tier == "quick" else len(singles)
    # (1) every kind x every fault source, alone; requested = just that kind, and all nine kinds
    i = 0
    for k in KINDS:
        f = 2 if k == "main" else 1
        for s in SINGLE_FAULTS:
            if k == "main" and s == "notdir":
                continue        # -Fmain=<fn> is not honoured (see nodir): nothing of the fault would be reached
            for rep in range(nrep):
                p = singles[(i + rep) % len(singles)]
                q = singles[(i + rep + 1) % len(singles)]
                add([p], [k], {(f, k): s})
                add([q], allk, {(2 if k == "main" else 1, k): s})
                if tier != "quick":
                    sub = sorted(set([k] + rng.sample(allk, 3)))
                    add([p], sub, {(f, k): s})
            i += 1
    # (1b) the C output split into several files (-Csmax=1): the common header <unit>.h is one more output that is due,
    #      written to the current directory and closed last; faults on the header, and on the first C file of a split unit
    for s in ("enospc", "enospc1", "closefail", "dir", "devfull"):
        for rep in range(nrep):
            p = singles[(i + rep) % len(singles)]
            add([p], ["c", "h"], {(1, "h"): s}, "split")
            if s != "devfull":
                add([p], ["c", "h"], {(1, "c"): s}, "split")
        add([singles[(i + 1) % len(singles)]], allk + ["h"], {(1, "h"): s}, "split")
        i += 1
    add(["pairA", "pairB"], ["c", "h", "main"], {(2, "h"): "closefail"}, "split")
    add(["pairA", "pairB"], ["c", "h"], {(1, "h"): "closefail", (2, "c"): "closefail"}, "split")
    # (2) pairs of kinds, each with its own fault source (strace sources: one syscall class per run)
    pairs = [(a, b) for ai, a in enumerate(KINDS) for b in KINDS[ai + 1:]]
    srcpairs = []
    pathb = ["devfull", "dir", "notdir", "nodir"]
    for a in SINGLE_FAULTS:
        for b in SINGLE_FAULTS:
            sa, sb = STRACE_FAULTS.get(a), STRACE_FAULTS.get(b)
            if sa and sb and a != b:
                continue
            srcpairs.append((a, b))
    j = 0
    for (a, b) in pairs:
        combos = srcpairs if tier != "quick" else [srcpairs[(j * 5) % len(srcpairs)], srcpairs[(j * 5 + 17) % len(srcpairs)]]
        for (sa, sb) in combos:
            if (a == "main" and sa == "notdir") or (b == "main" and sb == "notdir"):
                continue
            p = singles[j % len(singles)]
            fa = 2 if a == "main" else 1
            fb = 2 if b == "main" else 1
            kinds = allk if j % 2 == 0 else sorted(set([a, b] + rng.sample(allk, 2)))
            add([p], kinds, {(fa, a): sa, (fb, b): sb})
            j += 1
    # (3) two files on the command line: fault on an output of the first / of the second file
    for k in KINDS:
        for s in (["devfull", "dir", "enospc"] if tier == "quick" else ["devfull", "dir", "enospc", "enospc1", "closefail"]):
            if k == "main":
                add(["pairA", "pairB"], ["ao", "main"], {(3, "main"): s})
            else:
                add(["pairA", "pairB"], [k, "main"] if k != "ao" else ["ao", "fm"], {(1, k): s})
                add(["pairA", "pairB"], allk, {(2, k): s})
    # (4) the compiler's working directory has been removed: every open fails
    add(["fact"], ["ao"], {(1, "ao"): "rmcwd"})
    add(["gen"], allk, {(1, "ai"): "rmcwd"})
    # distinct only
    seen, out = set(), []
    for c in cases:
        if c.key() not in seen:
            seen.add(c.key())
            out.append(c)
    return out
