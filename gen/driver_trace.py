"""Binding between the real compiler driver and spec/Driver.tla (used by C18; reusable by C07/C06).

run_traced()   runs the compiler built by vlib.vbuild() once, with hook H3 writing its ndjson
               events (ALDOR_VERIF_TRACE), optionally under strace fault injection, and returns
               the normalised event list of that run:  Reset, <hook events>, Observed.
validate()     hands concatenated runs to TLC (spec/TraceDriver.tla) and returns one verdict
               per run.  Every accept/reject decision is TLC's: an invariant of Driver that is
               violated, or a trace that is not a behaviour of Driver (post-condition Accepted).

Nothing here decides a property.  Python only (a) concretises abstract faults into file-system
set-ups / strace options, (b) projects what it sees back into the vocabulary of the spec
(absent / partial / complete, error lines, exit status).
"""
import json
import os
import re
import shutil
import subprocess
import sys
import threading
from concurrent.futures import ThreadPoolExecutor

sys.path.insert(0, os.path.join(os.path.dirname(os.path.dirname(os.path.abspath(__file__))), "lib"))
import vlib  # noqa: E402

KINDS = ["ai", "ap", "asy", "ao", "fm", "lsp", "c", "java", "main"]
# "h": the common header <unit>.h of a C output split into several files (-Csmax=<n>); it is not asked for by an -F option
# of its own: it is due whenever "c" is requested and the unit is split (emit.c:emitTheC)
KINDS_ALL = KINDS + ["h"]
ERR_LINE = re.compile(rb"\((?:Fatal )?Error\)")
MODEL_EVENTS = {"FileStart", "FileEnd", "PhStart", "PhEnd", "Msg", "OutOpen", "OutClose", "Cleanup",
                "Link", "InterpEnd", "Exit"}


def default_out_path(kind, base, entry):
    """Where the compiler puts output `kind` of source <base>.as (cwd-relative) when no =<fn> is given."""
    if kind == "main":
        return "%s-aldormain.c" % entry
    if kind == "java":
        return os.path.join("aldorcode", base + ".java")
    return "%s.%s" % (base, kind)


def named_out_path(kind, fn, base):
    """Where output `kind` goes with -F<kind>=<fn> (emit.c:emitFileName / emitJavaFileName)."""
    if kind == "java":
        return os.path.join(os.path.dirname(fn), "aldorcode", base + ".java")
    return fn


def hooks_present(build):
    """True iff the compiler binary was built from sources that carry hook H3."""
    p = os.path.join(vlib.SRC, "phase.c")
    try:
        return "verifPhFileNo" in open(p, errors="replace").read()
    except OSError:
        return False


_seq = [0]
_lock = threading.Lock()


class Run(object):
    """One compiler execution and everything the harness saw of it."""

    def __init__(self):
        self.events = []        # normalised: Reset ... Observed
        self.rc = None
        self.signal = 0
        self.timeout = False
        self.stdout = b""
        self.stderr = b""
        self.cmd = []
        self.obs = []
        self.errl = 0
        self.failed_ops = []    # [(file, kind, "write"|"close"|"open")] injected by strace and really hit
        self.label = {}
        self.dropped = []       # hook events outside the model's vocabulary (recorded, not judged)


def run_traced(build, cwd, srcs, kinds, outs, refs=None, kind_args=None, extra_args=(), strace=None,
               timeout=30, hooks=True, post=(), label=None, env_extra=None, tracedir=None, preexec=None,
               hook_prefix=None):
    """Run the compiler in `cwd` on `srcs` (paths relative to cwd) asking for `kinds`.

    outs      {(file_index, kind): path relative to cwd}  -- where each requested output must appear
    refs      {(file_index, kind): bytes} fault-free content, or None when this *is* the reference run
    kind_args {kind: "-Fkind=fn"} overrides of the plain "-F<kind>"
    strace    list of (abs_path, syscall, errno, when) injections, or None
    tracedir  an existing directory outside cwd for the hook trace and the strace log
    """
    r = Run()
    r.label = dict(label or {})
    args = []
    for k in kinds:
        args.append("-Csmax=1" if k == "h" else (kind_args or {}).get(k, "-F" + k))
    args += list(extra_args) + list(srcs)
    with _lock:
        _seq[0] += 1
        trace_path = os.path.join(tracedir, "t%d.ndjson" % _seq[0])
    env = dict(os.environ)
    env.pop("ALDOR_VERIF_TRACE", None)
    if hooks:
        env["ALDOR_VERIF_TRACE"] = trace_path
    if env_extra:
        env.update(env_extra)
    cmd = [build["aldor"]] + vlib.ALDOR_BASE_ARGS + args
    slog = None
    if strace:
        slog = trace_path + ".strace"
        pre = ["strace", "-f", "-o", slog]
        calls = sorted(set(s[1] for s in strace))
        pre += ["-e", "trace=" + ",".join(calls)]
        for path, call, err, when in strace:
            pre += ["-P", path]
        for call in calls:
            errs = set((s[2], s[3]) for s in strace if s[1] == call)
            for err, when in errs:
                pre += ["-e", "inject=%s:error=%s%s" % (call, err, (":when=" + when) if when else "")]
        cmd = pre + cmd
    r.cmd = cmd
    try:
        p = subprocess.run(cmd, cwd=cwd, stdout=subprocess.PIPE, stderr=subprocess.PIPE, timeout=timeout, env=env,
                           stdin=subprocess.DEVNULL, preexec_fn=preexec)
        r.rc = p.returncode
        r.stdout, r.stderr = p.stdout, p.stderr
        if r.rc < 0:
            r.signal, r.rc = -r.rc, 128 - r.rc
    except subprocess.TimeoutExpired as e:
        r.timeout = True
        r.rc = 124
        r.stdout, r.stderr = e.stdout or b"", e.stderr or b""
    # --- what strace really injected
    if slog and os.path.exists(slog):
        inj = {}
        for line in open(slog, errors="replace"):
            if "(INJECTED)" not in line:
                continue
            m = re.search(r"\b(write|close|openat|open)\(", line)
            if m:
                inj[m.group(1)] = inj.get(m.group(1), 0) + 1
        r.label["injected"] = inj
        for path, call, err, when in strace:
            if inj.get(call):
                for (f, k), pth in outs.items():
                    if os.path.abspath(os.path.join(cwd, pth)) == path:
                        r.failed_ops.append((f, k, call))
    # --- hook events
    raw = []
    if hooks and os.path.exists(trace_path):
        for line in open(trace_path, errors="replace"):
            line = line.strip()
            if line:
                try:
                    raw.append(json.loads(line))
                except ValueError:
                    raise vlib.MachineryError("unparsable hook event: %r" % line)
        os.unlink(trace_path)
    path2out = {os.path.normpath(p): fk for fk, p in outs.items()}
    path2out.update({os.path.abspath(os.path.join(cwd, p)): fk for fk, p in outs.items()})
    if hook_prefix:     # the compiler's own working directory is cwd/hook_prefix
        path2out.update({os.path.normpath(os.path.relpath(p, hook_prefix)): fk for fk, p in outs.items()})
    nfiles = len(srcs)
    evs = [{"ev": "Reset", "nfiles": nfiles, "requested": [k for k in KINDS_ALL if k in kinds], "post": list(post),
            "hooks": bool(hooks)}]
    for e in raw:
        n = e.get("ev")
        if n == "OpenFail":
            fk = path2out.get(os.path.normpath(e.get("path", ""))) if "w" in e.get("mode", "") else None
            if fk is None:
                r.dropped.append(e)
                continue
            e = {"ev": "OutOpen", "file": fk[0], "kind": fk[1], "ok": False}
            n = "OutOpen"
        if n not in MODEL_EVENTS:
            r.dropped.append(e)
            continue
        if n in ("OutOpen", "OutClose", "Cleanup") and e.get("kind") not in (KINDS_ALL if "h" in kinds else KINDS):
            r.dropped.append(e)
            continue
        evs.append(e)
    # --- observation of the outcome
    obs = []
    for (f, k), pth in sorted(outs.items()):
        full = os.path.join(cwd, pth)
        st, size = "absent", -1
        try:
            if os.path.isfile(full) and not os.path.islink(full):
                data = open(full, "rb").read()
                size = len(data)
                if refs is None or refs.get((f, k)) == data:
                    st = "complete"
                elif k == "java" and refs.get((f, k)) is not None and \
                        sorted(refs[(f, k)].splitlines()) == sorted(data.splitlines()):
                    # the Java back end emits local declarations in an order that varies from run to run
                    # (seen on identical command lines; property C08's business): same lines = complete
                    st = "complete"
                    r.label["java_line_order_differs"] = True
                else:
                    st = "partial"
        except OSError:
            st = "absent"
        obs.append({"file": f, "kind": k, "st": st, "size": size})
    r.obs = obs
    r.errl = len(ERR_LINE.findall(r.stdout)) + len(ERR_LINE.findall(r.stderr))
    evs.append({"ev": "Observed", "exit": r.rc, "signal": r.signal, "timeout": r.timeout, "errl": r.errl, "obs": obs,
                "failed": [[f, k] for (f, k, op) in r.failed_ops]})
    r.events = evs
    if slog and os.path.exists(slog):
        os.unlink(slog)
    return r


# --------------------------------------------------------------------------
# validation by TLC

class Verdict(object):
    def __init__(self, ok, how=None, name=None, at=None, event=None, prev=None, tlc_text=""):
        self.ok = ok
        self.how = how          # "invariant" | "stuck"
        self.name = name        # invariant name, or "Accepted"
        self.at = at            # index (within the run) of the event that was not matched / that broke the invariant
        self.event = event
        self.prev = prev
        self.tlc_text = tlc_text

    def __repr__(self):
        return "ok" if self.ok else "%s:%s at #%s %s" % (self.how, self.name, self.at, json.dumps(self.event)[:120])


def _which_run(starts, idx):
    j = 0
    for i, s in enumerate(starts):
        if s <= idx:
            j = i
    return j


def validate_chunk(runs, workdir, tag, stats, timeout=300, module="TraceDriver", cfg=None):
    """Validate `runs` with one TLC process (-continue) and return a Verdict per run.
    module/cfg: a trace module that extends TraceDriver (C07 uses TraceTotal); default TraceDriver."""
    path = os.path.join(workdir, "trace-%s.ndjson" % tag)
    evs, starts = [], []
    for r in runs:
        starts.append(len(evs) + 1)          # 1-based index of the run's Reset
        evs.extend(r.events)
    evs.append({"ev": "End"})
    vlib.write_ndjson(path, evs)
    for attempt in (0, 1):      # a JVM that starves on an overloaded machine is retried once, with more time
        res = vlib.tlc(module, cfg or module, workers=1, env={"TRACE": path}, timeout=timeout * (1 + 3 * attempt),
                       xss="64m", xmx="1g", extra=("-continue",))
        if re.search(r'<<"END", %d>>' % len(evs), res.out):
            break
    os.unlink(path)
    with _lock:
        stats["tlc_runs"] += 1
        stats["states"] += res.distinct
        stats["generated"] += res.states
        stats["wall"] += res.wall
    out = res.out
    if not re.search(r'<<"END", %d>>' % len(evs), out):
        raise vlib.MachineryError("TLC did not reach the end of the trace file (%s):\n%s" % (tag, vlib._first_error(out)))
    verdicts = [Verdict(True) for _ in runs]
    # rejected runs
    for m in re.finditer(r'<<"STUCK", (\d+)>>', out):
        idx = int(m.group(1))
        j = _which_run(starts, idx)
        if verdicts[j].ok:
            verdicts[j] = Verdict(False, "stuck", "NotABehaviour", idx - starts[j], evs[idx - 1], evs[idx - 2] if idx >= 2 else None,
                                  "no Driver action matches event %d of the run: %s\nafter: %s" %
                                  (idx - starts[j], json.dumps(evs[idx - 1]), json.dumps(evs[idx - 2] if idx >= 2 else None)))
    # invariant violations: each error block ends with the violating state (ALIAS shows l)
    blocks = re.split(r"Error: Invariant (\S+) is violated\.", out)
    for bi in range(1, len(blocks), 2):
        name, body = blocks[bi], blocks[bi + 1]
        ls = re.findall(r"^/\\ l = (\d+)", body, re.M)
        if not ls:
            raise vlib.MachineryError("TLC reported %s without a trace:\n%s" % (name, body[:2000]))
        idx = int(ls[-1]) - 1               # the event whose step produced the violating state
        j = _which_run(starts, idx)
        if verdicts[j].ok:
            verdicts[j] = Verdict(False, "invariant", name, idx - starts[j], evs[idx - 1], evs[idx - 2] if idx >= 2 else None,
                                  "Invariant %s is violated in the state reached by event %d of the run: %s" %
                                  (name, idx - starts[j], json.dumps(evs[idx - 1])))
    other = [e for e in re.findall(r"^Error: (.*)$", out, re.M)
             if not e.startswith("Invariant ") and not e.startswith("The behavior up to this point")]
    if other:
        raise vlib.MachineryError("TLC trace validation failed (%s): %s" % (tag, vlib._first_error(out)))
    return verdicts


def validate(runs, chunk=10, parallel=12, timeout=300, module="TraceDriver", cfg=None):
    """Validate all runs; returns (verdicts, stats)."""
    workdir = vlib.scratch("trv")
    stats = {"tlc_runs": 0, "states": 0, "generated": 0, "wall": 0.0}
    chunks = [runs[i:i + chunk] for i in range(0, len(runs), chunk)]
    with ThreadPoolExecutor(max_workers=parallel) as ex:
        futs = [ex.submit(validate_chunk, c, workdir, str(i), stats, timeout, module, cfg) for i, c in enumerate(chunks)]
        res = [f.result() for f in futs]
    verdicts = [v for vs in res for v in vs]
    shutil.rmtree(workdir, ignore_errors=True)
    return verdicts, stats
