"""Hand-built abstract programs: (1) regression programs for recorded findings (they keep each finding visible as a
KNOWN-FINDING line as long as it is open, and show when it is gone); (2) feature probes."""
from progen import lit, prim, var, SI, BI, BOOL, STR, UNIT

NL = {"e": "str", "s": "\n"}


def pr(*args):
    return {"e": "print", "args": list(args) + [NL]}


def stmt(x):
    return {"d": "stmt", "x": x}


def gvar(x, t, init):
    return {"d": "var", "x": x, "t": t, "init": init}


def iff(c, a, b, t):
    return {"e": "if", "c": c, "a": a, "b": b, "t": t}


def block(*es):
    return {"e": "seq", "es": list(es), "t": UNIT}


def prog(pid, top, funs=(), recs=(), uns=(), **kw):
    p = {"id": pid, "funs": list(funs), "top": list(top), "recs": list(recs), "uns": list(uns), "feat": ["fixed"], "seed": 0}
    p.update(kw)
    return p


def findings_c01():
    out = []
    # F3: a conditional with a type-qualified literal inside a file-level loop
    out.append(prog("F3_conditional_in_file_level_loop", [
        gvar("w", SI, lit(SI, 0)),
        stmt({"e": "while", "c": prim("si.lt", var("w"), lit(SI, 5)),
              "body": block({"e": "asg", "x": "w", "v": prim("si.add", var("w"), lit(SI, 1))},
                            pr(iff(prim("si.eq", var("w"), lit(SI, 5)), lit(SI, 536870911), lit(SI, 7), SI)))})]))
    # F4: one-element bracket whose element is a conditional expression
    out.append(prog("F4_singleton_bracket_if", [
        gvar("b", BOOL, {"e": "bool", "b": True}),
        gvar("g1", ["list", SI], {"e": "list", "t": ["list", SI], "args": [iff(var("b"), lit(SI, 1), lit(SI, 2), SI)]}),
        stmt(pr({"e": "first", "l": var("g1")}))], render_opts={"singleton_bracket": True}))
    # F5: a loop inside a file-level if statement whose condition holds a literal
    out.append(prog("F5_loop_in_file_level_if", [
        gvar("g3", SI, lit(SI, 1)), gvar("w", SI, lit(SI, 0)),
        stmt(iff(prim("si.ge", var("g3"), lit(SI, 3)),
                 block({"e": "while", "c": prim("si.lt", var("w"), lit(SI, 4)),
                        "body": block({"e": "asg", "x": "w", "v": prim("si.add", var("w"), lit(SI, 1))})}),
                 {"e": "unit"}, UNIT)),
        stmt(pr(var("g3")))]))
    # F6: overloaded list operation as the condition of a file-level if statement that assigns the list
    out.append(prog("F6_overload_in_file_level_if_condition", [
        gvar("g3", ["list", BI], {"e": "list", "t": ["list", BI], "args": [lit(BI, 1)]}),
        gvar("g0", ["list", SI], {"e": "list", "t": ["list", SI], "args": [lit(SI, 1), lit(SI, 2)]}),
        gvar("g1", STR, {"e": "str", "s": "a"}),
        stmt(iff({"e": "empty", "l": var("g3")},
                 block({"e": "asg", "x": "g3", "v": var("g3")}, {"e": "asg", "x": "g1", "v": {"e": "str", "s": "b"}}),
                 block({"e": "asg", "x": "g3", "v": {"e": "list", "t": ["list", BI], "args": [lit(BI, 10), lit(BI, -44)]}},
                       pr(var("g1"))), UNIT))]))
    # F7: union test nested in the branch of the same union test in a file-level if statement
    out.append(prog("F7_nested_case_in_file_level_if", [
        gvar("g1", ["un", 0], {"e": "mkun", "t": ["un", 0], "tag": 1, "v": lit(SI, 5)}),
        stmt(iff({"e": "uis", "u": var("g1"), "tag": 1, "ut": 0},
                 block(pr(iff({"e": "uis", "u": var("g1"), "tag": 1, "ut": 0}, {"e": "uget", "u": var("g1"), "tag": 1, "ut": 0},
                              lit(SI, -17), SI))),
                 block(pr(lit(SI, 7))), UNIT))], uns=[[SI, BI]]))
    # F12: the handler of a try that stands inside a conditional reads the value its exception carries (pv$E): the lazy
    # import of `pv` from E is initialised at the import place in front of the conditional, before E exists
    thrower = {"name": "thr", "oname": "thr", "ps": ["x"], "pts": [SI], "rt": SI, "pure": False,
               "body": {"e": "seq", "t": SI, "es": [
                   iff(prim("si.gt", var("x"), lit(SI, 3)), {"e": "throw", "exn": "ExP0", "args": [prim("si.add", var("x"), lit(SI, 1))]},
                       {"e": "unit"}, UNIT),
                   var("x")]}}
    catcher = {"name": "cat", "oname": "cat", "ps": ["y"], "pts": [SI], "rt": SI, "pure": False,
               "body": {"e": "let", "x": "v", "t": SI, "v": lit(SI, 0), "body": {"e": "seq", "t": SI, "es": [
                   iff(prim("si.gt", var("y"), lit(SI, 0)),
                       block({"e": "asg", "x": "v", "v": {"e": "try", "t": SI, "body": {"e": "call", "fi": 1, "args": [var("y")]},
                                                        "hs": [{"exn": "ExP0", "ps": ["q"], "body": prim("si.add", var("q"), lit(SI, 3))}],
                                                        "fin": {"e": "none"}}}),
                       {"e": "unit"}, UNIT),
                   var("v")]}}}
    # F14: the filter of a loop mentions a variable that the loop body assigns: rejected ("No meaning for identifier")
    counter = {"name": "cnt", "oname": "cnt", "ps": [], "pts": [], "rt": SI, "pure": False,
               "body": {"e": "let", "x": "v", "t": SI, "v": lit(SI, 0), "body": {"e": "seq", "t": SI, "es": [
                   {"e": "for", "x": "i", "lo": lit(SI, 1), "hi": lit(SI, 5), "filt": prim("si.lt", var("v"), lit(SI, 3)),
                    "body": block({"e": "asg", "x": "v", "v": prim("si.add", var("v"), lit(SI, 1))})},
                   var("v")]}}}
    out.append(prog("F14_loop_filter_mentions_assigned_variable", [stmt(pr({"e": "call", "fi": 1, "args": []}))], funs=[counter]))
    out.append(prog("F12_payload_read_in_conditional_try", [
        stmt(pr({"e": "call", "fi": 2, "args": [lit(SI, 1)]})),
        stmt(pr({"e": "call", "fi": 2, "args": [lit(SI, 5)]}))],
        funs=[thrower, catcher], exns=["ExP0"], exnp=[{"exn": "ExP0", "t": SI}]))
    return out


def findings_opt():
    """Open findings that need an optimisation level to manifest (C02/C03)."""
    out = []
    body = {"e": "seq", "t": UNIT, "es": [
        {"e": "yield", "v": {"e": "try", "t": SI, "body": {"e": "len", "l": var("p1")},
                              "hs": [{"exn": "Ex0", "ps": [], "body": {"e": "len", "l": var("g17")}},
                                     {"exn": "Ex2", "ps": [], "body": lit(SI, -4)}], "fin": {"e": "none"}}}]}
    f = {"name": "f1", "ps": ["p1", "p2"], "pts": [["list", BI], BOOL], "rt": ["gen", SI], "pure": False,
         "body": {"e": "gen", "body": body, "et": SI}}
    out.append(prog("F8_try_in_generator", [
        gvar("g17", ["list", BI], {"e": "list", "t": ["list", BI], "args": [lit(BI, 2**64)]}),
        stmt({"e": "forin", "x": "e1", "et": SI, "src": {"e": "call", "fi": 1, "args": [
            {"e": "list", "t": ["list", BI], "args": [lit(BI, 5), lit(BI, 6)]}, {"e": "bool", "b": True}]}, "body": block(pr(var("e1")))})],
        funs=[f], exns=["Ex0", "Ex1", "Ex2"], order=[["t", 0], ["f", 0], ["t", 1]]))
    # F9: record field store inside nested file-level loops is lost by the emerge pass at -Q2+
    out.append(prog("F9_record_store_in_file_level_loop", [
        gvar("g2", ["list", SI], {"e": "list", "t": ["list", SI], "args": [lit(SI, 1), lit(SI, 2)]}),
        gvar("g5", ["rec", 0], {"e": "mkrec", "t": ["rec", 0], "args": [lit(SI, 7)]}),
        stmt({"e": "forin", "x": "e7", "et": SI, "src": var("g2"), "body": block(
            {"e": "asg", "x": "g5", "v": {"e": "mkrec", "t": ["rec", 0], "args": [lit(SI, 255)]}},
            {"e": "forin", "x": "e8", "et": SI, "src": var("g2"), "body": block(
                {"e": "rset", "r": var("g5"), "i": 1, "v": lit(SI, 5), "rt": 0})})}),
        stmt(pr({"e": "rget", "r": var("g5"), "i": 1, "rt": 0}))], recs=[[SI]]))
    # F10: lexically nested try expressions make the optimiser abort ("bad case") at -Q2+ (a generated program, kept whole)
    import json as _json, os as _os
    fj = _os.path.join(_os.path.dirname(_os.path.abspath(__file__)), "fixed_json", "F10_nested_try_optimiser.json")
    out.append(_json.load(open(fj)))
    # F11: a function that stores a String branch in a Union(t1: Integer, t2: String) variable and then reads .t1 (guarded or
    # never called): at -Q2+ copy propagation builds (Cast BInt (Arr Char ...)) and foamAudit aborts with "Bad type"
    fj = _os.path.join(_os.path.dirname(_os.path.abspath(__file__)), "fixed_json", "F11_union_other_branch_cast.json")
    out.append(_json.load(open(fj)))
    # F13: a function whose body holds a try with a finally part and that returns a closure holding another try: "bad case" at -Q2+
    fj = _os.path.join(_os.path.dirname(_os.path.abspath(__file__)), "fixed_json", "F13_try_and_closure_try.json")
    out.append(_json.load(open(fj)))
    # F16: two file-level record variables name one record (g9 := g2) after a function assigned g2 a new record; a field store
    # through g9 is not seen when g2 is read (emerge pass, -Q2+)
    R = ["rec", 0]
    setter = {"name": "setg", "oname": "setg", "ps": ["p"], "pts": [SI], "rt": SI, "pure": False,
              "body": {"e": "seq", "t": SI, "es": [
                  {"e": "asg", "x": "g2", "v": {"e": "mkrec", "t": R, "args": [lit(SI, 9), lit(SI, -6), lit(SI, -9)]}}, var("p")]}}
    out.append(prog("F16_file_level_record_alias_store", [
        gvar("g2", R, {"e": "mkrec", "t": R, "args": [lit(SI, 7), lit(SI, 1), lit(SI, -9)]}),
        stmt({"e": "call", "fi": 1, "args": [lit(SI, 1)]}),
        gvar("g9", R, {"e": "mkrec", "t": R, "args": [lit(SI, 8), lit(SI, 9), lit(SI, 5)]}),
        stmt({"e": "asg", "x": "g9", "v": var("g2")}),
        stmt({"e": "rset", "r": var("g9"), "i": 3, "v": {"e": "rget", "r": var("g2"), "i": 2, "rt": 0}, "rt": 0}),
        stmt(pr({"e": "rget", "r": var("g2"), "i": 3, "rt": 0}))],
        funs=[setter], recs=[[SI, SI, SI]],
        order=[["t", 0], ["f", 0], ["t", 1], ["t", 2], ["t", 3], ["t", 4], ["t", 5]]))
    # F15: a generator whose body calls (and discards the values of) a function returning several values that in turn calls an
    # operation of a parametrised domain: the compiler faults (segmentation violation) at -Q2+
    fj = _os.path.join(_os.path.dirname(_os.path.abspath(__file__)), "fixed_json", "F15_multi_value_call_discarded_in_generator.json")
    out.append(_json.load(open(fj)))
    return out


def fixed_regressions(with_assert=False):
    """Programs that failed before a `fix:` commit: they must pass now (and report a violation if the defect returns)."""
    out = []
    out.append(prog("R1_and_skipped_operand_import", [
        gvar("g1", BOOL, {"e": "and", "a": {"e": "bool", "b": False}, "b": prim("si.le", lit(SI, 5), lit(SI, -8))}),
        gvar("g3", SI, lit(SI, -1)),
        stmt(pr(var("g3")))]))
    out.append(prog("R2_or_skipped_operand_import", [
        gvar("g1", BOOL, {"e": "or", "a": {"e": "bool", "b": True}, "b": prim("si.le", lit(SI, 5), lit(SI, -8))}),
        gvar("g3", SI, prim("si.neg", lit(SI, 4))),
        stmt(pr(var("g3"), var("g3")))]))
    # R4/R5 (specification regressions): a halt (error, failed assertion) is raised as RuntimeError, so the `finally` parts
    # of the enclosing try expressions run before the report is printed
    for tag, stop in (("R4_error_unwinds_through_finally", {"e": "error", "msg": "boom"}),
                      ("R5_assertion_unwinds_through_finally", {"e": "assert", "c": prim("si.lt", var("x"), lit(SI, 0))})):
        if tag.startswith("R5") and not with_assert:
            continue        # -Qdel-assert (on from -Q2) deletes assertions: R5 is only for checks that know the level
        boom = {"name": "boom", "oname": "boom", "ps": ["x"], "pts": [SI], "rt": SI, "pure": False,
                "body": {"e": "seq", "t": SI, "es": [iff(prim("si.gt", var("x"), lit(SI, 3)), stop, {"e": "unit"}, UNIT), var("x")]}}
        guard = {"name": "guard", "oname": "guard", "ps": ["y"], "pts": [SI], "rt": SI, "pure": False,
                 "body": {"e": "try", "t": SI, "body": {"e": "call", "fi": 1, "args": [var("y")]},
                          "hs": [{"exn": "Ex0", "ps": [], "body": lit(SI, 77)}],
                          "fin": {"e": "seq", "t": UNIT, "es": [pr({"e": "str", "s": "fin"})]}}}
        out.append(prog(tag, [stmt(pr({"e": "call", "fi": 2, "args": [lit(SI, 1)]})),
                              stmt(pr({"e": "call", "fi": 2, "args": [lit(SI, 9)]})),
                              stmt(pr({"e": "str", "s": "not reached"}))], funs=[boom, guard], exns=["Ex0"]))
    # R6: an exception thrown with a value selected from a union, ExP0(u.t2): type inference crashed on it
    thr = {"name": "thu", "oname": "thu", "ps": ["p"], "pts": [SI], "rt": BI, "pure": False,
           "body": {"e": "let", "x": "u", "t": ["un", 0], "v": {"e": "mkun", "t": ["un", 0], "tag": 2, "v": var("p")},
                    "body": {"e": "seq", "t": BI, "es": [
                        iff(prim("si.gt", var("p"), lit(SI, 3)), {"e": "throw", "exn": "ExP0", "args": [{"e": "uget", "u": var("u"), "tag": 2, "ut": 0}]},
                            {"e": "unit"}, UNIT),
                        lit(BI, -22)]}}}
    cat = {"name": "cau", "oname": "cau", "ps": ["y"], "pts": [SI], "rt": BI, "pure": False,
           "body": {"e": "try", "t": BI, "body": {"e": "call", "fi": 1, "args": [var("y")]},
                    "hs": [{"exn": "ExP0", "ps": ["q"], "body": prim("bi.add", prim("si.tobi", var("q")), lit(BI, 100))}], "fin": {"e": "none"}}}
    out.append(prog("R6_exception_value_from_union_selection", [stmt(pr({"e": "call", "fi": 2, "args": [lit(SI, 1)]})),
                                                                 stmt(pr({"e": "call", "fi": 2, "args": [lit(SI, 4)]}))],
                    funs=[thr, cat], uns=[[BI, SI]], exns=["ExP0"], exnp=[{"exn": "ExP0", "t": SI}]))
    # G1 (specification witness): a collect form whose source is a generator advances the generator one step at a time,
    # interleaved with the filter and the element expression -- the output order below is what AldorSem derives
    S = lambda t_: {"e": "str", "s": t_}
    gsrc = {"name": "gsrc", "oname": "gsrc", "ps": ["n"], "pts": [SI], "rt": ["gen", SI], "pure": False,
            "body": {"e": "gen", "et": SI, "body": block(
                pr(S("g-start")),
                {"e": "for", "x": "i1", "lo": lit(SI, 1), "hi": var("n"), "body": block(pr(S("g"), var("i1")), {"e": "yield", "v": var("i1")})},
                pr(S("g-end")))}}
    keep = {"name": "keep", "oname": "keep", "ps": ["k"], "pts": [SI], "rt": BOOL, "pure": False,
            "body": {"e": "seq", "t": BOOL, "es": [pr(S("c"), var("k")), prim("si.ne", var("k"), lit(SI, 2))]}}
    note = {"name": "note", "oname": "note", "ps": ["m"], "pts": [SI], "rt": SI, "pure": False,
            "body": {"e": "seq", "t": SI, "es": [pr(S("b"), var("m")), prim("si.mul", var("m"), lit(SI, 10))]}}
    out.append(prog("G1_collect_over_generator_interleaves", [
        gvar("gl", ["list", SI], {"e": "collect", "t": ["list", SI], "x": "c1", "srck": "gen",
                                   "src": {"e": "call", "fi": 1, "args": [lit(SI, 3)]},
                                   "cond": {"e": "call", "fi": 2, "args": [var("c1")]},
                                   "body": {"e": "call", "fi": 3, "args": [var("c1")]}}),
        stmt(pr({"e": "len", "l": var("gl")}, {"e": "first", "l": var("gl")})),
        gvar("gm", ["list", SI], {"e": "collect", "t": ["list", SI], "x": "c2", "srck": "gen",
                                   "src": {"e": "call", "fi": 1, "args": [lit(SI, 0)]}, "cond": {"e": "none"},
                                   "body": prim("si.add", var("c2"), lit(SI, 1))}),
        stmt(pr({"e": "len", "l": var("gm")}))], funs=[gsrc, keep, note]))
    # P1 (specification witness): iterators in parallel with a filter.  A value the filter rejects ends the round for ALL
    # iterators (every round steps each of them once and the body runs if the filter holds): with `for i in 1..6 for j in
    # 10..30 | odd? j` the body sees (2,11) (4,13) (6,15), not (1,11) (2,13) ...  (This is what gen0ForIter does -- a rejected
    # value branches to the loop's iterate label -- and the reading AldorSem takes of "skips those values"; see DESIGN 11.2.)
    S1 = lambda t_: {"e": "str", "s": t_}
    out.append(prog("P1_parallel_iterators_with_filter", [
        gvar("pl", ["list", SI], {"e": "list", "t": ["list", SI], "args": [lit(SI, 5), lit(SI, 8), lit(SI, 9), lit(SI, 12), lit(SI, 7)]}),
        stmt({"e": "pfor", "its": [{"x": "pi", "k": "range", "lo": lit(SI, 1), "hi": lit(SI, 6)},
                                    {"x": "pj", "k": "range", "lo": lit(SI, 10), "hi": lit(SI, 30)}],
              "filt": prim("si.odd", var("pj")), "body": block(pr(S1("B"), var("pi"), var("pj")))}),
        stmt({"e": "pfor", "its": [{"x": "pa", "k": "list", "src": var("pl")},
                                    {"x": "pb", "k": "range", "lo": lit(SI, 1), "hi": lit(SI, 9)},
                                    {"x": "pc", "k": "list", "src": var("pl")}],
              "filt": prim("si.odd", var("pc")), "body": block(pr(S1("C"), var("pa"), var("pb"), var("pc")))})]))
    # M1 (specification witness): a macro redefined at the head of a definition (a constant's value, a function body) has
    # the new meaning in that definition only -- not after it, and not in a function called from it.  (A block on the right
    # of `:=` is no scope: there the compiler reports "redefined in the same scope" and the new meaning stays; the family
    # has local macros at the head of definitions only.)
    mcall = lambda a_: {"e": "mac", "mi": 1, "t": SI, "args": [a_]}
    usem = {"name": "usem", "oname": "usem", "ps": ["q"], "pts": [SI], "rt": SI, "pure": True, "body": mcall(var("q"))}
    locm = {"name": "locm", "oname": "locm", "ps": ["r"], "pts": [SI], "rt": SI, "pure": True,
            "body": {"e": "lmac", "mi": 1, "t": SI, "mbody": prim("si.sub", var("m1"), lit(SI, 1)),
                     "body": prim("si.mul", mcall(var("r")), {"e": "call", "fi": 1, "args": [var("r")]})}}
    out.append(prog("M1_local_macro_scope", [
        {"d": "var", "x": "k1", "t": SI, "const": True,
         "init": {"e": "lmac", "mi": 1, "t": SI, "mbody": prim("si.mul", var("m1"), lit(SI, 7)),
                  "body": prim("si.add", mcall(lit(SI, 3)), {"e": "call", "fi": 1, "args": [lit(SI, 1)]})}},
        stmt(pr(var("k1"))),
        stmt(pr(mcall(lit(SI, 3)), {"e": "call", "fi": 1, "args": [lit(SI, 2)]})),
        stmt(pr({"e": "call", "fi": 2, "args": [lit(SI, 5)]}, mcall(lit(SI, 5))))],
        funs=[usem, locm], macs=[{"name": "mac1", "ps": ["m1"], "pts": [SI], "rt": SI, "body": prim("si.add", var("m1"), lit(SI, 100))}],
        aldor_args=["-Mno-warnings"]))
    f4 = {"name": "f4", "ps": ["p5", "p7"], "pts": [SI, SI], "rt": SI, "pure": True,
          "body": {"e": "let", "x": "v8", "t": SI, "v": var("p5"), "body": {"e": "seq", "t": SI, "es": [
              {"e": "asg", "x": "v8", "v": iff(var("g3"), lit(SI, 13), lit(SI, 12), SI)},
              {"e": "seq", "t": SI, "es": [
                  {"e": "exit", "c": var("g3"), "v": lit(SI, 15)},
                  {"e": "exit", "c": {"e": "seq", "t": BOOL, "es": [{"e": "exit", "c": var("g3"), "v": {"e": "bool", "b": False}},
                                                                      {"e": "bool", "b": False}]}, "v": var("p5")},
                  var("p7")]}]}}}
    out.append(prog("R3_exit_conditions_sefoEqualMods", [
        gvar("g3", BOOL, {"e": "bool", "b": True}),
        stmt(pr({"e": "call", "fi": 1, "args": [lit(SI, 1), lit(SI, 2)]}))], funs=[f4],
        order=[["t", 0], ["f", 0], ["t", 1]]))
    return out


def dcall(dom, op, args, t):
    return {"e": "dcall", "dom": dom, "op": op, "args": list(args), "t": t}


def domain_probe():
    """Categories with defaults, base domains, parametrised domains (the d.as probe of the design notes)."""
    x = var("x")
    cats = [
        {"name": "CatA", "ops": [{"name": "val", "pts": [], "rt": SI}, {"name": "twice", "pts": [SI], "rt": SI}],
         "defaults": [{"name": "twice", "ps": ["x"], "pts": [SI], "rt": SI,
                       "body": prim("si.add", dcall({"d": "self"}, "val", [], SI), x)}]},
        {"name": "CatB", "ops": [{"name": "get", "pts": [SI], "rt": SI}, {"name": "more", "pts": [SI], "rt": SI}],
         "defaults": [{"name": "more", "ps": ["x"], "pts": [SI], "rt": SI,
                       "body": prim("si.mul", dcall({"d": "self"}, "get", [x], SI), lit(SI, 2))}]},
    ]
    doms = [
        {"name": "DA0", "cat": 1, "pcat": 0, "ops": [{"name": "val", "ps": [], "pts": [], "rt": SI, "body": lit(SI, 3)}]},
        {"name": "DA1", "cat": 1, "pcat": 0, "ops": [
            {"name": "val", "ps": [], "pts": [], "rt": SI, "body": lit(SI, 5)},
            {"name": "twice", "ps": ["x"], "pts": [SI], "rt": SI,
             "body": prim("si.add", lit(SI, 100), dcall({"d": "self"}, "val", [], SI))}]},
        {"name": "PD", "cat": 2, "pcat": 1, "ops": [
            {"name": "get", "ps": ["x"], "pts": [SI], "rt": SI,
             "body": prim("si.add", dcall({"d": "param"}, "twice", [x], SI), lit(SI, 1))}]},
        {"name": "PE", "cat": 2, "pcat": 1, "ops": [
            {"name": "get", "ps": ["x"], "pts": [SI], "rt": SI, "body": prim("si.sub", dcall({"d": "param"}, "val", [], SI), x)},
            {"name": "more", "ps": ["x"], "pts": [SI], "rt": SI,
             "body": prim("si.add", dcall({"d": "self"}, "get", [x], SI),
                          dcall({"d": "self"}, "get", [prim("si.add", x, lit(SI, 1))], SI))}]},
    ]
    b0, b1 = {"d": "base", "i": 1}, {"d": "base", "i": 2}
    sp = {"e": "str", "s": " "}
    top = [
        stmt(pr(dcall(b0, "twice", [lit(SI, 1)], SI), sp, dcall(b1, "twice", [lit(SI, 1)], SI))),
        stmt(pr(dcall({"d": "app", "i": 3, "arg": b0}, "get", [lit(SI, 10)], SI), sp,
                dcall({"d": "app", "i": 3, "arg": b1}, "more", [lit(SI, 10)], SI))),
        stmt(pr(dcall({"d": "app", "i": 4, "arg": b0}, "get", [lit(SI, 10)], SI), sp,
                dcall({"d": "app", "i": 4, "arg": b1}, "more", [lit(SI, 10)], SI))),
    ]
    return prog("D1_domains_defaults", top, cats=cats, doms=doms)
