"""C07: macro programs (spec/Macros.tla).  TLC enumerates the programs of the macro calculus and certifies the
invalid ones; this file starts those runs and renders each exported program into source text -- by itself
(syntactic phases, -Fap), inside a typed axllib context (-Fao), and appended to / inserted into valid texts
(generated programs, corpus sources).  Nothing here decides a verdict.
"""
import json
import os
import sys

sys.path.insert(0, os.path.join(os.path.dirname(os.path.dirname(os.path.abspath(__file__))), "lib"))
import vlib                     # noqa: E402
from c07_run import Input       # noqa: E402
import c07_inputs as ci         # noqa: E402

ATOM = {"m1": "mqa", "m2": "mqb", "m3": "mqc", "m4": "mqd", "x": "px", "y": "py", "k": "1", "h": "hq"}
TYPED_PRELUDE = ('#include "axllib"\nimport from SingleInteger;\n'
                 'hq(a: SingleInteger): SingleInteger == a + 1;\n')


def term(t):
    s = ATOM[t["hd"]]
    for g in t["ar"]:
        s += "(" + ", ".join(term(a) for a in g) + ")"
    return s


def definition(d, inblock=False):
    nm, ps, body = ATOM[d["nm"]], [ATOM[p] for p in d["ps"]], term(d["body"])
    if d["sp"] == "lam":       # the macro function written out (the grammar wants it in parentheses)
        return "%s %s (macro (%s) +-> %s)" % (nm, "==" if inblock else "==>", ", ".join(ps), body)
    if d["sp"] == "macro" or inblock:
        return "%s%s%s == %s" % ("" if inblock else "macro ", nm, ("(%s)" % ", ".join(ps)) if ps else "", body)
    return "%s%s ==> %s" % (nm, ("(%s)" % ", ".join(ps)) if ps else "", body)


def front(ds, blk):
    """the definitions that stand in front of the use, as statements"""
    if blk and ds:
        return ["macro { %s }" % "; ".join(definition(d, True) for d in ds)]
    return [definition(d) for d in ds]


def render(rec, typed, uid="0"):
    """The statements of one macro program.  typed: the use stands where a SingleInteger is required (names uq*, Dq*,
    fq* carry uid so that several programs could share a file)."""
    use = term(rec["use"])
    scope, vis, blk = rec["scope"], rec["vis"], rec.get("blk")
    if scope == "where" or vis < 0:
        defs, vis = front(rec["defs"], blk), (len(rec["defs"]) if vis >= 0 else vis)
        if vis >= 0:
            vis = len(defs)
    else:
        defs = front(rec["defs"][:vis], blk)
        vis = len(defs)
        defs += [definition(d) for d in rec["defs"][rec["vis"]:]]
    ty = ": SingleInteger" if typed else ""
    ret = "SingleInteger" if typed else "T"
    u = "uq" + uid

    def seq(items):
        return "; ".join(items)
    inside = vis >= 0
    if scope == "where":        # all definitions of the where clause are visible in its expression
        if inside:
            return "%s%s := (%s where { %s });\n" % (u, ty, use, seq(defs))
        return "%s%s := (1 where { %s });\nvq%s%s := %s;\n" % (u, ty, seq(defs), uid, ty, use)
    if scope == "top":
        items = defs[:vis] + ["%s%s := %s" % (u, ty, use)] + defs[vis:]
        return "".join(i + ";\n" for i in items)
    if scope == "add":
        if inside:
            items = defs[:vis] + ["%s: %s == %s" % (u, ret, use)] + defs[vis:]
            return "Dq%s: with { %s: %s } == add { %s };\n" % (uid, u, ret, seq(items))
        return "Dq%s: with { %s: %s } == add { %s };\nvq%s%s := %s;\n" % (
            uid, u, ret, seq(defs + ["%s: %s == 1" % (u, ret)]), uid, ty, use)
    if scope == "fn":
        if inside:
            items = defs[:vis] + ["%s%s := %s" % (u, ty, use)] + defs[vis:] + [u]
            return "fq%s(): %s == { %s };\n" % (uid, ret, seq(items))
        return "fq%s(): %s == { %s };\nvq%s%s := %s;\n" % (uid, ret, seq(defs + ["1"]), uid, ty, use)
    raise vlib.MachineryError("Macros: unknown scope %r" % scope)


def programs(chk, d, parts, seed, timeout=1500, parallel=8):
    """parts: [(cfg substitutions, shards)]; returns the exported records."""
    jobs = []
    for pi, (subst, shards) in enumerate(parts):
        for s in range(shards):
            name = "Macros_p%d_s%d" % (pi, s)
            c = dict(subst)
            c.update({"NShards": shards, "ShardNo": s, "Seed": seed})
            ci._cfg(d, "MacrosQuick", name, c)
            jobs.append(("Macros", name, None, timeout))
    res = ci._tlc_many(chk, d, jobs, parallel, "Macros (macro programs, %d shards)" % len(jobs), light=True)
    recs = ci._printed(res, "MAC")
    if not recs:
        raise vlib.MachineryError("Macros exported nothing")
    return recs


def family(chk, d, tier, seed, hosts, typed_every=None, host_every=9):
    """Inputs of class "macro".  Every program is compiled by itself with -Fap; every typed_every-th also inside a typed
    context with -Fao (then the typed-only certificate "no-meaning" counts as well); every host_every-th is put
    into a valid host text (hosts: [(id, bytes, args)]; appended at its end, or inserted after its first line)."""
    lv = {"L1": 0, "L2": 0, "L3": 0, "L4": 0}
    typed_every = typed_every or 5
    if tier == "quick":
        mix = '{"mix"}'
        parts = [(dict(lv, L1=3, DStride=1, Stride=1, VisModes='{"all", "mix"}'), 1),
                 (dict(lv, L2=2, DStride=5, Stride=8, VisModes=mix), 2),
                 (dict(lv, L3=1, DStride=14, Stride=16, VisModes=mix), 2)]
    else:
        mix = '{"mix"}'
        parts = [(dict(lv, L1=3, DStride=1, Stride=1, Rots="{0, 1, 2, 3}"), 1),
                 (dict(lv, L2=2, DStride=1, Stride=3, VisModes=mix), 8),
                 (dict(lv, L2=3, DStride=61, Stride=5, VisModes=mix), 8),
                 (dict(lv, L3=1, DStride=1, Stride=12, VisModes=mix), 8),
                 (dict(lv, L4=1, DStride=9, Stride=12, VisModes=mix), 8)]
    recs = programs(chk, d, parts, seed if tier != "quick" else 0, parallel=4 if tier == "quick" else 12)
    recs.sort(key=lambda r: json.dumps(r, sort_keys=True))
    ins = []
    seen = set()
    for r in list(recs):        # two visibility modes may give the same program
        k = json.dumps([r["defs"], r["use"], r["scope"], r["vis"], r["blk"]], sort_keys=True)
        if k in seen:
            recs.remove(r)
        seen.add(k)
    for i, r in enumerate(recs):
        name = [r["h"], len(r["defs"]), json.dumps(r["defs"], sort_keys=True), json.dumps(r["use"], sort_keys=True),
                r["scope"], r["vis"]]
        label = {"defs": len(r["defs"]), "scope": r["scope"], "vis": r["vis"], "graph_cycle": r["g"], "undecided": r["u"]}
        ins.append(Input("macro", name + ["ap"], render(r, False).encode(), r["c"], feat=r["f"], kinds=("ap",), label=label))
        if i % typed_every == seed % typed_every:
            ins.append(Input("macro", name + ["ao"], (TYPED_PRELUDE + render(r, True)).encode(), r["c"] + r["t"],
                             feat=r["f"], kinds=("ao",), label=label))
        if hosts and i % host_every == seed % host_every and r["c"]:
            hid, hdata, hargs = hosts[(i // host_every) % len(hosts)]
            piled = b"\n#pile" in hdata
            # a host that is not a #pile text takes the statements at its end; a piled host takes them as new
            # top-level lines (column 0) at its end
            body = render(r, False).encode()
            if not hdata.endswith(b"\n"):
                hdata += b"\n"
            ins.append(Input("macro", name + ["host", hid], hdata + body, r["c"], feat=r["f"], args=hargs,
                             kinds=("ao",), label=dict(label, host=hid, piled=piled)))
    return ins
