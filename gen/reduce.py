"""Greedy reducer for abstract programs: used to shrink a failing program before it is written to a replay file.
`pred(prog) -> bool` must be True for the original; the result is a smaller program for which it is still True.
Only structure-preserving simplifications are tried (drop a statement / top-level form, take one branch of an `if`,
take the last element of a value sequence, drop an exit); the predicate decides whether each one is kept, and a
simplification that makes the program ill-formed simply fails the predicate (which must include 'TLC still evaluates it')."""
import copy


def _paths(x, path=()):
    if isinstance(x, dict):
        yield path, x
        for k, v in x.items():
            for r in _paths(v, path + (k,)):
                yield r
    elif isinstance(x, list):
        for i, v in enumerate(x):
            for r in _paths(v, path + (i,)):
                yield r


def _get(x, path):
    for p in path:
        x = x[p]
    return x


def _set(x, path, v):
    for p in path[:-1]:
        x = x[p]
    x[path[-1]] = v


def candidates(prog):
    # drop top-level forms (from the end first)
    for i in reversed(range(len(prog["top"]))):
        if prog["top"][i]["d"] == "var":
            continue
        def f(p, i=i):
            del p["top"][i]
            if "order" in p:
                new = []
                for k, j in p["order"]:
                    if k == "t":
                        if j == i:
                            continue
                        if j > i:
                            j -= 1
                    new.append([k, j])
                p["order"] = new
        yield f
    for path, node in list(_paths(prog)):
        e = node.get("e") if isinstance(node, dict) else None
        if e == "seq":
            valued = node.get("t", "unit") != "unit"
            for i in reversed(range(len(node["es"]))):
                if valued and i == len(node["es"]) - 1:
                    continue
                if len(node["es"]) > 1:
                    def f(p, path=path, i=i):
                        del _get(p, path)["es"][i]
                    yield f
            if node.get("t", "unit") != "unit":
                def f(p, path=path):
                    _set(p, path, _get(p, path)["es"][-1])
                yield f
        if e == "if":
            for br in ("a", "b"):
                def f(p, path=path, br=br):
                    _set(p, path, _get(p, path)[br])
                yield f
        if e == "prim" and len(node["args"]) == 2:
            for j in (0, 1):
                def f(p, path=path, j=j):
                    _set(p, path, _get(p, path)["args"][j])
                yield f
        if e == "let":
            def f(p, path=path):
                _set(p, path, _get(p, path)["body"])
            yield f
        if e in ("while", "for", "forin"):
            def f(p, path=path):
                _set(p, path, {"e": "unit"})
            yield f
        if e == "print" and len(node["args"]) > 1:
            for i in reversed(range(len(node["args"]))):
                def f(p, path=path, i=i):
                    del _get(p, path)["args"][i]
                yield f


def reduce(prog, pred, max_rounds=6):
    cur = copy.deepcopy(prog)
    for _ in range(max_rounds):
        changed = False
        n = len(list(candidates(cur)))
        i = 0
        while i < n:
            cs = list(candidates(cur))
            if i >= len(cs):
                break
            trial = copy.deepcopy(cur)
            try:
                list(candidates(trial))[i](trial)
                ok = pred(trial)
            except Exception:
                ok = False
            if ok:
                cur = trial
                changed = True
                n = len(list(candidates(cur)))
            else:
                i += 1
        if not changed:
            break
    return cur
