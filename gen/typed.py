"""Typed export of abstract programs for spec/AldorTypes.tla: every type field is normalised to a nested list
(TLC cannot compare a string with a tuple), literals get a `ty` field.  Pure re-encoding."""
import copy


def nt(t):
    if isinstance(t, str):
        return [t]
    k = t[0]
    if k in ("list", "arr", "gen"):
        return [k, nt(t[1])]
    if k in ("rec", "un", "adt"):
        return [k, t[1]]
    if k == "fn":
        return ["fn", [nt(a) for a in t[1]], nt(t[2])]
    if k == "tup":
        return ["tup", [nt(a) for a in t[1]]]
    raise ValueError(t)


def typed(prog):
    p = copy.deepcopy(prog)

    def walk(x):
        if isinstance(x, dict):
            e = x.get("e")
            if e == "prim":
                x["fam"] = x["op"].split(".")[1]
            if e == "lit":
                x["ty"] = [x["t"]]
            else:
                if e in ("if", "seq") and "t" not in x:
                    x["t"] = "unit"
                for k in ("t", "rt", "et"):
                    if k in x and e is not None and not (k == "rt" and e in ("rget", "rset")):
                        x[k] = nt(x[k])
                if "pts" in x:
                    x["pts"] = [nt(a) for a in x["pts"]]
            if e == "where":
                for dd in x["defs"]:
                    dd["t"] = nt(dd["t"])
                    walk(dd["v"])
            for k, v in x.items():
                if k not in ("t", "rt", "et", "pts", "ty") and not (e == "where" and k == "defs"):
                    walk(v)
        elif isinstance(x, list):
            for v in x:
                walk(v)
    for f in p["funs"]:
        f.setdefault("oname", f["name"])
        f["pts"] = [nt(a) for a in f["pts"]]
        f["rt"] = nt(f["rt"])
        walk(f["body"])
        walk(f.get("defs", []))
    for d in p["top"]:
        if d["d"] == "var":
            d["t"] = nt(d["t"])
            walk(d["init"])
        else:
            walk(d["x"])
    p["recs"] = [[nt(t) for t in r] for r in p.get("recs", [])]
    p["uns"] = [[nt(t) for t in r] for r in p.get("uns", [])]
    p.setdefault("cats", [])
    p.setdefault("doms", [])
    for c in p["cats"]:
        for o in c["ops"]:
            o["pts"] = [nt(a) for a in o["pts"]]
            o["rt"] = nt(o["rt"])
        for o in c["defaults"]:
            o["pts"] = [nt(a) for a in o["pts"]]
            o["rt"] = nt(o["rt"])
            walk(o["body"])
    for dm in p["doms"]:
        for o in dm["ops"]:
            o["pts"] = [nt(a) for a in o["pts"]]
            o["rt"] = nt(o["rt"])
            walk(o["body"])
    p.setdefault("adts", [])
    for a in p["adts"]:
        a["rep"] = nt(a["rep"])
        for o in a["ops"]:
            o["pts"] = [nt(x) for x in o["pts"]]
            o["rt"] = nt(o["rt"])
            walk(o["body"])
    p.setdefault("exns", [])
    p["exnp"] = [{"exn": d["exn"], "t": nt(d["t"])} for d in p.get("exnp", [])]
    p.setdefault("macs", [])
    for m in p["macs"]:
        walk(m["body"])
        m.pop("pts", None)
        m.pop("rt", None)
    if "order" not in p:
        p["order"] = [["f", i] for i in range(len(p["funs"]))] + [["t", i] for i in range(len(p["top"]))]
    for k in ("feat", "seed", "render_opts"):
        p.pop(k, None)
    return p
