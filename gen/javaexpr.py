"""C12 binding of the builtin-expression family (spec/JavaExpr.tla, JavaExprGen.tla, TraceJavaExpr.tla).

TLC exports expression trees over the machine-level builtins (CASE lines of JavaExprGen); this module renders a batch of
trees as one Aldor program in the libaldor dialect -- every builtin is imported from `Builtin` under its FOAM name and
applied directly, the operand leaves are read from pools filled at run time (so neither the compiler's constant folder
nor a temporary stands between the expression and the Java printer at any -Q level) -- runs it on a route, and turns the
printed lines back into observations for TraceJavaExpr.tla.  Nothing here decides anything: membership of the family and
the expected values are TLC's.

Operand pools:  sv(k): SInt from a PrimitiveArray MachineInteger;  zv(k): BInt from a PrimitiveArray Integer;
bv(k): Bool from a PrimitiveArray Boolean;  Char, HInt, XByte and Word leaves are made from sv(k) by CharNum,
SIntToHInt, SIntToByte and `pretend Word`.
Results are printed by the library: integers through MachineInteger / Integer output, booleans as T / F, characters
through CharOrd, half integers and bytes through HIntToSInt / ByteToSInt, words through `pretend SInt`.
"""
import json
import os
import re
import sys

sys.path.insert(0, os.path.join(os.path.dirname(os.path.dirname(os.path.abspath(__file__))), "lib"))
import vlib  # noqa: E402

B = 2048
INT_TYPES = ("Byte", "HInt", "SInt", "Word", "BInt")
ALDOR_TYPE = {"Bool": "Bool", "Char": "Char", "Byte": "XByte", "HInt": "HInt", "SInt": "SInt", "Word": "Word", "BInt": "BInt"}
PRINTER = {"Bool": "qB", "Char": "qC", "Byte": "qY", "HInt": "qH", "SInt": "qS", "Word": "qW", "BInt": "qZ"}
CHUNK = 40            # cases per function of the generated program (a Java method must stay below 64 KB)


def z_of(j):
    n = 0
    for d in reversed(j[1:]):
        n = n * B + d
    return -n if j[0] else n


def zj(n):
    s = 1 if n < 0 else 0
    n = abs(n)
    d = []
    while n:
        d.append(n % B)
        n //= B
    return [s] + d


def parse_cases(printed):
    """CASE / NODIST lines of JavaExprGen -> (cases, nodist); cases sorted into a canonical order.  LATENT lines
    (pairs the printer model would get wrong but which never reach it) are appended to nodist with latent = True."""
    cases, nodist = [], []
    for line in printed:
        if not isinstance(line, str):
            continue
        if line.startswith("CASE "):
            cases.append(json.loads(line[5:]))
        elif line.startswith("NODIST "):
            nodist.append(json.loads(line[7:]))
        elif line.startswith("LATENT "):
            nodist.append(dict(json.loads(line[7:]), latent=True, req=True, n=-1))
    cases.sort(key=lambda c: (c["kind"], c["op"], c.get("slot", 0), c.get("child", ""), json.dumps(c["tree"], sort_keys=True)))
    for i, c in enumerate(cases):
        c["id"] = i + 1
    return cases, nodist


def tree_ops(t, out=None):
    out = [] if out is None else out
    if t["k"] == "op":
        out.append(t["op"])
        for a in t["args"]:
            tree_ops(a, out)
    return out


def tree_text(t):
    """Readable form for reports."""
    if t["k"] == "leaf":
        v = t["v"]
        return str(z_of(v)) if t["t"] in INT_TYPES else ("true" if v is True else "false" if v is False else "chr(%d)" % v)
    return "%s(%s)" % (t["op"], ", ".join(tree_text(a) for a in t["args"]))


# ---------------------------------------------------------------- rendering

class Pools:
    def __init__(self):
        self.s, self.z = {}, {}

    def sint(self, n):
        return self.s.setdefault(n, len(self.s))

    def bint(self, n):
        return self.z.setdefault(n, len(self.z))


def leaf_text(t, pools, uses):
    ty, v = t["t"], t["v"]
    if ty == "Bool":
        return "bv(%d)" % (1 if v else 0)
    if ty == "BInt":
        return "zv(%d)" % pools.bint(z_of(v))
    if ty == "Char":
        uses.add("CharNum")
        return "CharNum(sv(%d))" % pools.sint(v)
    k = pools.sint(z_of(v))
    if ty == "SInt":
        return "sv(%d)" % k
    if ty == "HInt":
        uses.add("SIntToHInt")
        return "SIntToHInt(sv(%d))" % k
    if ty == "Byte":
        uses.add("SIntToByte")
        return "SIntToByte(sv(%d))" % k
    if ty == "Word":
        return "(sv(%d) pretend Word)" % k
    raise ValueError(ty)


def expr_text(t, pools, uses):
    if t["k"] == "leaf":
        return leaf_text(t, pools, uses)
    uses.add(t["op"])
    return "%s(%s)" % (t["op"], ", ".join(expr_text(a, pools, uses) for a in t["args"]))


def sig_text(op, s):
    def ty(ts):
        ts = [ALDOR_TYPE[t] for t in ts]
        return "(" + ", ".join(ts) + ")" if len(ts) != 1 else ts[0]
    return "  %s: %s -> %s;" % (op, ty(s["args"]) if s["args"] else "()", ty(s["res"]))


def int_lit(n, dom):
    """An Aldor expression of type MachineInteger / Integer for n; -2^31 cannot be written as a literal."""
    if dom == "Z" and n == -(1 << 31):
        return "((-2147483647@Z) - 1@Z)"
    return "(%d@%s)" % (n, dom) if n >= 0 else "(-%d@%s)" % (-n, dom)


HEADER = '''#include "aldor"
#include "aldorio"
import from Machine;
import {
%s
} from Builtin;
Z ==> MachineInteger;
import from Z, Integer, Boolean, String;
import from PrimitiveArray Z, PrimitiveArray Integer, PrimitiveArray Boolean;
sp: PrimitiveArray Z := new(%d@Z);
zp: PrimitiveArray Integer := new(%d@Z);
bp: PrimitiveArray Boolean := new(2@Z);
sv(k: Z): SInt == (sp.k) pretend SInt;
zv(k: Z): BInt == (zp.k) pretend BInt;
bv(k: Z): Bool == (bp.k) pretend Bool;
qS(x: SInt): () == stdout << (x pretend Z) << " ";
qZ(x: BInt): () == stdout << (x pretend Integer) << " ";
qB(x: Bool): () == stdout << (if (x pretend Boolean) then "T " else "F ");
qW(x: Word): () == qS(x pretend SInt);
%s
nl(): () == stdout << newline;
'''
OPT_PRINTERS = {
    "qC": ("qC(x: Char): () == qS(CharOrd x);", ("CharOrd",)),
    "qY": ("qY(x: XByte): () == qS(ByteToSInt x);", ("ByteToSInt",)),
    "qH": ("qH(x: HInt): () == qS(HIntToSInt x);", ("HIntToSInt",)),
}


def render(cases, sig, chunk=CHUNK):
    """One Aldor program for a batch of cases; case k prints exactly one line.  chunk: cases per function (at -Q5 and
    above the printing helpers are inlined into every case, so the functions must be much shorter)."""
    pools, uses, printers, wrappers, lines = Pools(), set(), set(), {}, []
    for c in cases:
        t = c["tree"]
        rts = sig[t["op"]]["res"]
        for ty in rts:
            if PRINTER[ty] in OPT_PRINTERS:
                printers.add(PRINTER[ty])
        if len(rts) == 1:
            lines.append("%s(%s); nl();" % (PRINTER[rts[0]], expr_text(t, pools, uses)))
        else:
            # several results: a wrapper function per operation receives the tuple
            op = t["op"]
            uses.add(op)
            ats = sig[op]["args"]
            ps = ["p%d" % i for i in range(len(ats))]
            vs = ["r%d" % i for i in range(len(rts))]
            wrappers[op] = "m%s(%s): () == { (%s) := %s(%s); %s }" % (
                op, ", ".join("%s: %s" % (p, ALDOR_TYPE[ty]) for p, ty in zip(ps, ats)), ", ".join(vs), op, ", ".join(ps),
                " ".join("%s %s;" % (PRINTER[ty], v) for ty, v in zip(rts, vs)))
            lines.append("m%s(%s); nl();" % (op, ", ".join(expr_text(a, pools, uses) for a in t["args"])))
    extra = []
    for p in sorted(printers):
        extra.append(OPT_PRINTERS[p][0])
        uses.update(OPT_PRINTERS[p][1])
    extra += [wrappers[op] for op in sorted(wrappers)]
    out = [HEADER % ("\n".join(sig_text(op, sig[op]) for op in sorted(uses)), max(1, len(pools.s)), max(1, len(pools.z)),
                     "\n".join(extra))]
    nchunks = (len(lines) + chunk - 1) // chunk
    for n in range(nchunks):
        out.append("c%d(): () == {\n  %s\n}" % (n, "\n  ".join(lines[n * chunk:(n + 1) * chunk])))
    # the pools are filled in functions as well (a few hundred assignments at file level would make one huge method)
    fills = ["bp.(0@Z) := false; bp.(1@Z) := true;"]
    fills += ["sp.(%d@Z) := %s;" % (k, int_lit(n, "Z")) for n, k in sorted(pools.s.items(), key=lambda x: x[1])]
    fills += ["zp.(%d@Z) := %s;" % (k, int_lit(n, "Integer")) for n, k in sorted(pools.z.items(), key=lambda x: x[1])]
    nf = (len(fills) + CHUNK - 1) // CHUNK
    for n in range(nf):
        out.append("f%d(): () == {\n  %s\n}" % (n, "\n  ".join(fills[n * CHUNK:(n + 1) * CHUNK])))
    out += ["f%d();" % n for n in range(nf)]
    out += ["c%d();" % n for n in range(nchunks)]
    return "\n".join(out) + "\n"


# ---------------------------------------------------------------- reading the output back

_NOISE = re.compile(r"(?m)^#\d+ \((?:Warning|Remark)\)[^\n]*\n")


def parse_value(tok, ty):
    if ty == "Bool":
        return {"T": True, "F": False}.get(tok)
    if not re.fullmatch(r"-?\d+", tok):
        return None
    n = int(tok)
    if ty == "Char":
        return n if 0 <= n < 65536 else None
    return zj(n)


def split_output(text, cases, sig):
    """-> list (one entry per case, in order) of lists of encoded values, or None from the first case whose line is
    missing or malformed on (the run stopped there)."""
    text = _NOISE.sub("", text)
    lines = text.split("\n")
    res = []
    for i, c in enumerate(cases):
        rts = sig[c["tree"]["op"]]["res"]
        vals = None
        if i < len(lines) - 1:              # the text after the last newline is not a complete line
            toks = lines[i].split()
            if len(toks) == len(rts):
                vals = [parse_value(tok, ty) for tok, ty in zip(toks, rts)]
                if any(v is None for v in vals):
                    vals = None
        res.append(vals)
    return res


def show_values(vals, rts):
    if vals is None:
        return "(no result)"
    return " ".join(("T" if v else "F") if ty == "Bool" else str(v) if ty == "Char" else str(z_of(v)) for v, ty in zip(vals, rts))


# ---------------------------------------------------------------- labels for finding keys (never used to decide)

def _icls(n):
    return "neg" if n < 0 else "zero" if n == 0 else "pos"


def argclass(t):
    """Coarse label of the operand leaves of a case."""
    op = t.get("op")
    lv = [z_of(a["v"]) if a["k"] == "leaf" and a["t"] in INT_TYPES else None for a in t["args"]]
    if all(v is not None for v in lv):
        if op == "SIntPlusMod":
            return "sum>=2^31" if lv[0] + lv[1] >= (1 << 31) else "sum<2^31"
        if op == "SIntTimesMod":
            return "product>=2^31" if lv[0] * lv[1] >= (1 << 31) else "product<2^31"
        if op == "SIntMinusMod":
            return "a<b" if lv[0] < lv[1] else "a>=b"
        if op in ("ByteToSInt", "SIntToByte"):
            return "128..255" if lv[0] >= 128 else "0..127"
    out = []
    for a in t["args"]:
        if a["k"] != "leaf":
            out.append("expr")
        elif a["t"] in INT_TYPES:
            out.append(_icls(z_of(a["v"])))
        elif a["t"] == "Bool":
            out.append("T" if a["v"] else "F")
        else:
            out.append("char")
    return ",".join(out) if out else "-"
