"""Type-directed generator of abstract Aldor programs (the family of DESIGN.md section 3.1).

The generator only *proposes* programs.  Their meaning (output, status) is computed by TLC from
spec/AldorSem.tla, and their well-typedness is re-checked by TLC (spec/AldorTypes.tla); a generator
defect therefore shows up as a machinery error, never as a verdict about the compiler.

Abstract syntax (JSON, one program per line in the PROGS file):
  program  {id, funs:[{name, ps:[names], pts:[types], rt:type, body}], top:[form], recs:[[types]], uns:[[types]], feat:[...]}
  form     {d:"var", x, t, init} | {d:"stmt", x}
  type     "si" | "bi" | "bool" | "str" | "unit" | ["list",t] | ["arr",t] | ["rec",i] | ["un",i] | ["fn",[ts],t] | ["gen",t]
  expr     see spec/AldorSem.tla (field e is the tag)
"""
import random

SI, BI, BOOL, STR, UNIT = "si", "bi", "bool", "str", "unit"

SI_BOUNDARY = [0, 1, -1, 2, 3, 7, 10, 100, 255, 256, 2**31 - 1, 2**31, -2**31, 2**32, 2**62, 2**63 - 1, -(2**63 - 1),
               2**29 - 1, 2**29, 2**30 + 1, 12345678901234]
BI_BOUNDARY = [0, 1, -1, 2, 10, 2**29 - 1, 2**29, 2**30, 2**31 - 1, 2**31, 2**32, 2**61, 2**62, 2**62 - 1, 2**63 - 1, 2**63,
               2**64, 2**64 + 1, 10**20, -10**20, 3**50, -(2**63), -(2**62), 2**100, 10**40 + 7]

ALL_FEATURES = ["bi", "str", "fun", "while", "for", "exit", "list", "arr", "rec", "un", "clos", "gen", "ovl", "brk", "rec_fun",
                "try", "halt", "mac", "dom"]


def lit(t, n):
    return {"e": "lit", "t": t, "neg": n < 0, "ds": [int(c) for c in str(abs(n))]}


def prim(op, *args):
    return {"e": "prim", "op": op, "args": list(args)}


def var(x):
    return {"e": "var", "x": x}


def tkey(t):
    return t if isinstance(t, str) else tuple(tkey(x) if isinstance(x, list) else x for x in t)


class Scope(object):
    def __init__(self, parent=None, boundary=None):
        self.vars = {}       # name -> (type, assignable)
        self.parent = parent
        self.boundary = boundary   # "fun" / "lam" / "gen" / None

    def lookup_all(self):
        out = {}
        s = self
        while s:
            for k, v in s.vars.items():
                out.setdefault(k, v)
            s = s.parent
        return out


class ProgGen(object):
    def __init__(self, seed, features=None, size=None, emph=()):
        self.emph = set(emph)       # constructs to make frequent (a sub-family that exercises them densely)
        self.r = random.Random(seed)
        self.seed = seed
        feats = list(features) if features is not None else [f for f in ALL_FEATURES if self.r.random() < 0.6]
        self.feat = set(feats)
        self.size = size or self.r.choice([6, 10, 16])
        self.n = 0
        self.funs = []
        self.recs = []
        self.uns = []
        self.adts = []       # domains with a private representation (opt-in feature "adt")
        self.top = []
        self.items = []       # ("f", fun) | ("t", form) in creation order
        self.gscope = Scope()
        self.arrlen = {}      # array variable name -> literal length
        self.ret_t = None
        self.in_loop = 0
        self.in_gen = None
        self.no_ret = 0
        self.in_exit_cond = 0
        self.in_try = 0
        self.exns = ["Ex0", "Ex1", "Ex2"] if "try" in self.feat else []
        self.exnp = {}       # exceptions that carry a value (opt-in feature "exnp"): name -> type of the value
        if "exnp" in self.feat:
            self.enable_payload()
        self.macs = []
        self.in_macro = 0
        self.cats = []
        self.doms = []
        self.dom_ctx = None        # while generating the body of a domain operation: (cat index, max op index, pcat index)
        self.top_loop = 0         # inside a loop body at file level (known finding C01 qualified-literal-in-condition)
        self.top_if = 0           # inside an if-branch at file level (see known finding C01 while-in-if)
        self.in_fun = 0
        self.pure_mode = False    # generating the body of a pure function
        self.own = None           # names declared inside the pure function being generated

    # -- names ------------------------------------------------------------
    def fresh(self, p):
        self.n += 1
        return "%s%d" % (p, self.n)

    # -- types ------------------------------------------------------------
    def scalar_types(self):
        ts = [SI, SI, BOOL]
        if "bi" in self.feat:
            ts += [BI, BI]
        if "str" in self.feat:
            ts.append(STR)
        return ts

    def data_type(self, depth=1):
        """A type for a variable / parameter / field."""
        c = []
        if "list" in self.feat:
            c.append("list")
        if "arr" in self.feat:
            c.append("arr")
        if "rec" in self.feat:
            c.append("rec")
        if "un" in self.feat:
            c.append("un")
        if "adt" in self.feat and self.adts and depth > 0 and self.r.random() < 0.3:
            return ["adt", self.r.randrange(len(self.adts))]
        if depth > 0 and c and self.r.random() < 0.35:
            k = self.r.choice(c)
            if k == "list":
                return ["list", self.r.choice([SI, BI] if "bi" in self.feat else [SI])]
            if k == "arr":
                return ["arr", self.r.choice([SI, BI] if "bi" in self.feat else [SI])]
            if k == "rec":
                return ["rec", self.rec_type()]
            if k == "un":
                return ["un", self.un_type()]
        return self.r.choice(self.scalar_types())

    def rec_type(self):
        if self.recs and self.r.random() < 0.7:
            return self.r.randrange(len(self.recs))
        n = self.r.randint(1, 3)
        self.recs.append([self.r.choice(self.scalar_types()) for _ in range(n)])
        return len(self.recs) - 1

    def un_type(self):
        if self.uns and self.r.random() < 0.7:
            return self.r.randrange(len(self.uns))
        # branches are named (t1, t2, ...), so several branches may have the same type
        cands = [SI, SI, BOOL] + ([BI, BI] if "bi" in self.feat else []) + ([STR] if "str" in self.feat else [])
        self.r.shuffle(cands)
        br = cands[:self.r.randint(2, min(4, len(cands)))]
        if "store" in self.emph:
            br = [SI, SI] + br[:2]           # (emphasis) branches that share a type
        self.uns.append(br)
        return len(self.uns) - 1

    # -- literals ---------------------------------------------------------
    def literal(self, t):
        r = self.r
        if t == SI:
            n = r.choice(SI_BOUNDARY) if r.random() < 0.3 else r.randint(-20, 20)
            return lit(SI, n)
        if t == BI:
            n = r.choice(BI_BOUNDARY) if r.random() < 0.4 else r.randint(-50, 50)
            return lit(BI, n)
        if t == BOOL:
            return {"e": "bool", "b": r.random() < 0.5}
        if t == STR:
            alphabet = ["a", "b", "Z", " ", "0", "\"", "_", "x", ",", "%", "~", "-", "+"]
            return {"e": "str", "s": "".join(r.choice(alphabet) for _ in range(r.randint(0, 6)))}
        if t == UNIT:
            return {"e": "unit"}
        raise ValueError(t)

    def default_value(self, t, scope, d):
        """An expression of type t built from literals only (used when nothing else fits)."""
        if isinstance(t, str):
            return self.literal(t)
        k = t[0]
        if k == "list":
            if "coll" in self.feat and d > 0 and scope is not None and not self.in_macro and self.r.random() < 0.4:
                x = self.fresh("c")
                lo = self.r.randint(-3, 3)
                sc = Scope(scope)
                sc.vars[x] = (SI, False)
                body = self.expr(t[1], sc, d - 1)
                if t[1] == SI:
                    body = prim("si." + self.r.choice(["add", "mul", "sub"]), var(x), body)
                return {"e": "collect", "t": t, "x": x, "src": {"e": "range", "lo": lit(SI, lo), "hi": lit(SI, lo + self.r.randint(-1, 5))},
                        "cond": self.expr(BOOL, sc, d - 1) if self.r.random() < 0.5 else {"e": "none"}, "body": body}
            return {"e": "list", "t": t, "args": [self.expr(t[1], scope, d - 1) for _ in range(self.r.randint(0, 3))]}
        if k == "adt":
            mk = self.adts[t[1]]["ops"][0]        # the constructor
            return {"e": "acall", "adt": t[1], "op": mk["name"], "t": t, "args": [self.default_value(pt, scope, d - 1) for pt in mk["pts"]]}
        if k == "arr":
            return {"e": "newarr", "t": t, "n": lit(SI, self.r.randint(1, 4)), "init": self.expr(t[1], scope, d - 1)}
        if k == "rec":
            return {"e": "mkrec", "t": t, "args": [self.expr(ft, scope, d - 1) for ft in self.recs[t[1]]]}
        if k == "un":
            br = self.uns[t[1]]
            i = self.r.randrange(len(br))
            return {"e": "mkun", "t": t, "tag": i + 1, "v": self.expr(br[i], scope, d - 1)}
        raise ValueError(t)

    # -- expressions --------------------------------------------------------
    def vars_of(self, scope, t, assignable=False):
        return [x for x, (vt, asg) in scope.lookup_all().items() if tkey(vt) == tkey(t) and (asg or not assignable)]

    def expr(self, t, scope, d):
        r = self.r
        if t == UNIT:
            return {"e": "unit"}
        if d <= 0:
            vs = self.vars_of(scope, t)
            if vs and r.random() < 0.6:
                return var(r.choice(vs))
            return self.default_value(t, scope, 0)
        choices = []
        vs = self.vars_of(scope, t)
        if vs:
            choices += ["var"] * 3
        choices += ["lit"]
        if t in (SI, BI):
            choices += ["arith"] * 4
        if t == BOOL:
            choices += ["cmp"] * 3 + ["logic"] * 2
        if "where" in self.feat and isinstance(t, str) and t != UNIT and d > 1 and self.in_fun and not self.in_macro:
            choices += ["where"] * 2          # opt-in feature: e where { x: T == v }
        if "strop" in self.feat and "str" in self.feat:     # opt-in feature: concat, #, = on strings
            if t == STR:
                choices += ["strcat"] * 3
            if t == SI:
                choices += ["strlen"]
            if t == BOOL:
                choices += ["strcmp"]
        # Conditionals (if / => / and / or) are generated inside functions, lambdas, generators, domain operations and
        # macros only: at file level the type checker's conditional context mis-resolves overloaded, qualified and
        # literal meanings (open findings F3, F5, F6 and relatives, each kept visible by a fixed program).
        nocond = (not self.in_fun and not self.in_macro) or getattr(self, "plain", 0) > 0
        if nocond:
            choices = [c for c in choices if c != "logic"]
        else:
            choices += ["if"]
        if "exit" in self.feat and not self.in_exit_cond and not nocond and not getattr(self, "plain", 0):
            choices += ["exitseq"]
        # operands must be free of side effects: the order of evaluation of operands is undefined
        fs = [i for i, f in enumerate(self.funs) if tkey(f["rt"]) == tkey(t) and self.here(f) and f.get("pure")]
        if fs:
            choices += ["call"] * 3
        dcs = self.dcall_choices(t) if isinstance(t, str) else []
        if dcs:
            choices += ["dcall"] * 2
        ms = [i for i, m in enumerate(self.macs) if m["rt"] == t] if isinstance(t, str) else []
        if ms and not self.in_macro and self.in_fun:
            choices += ["mac"] * 2
        if t == BI and "bi" in self.feat:
            choices += ["tobi", "pow"]
        aops = [(k, o) for k, a in enumerate(self.adts) for o in a["ops"] if o["rt"] == t] if not self.in_macro else []
        if aops:
            choices += ["acall"] * (3 if isinstance(t, list) else 2)
        all_vars = scope.lookup_all()
        if isinstance(t, str):
            for x, (vt, _) in all_vars.items():
                if isinstance(vt, list):
                    if vt[0] == "rec" and t in self.recs[vt[1]]:
                        choices.append(("rget", x))
                    if vt[0] == "arr" and vt[1] == t and x in self.arrlen:
                        choices.append(("aref", x))
                    if vt[0] == "list" and vt[1] == t and not nocond and self.in_fun:
                        choices.append(("first", x))
                    if vt[0] == "un" and t in self.uns[vt[1]] and self.in_fun:
                        choices.append(("uget", x))
            if t == SI:
                for x, (vt, _) in all_vars.items():
                    if isinstance(vt, list) and vt[0] in ("list", "arr"):
                        choices.append(("len", x))
            if t == BOOL:
                for x, (vt, _) in all_vars.items():
                    if isinstance(vt, list) and vt[0] == "list" and self.in_fun:    # empty? in a file-level conditional: finding F6
                        choices.append(("empty", x))
                    if isinstance(vt, list) and vt[0] == "un" and self.in_fun:   # `case` at file level: known finding
                        choices.append(("uis", x))
        else:
            choices += ["default"] * 2
            if t[0] == "list":
                choices += ["cons"]
                if "coll" in self.feat and d > 0 and not self.in_macro:
                    choices += ["collect"] * 6          # opt-in feature: [e for x in l | c]
                for x, (vt, _) in all_vars.items():
                    if tkey(vt) == tkey(t) and not nocond and self.in_fun:
                        choices.append(("rest", x))
        if getattr(self, "plain", 0) > 0:       # a one-line expression (the text of an assertion is quoted in its message)
            choices = [c_ for c_ in choices if c_ not in ("where", "mac", "dcall", "acall", "if", "exitseq", "collect")] or ["lit"]
        c = r.choice(choices)
        if c == "acall":
            k, o = r.choice(aops)
            return {"e": "acall", "adt": k, "op": o["name"], "t": t, "args": [self.expr(pt, scope, d - 1) for pt in o["pts"]]}
        if c == "collect":
            x = self.fresh("c")
            lists = [(v, vt) for v, (vt, _) in all_vars.items() if isinstance(vt, list) and vt[0] == "list"]
            gfs = [i for i, f in enumerate(self.funs) if isinstance(f["rt"], list) and f["rt"][0] == "gen" and self.here(f)]
            srck = None
            if gfs and r.random() < 0.75:               # a generator as the source: [e for x in g(..) | c]
                fi = r.choice(gfs)
                src, et, srck = self.call(fi, scope, d), self.funs[fi]["rt"][1], "gen"
            elif lists and r.random() < 0.6:
                v, vt = r.choice(lists)
                src, et = var(v), vt[1]
            elif r.random() < 0.5:
                et = r.choice([SI, BI] if "bi" in self.feat else [SI])
                src = self.default_value(["list", et], scope, d)
            else:
                et = SI
                lo = r.randint(-3, 3)
                src = {"e": "range", "lo": lit(SI, lo), "hi": lit(SI, lo + r.randint(-1, 5))}
            sc = Scope(scope)
            sc.vars[x] = (et, False)
            cond = self.expr(BOOL, sc, d - 1) if r.random() < 0.5 else {"e": "none"}
            body = self.expr(t[1], sc, d - 1)
            if et == t[1] and r.random() < 0.7:         # make the element count
                body = prim(("si" if et == SI else "bi") + "." + r.choice(["add", "mul", "sub"]), var(x), body)
            out = {"e": "collect", "t": t, "x": x, "src": src, "cond": cond, "body": body}
            if srck:
                out["srck"] = srck
            return out
        if c == "var":
            return var(r.choice(vs))
        if c == "lit":
            return self.default_value(t, scope, d)
        if c == "default":
            return self.default_value(t, scope, d)
        if c == "arith":
            p = "si" if t == SI else "bi"
            if t == SI and "bits" in self.feat and r.random() < 0.3:      # opt-in feature: /\, \/, xor on SingleInteger
                return prim("si." + r.choice(["and", "or", "xor"]), self.expr(t, scope, d - 1), self.expr(t, scope, d - 1))
            op = r.choice(["add", "sub", "mul", "add", "sub", "neg", "quo", "rem", "mod"])
            if op == "neg":
                return prim(p + ".neg", self.expr(t, scope, d - 1))
            if op in ("quo", "rem", "mod"):
                dv = r.choice([2, 3, 5, 7, 10, 16, 255, 1000, 2**31 - 1] + ([-2, -3, -7] if op != "mod" else []))
                return prim(p + "." + op, self.expr(t, scope, d - 1), lit(t, dv))
            return prim(p + "." + op, self.expr(t, scope, d - 1), self.expr(t, scope, d - 1))
        if c == "cmp":
            at = r.choice([SI, SI, BI] if "bi" in self.feat else [SI])
            if r.random() < 0.2:
                return prim(("si" if at == SI else "bi") + "." + r.choice(["odd", "even", "zero"]), self.expr(at, scope, d - 1))
            if r.random() < 0.15:
                return prim("bool." + r.choice(["eq", "ne"]), self.expr(BOOL, scope, d - 1), self.expr(BOOL, scope, d - 1))
            p = "si" if at == SI else "bi"
            return prim(p + "." + r.choice(["lt", "le", "gt", "ge", "eq", "ne"]), self.expr(at, scope, d - 1), self.expr(at, scope, d - 1))
        if c == "where":
            sc = Scope(scope)
            defs = []
            for _ in range(r.randint(1, 2)):
                dt = r.choice([SI, SI, BOOL] + ([BI] if "bi" in self.feat else []))
                x = self.fresh("k")
                defs.append({"x": x, "t": dt, "v": self.expr(dt, scope, d - 1)})
            for dd in defs:
                sc.vars[dd["x"]] = (dd["t"], False)
            body = self.expr(t, sc, d - 1)
            same = [dd for dd in defs if dd["t"] == t and t in (SI, BI)]
            if same:                         # make a constant count
                body = prim(("si" if t == SI else "bi") + ".add", var(same[0]["x"]), body)
            return {"e": "where", "t": t, "defs": defs, "body": body}
        if c == "strcat":
            return prim("str.cat", self.expr(STR, scope, d - 1), self.expr(STR, scope, d - 1))
        if c == "strlen":
            return prim("str.len", self.expr(STR, scope, d - 1))
        if c == "strcmp":
            return prim("str." + r.choice(["eq", "ne"]), self.expr(STR, scope, d - 1), self.expr(STR, scope, d - 1))
        if c == "logic":
            k = r.choice(["and", "or", "not"])
            if k == "not":
                return prim("bool.not", self.expr(BOOL, scope, d - 1))
            return {"e": k, "a": self.expr(BOOL, scope, d - 1), "b": self.expr(BOOL, scope, d - 1)}
        if c == "if":
            return {"e": "if", "c": self.expr(BOOL, scope, d - 1), "a": self.expr(t, scope, d - 1), "b": self.expr(t, scope, d - 1), "t": t}
        if c == "exitseq":
            es = []
            for _ in range(r.randint(1, 2)):
                # known finding C01/ablogic: an exit sequence inside the condition of `=>` can crash type inference
                self.in_exit_cond += 1
                cnd = self.expr(BOOL, scope, d - 1)
                self.in_exit_cond -= 1
                es.append({"e": "exit", "c": cnd, "v": self.expr(t, scope, d - 1)})
            es.append(self.expr(t, scope, d - 1))
            return {"e": "seq", "es": es, "t": t}
        if c == "call":
            fi = r.choice(fs)
            return self.call(fi, scope, d)
        if c == "dcall":
            dom, op = r.choice(dcs)
            return {"e": "dcall", "dom": dom, "op": op["name"], "t": t, "args": [self.expr(pt, scope, d - 1) for pt in op["pts"]]}
        if c == "mac":
            mi = r.choice(ms)
            return {"e": "mac", "mi": mi + 1, "t": t, "args": [self.expr(pt, scope, d - 1) for pt in self.macs[mi]["pts"]]}
        if c == "tobi":
            return prim("si.tobi", self.expr(SI, scope, d - 1))
        if c == "pow":
            return prim("bi.pow", self.expr(BI, scope, d - 1), lit(SI, r.randint(0, 9)))
        if c == "cons":
            return {"e": "cons", "t": t, "h": self.expr(t[1], scope, d - 1), "tl": self.expr(t, scope, d - 1)}
        k, x = c
        vt = all_vars[x][0]
        if k == "rget":
            idx = [i for i, ft in enumerate(self.recs[vt[1]]) if ft == t]
            return {"e": "rget", "r": var(x), "i": r.choice(idx) + 1, "rt": vt[1]}
        if k == "aref":
            return {"e": "aref", "a": var(x), "i": lit(SI, r.randint(1, self.arrlen[x]))}
        if k == "first":
            return {"e": "if", "c": {"e": "empty", "l": var(x)}, "a": self.expr(t, scope, d - 1),
                    "b": {"e": "first", "l": var(x)}, "t": t}
        if k == "rest":
            return {"e": "if", "c": {"e": "empty", "l": var(x)}, "a": var(x), "b": {"e": "rest", "l": var(x)}, "t": t}
        if k == "uget":
            idx = [i for i, bt in enumerate(self.uns[vt[1]]) if bt == t]
            tag = r.choice(idx) + 1
            return {"e": "if", "c": {"e": "uis", "u": var(x), "tag": tag, "ut": vt[1]},
                    "a": {"e": "uget", "u": var(x), "tag": tag, "ut": vt[1]}, "b": self.expr(t, scope, d - 1), "t": t}
        if k == "uis":
            return {"e": "uis", "u": var(x), "tag": r.randint(1, len(self.uns[vt[1]])), "ut": vt[1]}
        if k == "callv":
            return {"e": "callv", "f": var(x), "args": [self.expr(at, scope, d - 1) for at in vt[1]]}
        if k == "len":
            return {"e": "len" if vt[0] == "list" else "alen", ("l" if vt[0] == "list" else "a"): var(x)}
        if k == "empty":
            return {"e": "empty", "l": var(x)}
        raise ValueError(c)

    def enable_payload(self):
        """Opt in to exceptions that carry a value (also callable after construction, like the feature switches)."""
        self.feat |= {"exnp", "try"}
        if "ExP0" not in self.exns:
            self.exns = (self.exns or ["Ex0", "Ex1", "Ex2"]) + ["ExP0", "ExP1"]
        self.exnp = {"ExP0": SI, "ExP1": BI if "bi" in self.feat else SI}

    def filter_scope(self, inner):
        """The names a loop filter may mention: the loop variable and names that nothing can assign.  (A filter that
        mentions a variable the loop body assigns is rejected by the compiler: open finding, fixed program F14.)"""
        sc = Scope()
        for x, (vt, a) in inner.lookup_all().items():
            if not a:
                sc.vars[x] = (vt, a)
        return sc

    def throw_node(self, ex, scope, d):
        args = [self.expr(self.exnp[ex], scope, max(d - 1, 0))] if ex in self.exnp else []
        return {"e": "throw", "exn": ex, "args": args}

    def handler(self, ex, t, scope, d, body=None, use_payload=False):
        """One catch clause.  A handler may ignore the value an exception carries; it reads it (`pv$E`) only where the
        caller says so (use_payload): the try drivers, whose try is the body of a function.  Reading it in a try that is
        nested in a conditional or a loop crashes on both routes (open finding, fixed program F12)."""
        if ex not in self.exnp or not use_payload:
            return {"exn": ex, "ps": [], "body": body if body is not None else self.expr(t, scope, d - 1)}
        q = self.fresh("q")
        sc = Scope(scope)
        sc.vars[q] = (self.exnp[ex], False)
        if body is None:
            body = self.expr(t, sc, d - 1)
        if t == self.exnp[ex] and body.get("e") != "throw":               # make the carried value count
            body = prim(("si" if t == SI else "bi") + ".add", var(q), body)
        return {"exn": ex, "ps": [q], "body": body}

    def rhs(self, t, scope, d):
        """The single operand of an assignment / initialisation / return / yield: it may have side effects
        (a call of an impure function or of a closure), its own operands are pure."""
        r = self.r
        if self.exns and not self.pure_mode and self.in_fun and self.in_gen is None and not self.in_try \
                and isinstance(t, str) and t != UNIT \
                and d > 0 and r.random() < (0.6 if "try" in self.emph else 0.25):      # (try inside a generator: known finding, optimiser "bad case")
            save_loop = self.in_loop
            self.in_try += 1
            self.in_loop = 0
            thr = [i for i, f in enumerate(self.funs) if f.get("thrower")]
            if thr and t == SI and r.random() < 0.7:
                body = {"e": "call", "fi": r.choice(thr) + 1, "args": [lit(SI, r.randint(0, len(self.exns)))]}
            else:
                body = self.rhs(t, scope, d - 1)
            hs = [self.handler(ex, t, scope, d) for ex in r.sample(self.exns, r.randint(1, 2))]
            if "catchall" in self.feat and r.random() < 0.5:        # opt-in feature: `true => value` takes every exception
                hs.append({"exn": "*", "ps": [], "body": self.expr(t, scope, d - 1)})
            if "try" in self.emph:
                fin = {"e": "seq", "t": UNIT, "es": [{"e": "print", "args": [{"e": "str", "s": "fin%d\n" % r.randint(0, 9)}]}]}
            else:
                fin = self.block(Scope(scope), 0, 1) if r.random() < 0.5 else {"e": "none"}
            self.in_try -= 1
            self.in_loop = save_loop
            return {"e": "try", "t": t, "body": body, "hs": hs, "fin": fin}
        if not self.pure_mode and self.in_fun and d > 1 and isinstance(t, str) and t != UNIT \
                and r.random() < (0.6 if "store" in self.emph else 0.2):
            # a conditional or a block as the single operand: its parts may have effects, their order is defined
            if r.random() < 0.5:
                return {"e": "if", "c": self.expr(BOOL, scope, d - 1), "a": self.rhs(t, scope, d - 1), "b": self.rhs(t, scope, d - 1), "t": t}
            save_loop, save_gen = self.in_loop, self.in_gen
            self.in_loop, self.in_gen = 0, None          # no break / yield from inside an expression block
            self.no_ret += 1
            es = [self.stmt(Scope(scope), 0) for _ in range(r.randint(1, 2))] + [self.rhs(t, scope, d - 1)]
            self.no_ret -= 1
            self.in_loop, self.in_gen = save_loop, save_gen
            return {"e": "seq", "es": es, "t": t}
        if not self.pure_mode and r.random() < 0.35:
            c = []
            fs = [i for i, f in enumerate(self.funs) if tkey(f["rt"]) == tkey(t) and self.here(f) and not f.get("pure")]
            if fs:
                c += [("call", i) for i in fs]
            for x, (vt, _) in scope.lookup_all().items():
                if isinstance(vt, list) and vt[0] == "fn" and tkey(vt[2]) == tkey(t):
                    c.append(("callv", x))
            if c:
                k, y = r.choice(c)
                if k == "call":
                    return self.call(y, scope, d)
                vt = scope.lookup_all()[y][0]
                return {"e": "callv", "f": var(y), "args": [self.expr(at, scope, d - 1) for at in vt[1]]}
        return self.expr(t, scope, d)

    def effectful_value(self, t, scope, d):
        """(emphasis) a block `{ output statement; value }` -- possibly under a conditional -- as a right-hand side."""
        r = self.r
        blk = {"e": "seq", "t": t, "es": [{"e": "print", "args": [{"e": "str", "s": "tick%d\n" % r.randint(0, 99)}]},
                                          self.expr(t, scope, max(d - 1, 0))]}
        if self.in_fun and r.random() < 0.5:
            return {"e": "if", "c": self.expr(BOOL, scope, max(d - 1, 0)), "a": blk, "b": self.expr(t, scope, max(d - 1, 0)), "t": t}
        return blk

    def call(self, fi, scope, d):
        f = self.funs[fi]
        args = []
        for i, at in enumerate(f["pts"]):
            if i == 0 and f.get("fuel"):
                args.append(lit(SI, self.r.randint(0, 5)))
            else:
                args.append(self.expr(at, scope, d - 1))
        defs = f.get("defs")
        if defs and self.r.random() < 0.8:
            # leave out defaulted parameters / pass some by keyword: positional prefix, then keywords in any order
            n = len(args)
            first_def = min(i for i, dv in enumerate(defs) if dv.get("e") != "none")
            k = self.r.randint(first_def, n)
            kw = []
            for i in range(k, n):
                if defs[i].get("e") == "none" or self.r.random() < 0.5:
                    kw.append({"p": f["ps"][i], "v": args[i]})
            self.r.shuffle(kw)
            return {"e": "call", "fi": fi + 1, "args": args[:k], "kw": kw}
        return {"e": "call", "fi": fi + 1, "args": args}

    # -- statements -------------------------------------------------------
    def stmt(self, scope, d):
        r = self.r
        allv = scope.lookup_all()
        asg = [(x, vt) for x, (vt, a) in allv.items() if a and (not self.pure_mode or x in self.own)]
        if self.top_loop and not self.in_fun:
            # known finding (C02/C03/C12): at -Q2+ the emerge pass loses record field stores in file-level loops
            asg = [(x, vt) for (x, vt) in asg if not (isinstance(vt, list) and vt[0] == "rec")]
        if "halt" in self.emph and "halt" in self.feat and self.in_fun and not self.pure_mode and not self.in_gen \
                and not self.in_try and r.random() < 0.3:
            # (emphasis) a guarded halt anywhere a statement may stand in an effectful function
            hc = self.expr(BOOL, scope, max(d - 1, 0))
            if r.random() < 0.4:
                hc = {"e": "or", "a": hc, "b": {"e": "bool", "b": True}}
            return {"e": "if", "c": hc, "a": {"e": "error", "msg": "halt%d" % r.randint(0, 99)},
                    "b": {"e": "unit"}, "t": UNIT}
        choices = ["print"] * 3 if not self.pure_mode else []
        if asg:
            choices += ["asg"] * 4
        nocond = self.top_loop and not self.in_fun
        if d > 0:
            # statement-level conditionals only inside functions: at file level the compiler's handling of
            # conditional context is fragile (known findings C01 F3/F5/F6), they are exercised by fixed programs
            if not nocond and self.in_fun:
                choices += ["if"] * 2
            if "while" in self.feat and not (self.top_if and not self.in_fun):
                choices += ["while"]
            noloop = self.top_if and not self.in_fun
            if "for" in self.feat and not noloop:
                choices += ["for"] * 2
            if ("list" in self.feat or "gen" in self.feat) and not noloop:
                choices += ["forin"]
            if "pfor" in self.feat and not noloop:
                choices += ["pfor"] * 2           # opt-in feature: for x in a for y in b repeat
        if self.in_loop and "brk" in self.feat and not nocond and not self.in_try:
            choices += ["brk"] * 2
        if self.ret_t is not None and not self.no_ret and d > 0 and not self.in_try:
            choices += ["ret"]
        if self.in_gen is not None and not self.in_try:
            choices += ["yield"] * 3
        if self.exns and not self.pure_mode and self.in_fun and not self.in_gen and d > 0 and r.random() < 0.4:
            choices += ["throw"] * (4 if "try" in self.emph else 1)
        if "halt" in self.feat and not self.pure_mode and self.in_fun and not self.in_gen and d > 0 \
                and (r.random() < 0.3 or "halt" in self.emph):
            choices += ["halt"] * (max(2, len(choices) // 4) if "halt" in self.emph else 1)
        if "tup" in self.feat and not self.pure_mode and not self.in_gen and not (self.top_loop and not self.in_fun) \
                and not (self.top_if and not self.in_fun):
            sc_asg = [(x, vt) for (x, vt) in asg if vt in (SI, BI, BOOL)]
            if len(sc_asg) >= 2:
                choices += ["masg"] * max(2, len(choices) // 4)       # opt-in feature: several values at once
        if "assert" in self.feat and not self.pure_mode and self.in_fun and not self.in_gen and r.random() < 0.9:
            choices += ["assert"] * max(2, len(choices) // 3)       # opt-in feature (not in ALL_FEATURES): C03's abnormal-end family
        for x, (vt, a) in allv.items():
            if isinstance(vt, list) and not self.pure_mode:
                if vt[0] == "arr" and x in self.arrlen:
                    choices += [("aset", x)] * (4 if "store" in self.emph else 1)
                if vt[0] == "rec" and not (self.top_loop and not self.in_fun):
                    choices += [("rset", x)] * (4 if "store" in self.emph else 1)
        if self.funs and d > 0 and not self.pure_mode:
            choices += ["callstmt"] * (max(3, len(choices) // 3) if "call" in self.emph else 1)   # (emphasis) effectful functions get called
        if not choices:
            choices = ["if"] if d > 0 and not nocond and self.in_fun else ["nop"]
        c = r.choice(choices)
        if c == "nop":
            return {"e": "unit"}
        if c == "print":
            ts = self.scalar_types()
            args = []
            if r.random() < 0.3:
                t = r.choice([x for x in ts if x != BOOL])
                return {"e": "print", "args": [self.rhs(t, scope, d), {"e": "str", "s": "=\n"}]}
            for _ in range(r.randint(1, 3)):
                t = r.choice([x for x in ts if x != BOOL])
                args.append(self.expr(t, scope, d))
                args.append({"e": "str", "s": " "})
            args[-1] = {"e": "str", "s": "\n"}
            return {"e": "print", "args": args}
        if c == "asg":
            x, vt = r.choice(asg)
            v = self.rhs(vt, scope, d)
            if isinstance(vt, list) and vt[0] == "rec" and not self.in_fun and v.get("e") == "var" and v["x"] != x:
                # known finding F16 (emerge pass): two file-level record variables naming one record; build a new record instead
                v = self.default_value(vt, scope, d)
            if isinstance(vt, list) and vt[0] == "arr":
                # keep the statically known length valid: arrays are only re-assigned to arrays of known length
                if v.get("e") == "newarr":
                    self.arrlen[x] = min(self.arrlen.get(x, 99), int("".join(map(str, v["n"]["ds"]))))
                elif v.get("e") == "var" and v["x"] in self.arrlen:
                    self.arrlen[x] = min(self.arrlen.get(x, 99), self.arrlen[v["x"]])
                else:
                    return {"e": "print", "args": [{"e": "str", "s": "skip\n"}]}
            return {"e": "asg", "x": x, "v": v}
        if c == "if":
            self.top_if += 1
            a = self.block(scope, d - 1, r.randint(1, 2))
            b = self.block(scope, d - 1, r.randint(0, 2))
            self.top_if -= 1
            return {"e": "if", "c": self.expr(BOOL, scope, d - 1), "a": a, "b": b, "t": UNIT}
        if c == "while":
            # while i < N repeat { i := i + 1; body }   (the counter is not assignable inside)
            i = self.fresh("w")
            n = r.randint(0, 5)
            inner = Scope(scope)
            self.in_loop += 1
            self.top_loop += 1
            body = self.block(inner, d - 1, r.randint(1, 3), pre=[{"e": "asg", "x": i, "v": prim("si.add", var(i), lit(SI, 1))}])
            self.top_loop -= 1
            self.in_loop -= 1
            return {"e": "wlet", "x": i, "t": SI, "v": lit(SI, 0),
                    "loop": {"e": "while", "c": prim("si.lt", var(i), lit(SI, n)), "body": body}}
        if c == "for":
            i = self.fresh("i")
            lo = r.randint(-2, 3)
            hi = lo + r.randint(-1, 4)
            inner = Scope(scope)
            inner.vars[i] = (SI, False)
            self.in_loop += 1
            self.top_loop += 1
            body = self.block(inner, d - 1, r.randint(1, 3))
            self.top_loop -= 1
            self.in_loop -= 1
            out = {"e": "for", "x": i, "lo": lit(SI, lo), "hi": lit(SI, hi), "body": body}
            if "filt" in self.feat and self.in_fun and r.random() < 0.5:      # opt-in feature: for i in a..b | c
                out["filt"] = self.expr(BOOL, self.filter_scope(inner), max(d - 1, 1))
            return out
        if c == "pfor":
            inner = Scope(scope)
            its = []
            lists = [(x, vt) for x, (vt, a) in allv.items() if isinstance(vt, list) and vt[0] == "list"]
            for _ in range(r.choice([2, 2, 3])):
                x = self.fresh("i")
                if lists and r.random() < 0.5:
                    v, vt = r.choice(lists)
                    its.append({"x": x, "k": "list", "src": var(v)})
                    inner.vars[x] = (vt[1], False)
                elif "list" in self.feat and r.random() < 0.3:
                    et = r.choice([SI, BI] if "bi" in self.feat else [SI])
                    its.append({"x": x, "k": "list", "src": {"e": "list", "t": ["list", et], "args": [self.literal(et) for _ in range(r.randint(0, 4))]}})
                    inner.vars[x] = (et, False)
                else:
                    lo = r.randint(-2, 3)
                    its.append({"x": x, "k": "range", "lo": lit(SI, lo), "hi": lit(SI, lo + r.randint(-1, 4))})
                    inner.vars[x] = (SI, False)
            self.in_loop += 1
            self.top_loop += 1
            body = self.block(inner, d - 1, r.randint(1, 3))
            self.top_loop -= 1
            self.in_loop -= 1
            out = {"e": "pfor", "its": its, "body": body}
            if "filt" in self.feat and self.in_fun and r.random() < 0.4:
                out["filt"] = self.expr(BOOL, self.filter_scope(inner), max(d - 1, 1))
            return out
        if c == "forin":
            srcs = [(x, vt) for x, (vt, a) in allv.items() if isinstance(vt, list) and vt[0] in ("list", "gen")]
            gfs = [i for i, f in enumerate(self.funs) if isinstance(f["rt"], list) and f["rt"][0] == "gen" and self.here(f)]
            if not srcs and not gfs:
                return self.stmt(scope, 0)
            i = self.fresh("e")
            inner = Scope(scope)
            if gfs and (not srcs or r.random() < 0.6):
                fi = r.choice(gfs)
                src = self.call(fi, scope, d)
                et = self.funs[fi]["rt"][1]
            else:
                x, vt = r.choice(srcs)
                if vt[0] == "gen":
                    return self.stmt(scope, 0)      # generator variables are consumed once: only via calls
                src = var(x)
                et = vt[1]
            inner.vars[i] = (et, False)
            self.in_loop += 1
            self.top_loop += 1
            body = self.block(inner, d - 1, r.randint(1, 3))
            self.top_loop -= 1
            self.in_loop -= 1
            out = {"e": "forin", "x": i, "src": src, "body": body, "et": et}
            if "filt" in self.feat and self.in_fun and r.random() < 0.5:
                out["filt"] = self.expr(BOOL, self.filter_scope(inner), max(d - 1, 1))
            return out
        if c == "brk":
            return {"e": "if", "c": self.expr(BOOL, scope, d), "a": {"e": r.choice(["break", "iterate"])}, "b": {"e": "unit"}, "t": UNIT}
        if c == "ret":
            return {"e": "if", "c": self.expr(BOOL, scope, d - 1), "a": {"e": "ret", "v": self.rhs(self.ret_t, scope, d - 1)},
                    "b": {"e": "unit"}, "t": UNIT}
        if c == "throw":
            return {"e": "if", "c": self.expr(BOOL, scope, d - 1), "a": self.throw_node(r.choice(self.exns), scope, d),
                    "b": {"e": "unit"}, "t": UNIT}
        if c == "halt":
            return {"e": "if", "c": self.expr(BOOL, scope, d - 1), "a": {"e": "error", "msg": "halt%d" % r.randint(0, 99)},
                    "b": {"e": "unit"}, "t": UNIT}
        if c == "masg":
            sc_asg = [(x, vt) for (x, vt) in asg if vt in (SI, BI, BOOL)]
            k = min(len(sc_asg), r.choice([2, 2, 3]))
            xs = r.sample(sc_asg, k)
            ts = [vt for _, vt in xs]
            fs = [i for i, f in enumerate(self.funs) if f["rt"] == ["tup", ts] and self.here(f)]
            u = r.random()
            if fs and u < 0.5:              # a call of a function that returns the values
                fi = r.choice(fs)
                v = {"e": "call", "fi": fi + 1, "args": [self.expr(t, scope, max(d - 1, 0)) for t in self.funs[fi]["pts"]]}
            elif u < 0.75 and len(set(map(str, ts))) == 1:     # a rotation of the variables themselves
                rot = xs[1:] + xs[:1]
                v = {"e": "tuple", "args": [var(x) for x, _ in rot]}
            else:
                v = {"e": "tuple", "args": [self.expr(t, scope, max(d - 1, 0)) for t in ts]}
            return {"e": "masg", "xs": [x for x, _ in xs], "v": v, "t": UNIT}
        if c == "assert":
            self.plain = getattr(self, "plain", 0) + 1
            cond = self.expr(BOOL, scope, d - 1)
            self.plain -= 1
            u = r.random()
            if u < 0.4:                     # many assertions hold whatever the condition says, some fail whatever it says
                cond = {"e": "or", "a": cond, "b": {"e": "bool", "b": True}}
            elif u < 0.55:
                cond = {"e": "and", "a": cond, "b": {"e": "bool", "b": False}}
            return {"e": "assert", "c": cond, "t": UNIT}
        if c == "yield":
            return {"e": "yield", "v": self.rhs(self.in_gen, scope, d)}
        if c == "callstmt":
            fi = r.randrange(len(self.funs))
            if "call" in self.emph:
                eff = [k for k, f in enumerate(self.funs) if not f.get("pure") and self.here(f)]
                if eff:
                    fi = r.choice(eff)
            if not self.here(self.funs[fi]):
                return self.stmt(scope, 0)
            if self.in_gen is not None and isinstance(self.funs[fi]["rt"], list) and self.funs[fi]["rt"][0] == "tup":
                return self.stmt(scope, 0)      # known finding F15: several values discarded inside a generator
            return self.call(fi, scope, d)
        k, x = c
        vt = allv[x][0]
        if k == "aset":
            v = self.effectful_value(vt[1], scope, d) if ("store" in self.emph and not self.pure_mode and r.random() < 0.6) \
                else self.rhs(vt[1], scope, d)
            return {"e": "aset", "a": var(x), "i": lit(SI, r.randint(1, self.arrlen[x])), "v": v}
        if k == "rset":
            fts = self.recs[vt[1]]
            i = r.randrange(len(fts))
            v = self.effectful_value(fts[i], scope, d) if ("store" in self.emph and not self.pure_mode and r.random() < 0.6) \
                else self.rhs(fts[i], scope, d)
            return {"e": "rset", "r": var(x), "i": i + 1, "v": v, "rt": vt[1]}
        raise ValueError(c)

    def block(self, scope, d, n, pre=None):
        es = list(pre or [])
        for _ in range(n):
            es.append(self.stmt(scope, d))
        return {"e": "seq", "es": es, "t": UNIT}

    # -- declarations -------------------------------------------------------
    def decl_local(self, scope, d):
        """Returns (name, type, init) and registers the variable."""
        t = self.data_type()
        x = self.fresh("v")
        init = self.default_value(t, scope, d) if isinstance(t, list) else self.rhs(t, scope, d)
        if isinstance(t, list) and t[0] == "arr":
            self.arrlen[x] = int("".join(map(str, init["n"]["ds"])))
        scope.vars[x] = (t, not (isinstance(t, list) and t[0] == "arr"))   # array variables keep their (statically known) length
        if self.own is not None:
            self.own.add(x)
        return x, t, init

    def function(self):
        r = self.r
        name = self.fresh("f")
        np = r.randint(0, 3)
        pts = [self.data_type() for _ in range(np)]
        kind = "plain"
        if "gen" in self.feat and r.random() < 0.25:
            kind = "gen"
        elif "clos" in self.feat and r.random() < 0.25:
            kind = "clos"
        elif "rec_fun" in self.feat and r.random() < 0.2:
            kind = "recur"
        if kind == "recur":
            pts = [SI] + pts
        ps = [self.fresh("p") for _ in pts]
        scope = Scope(self.gscope, "fun")
        for p, t in zip(ps, pts):
            # parameters are by-value locals of the function: scalar ones may be assigned to
            # (only directly in the function body: a nested lambda / generator may not assign an outer parameter)
            scope.vars[p] = (t, isinstance(t, str) and kind == "plain")
        save = (self.ret_t, self.in_loop, self.in_gen, self.no_ret)
        self.in_loop = 0
        self.in_fun += 1
        d = 2
        pure = kind in ("plain", "recur") and r.random() < 0.5
        self.pure_mode, self.own = pure, (set(p for p, t in zip(ps, pts) if isinstance(t, str) and kind == "plain") if pure else None)
        if kind == "gen":
            et = r.choice([SI, BI] if "bi" in self.feat else [SI])
            rt = ["gen", et]
            self.ret_t, self.in_gen, self.no_ret = None, et, 1
            gscope = Scope(scope, "gen")
            lets = [self.decl_local(gscope, 1) for _ in range(r.randint(0, 2))]
            body = self.block(gscope, d, r.randint(1, 4))
            body["es"].append({"e": "yield", "v": self.expr(et, gscope, 1)})
            gbody = self.wrap_lets(lets, body)
            fbody = {"e": "gen", "body": gbody, "et": et}
        elif kind == "clos":
            ct = r.choice([SI, BI] if "bi" in self.feat else [SI])
            cps = [self.fresh("p") for _ in range(r.randint(0, 1))]
            cpts = [SI for _ in cps]
            rt = ["fn", cpts, ct]
            self.ret_t, self.in_gen, self.no_ret = None, None, 1
            lets = [self.decl_local(scope, 1) for _ in range(r.randint(1, 2))]
            cnt = self.fresh("v")
            lets.append((cnt, ct, self.expr(ct, scope, 1)))
            scope.vars[cnt] = (ct, True)
            lscope = Scope(scope, "lam")
            for p in cps:
                lscope.vars[p] = (SI, False)
            p_ = "si" if ct == SI else "bi"
            lbody = self.block(lscope, 1, r.randint(0, 2),
                               pre=[{"e": "asg", "x": cnt, "v": prim(p_ + ".add", var(cnt), self.expr(ct, lscope, 1))}])
            lbody["es"].append(self.expr(ct, lscope, 1))
            lbody["t"] = ct
            fbody = self.wrap_lets(lets, {"e": "lam", "ps": cps, "pts": cpts, "rt": ct, "body": lbody})
        else:
            rt = self.r.choice(self.scalar_types() + [self.data_type()])
            self.ret_t, self.in_gen, self.no_ret = rt, None, 0
            lets = [self.decl_local(scope, 1) for _ in range(r.randint(0, 3))]
            body = self.block(scope, d, r.randint(1, 4))
            if kind == "recur":
                # f(n, ...) == if n <= 0 then base else ... f(n-1, ...) ...
                self.funs.append({"name": name, "ps": ps, "pts": pts, "rt": rt, "body": None, "fuel": True, "callable": False, "pure": pure})
                rec_call = {"e": "call", "fi": len(self.funs), "args": [prim("si.sub", var(ps[0]), lit(SI, 1))] +
                            [self.expr(t, scope, 1) for t in pts[1:]]}
                self.funs.pop()
                if isinstance(rt, str) and rt in (SI, BI):
                    res = prim(("si" if rt == SI else "bi") + ".add", rec_call, self.expr(rt, scope, 1)) if pure else rec_call
                else:
                    res = rec_call
                body["es"].append({"e": "if", "c": prim("si.le", var(ps[0]), lit(SI, 0)), "a": self.expr(rt, scope, 1), "b": res, "t": rt})
            else:
                body["es"].append(self.expr(rt, scope, 2))
            body["t"] = rt
            fbody = self.wrap_lets(lets, body)
        self.ret_t, self.in_loop, self.in_gen, self.no_ret = save
        self.pure_mode, self.own = False, None
        self.in_fun -= 1
        f = {"name": name, "ps": ps, "pts": pts, "rt": rt, "body": fbody, "pure": pure}
        if kind == "recur":
            f["fuel"] = True
        f["oname"] = f["name"]
        if "kwd" in self.feat and kind == "plain" and pts and isinstance(pts[-1], str) and self.r.random() < 0.7:
            # (opt-in feature) default values for a suffix of the scalar parameters; such a function is not overloaded
            j = len(pts)
            while j > 0 and isinstance(pts[j - 1], str) and self.r.random() < 0.7:
                j -= 1
            j = min(j, len(pts) - 1)
            f["defs"] = [{"e": "none"}] * j + [self.literal(t) for t in pts[j:]]
        elif "ovl" in self.feat and f["pts"] and self.r.random() < 0.6:
            sig = tkey(["x"] + f["pts"])
            groups = {}
            for h in self.funs:
                groups.setdefault(h["oname"], []).append(h)
            for on, g in groups.items():
                if all(h["pts"] for h in g) and all(tkey(["x"] + h["pts"]) != sig for h in g) and len(g) < 3 \
                        and not any(h.get("defs") for h in g):
                    newname = on if on.startswith("ov") else "ov" + g[0]["name"]
                    for h in g:
                        h["oname"] = newname
                    f["oname"] = newname
                    break
        self.funs.append(f)
        self.items.append(("f", f))
        return f

    def wrap_lets(self, lets, body):
        for x, t, init in reversed(lets):
            body = {"e": "let", "x": x, "t": t, "v": init, "body": body}
        return body

    def dcall_choices(self, t):
        out = []
        if self.dom_ctx is not None:
            cat, maxop, pcat = self.dom_ctx
            for i, o in enumerate(self.cats[cat]["ops"]):
                if i < maxop and o["rt"] == t:
                    out.append(({"d": "self"}, o))
            if pcat is not None:
                for o in self.cats[pcat]["ops"]:
                    if o["rt"] == t:
                        out.append(({"d": "param"}, o))
            return out
        if self.in_macro:
            return out
        for di, dm in enumerate(self.doms):
            if dm["pcat"]:
                args = [j for j, a in enumerate(self.doms) if not a["pcat"] and a["cat"] == dm["pcat"]]
                doms = [{"d": "app", "i": di + 1, "arg": {"d": "base", "i": j + 1}} for j in args]
            else:
                doms = [{"d": "base", "i": di + 1}]
            for o in self.cats[dm["cat"] - 1]["ops"]:
                if o["rt"] == t:
                    out += [(dx, o) for dx in doms]
        return out

    def domains(self):
        """Feature dom: category A with defaults, two plain domains of A, category B, parametrised domains over A."""
        r = self.r
        sc_types = [SI, SI, BOOL] + ([BI] if "bi" in self.feat else [])

        def mkcat(name, nops):
            ops = []
            for i in range(nops):
                ops.append({"name": self.fresh("op"), "pts": [r.choice(sc_types) for _ in range(r.randint(0, 2))],
                            "rt": r.choice([SI, BOOL] + ([BI] if "bi" in self.feat else []))})
            return {"name": name, "ops": ops, "defaults": []}

        def body(cat, i, pcat):
            o = self.cats[cat]["ops"][i]
            ps = [self.fresh("q") for _ in o["pts"]]
            sc = Scope()
            for p_, t in zip(ps, o["pts"]):
                sc.vars[p_] = (t, False)
            save = (self.funs, self.macs, self.dom_ctx, self.feat)
            self.funs, self.macs, self.dom_ctx, self.feat = [], [], (cat, i, pcat), self.feat - {"exit"}
            self.in_fun += 1
            b = self.expr(o["rt"], sc, 2)
            self.in_fun -= 1
            self.funs, self.macs, self.dom_ctx, self.feat = save
            return {"name": o["name"], "ps": ps, "pts": o["pts"], "rt": o["rt"], "body": b}

        self.cats.append(mkcat("CatA", r.randint(2, 3)))
        for i in range(1, len(self.cats[0]["ops"])):
            if r.random() < 0.6:
                self.cats[0]["defaults"].append(body(0, i, None))
        dflt = {o["name"] for o in self.cats[0]["defaults"]}
        for k in range(2):
            ops = []
            for i, o in enumerate(self.cats[0]["ops"]):
                if o["name"] not in dflt or r.random() < 0.4:
                    ops.append(body(0, i, None))
            self.doms.append({"name": "DA%d" % k, "cat": 1, "pcat": 0, "ops": ops})
        self.cats.append(mkcat("CatB", r.randint(2, 3)))
        for i in range(1, len(self.cats[1]["ops"])):
            if r.random() < 0.6:
                self.cats[1]["defaults"].append(body(1, i, None))
        dflt = {o["name"] for o in self.cats[1]["defaults"]}
        for k in range(r.randint(1, 2)):
            ops = []
            for i, o in enumerate(self.cats[1]["ops"]):
                if o["name"] not in dflt or r.random() < 0.4:
                    ops.append(body(1, i, 0))
            self.doms.append({"name": "PD%d" % k, "cat": 2, "pcat": 1, "ops": ops})

    def make_adts(self):
        """(feature "adt") one or two domains `ADk: with {...} == add { Rep == T; ... }`: a constructor, observers, a combiner;
        all operations are pure expressions over their parameters (per/rep appear only here)."""
        r = self.r
        for k in range(r.randint(1, 2)):
            me = ["adt", k]
            kinds = ["si"] + (["bi"] if "bi" in self.feat else []) + ["rec"]
            kind = r.choice(kinds)
            n = [0]

            def nm(pfx):
                n[0] += 1
                return "%s%d" % (pfx, n[0])

            def rp(x):
                return {"e": "rep", "adt": k, "v": var(x)}

            def pr_(v):
                return {"e": "per", "adt": k, "v": v}
            ops = []
            if kind in ("si", "bi"):
                T = SI if kind == "si" else BI
                pf = kind
                rep = T
                ops.append({"name": "mk", "ps": ["x"], "pts": [T], "rt": me,
                            "body": pr_(prim(pf + "." + r.choice(["add", "sub", "mul"]), var("x"), lit(T, r.randint(1, 9))))})
                ops.append({"name": "val", "ps": ["a"], "pts": [me], "rt": T, "body": rp("a")})
                ops.append({"name": "comb", "ps": ["a", "b"], "pts": [me, me], "rt": me,
                            "body": pr_(prim(pf + "." + r.choice(["add", "sub", "mul"]), rp("a"), rp("b")))})
                ops.append({"name": "big?", "ps": ["a"], "pts": [me], "rt": BOOL,
                            "body": prim(pf + "." + r.choice(["gt", "le", "eq"]), rp("a"), lit(T, r.randint(-9, 9)))})
                ops.append({"name": "step", "ps": ["a", "n"], "pts": [me, SI], "rt": me,
                            "body": pr_(prim(pf + ".add", rp("a"), var("n") if T == SI else prim("si.tobi", var("n"))))})
            else:
                fts = [r.choice([SI, SI, BOOL] + ([BI] if "bi" in self.feat else [])) for _ in range(r.randint(2, 3))]
                fts[0] = SI
                self.recs.append(fts)
                ri = len(self.recs) - 1
                rep = ["rec", ri]
                ps = ["x%d" % i for i in range(len(fts))]
                ops.append({"name": "mk", "ps": ps, "pts": list(fts), "rt": me,
                            "body": pr_({"e": "mkrec", "t": rep, "args": [var(p_) for p_ in ps]})})
                for i, ft in enumerate(fts):
                    ops.append({"name": "get%d" % (i + 1), "ps": ["a"], "pts": [me], "rt": ft,
                                "body": {"e": "rget", "r": rp("a"), "i": i + 1, "rt": ri}})
                ops.append({"name": "comb", "ps": ["a", "b"], "pts": [me, me], "rt": me,
                            "body": pr_({"e": "mkrec", "t": rep, "args": [
                                (prim(("si" if ft == SI else "bi") + ".add", {"e": "rget", "r": rp("a"), "i": i + 1, "rt": ri},
                                      {"e": "rget", "r": rp("b"), "i": i + 1, "rt": ri}) if ft in (SI, BI)
                                 else {"e": "rget", "r": rp(r.choice(["a", "b"])), "i": i + 1, "rt": ri})
                                for i, ft in enumerate(fts)]})})
            self.adts.append({"name": "AD%d" % k, "rep": rep, "ops": ops})

    def tuple_functions(self):
        """(feature "tup") functions that return several values: a pure one and one that prints before it returns."""
        r = self.r
        shapes = [[SI, SI], [SI, BOOL], [SI, SI, SI]] + ([[SI, BI], [BI, BI]] if "bi" in self.feat else [])
        for ts in r.sample(shapes, min(len(shapes), r.randint(2, 3))):
            for pure in (True, False):
                if not pure and r.random() < 0.5:
                    continue
                name = self.fresh("f")
                pts = [r.choice([SI, SI, BOOL] + ([BI] if "bi" in self.feat else [])) for _ in range(r.randint(1, 2))]
                ps = [self.fresh("p") for _ in pts]
                sc = Scope(self.gscope if not pure else None, "fun")
                for p_, t in zip(ps, pts):
                    sc.vars[p_] = (t, False)
                save = (self.pure_mode, self.own, self.in_fun, self.funs)
                self.pure_mode, self.own, self.in_fun = True, set(), self.in_fun + 1
                if pure:
                    self.funs = [f for f in self.funs if f.get("pure")]       # a pure function calls pure functions only
                tup = {"e": "tuple", "args": [self.expr(t, sc, 2) for t in ts]}
                self.pure_mode, self.own, self.in_fun, self.funs = save
                es = [tup] if pure else [{"e": "print", "args": [{"e": "str", "s": "tup%d\n" % r.randint(0, 9)}]}, tup]
                f = {"name": name, "oname": name, "ps": ps, "pts": pts, "rt": ["tup", ts], "pure": pure,
                     "body": {"e": "seq", "t": ["tup", ts], "es": es}}
                self.funs.append(f)
                self.items.append(("f", f))

    def recover_drivers(self):
        """(feature "catchall") a function that halts (error / failed assertion) or throws for some arguments, called in a loop
        whose try expression takes every exception with a catch-all clause: the program recovers from several run-time
        errors in a row and goes on."""
        r = self.r
        x_ = self.fresh("p")
        ways = [{"e": "error", "msg": "bad%d" % r.randint(0, 9)}]
        if "assert" in self.feat:
            ways.append({"e": "assert", "c": {"e": "bool", "b": False}})
        if self.exns:
            ways.append({"e": "throw", "exn": r.choice([e_ for e_ in self.exns if e_ not in self.exnp] or self.exns[:1]), "args": []})
            ways[-1]["args"] = [lit(self.exnp[ways[-1]["exn"]], 1)] if ways[-1]["exn"] in self.exnp else []
        es = []
        for k in range(r.randint(4, 6)):
            es.append({"e": "if", "c": prim("si.eq", prim("si.mod", var(x_), lit(SI, 7)), lit(SI, k)), "a": r.choice(ways), "b": {"e": "unit"}, "t": UNIT})
        es.append(prim("si.mul", var(x_), lit(SI, r.randint(2, 9))))
        risky = {"name": self.fresh("f"), "ps": [x_], "pts": [SI], "rt": SI, "pure": False, "body": {"e": "seq", "t": SI, "es": es}}
        risky["oname"] = risky["name"]
        self.funs.append(risky)
        self.items.append(("f", risky))
        ri = len(self.funs)
        t_, i_ = self.fresh("v"), self.fresh("i")
        body = {"e": "let", "x": t_, "t": SI, "v": lit(SI, 0), "body": {"e": "seq", "t": SI, "es": [
            {"e": "for", "x": i_, "lo": lit(SI, 0), "hi": lit(SI, r.randint(8, 14)),
             "body": {"e": "seq", "t": UNIT, "es": [
                 {"e": "asg", "x": t_, "v": prim("si.add", var(t_), {"e": "try", "t": SI, "body": {"e": "call", "fi": ri, "args": [var(i_)]},
                                                                     "hs": [{"exn": "*", "ps": [], "body": lit(SI, -1)}],
                                                                     "fin": {"e": "none"}})}]}},
            var(t_)]}}
        drv = {"name": self.fresh("f"), "ps": [], "pts": [], "rt": SI, "pure": False, "body": body}
        drv["oname"] = drv["name"]
        self.funs.append(drv)
        self.items.append(("f", drv))
        self.items.append(("t", {"d": "stmt", "x": {"e": "print", "args": [{"e": "call", "fi": len(self.funs), "args": []}, {"e": "str", "s": "\n"}]}}))

    def deep_drivers(self):
        """(emphasis "deep") a function whose body nests immediately applied closures five to seven deep; every level reads the
        parameters of all enclosing levels and assigns variables of the outermost function and of the file."""
        r = self.r
        gs = [x for x, (t, a) in self.gscope.vars.items() if t == SI and a]
        if not gs:
            x = self.fresh("g")
            self.gscope.vars[x] = (SI, True)
            self.items.append(("t", {"d": "var", "x": x, "t": SI, "init": lit(SI, r.randint(-5, 5))}))
            gs = [x]
        for _ in range(2):
            depth = r.randint(5, 7)
            g_ = r.choice(gs)
            p0 = self.fresh("p")
            vs = [self.fresh("v") for _ in range(2)]
            ps = [self.fresh("p") for _ in range(depth)]

            def level(k):
                seen = [p0] + ps[:k + 1]
                ssum = var(seen[0])
                for q in seen[1:]:
                    ssum = prim("si.add", ssum, var(q))
                if k == depth - 1:
                    es = [{"e": "asg", "x": g_, "v": prim("si.add", var(g_), var(ps[k]))},
                          {"e": "asg", "x": vs[0], "v": prim("si.add", var(vs[0]), lit(SI, 1))},
                          ssum]
                else:
                    inner = {"e": "callv", "f": level(k + 1), "args": [prim("si.add", var(ps[k]), lit(SI, r.randint(1, 3)))]}
                    es = []
                    if r.random() < 0.6:
                        es.append({"e": "asg", "x": vs[k % 2], "v": prim("si.add", var(vs[k % 2]), var(ps[k]))})
                    es.append(prim("si.add", inner, ssum) if r.random() < 0.5 else prim("si.sub", ssum, inner))
                return {"e": "lam", "ps": [ps[k]], "pts": [SI], "rt": SI, "body": {"e": "seq", "t": SI, "es": es}}
            res = self.fresh("v")
            body = {"e": "let", "x": vs[0], "t": SI, "v": lit(SI, 0), "body":
                    {"e": "let", "x": vs[1], "t": SI, "v": lit(SI, 0), "body":
                     {"e": "let", "x": res, "t": SI, "v": {"e": "callv", "f": level(0), "args": [prim("si.add", var(p0), lit(SI, 1))]}, "body":
                      {"e": "seq", "t": SI, "es": [
                          {"e": "print", "args": [var(vs[0]), {"e": "str", "s": " "}, var(vs[1]), {"e": "str", "s": " "}, var(g_), {"e": "str", "s": "\n"}]},
                          var(res)]}}}}
            f = {"name": self.fresh("f"), "ps": [p0], "pts": [SI], "rt": SI, "pure": False, "body": body}
            f["oname"] = f["name"]
            self.funs.append(f)
            self.items.append(("f", f))
            for a in (r.randint(-3, 3), r.randint(10, 99)):
                self.items.append(("t", {"d": "stmt", "x": {"e": "print", "args": [
                    {"e": "call", "fi": len(self.funs), "args": [lit(SI, a)]}, {"e": "str", "s": "\n"}]}}))

    def redundancy_drivers(self):
        """(emphasis "cse") functions in which a pure expression is computed on a path that may not run (the body of a loop with
        a filter, a loop over a possibly empty list, a branch) and again after the join, called with arguments for which the
        first computation runs and with arguments for which it does not; half of them cannot be inlined (a never-taken
        self call)."""
        r = self.r
        for k in range(3):
            name = self.fresh("f")
            p_, q_, l_ = self.fresh("p"), self.fresh("p"), self.fresh("p")
            t_, u_, x_ = self.fresh("v"), self.fresh("v"), self.fresh("e")
            sc = Scope()
            sc.vars[p_] = (SI, False)
            sc.vars[q_] = (SI, False)
            save = (self.pure_mode, self.own, self.in_fun, self.funs, self.feat)
            self.pure_mode, self.own, self.in_fun, self.funs = True, set(), self.in_fun + 1, []
            self.feat = self.feat - {"exit"}
            E = prim("si." + r.choice(["add", "mul", "sub"]), self.expr(SI, sc, 2), prim("si.mul", var(p_), var(q_)))
            self.pure_mode, self.own, self.in_fun, self.funs, self.feat = save
            import copy as _copy
            use1 = {"e": "asg", "x": t_, "v": prim("si.add", var(t_), _copy.deepcopy(E))}
            kind = r.choice(["filter", "emptylist", "branch", "while"])
            if kind == "filter":
                first = {"e": "forin", "x": x_, "src": var(l_), "et": SI, "filt": prim("si.gt", var(x_), var(p_)),
                         "body": {"e": "seq", "t": UNIT, "es": [use1]}}
            elif kind == "emptylist":
                first = {"e": "forin", "x": x_, "src": var(l_), "et": SI, "body": {"e": "seq", "t": UNIT, "es": [use1]}}
            elif kind == "branch":
                first = {"e": "if", "c": prim("si.gt", var(q_), var(p_)), "a": {"e": "seq", "t": UNIT, "es": [use1]}, "b": {"e": "unit"}, "t": UNIT}
            else:
                first = {"e": "seq", "t": UNIT, "es": [
                    {"e": "asg", "x": u_, "v": lit(SI, 0)},
                    {"e": "while", "c": prim("si.lt", var(u_), var(q_)),
                     "body": {"e": "seq", "t": UNIT, "es": [{"e": "asg", "x": u_, "v": prim("si.add", var(u_), lit(SI, 1))}, use1]}}]}
            tail = prim("si.add", prim("si.mul", var(t_), lit(SI, 1000)), prim("si.add", _copy.deepcopy(E), var(u_)))
            body = {"e": "seq", "t": SI, "es": [first, {"e": "asg", "x": u_, "v": _copy.deepcopy(E)}, tail]}
            if k % 2 == 0:      # keep the function out of line: a self call that is never taken
                self_call = {"e": "call", "fi": len(self.funs) + 1, "args": [prim("si.add", var(p_), lit(SI, 1)), var(q_), var(l_)]}
                body = {"e": "if", "c": prim("si.lt", var(p_), lit(SI, -99999)), "a": self_call, "b": body, "t": SI}
            f = {"name": name, "oname": name, "ps": [p_, q_, l_], "pts": [SI, SI, ["list", SI]], "rt": SI, "pure": True,
                 "body": {"e": "let", "x": t_, "t": SI, "v": lit(SI, 0),
                          "body": {"e": "let", "x": u_, "t": SI, "v": lit(SI, 0), "body": body}}}
            self.funs.append(f)
            self.items.append(("f", f))
            fi = len(self.funs)
            for (a, b_, items) in [(r.randint(5, 9), r.randint(-3, 2), [1, 2]), (r.randint(-3, 0), r.randint(3, 6), [4, 7, 9]),
                                   (r.randint(0, 3), r.randint(0, 3), [])]:
                self.items.append(("t", {"d": "stmt", "x": {"e": "print", "args": [
                    {"e": "call", "fi": fi, "args": [lit(SI, a), lit(SI, b_), {"e": "list", "t": ["list", SI], "args": [lit(SI, v) for v in items]}]},
                    {"e": "str", "s": "\n"}]}}))

    def throwers(self):
        """(emphasis on exceptions) functions that throw a different exception for each small argument value."""
        for _ in range(2):
            name = self.fresh("f")
            p_ = self.fresh("p")
            es = []
            tsc = Scope()
            tsc.vars[p_] = (SI, False)
            for k, ex in enumerate(self.r.sample(self.exns, len(self.exns))):
                es.append({"e": "exit", "c": prim("si.eq", var(p_), lit(SI, k)), "v": self.throw_node(ex, tsc, 1)})
            es.append(prim("si.add", var(p_), lit(SI, self.r.randint(5, 50))))
            f = {"name": name, "oname": name, "ps": [p_], "pts": [SI], "rt": SI, "pure": False, "thrower": True,
                 "body": {"e": "seq", "t": SI, "es": es}}
            self.funs.append(f)
            self.items.append(("f", f))

    def param_drivers(self):
        """(emphasis) a small function that uses its own parameter as a working variable, called with a local variable
        of the caller that the caller reads again afterwards."""
        r = self.r
        for k in range(2):
            p_, i_ = self.fresh("p"), self.fresh("i")
            callee = {"name": self.fresh("f"), "ps": [p_], "pts": [SI], "rt": SI, "pure": True,
                      "body": {"e": "seq", "t": SI, "es": [
                          {"e": "for", "x": i_, "lo": lit(SI, 1), "hi": lit(SI, r.randint(1, 4)),
                           "body": {"e": "seq", "t": UNIT, "es": [{"e": "asg", "x": p_, "v": prim("si.quo", var(p_), lit(SI, 2))}]}},
                          prim("si.add", var(p_), lit(SI, r.randint(0, 9)))]}}
            callee["oname"] = callee["name"]
            self.funs.append(callee)
            self.items.append(("f", callee))
            x_, v_, w_ = self.fresh("p"), self.fresh("v"), self.fresh("v")
            caller = {"name": self.fresh("f"), "ps": [x_], "pts": [SI], "rt": SI, "pure": False,
                      "body": {"e": "let", "x": v_, "t": SI, "v": prim("si.add", var(x_), lit(SI, r.randint(1, 50))),
                               "body": {"e": "let", "x": w_, "t": SI, "v": {"e": "call", "fi": len(self.funs), "args": [var(v_)]},
                                        "body": {"e": "seq", "t": SI, "es": [
                                            {"e": "print", "args": [var(v_), {"e": "str", "s": " "}, var(w_), {"e": "str", "s": " "}, var(x_),
                                                                    {"e": "str", "s": "\n"}]},
                                            prim("si.add", var(v_), var(w_))]}}}}
            caller["oname"] = caller["name"]
            self.funs.append(caller)
            self.items.append(("f", caller))
            self.items.append(("t", {"d": "stmt", "x": {"e": "print", "args": [
                {"e": "call", "fi": len(self.funs), "args": [lit(SI, r.randint(20, 2000))]}, {"e": "str", "s": "\n"}]}}))

    def try_drivers(self):
        """(emphasis on exceptions) nested try expressions around the throwers: an inner try that handles some
        exceptions and re-raises the others through its finally part, an outer try that handles all of them."""
        r = self.r
        thr = [i for i, f in enumerate(self.funs) if f.get("thrower")]
        if not thr:
            return

        def fin(tag):
            return {"e": "seq", "t": UNIT, "es": [{"e": "print", "args": [{"e": "str", "s": "%s\n" % tag}]}]}
        for k in range(2):
            p1 = self.fresh("p")
            def inner_body(i, ex):
                # some handlers answer an exception by throwing another one (which the outer try tells apart)
                if len(self.exns) > 1 and r.random() < 0.4:
                    psc = Scope()
                    psc.vars[p1] = (SI, False)
                    return self.throw_node(r.choice([e_ for e_ in self.exns if e_ != ex]), psc, 1)
                return lit(SI, -(i + 1))
            inner = {"e": "try", "t": SI, "body": {"e": "call", "fi": r.choice(thr) + 1, "args": [var(p1)]},
                     "hs": [self.handler(ex, SI, None, 1, body=inner_body(i, ex), use_payload=True) for i, ex in enumerate(r.sample(self.exns, r.randint(1, 2)))],
                     "fin": fin("cleanup-inner%d" % k) if r.random() < 0.8 else {"e": "none"}}
            fi_ = {"name": self.fresh("f"), "ps": [p1], "pts": [SI], "rt": SI, "pure": False,
                   "body": {"e": "let", "x": self.fresh("v"), "t": SI, "v": inner, "body": None}}
            fi_["body"]["body"] = prim("si.add", var(fi_["body"]["x"]), lit(SI, 100))
            fi_["oname"] = fi_["name"]
            self.funs.append(fi_)
            self.items.append(("f", fi_))
            p2 = self.fresh("p")
            outer = {"e": "try", "t": SI, "body": {"e": "call", "fi": len(self.funs), "args": [var(p2)]},
                     "hs": [self.handler(ex, SI, None, 1, body=lit(SI, 900 + i), use_payload=True) for i, ex in enumerate(self.exns)],
                     "fin": fin("cleanup-outer%d" % k) if r.random() < 0.5 else {"e": "none"}}
            fo = {"name": self.fresh("f"), "ps": [p2], "pts": [SI], "rt": SI, "pure": False, "body": outer}
            fo["oname"] = fo["name"]
            self.funs.append(fo)
            self.items.append(("f", fo))
            for a in range(len(self.exns) + 1):
                self.items.append(("t", {"d": "stmt", "x": {"e": "print", "args": [
                    {"e": "call", "fi": len(self.funs), "args": [lit(SI, a)]}, {"e": "str", "s": "\n"}]}}))

    def macro(self):
        """A macro m(p1, .., pn) ==> body over scalar parameters; the body mentions only its parameters."""
        r = self.r
        pts = [r.choice([SI, SI, BOOL] + ([BI] if "bi" in self.feat else [])) for _ in range(r.randint(1, 3))]
        ps = [self.fresh("m") for _ in pts]
        rt = r.choice([SI, BOOL] + ([BI] if "bi" in self.feat else []))
        body = self._macro_body(ps, pts, rt)
        self.macs.append({"name": self.fresh("mac"), "ps": ps, "pts": pts, "rt": rt, "body": body})

    def _macro_body(self, ps, pts, rt):
        sc = Scope()
        for p_, t in zip(ps, pts):
            sc.vars[p_] = (t, False)
        save = (self.funs, self.feat)
        self.funs, self.feat = [], self.feat - {"exit"}      # no calls; keep the body a plain expression
        self.in_macro += 1
        body = self.expr(rt, sc, 2)
        self.in_macro -= 1
        self.funs, self.feat = save
        return body

    def local_macro(self, t, scope, d):
        """{ macro m(ps) == body2; e } for a macro m of result type t, e an expression that uses m; None if there is no such
        macro.  Only placed at the head of a definition (a constant's value): that is where a macro scope begins."""
        ms = [i for i, m in enumerate(self.macs) if m["rt"] == t]
        if not ms:
            return None
        mi = self.r.choice(ms)
        m = self.macs[mi]
        self.in_macro += 1          # plain argument expressions (no calls of impure functions, no nested macro uses)
        use = {"e": "mac", "mi": mi + 1, "t": t, "args": [self.expr(pt, scope, 1) for pt in m["pts"]]}
        self.in_macro -= 1
        if t in (SI, BI) and self.r.random() < 0.5:
            use = prim(("si" if t == SI else "bi") + ".add", use, self.literal(t))
        return {"e": "lmac", "mi": mi + 1, "t": t, "mbody": self._macro_body(m["ps"], m["pts"], t), "body": use}

    def program(self, pid=None):
        r = self.r
        nforms = self.size
        if "mac" in self.feat:
            for _ in range(r.randint(1, 2)):
                self.macro()
        if "dom" in self.feat:
            self.domains()
        if "adt" in self.feat:
            self.make_adts()
        if "try" in self.emph and self.exns:
            self.throwers()
        for _ in range(r.randint(1, 3)):
            self.global_var()
        if "tup" in self.feat:
            if not any(t == SI for t, a in self.gscope.vars.values()):      # something to assign to
                x = self.fresh("g")
                self.gscope.vars[x] = (SI, True)
                self.items.append(("t", {"d": "var", "x": x, "t": SI, "init": lit(SI, r.randint(-9, 9))}))
            x = self.fresh("g")
            self.gscope.vars[x] = (SI, True)
            self.items.append(("t", {"d": "var", "x": x, "t": SI, "init": lit(SI, r.randint(-9, 9))}))
            self.tuple_functions()
        for _ in range(nforms):
            c = r.random()
            if c < 0.25 and "fun" in self.feat:
                self.function()
            elif c < 0.4:
                self.global_var()
            else:
                s = self.stmt(self.gscope, 2)
                self.items.append(("t", {"d": "stmt", "x": s}))
        if "try" in self.emph and self.exns:
            self.try_drivers()
        if "store" in self.emph and "fun" in self.feat:
            self.param_drivers()
        if "cse" in self.emph:
            self.redundancy_drivers()
        if "deep" in self.emph:
            self.deep_drivers()
        if "catchall" in self.feat and "fun" in self.feat:
            self.recover_drivers()
        # make sure something is printed
        pr = [x for x, (t, a) in self.gscope.vars.items() if t in (SI, BI, STR)]
        args = []
        for x in pr[:6]:
            args += [var(x), {"e": "str", "s": " "}]
        args.append({"e": "str", "s": "\n"})
        self.items.append(("t", {"d": "stmt", "x": {"e": "print", "args": args}}))
        self.hoist_while_counters()
        self.overload_groups()
        top, order = [], []
        for k, it in self.items:
            if k == "f":
                order.append(["f", self.funs.index(it)])
            else:
                order.append(["t", len(top)])
                top.append(it)
        return {"id": pid or ("g%d" % self.seed), "funs": self.funs, "top": top, "order": order, "recs": self.recs, "exns": self.exns, "exnp": [{"exn": k, "t": v} for k, v in sorted(self.exnp.items())],
                "uns": self.uns, "adts": self.adts, "macs": self.macs, "cats": self.cats, "doms": self.doms, "feat": sorted(self.feat), "seed": self.seed}

    def overload_groups(self):
        """(groups are formed when each function is created, see function())"""
        for f in self.funs:
            f.setdefault("oname", f["name"])

    def here(self, f):
        """May this function be called at the current place?  Overloaded names are only used inside functions:
        at file level their resolution inside conditionals is fragile (finding F6 family)."""
        return f.get("callable", True) and (self.in_fun or f.get("oname", f["name"]) == f["name"])

    def global_var(self):
        t = self.data_type()
        x = self.fresh("g")
        init = self.default_value(t, self.gscope, 2) if isinstance(t, list) else self.rhs(t, self.gscope, 2)
        if isinstance(t, list) and t[0] == "arr":
            self.arrlen[x] = int("".join(map(str, init["n"]["ds"])))
        self.gscope.vars[x] = (t, not (isinstance(t, list) and t[0] == "arr"))
        if "store" in self.emph and isinstance(t, list) and t[0] == "un" and "fun" in self.feat:
            self._pending_probe = (x, t)
        if "lmac" in self.feat and t in (SI, BI) and self.macs and self.r.random() < 0.6:
            # (opt-in feature) a constant whose value redefines a macro locally; the outer meaning is printed afterwards
            saved = self.gscope.vars.pop(x)          # the value cannot mention the constant it defines
            lm = self.local_macro(t, self.gscope, 2)
            self.gscope.vars[x] = saved
            if lm is not None:
                self.gscope.vars[x] = (t, False)
                self.items.append(("t", {"d": "var", "x": x, "t": t, "init": lm, "const": True}))
                m = self.macs[lm["mi"] - 1]
                self.in_macro += 1
                args = [self.expr(pt, self.gscope, 1) for pt in m["pts"]]
                self.in_macro -= 1
                self.items.append(("t", {"d": "stmt", "x": {"e": "print", "args": [
                    var(x), {"e": "str", "s": " "}, {"e": "mac", "mi": lm["mi"], "t": t, "args": args}, {"e": "str", "s": "\n"}]}}))
                self.uses_lmac = True
                return
        if "const" in self.feat and isinstance(t, str) and self.r.random() < 0.3:
            # (opt-in feature) a constant `x: T == v`: read like a variable, never assigned
            self.gscope.vars[x] = (t, False)
            self.items.append(("t", {"d": "var", "x": x, "t": t, "init": init, "const": True}))
            return
        self.items.append(("t", {"d": "var", "x": x, "t": t, "init": init}))
        pp = getattr(self, "_pending_probe", None)
        if pp:
            # (emphasis) a function that tells which branch a union value is in, and an output statement using it
            self._pending_probe = None
            ux, ut = pp
            p_ = self.fresh("p")
            es = [{"e": "exit", "c": {"e": "uis", "u": var(p_), "tag": k + 1, "ut": ut[1]}, "v": lit(SI, k + 1)}
                  for k in range(len(self.uns[ut[1]]))]
            es.append(lit(SI, 0))
            f = {"name": self.fresh("f"), "ps": [p_], "pts": [ut], "rt": SI, "pure": True, "body": {"e": "seq", "t": SI, "es": es}}
            f["oname"] = f["name"]
            self.funs.append(f)
            self.items.append(("f", f))
            self.items.append(("t", {"d": "stmt", "x": {"e": "print", "args": [
                {"e": "call", "fi": len(self.funs), "args": [var(ux)]}, {"e": "str", "s": " branch\n"}]}}))

    # "wlet" is a generator-internal node: a while loop together with its counter.  The counter
    # becomes a `let` at the head of the enclosing function/lambda/generator body, or a global.
    def hoist_while_counters(self):
        def walk(x, acc):
            if isinstance(x, dict):
                if x.get("e") == "wlet":
                    acc.append((x["x"], x["t"], x["v"]))
                    loop = x["loop"]
                    reset = {"e": "asg", "x": x["x"], "v": x["v"]}
                    x.clear()
                    x.update({"e": "seq", "es": [reset, loop], "t": UNIT})
                    walk(loop, acc)
                    return
                if x.get("e") in ("lam", "gen"):
                    inner = []
                    walk(x["body"], inner)
                    x["body"] = self.wrap_lets(inner, x["body"])
                    return
                for v in list(x.values()):
                    walk(v, acc)
            elif isinstance(x, list):
                for v in x:
                    walk(v, acc)
        for f in self.funs:
            acc = []
            walk(f["body"], acc)
            f["body"] = self.wrap_lets(acc, f["body"])
        newitems = []
        for k, form in self.items:
            if k == "t":
                acc = []
                walk(form, acc)
                for x, t, v in acc:
                    newitems.append(("t", {"d": "var", "x": x, "t": t, "init": v}))
            newitems.append((k, form))
        self.items = newitems


def generate(seed, n, features=None, emph=(), extras=True):
    """n programs of the family.  extras: every third program with drawn features also takes the level-independent opt-in
    features (several values at once; exceptions that carry a value when it has exceptions at all), so that every check
    built on the family meets them.  (`assert` stays out: -Qdel-assert makes its meaning depend on the level.)"""
    out = []
    for i in range(n):
        g = ProgGen(seed * 100003 + i, features=features, emph=emph)
        if extras and features is None and i % 3 == 2:
            g.feat |= {"tup", "coll", "filt", "adt", "kwd", "strop", "where", "pfor", "bits", "const"}
            if "try" in g.feat and i % 2:
                g.enable_payload()
            if i % 6 == 5:          # collect forms over generators need generator functions and lists to exist
                g.feat |= {"gen", "list", "fun"}
        out.append(g.program("g%d_%d" % (seed, i)))
    return out


# ---- extreme constants (C05): machine integers wider than 31 bits, 300-digit integers, long / escaped strings ----
# (floating-point constants are not part of the abstract language: AldorSem.tla and render.py have no floats;
#  their save/reload behaviour is covered by C19)

SI_WIDE = [2**31, 2**31 + 1, -(2**31) - 1, 2**32 - 1, 2**32, 5000000000, 2**33 + 5, 2**62, 2**62 - 1, 2**62 + 2**31,
           2**63 - 1, -(2**63 - 1), (2**31 - 1) << 31, ((2**31 - 1) << 31) | 1, 2**61 + 1, -(2**62), 12345678901234567,
           -987654321098765432, 2**31 * 3, -(2**40), 2**63 - 2**31]
STR_ESCAPES = ["\\", "\"", "_", "%", "'", "??/", "|", ";", "(", ")", "#", "~", "$", "&", "{", "}", "[", "]", "^", "`", "@", "!",
               "<", ">", "=", "/*", "*/", "//", "\\n", "\\\\", "%d", "%s", " ", "a", "Z", "0", "--", "++", ","]


def add_extremes(prog, seed, huge=True):
    """A copy of prog with extra functions and file-level forms that carry extreme constants.  The added functions
    mention no file-level variable, so they can be moved into a library unit (render.lib_eligible).  All arithmetic
    on the wide machine integers stays in range (no overflow).  huge=False keeps every machine integer below 2^62 in
    magnitude (wider than 31 bits, but still an immediate value of the compiler's own integer representation)."""
    import copy
    r = random.Random(seed)
    p = copy.deepcopy(prog)
    p.setdefault("order", [["f", i] for i in range(len(p["funs"]))] + [["t", i] for i in range(len(p["top"]))])
    feat = set(p.get("feat", [])) | {"bi", "str", "fun", "extreme"}
    p["feat"] = sorted(feat)

    def add_fun(name, ps, pts, rt, value):
        p["funs"].append({"name": name, "ps": ps, "pts": pts, "rt": rt, "pure": True,
                          "body": {"e": "seq", "es": [value], "t": rt}})
        p["order"].append(["f", len(p["funs"]) - 1])
        return len(p["funs"])          # 1-based index for call nodes

    def add_top(form):
        p["top"].append(form)
        p["order"].append(["t", len(p["top"]) - 1])

    def wide():
        if r.random() < 0.6:
            return r.choice(SI_WIDE if huge else [c for c in SI_WIDE if abs(c) < 2**62 - 1000])
        n = r.getrandbits(r.randint(32, 63 if huge else 61))
        n = max(n, 2**31)
        return -n if r.random() < 0.4 else n

    def big(nd):
        n = int("".join([str(r.randint(1, 9))] + [str(r.randint(0, 9)) for _ in range(nd - 1)]))
        return -n if r.random() < 0.3 else n

    def text(n):
        return "".join(r.choice(STR_ESCAPES) for _ in range(n))

    nl = {"e": "str", "s": "\n"}
    sp = {"e": "str", "s": " "}
    # machine integers: c -/+ (p mod 1000) stays inside the 64-bit range for every |c| < 2^63
    calls = []
    for k in range(r.randint(2, 3)):
        c = wide()
        m = prim("si.mod", var("xp"), lit(SI, 1000))
        val = prim("si.sub", lit(SI, c), m) if c > 0 else prim("si.add", lit(SI, c), m)
        fi = add_fun("xw%d" % (k + 1), ["xp"], [SI], SI, val)
        calls.append({"e": "call", "fi": fi, "args": [lit(SI, r.randint(0, 5000))]})
    # big integers of about 300 decimal digits
    fb = add_fun("xb1", ["xp"], [BI], BI, prim("bi.add", prim("bi.mul", var("xp"), lit(BI, big(r.choice([300, 301, 150])))),
                                                lit(BI, big(r.choice([40, 300])))))
    calls.append({"e": "call", "fi": fb, "args": [lit(BI, r.choice([0, 1, -1, 2**64, 10**30 + 1]))]})
    # long and escaped strings
    fs = add_fun("xs1", ["xp"], [SI], STR, {"e": "if", "c": prim("si.gt", var("xp"), lit(SI, 0)),
                                            "a": {"e": "str", "s": text(r.choice([40, 400, 1500]))},
                                            "b": {"e": "str", "s": text(r.randint(1, 12))}, "t": STR})
    calls.append({"e": "call", "fi": fs, "args": [lit(SI, 1)]})
    calls.append({"e": "call", "fi": fs, "args": [lit(SI, 0)]})
    add_top({"d": "var", "x": "xg1", "t": SI, "init": lit(SI, wide())})
    add_top({"d": "var", "x": "xg2", "t": BI, "init": lit(BI, big(300))})
    # the most negative machine integer has no literal: it is computed (and folded at -Q2 and above)
    add_top({"d": "var", "x": "xg3", "t": SI, "init": prim("si.sub", lit(SI, -(2**63 - 1) if huge else -(2**61 + 12345)), lit(SI, 1))})
    for c in calls:
        add_top({"d": "stmt", "x": {"e": "print", "args": [c, nl]}})
    add_top({"d": "stmt", "x": {"e": "print", "args": [var("xg1"), sp, var("xg2"), sp, var("xg3"), sp, lit(SI, wide()), sp,
                                                          lit(BI, r.choice([2**31, 2**32 + 1, 2**63, -(2**63) - 1, 2**64])),
                                                          sp, {"e": "str", "s": text(r.randint(0, 30))}, nl]}})
    return p


def generator_collect_family(seed, n, prefix="gc", with_try=True):
    """n programs that each hold at least one collect form whose source is a generator ([e for x in g(..) | c]); such forms
    are rare in the plain family (a generator function must already exist where a list is wanted), so they are drawn by
    rejection.  with_try: every third program also has exceptions (a throw in the generator or in the element expression
    unwinds through the gathering frame); the checks that run at -Q2 and above leave this to the feature draw, because try
    expressions are where the optimiser's recorded defects live."""
    import json as _json
    out = []
    i = 0
    while len(out) < n and i < 60 * n + 200:
        g = ProgGen(seed * 100003 + i, emph=("call",) if i % 2 else ())
        g.feat |= {"fun", "gen", "coll", "list", "for", "filt"}
        if with_try and i % 3 == 0:
            g.feat |= {"try"}
            g.exns = g.exns or ["Ex0", "Ex1"]
        p = g.program("%s%d_%d" % (prefix, seed, i))
        i += 1
        if '"srck"' in _json.dumps(p):
            out.append(p)
    return out


def local_macro_family(seed, n, prefix="lm"):
    """n programs in which a constant's value redefines a macro locally (`x: T == { macro m(..) == ..; .. m(..) .. }`) and the
    outer meaning is used afterwards; they are compiled with -Mno-warnings (the compiler remarks on the hiding)."""
    out = []
    i = 0
    while len(out) < n and i < 40 * n + 200:
        g = ProgGen(seed * 100003 + i)
        g.feat |= {"mac", "fun", "lmac"}
        p = g.program("%s%d_%d" % (prefix, seed, i))
        i += 1
        if getattr(g, "uses_lmac", False):
            p["aldor_args"] = ["-Mno-warnings"]
            out.append(p)
    return out


def hold_as_pointer(prog, every=1):
    """The same abstract program with its local SingleInteger variables (those introduced by a declaration at the head of a
    body, never targets of a multiple assignment) held as Pointer -- a rendering option (render.py: ptrvars), nothing
    AldorSem sees."""
    lets, excl = [], set()

    def walk(x):
        if isinstance(x, dict):
            if x.get("e") == "let" and x.get("t") == SI:
                lets.append(x["x"])
            if x.get("e") == "masg":
                excl.update(x["xs"])
            if x.get("e") in ("lam", "gen"):        # variables captured by closures keep their type (free declarations)
                def names(y):
                    if isinstance(y, dict):
                        if y.get("e") in ("var", "asg") and "x" in y:
                            excl.add(y["x"])
                        for v in y.values():
                            names(v)
                    elif isinstance(y, list):
                        for v in y:
                            names(v)
                names(x.get("body"))
            for v in x.values():
                walk(v)
        elif isinstance(x, list):
            for v in x:
                walk(v)
    walk(prog.get("funs", []))
    walk(prog.get("top", []))
    q = dict(prog)
    q["id"] = prog["id"] + "_ptr"
    ro = dict(prog.get("render_opts", {}))
    ro["ptrvars"] = sorted(v for i, v in enumerate(sorted(set(lets) - excl)) if i % every == 0)
    q["render_opts"] = ro
    return q if ro["ptrvars"] else None
