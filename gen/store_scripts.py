"""Concretise the abstract allocator histories exported by TLC (spec/StoreGen.tla) into
scripts for harness/store_drv.c.

An abstract history is a list of operations over symbolic block ids and abstract size
classes 1..NSizes (see StoreGen.tla).  Concretising picks, per script, one byte count
for every size class.  The byte counts sit on the boundaries of the allocator's size
classes (store.c: fixedSize[] = 8,16,24,32,48,64,80,96,128,160,192,256 bytes; above
256 bytes mixed pieces in units of 256 bytes with a 32-byte header; 4096-byte pages;
7648/7649 and 7904/7905 = a request that just fills / no longer fits a fresh two-page mixed
section of 31 quanta, i.e. the frontier is consumed whole instead of split -- a sub-case the
StoreImpl model distinguishes; 70000 = a block of 18 pages), so that over all scripts every boundary value meets
every operation pattern.  Nothing here decides anything: the scripts are inputs, the
recorded traces are judged by TLC (TraceStore.tla).
"""
import json

BOUNDARY = [1, 8, 9, 16, 17, 24, 25, 32, 33, 48, 49, 64, 65, 80, 81, 96, 97, 128, 129, 160, 161,
            192, 193, 255, 256, 257, 480, 481, 736, 737, 4095, 4096, 4097, 7648, 7649, 7904, 7905, 70000]

PTR_CODE = 3      # an object code registered with hasPtrs (all codes < 29 are)
PTRFREE_CODE = 30  # registered pointer-free by the harness
LAST_BYTE = 1 << 30  # the harness clamps a delta to the last requested byte


def shape_assignments():
    """Triples of byte counts for size classes 1..3."""
    out = []
    B = BOUNDARY
    for i in range(len(B) - 2):
        t = (B[i], B[i + 1], B[i + 2])
        out.append(t)
        out.append((t[2], t[0], t[1]))
    out += [(7904, 7904, 257), (7904, 480, 7904), (7648, 7905, 7904), (8, 256, 4097), (1, 257, 70000), (16, 480, 4096), (256, 257, 70000), (70000, 8, 481),
            (4096, 4097, 4095), (255, 70000, 256), (32, 33, 4096), (481, 480, 8), (737, 16, 257)]
    return out


def graph_assignments():
    """Byte counts for size classes 1..2 of pointer-carrying scripts (>= 16 bytes gives a field)."""
    big = [16, 17, 24, 25, 32, 48, 64, 96, 128, 192, 255, 256, 257, 480, 481, 737, 4095, 4096, 4097, 70000]
    out = []
    for i, a in enumerate(big):
        b = big[(i * 7 + 3) % len(big)]
        out.append((a, b, a))
    out += [(8, 24, 8), (256, 9, 256), (70000, 70000, 16)]
    return out


def concretise(h, sizes, index, end_collect=False):
    """h: abstract history (list of lists); sizes: tuple indexed by class-1.  Returns script text."""
    lines = []
    for op in h:
        k = op[0]
        if k == "A":
            _, bid, code, cls = op
            tag = 1 + (bid * 37 + index) % 200
            lines.append("A %d %d %d %d" % (bid, PTRFREE_CODE if code == 1 else PTR_CODE, sizes[cls - 1], tag))
        elif k == "F":
            lines.append("F %d" % op[1])
        elif k == "R":
            lines.append("R %d %d" % (op[1], sizes[op[2] - 1]))
        elif k == "K":
            lines.append("K %d %d" % (op[1], PTRFREE_CODE if op[2] == 1 else PTR_CODE))
        elif k == "W":
            _, bid, tgt, d = op
            lines.append("W %d 0 %d %d" % (bid, tgt if tgt else -1, LAST_BYTE if d else 0))
        elif k == "S":
            _, root, tgt, d = op
            lines.append("S %d %d %d" % (root - 1 + (index % 2) * 2, tgt if tgt else -1, LAST_BYTE if d else 0))
        elif k == "C":
            lines.append("C")
        else:
            raise ValueError(op)
    if end_collect and (not h or h[-1][0] != "C"):
        lines.append("C")
    lines.append("X")
    return "\n".join(lines) + "\n"


def build(histories, assignments, per_script, offset=0, end_collect=False):
    """histories: list of JSON strings or lists.  Each gets `per_script` consecutive assignments
    (rotating through the list).  Returns (list of script texts, list of (history index, sizes))."""
    texts, keys = [], []
    n = len(assignments)
    for i, h in enumerate(histories):
        if isinstance(h, str):
            h = json.loads(h)
        for j in range(per_script):
            sizes = assignments[(offset + i * per_script + j) % n]
            texts.append(concretise(h, sizes, i, end_collect))
            keys.append((i, sizes))
    return texts, keys
