"""Work-list generator for C11 (harness/bigint_drv.c).

Produces the *inputs* only: operation names and operands (as [-]hex, machine integers as
decimal, texts as they are).  No expected value is computed here; TLC (spec/TraceBigInt.tla)
judges every event.  Python integers are used to enumerate the operand families of the
property's quantifier:

  pow2    every value within +-2 of each power of two up to 2^200
  immed   the immediate/allocated representation boundary (+-(2^62-1)), the half-word
          boundary used by bintTimes (2^31), the machine integer boundary (2^63)
  digit   digit-boundary patterns at radix 2^7, 2^11, 2^16 and 2^32: all-ones, single high
          bit, alternating, top digit R/2 and R/2-1 (Knuth D normalisation), q-hat corner
          patterns
  random  random values up to `maxbits` bits (a few at 4000 bits)
  all sign combinations.
"""
import random


def hx(v):
    return ("-%x" % -v) if v < 0 else ("%x" % v)


def fam_pow2(maxk=200, ks=None):
    out = []
    for k in (ks if ks is not None else range(0, maxk + 1)):
        for d in (-2, -1, 0, 1, 2):
            v = (1 << k) + d
            out.append(v)
            out.append(-v)
    return out


def fam_immed():
    out = []
    for c in (1 << 62, (1 << 62) - 1, 1 << 61, 1 << 63, 1 << 31, 1 << 32, 1 << 30, 1 << 64, (1 << 31) - 1):
        for d in range(-3, 4):
            out += [c + d, -(c + d)]
    return out


def fam_digit(lgs=(7, 11, 16, 32), ndig=(1, 2, 3, 4, 5, 8)):
    out = []
    for lg in lgs:
        R = 1 << lg
        for n in ndig:
            ones = R ** n - 1
            out.append(ones)                          # all places R-1
            out.append(1 << (lg * n - 1))             # single high bit
            out.append(R ** (n - 1))                  # single low bit of the top place
            alt = sum(((R - 1) if i % 2 == 0 else 0) * R ** i for i in range(n))
            out.append(alt)                           # R-1, 0, R-1, 0, ...
            out.append(ones - alt)
            a5 = int("55" * ((lg * n + 7) // 8), 16) & ones
            out.append(a5)                            # 0101...
            out.append(ones - a5)                     # 1010...
            out.append((R // 2) * R ** (n - 1))       # top place R/2, rest 0
            out.append((R // 2) * R ** (n - 1) + R ** (n - 1) - 1 if n > 1 else R // 2)
            out.append((R // 2 - 1) * R ** (n - 1) + (R ** (n - 1) - 1 if n > 1 else 0))   # top R/2-1, rest ones
            out.append(ones - 1)
            out.append(ones + 1)
            out.append(ones + 2)
    return out


def qhat_pairs(lg, rnd, count):
    """dividend/divisor pairs that drive Knuth D into its corner cases at radix 2^lg:
    u_j = v_1 (q-hat = R-1), q-hat one or two too large, add-back."""
    R = 1 << lg
    out = []
    for _ in range(count):
        n = rnd.choice((2, 2, 3, 4))
        m = rnd.choice((1, 1, 2, 3))
        kind = rnd.randrange(6)
        v = [rnd.randrange(R) for _ in range(n)]
        if kind == 0:
            v[-1] = R // 2
        elif kind == 1:
            v[-1] = R - 1
        elif kind == 2:
            v[-1] = rnd.choice((1, 2, 3, R // 2 - 1, R // 2 + 1))
        elif kind == 3:
            v[-1] = R // 2; v[-2] = R - 1
        elif kind == 4:
            v[-1] = R // 2; v[-2] = 0
        if v[-1] == 0:
            v[-1] = 1
        V = sum(d * R ** i for i, d in enumerate(v))
        style = rnd.randrange(5)
        if style == 0:                       # top places of u equal to v's: u_j = v_1
            U = V * R ** m + rnd.randrange(R ** m)
            U -= rnd.randrange(1, 3)
        elif style == 1:                     # q*V - small: quotient digits R-1, remainders near V
            q = R ** m - rnd.randrange(1, 3)
            U = q * V + rnd.choice((0, 1, V - 1, V - 2, rnd.randrange(V)))
        elif style == 2:                     # classic add-back shape: u = (R/2) 0 ... , v = (R/2) 0 .. 1 style
            U = (V - 1) * R ** m + (R ** m - 1)
        elif style == 3:
            q = rnd.randrange(R ** m)
            U = q * V + rnd.choice((0, V - 1))
        else:
            U = rnd.randrange(R ** (n + m))
        if U < 0:
            U = -U
        out.append((U, V))
    return out


def rand_value(rnd, maxbits):
    """random magnitude with a random bit length <= maxbits and a random density style"""
    bits = rnd.randrange(1, maxbits + 1)
    style = rnd.randrange(4)
    if style == 0:
        v = rnd.getrandbits(bits)
    elif style == 1:                          # runs of ones and zeros
        v = 0
        pos = 0
        bit = 1
        while pos < bits:
            run = rnd.randrange(1, 40)
            if bit:
                v |= ((1 << run) - 1) << pos
            pos += run
            bit ^= 1
        v &= (1 << bits) - 1
    elif style == 2:                          # sparse
        v = 0
        for _ in range(rnd.randrange(1, 6)):
            v |= 1 << rnd.randrange(bits)
    else:                                     # dense
        v = (1 << bits) - 1
        for _ in range(rnd.randrange(0, 5)):
            v &= ~(1 << rnd.randrange(bits))
    v |= 1 << (bits - 1)
    return v if rnd.randrange(2) else -v


def to_radix(v, radix):
    digs = "0123456789ABCDEFGHIJKLMNOPQRSTUVWXYZ"
    n = abs(v)
    s = ""
    while True:
        s = digs[n % radix] + s
        n //= radix
        if n == 0:
            break
    return s


class WorkList(object):
    def __init__(self, rx):
        self.rx = rx
        self.lines = []
        self.fam = []        # operand family label per line (evidence only)
        self.meta = {}       # line number (1-based) -> model path labels (drift comparison only)

    def add(self, fam, op, *args):
        # bintMod/bintModi (hence fiBIntRem, fiBIntMod, fiBIntPowerMod) are written in terms of
        # bitsizeof(BIntS), not BINT_LG_RADIX: they are meaningful in the production radix only
        # and read garbage under BIGINT_DO_DEBUG.  The small-radix build is an instrument, not a
        # shipped configuration, so these operations are exercised at radix 2^32 only.
        if self.rx != 32 and op in ("rem", "mod", "powermod"):
            return
        self.lines.append(" ".join([op] + [a if isinstance(a, str) else str(a) for a in args]))
        self.fam.append(fam)

    # -- per-kind helpers -------------------------------------------------
    def binary_all(self, fam, a, b, ops):
        A, Bh = hx(a), hx(b)
        for op in ops:
            if op in ("divide", "quo", "rem", "mod") and b == 0:
                continue
            if op == "dividew":
                self.add(fam, "divide", A, Bh, "w")
            else:
                self.add(fam, op, A, Bh)

    def unary_all(self, fam, a, rnd, ops):
        A = hx(a)
        n = abs(a).bit_length()
        for op in ops:
            if op in ("neg", "abs", "length", "tostring", "toint"):
                self.add(fam, op, A)
            elif op == "placev":
                if self.rx == 32:
                    self.add(fam, op, A)
            elif op == "bit":
                for ix in {0, max(n - 1, 0), n, n + 1, rnd.randrange(0, n + 2), rnd.choice((6, 7, 31, 32, 61, 62, 63, 64))}:
                    self.add(fam, op, A, ix)
            elif op == "shift":
                ks = {0, rnd.choice((1, -1)), rnd.choice((6, 7, 8, 31, 32, 33, 61, 62, 63, 64)) * rnd.choice((1, -1)),
                      rnd.randrange(0, 130), -rnd.randrange(0, n + 3), rnd.choice((-n, -(n - 1) if n > 1 else -1)),
                      rnd.choice((62 - n, 63 - n, 61 - n))}
                for k in sorted(ks):
                    self.add(fam, op, A, k)
            elif op == "frstring":
                self.add(fam, op, ("-" if a < 0 else "") + to_radix(a, 10))
                r = rnd.choice((2, 3, 8, 10, 16, 36, rnd.randrange(2, 37)))
                if self.rx != 32 and r > 11:        # see add(): input radix^2 must stay below the digit radix
                    r = rnd.randrange(2, 12)
                self.add(fam, op, ("-" if a < 0 else rnd.choice(("", "+"))) + "%dr" % r + to_radix(a, r))
            elif op == "scan":
                self.add(fam, op, ("-" if a < 0 else "") + rnd.choice(("", "0", "000")) + to_radix(a, 10) + rnd.choice(("", "x", ".5", "r7")))
            elif op == "sipower":
                if n <= 64:
                    e = rnd.randrange(0, max(2, min(64, 900 // max(n, 1))))
                    self.add(fam, op, A, e)
            else:
                raise ValueError(op)


BIN_OPS = ("plus", "minus", "times", "divide", "cmp", "rem", "mod", "gcd", "quo")
UN_OPS = ("neg", "abs", "length", "tostring", "toint", "placev", "bit", "shift", "frstring", "scan", "sipower")


def generate(rx, tier, seed):
    """Return a WorkList for one radix build.  Sizes are tuned so that the quick tier's two
    traces (radix 2^32 and 2^7) validate in about a minute on a shared machine."""
    rnd = random.Random(seed * 1000003 + rx)
    w = WorkList(rx)
    quick = tier == "quick"

    # ---- 1. powers of two +-2, up to 2^200, all signs ---------------------
    p2 = fam_pow2(200)
    # unary: every value, operations rotating so that each (k, d, sign) meets each operation over a few seeds
    for i, v in enumerate(p2):
        if quick:
            ops = [UN_OPS[(i + seed + j * 5) % len(UN_OPS)] for j in range(2)]
        else:
            ops = UN_OPS
        w.unary_all("pow2", v, rnd, ops)
    # binary: exponent pairs
    ks = list(range(0, 201))
    for i in ks:
        if quick:
            partners = {i, rnd.choice((max(i - 1, 0), min(i + 1, 200))), rnd.choice((max(i - 7, 0), min(i + 7, 200), max(i - 32, 0), min(i + 32, 200))),
                        rnd.choice((i // 2, min(2 * i, 200), 0, 1, 62, 63, 64, 200)), rnd.randrange(0, 201)}
        else:
            partners = set(range(0, 201, 1))
        for j in sorted(partners):
            if quick:
                combos = [(rnd.choice((-2, -1, 0, 1, 2)), rnd.choice((-2, -1, 0, 1, 2)), rnd.choice((1, -1)), rnd.choice((1, -1)))]
                ops = [BIN_OPS[(i + j + seed + t * 4) % len(BIN_OPS)] for t in range(3)]
            else:
                combos = [(rnd.choice((-2, -1, 0, 1, 2)), rnd.choice((-2, -1, 0, 1, 2)), rnd.choice((1, -1)), rnd.choice((1, -1))) for _ in range(2)]
                ops = [BIN_OPS[(i + j + seed + t * 4) % len(BIN_OPS)] for t in range(4)]
            for (d1, d2, s1, s2) in combos:
                a = s1 * ((1 << i) + d1)
                b = s2 * ((1 << j) + d2)
                w.binary_all("pow2", a, b, ops)

    # ---- 2. representation boundaries -------------------------------------
    im = fam_immed()
    for v in im:
        w.unary_all("immed", v, rnd, UN_OPS if not quick else [o for o in UN_OPS if o not in ("scan",)])
    for v in (0, 1, -1, 2, -2):
        w.unary_all("immed", v, rnd, UN_OPS)
    # machine integers
    for c in (0, 1, (1 << 62) - 1, 1 << 62, (1 << 63) - 1, 1 << 31, 1 << 32, 127, 128):
        for d in (-2, -1, 0, 1, 2):
            for s in (1, -1):
                v = s * (c + d)
                if -(1 << 63) <= v < (1 << 63):
                    w.add("immed", "frint", v)
    w.add("immed", "frint", -(1 << 63))
    npairs = 260 if quick else 4000
    for _ in range(npairs):
        a, b = rnd.choice(im), rnd.choice(im + [1, -1, 2, -2, 3, 0])
        w.binary_all("immed", a, b, [rnd.choice(BIN_OPS) for _ in range(2)] if quick else BIN_OPS)
    # results that cross the boundary: sums/differences/products/quotients landing at +-(2^62-1)+-1
    M = (1 << 62) - 1
    for t in (M - 1, M, M + 1, M + 2, -M, -M - 1, -M + 1, -M - 2):
        for _ in range(4 if quick else 40):
            x = rnd.randrange(-(1 << 62), 1 << 62)
            w.binary_all("immed", x, t - x, ("plus",))
            w.binary_all("immed", t + x, x, ("minus",))
            f = rnd.choice((2, 3, 5, 7, 1 << 31, (1 << 31) - 1, (1 << 31) + 1, rnd.randrange(2, 1 << 33)))
            w.binary_all("immed", t * f + rnd.randrange(0, f), f, ("divide", "quo"))
            w.binary_all("immed", t // f, f, ("times",))
    # aliasing: the same object as both operands
    for v in (rnd.choice(im), rnd.choice(p2), -(1 << 70) - 5, (1 << 64) - 1, 3, -3, M + 1, -(M + 1)):
        for op in ("plus", "minus", "times", "divide"):
            if v != 0:
                w.add("alias", op, hx(v), hx(v))
        w.add("alias", "cmp", hx(v), hx(v), "alias")

    # ---- 3. digit-boundary patterns at both radices ------------------------
    dg = fam_digit()
    dgs = dg + [-v for v in dg]
    for i, v in enumerate(dgs):
        if quick:
            ops = [UN_OPS[(i + seed + j * 4) % len(UN_OPS)] for j in range(3)]
        else:
            ops = UN_OPS
        w.unary_all("digit", v, rnd, ops)
    npairs = 900 if quick else 12000
    for _ in range(npairs):
        a, b = rnd.choice(dgs), rnd.choice(dgs)
        w.binary_all("digit", a, b, [rnd.choice(BIN_OPS) for _ in range(2)] if quick else BIN_OPS)
    # Knuth D corner patterns, instantiated at this build's radix and at the other one
    for lg, cnt in ((rx, 500 if quick else 6000), (39 - rx, 100 if quick else 1000), (11, 60 if quick else 600)):
        for (U, V) in qhat_pairs(lg, rnd, cnt):
            s1, s2 = rnd.choice((1, -1)), rnd.choice((1, -1))
            w.binary_all("qhat", s1 * U, s2 * V, ("divide",) if rnd.randrange(4) else ("divide", "rem", "mod", "gcd"))

    # ---- 4. random values ---------------------------------------------------
    for maxbits, cnt in (((64, 700), (200, 700), (512, 500)) if quick else ((64, 6000), (200, 8000), (512, 6000), (1500, 400))):
        for _ in range(cnt):
            a = rand_value(rnd, maxbits)
            b = rand_value(rnd, rnd.choice((maxbits, max(8, maxbits // 2), max(8, maxbits // 4))))
            ops = [rnd.choice(BIN_OPS) for _ in range(2)]
            if maxbits >= 512:
                ops = [o for o in ops if o != "gcd"] or ["divide"]
            w.binary_all("random", a, b, ops)
            if rnd.randrange(3) == 0:
                w.unary_all("random", a, rnd, [rnd.choice(UN_OPS)])
            if rnd.randrange(12) == 0:
                w.add("random", "timesplus", hx(a), hx(b), hx(rand_value(rnd, maxbits)))
    for _ in range(40 if quick else 500):      # gcd with a planted common factor
        g = abs(rand_value(rnd, 120))
        a = g * rand_value(rnd, 150)
        b = g * rand_value(rnd, 100)
        w.binary_all("random", a, b, ("gcd",))
    for v in (0, 5, -5):
        w.binary_all("random", v, 0, ("gcd", "plus", "times", "cmp"))
        w.binary_all("random", 0, v, ("gcd", "minus", "times", "cmp"))
        if v:
            w.binary_all("random", 0, v, ("divide", "rem", "mod", "quo"))

    # powers
    for _ in range(60 if quick else 800):
        a = rand_value(rnd, rnd.choice((4, 8, 33, 64, 100)))
        n = abs(a).bit_length()
        e = rnd.randrange(0, max(2, 1200 // n))
        w.add("random", "sipower", hx(a), e)
        w.add("random", "bipower", hx(a), hx(rnd.randrange(0, max(2, 1000 // n))))
    for a in (0, 1, -1, 2, -2):
        for e in (0, 1, 2, 3, 62, 63, 64, 65, 127, 128):
            w.add("pow2", "sipower", hx(a), e)
            w.add("pow2", "bipower", hx(a), hx(e))
    # modular powers
    for _ in range(120 if quick else 1500):
        cbits = rnd.choice((3, 8, 31, 32, 33, 62, 63, 64, 65, 100, 128))
        c = rand_value(rnd, cbits)
        a = rand_value(rnd, rnd.choice((cbits, 2 * cbits, 8)))
        e = abs(rand_value(rnd, rnd.choice((1, 4, 16, 40))))
        if rnd.randrange(3):
            a, c = abs(a), abs(c)
        w.add("random", "powermod", hx(a), hx(e), hx(c))
    for a in (0, 1, -1, 7, -7):
        for e in (0, 1, 2, 5):
            for c in (1, 2, 3, -3, 10):
                w.add("random", "powermod", hx(a), hx(e), hx(c))

    # low bits (builtin BIntShiftRem; not used by the libraries)
    for v in [rnd.choice(p2) for _ in range(10 if quick else 100)] + [rnd.choice(im) for _ in range(6 if quick else 60)] + \
             [rand_value(rnd, 200) for _ in range(10 if quick else 100)] + [0, 1, -1, 255, -255, (1 << 40) + 5, (1 << 86) + 12345]:
        n = abs(v).bit_length()
        for k in sorted({1, rnd.choice((5, 16, 30)), rnd.choice((31, 32, 33)), rnd.choice((7, 14, 63, 64, 96)), max(n - 1, 0), n, rnd.randrange(0, n + 8)}):
            w.add("shiftrem", "shiftrem", hx(v), k)

    # a few large ones (slow in TLC: about a second per 4000-bit product)
    nbig = 4 if quick else 40
    for _ in range(nbig):
        a = rnd.choice((1, -1)) * (abs(rand_value(rnd, 4000)) | (1 << 3990))
        b = rnd.choice((1, -1)) * (abs(rand_value(rnd, 4000)) | (1 << 3900))
        c = rnd.choice((1, -1)) * (abs(rand_value(rnd, 2000)) | (1 << 1990))
        w.binary_all("big", a, b, ("plus", "minus", "cmp"))
        w.binary_all("big", a, b, ("times",))
        w.binary_all("big", a, c, ("divide",))
        w.unary_all("big", a, rnd, ("tostring", "frstring", "length", "neg"))
        w.add("big", "shift", hx(a), -1995)
        w.add("big", "shift", hx(c), 2001)
    return w


def inst_pattern(pat, lg, rnd):
    """Instantiate a digit-class pattern exported by spec/BigIntImpl.tla at radix 2^lg."""
    R = 1 << lg
    v = 0
    for i, c in enumerate(pat["cls"]):
        d = {"0": 0, "1": 1, "m": R - 1, "n": R - 2, "h": R // 2, "g": R // 2 - 1}.get(c)
        if d is None:
            d = rnd.randrange(2, R - 2)
            while d in (R // 2, R // 2 - 1):
                d = rnd.randrange(2, R - 2)
        v += d * R ** i
    return -v if pat["neg"] else v


def from_patterns(pats, rx, seed, tier):
    """(B) replay of the per-path operand patterns of the algorithm model at this build's radix
    (and, for the production build, also at the other radix's digit width)."""
    rnd = random.Random(seed * 7 + rx)
    w = WorkList(rx)
    for p in pats:
        for lg in ((rx,) if tier == "quick" else (rx, 39 - rx)):
            a = inst_pattern(p["a"], lg, rnd)
            b = inst_pattern(p["b"], lg, rnd)
            if p["op"] == "divide" and b == 0:
                continue
            w.add("path", p["op"], hx(a), hx(b))
            if lg == rx:
                w.meta[len(w.lines)] = sorted(p["path"])
    return w
