"""C14 thorough tier: small real Aldor programs as block trees.

A program is a block: a list of statements.  A statement is a list of items: a string is a run of
tokens (separated by blanks), a list is a nested block.  After a block only a run that starts with a
follower keyword (else, where, catch, ...) may come.  No `++` descriptions (they are part of the tree,
not layout).  The programs only have to parse (-Fap); they are written in the style of the axllib
sources and cover closures, generators, records, domains with add/with bodies, where-clauses, loops,
if-chains, exits, try/catch, macros.
"""

PROGS = [
    ("P01", [   # function definitions, if-chain, return
        ["fact ( n : I ) : I ==", [
            ["n <= 1 => 1"],
            ["n * fact ( n - 1 )"]]],
        ["sign ( n : I ) : I ==", [
            ["if n < 0 then", [["return - 1"]], "else if n = 0 then", [["return 0"]], "else", [["return 1"]]]]],
    ]),
    ("P02", [   # closures
        ["counter ( ) : ( ) -> I ==", [
            ["c : I := 0"],
            ["( ) : I +->", [
                ["free c"],
                ["c := c + 1"],
                ["c"]]]]],
        ["compose ( f : I -> I , g : I -> I ) : I -> I ==", [
            ["( x : I ) : I +-> f g x"]]],
        ["twice := compose ( ( a : I ) : I +-> a + a , ( b : I ) : I +-> b * 2 )"],
    ]),
    ("P03", [   # generators
        ["upto ( n : I ) : Generator I == generate", [
            ["i : I := 1"],
            ["while i <= n repeat", [
                ["yield i"],
                ["i := i + 1"]]]]],
        ["evens ( g : Generator I ) : Generator I == generate", [
            ["for x in g repeat", [
                ["if x rem 2 = 0 then yield x"]]]]],
        ["s := 0"],
        ["for k in evens upto 10 repeat s := s + k"],
    ]),
    ("P04", [   # records
        ["Point == Record ( x : I , y : I )"],
        ["origin : Point := [ 0 , 0 ]"],
        ["move ( p : Point , dx : I , dy : I ) : Point ==", [
            ["q : Point := [ p . x , p . y ]"],
            ["q . x := q . x + dx"],
            ["q . y := q . y + dy"],
            ["q"]]],
        ["norm1 ( p : Point ) : I == abs ( p . x ) + abs ( p . y )"],
    ]),
    ("P05", [   # domain with add / with
        ["Counter : with", [
            ["new : ( ) -> %"],
            ["inc! : % -> %"],
            ["value : % -> I"]],
         "== add", [
            ["Rep == Record ( n : I )"],
            ["import from Rep"],
            ["new ( ) : % == per [ 0 ]"],
            ["inc! ( c : % ) : % ==", [
                ["rep ( c ) . n := rep ( c ) . n + 1"],
                ["c"]]],
            ["value ( c : % ) : I == rep ( c ) . n"]]],
    ]),
    ("P06", [   # category with defaults
        ["Shape : Category == with", [
            ["area : % -> I"],
            ["name : % -> String"],
            ["default", [
                ["name ( s : % ) : String == \"shape\""]]]]],
        ["Square : Shape with", [
            ["square : I -> %"]],
         "== add", [
            ["Rep == I"],
            ["square ( n : I ) : % == per n"],
            ["area ( s : % ) : I == rep s * rep s"]]],
    ]),
    ("P07", [   # where clauses
        ["hyp ( a : I , b : I ) : I == sq a + sq b where", [
            ["sq ( t : I ) : I == t * t"]]],
        ["area ( r : I ) : I ==", [
            ["k := r * r"],
            ["pi * k"]],
         "where", [
            ["pi : I == 3"],
            ["tau : I == 2 * pi"]]],
    ]),
    ("P08", [   # nested ifs, dangling else inside blocks
        ["classify ( a : I , b : I ) : I ==", [
            ["if a > 0 then", [
                ["if b > 0 then return 1"],
                ["if b < 0 then", [["return 2"]]]],
             "else", [
                ["if b > 0 then", [["return 3"]], "else", [["return 4"]]]]],
            ["0"]]],
    ]),
    ("P09", [   # loops with break / iterate, for with such-that
        ["search ( l : List I , t : I ) : I ==", [
            ["pos := 0"],
            ["for x in l for i in 1 .. repeat", [
                ["x < 0 => iterate"],
                ["if x = t then", [
                    ["pos := i"],
                    ["break"]]]]],
            ["pos"]]],
        ["sumodd ( n : I ) : I ==", [
            ["s := 0"],
            ["for i in 1 .. n | odd? i repeat s := s + i"],
            ["s"]]],
    ]),
    ("P10", [   # parametrised domain
        ["Pair ( S : BasicType , T : BasicType ) : with", [
            ["pair : ( S , T ) -> %"],
            ["first : % -> S"],
            ["second : % -> T"]],
         "== add", [
            ["Rep == Record ( a : S , b : T )"],
            ["import from Rep"],
            ["pair ( s : S , t : T ) : % == per [ s , t ]"],
            ["first ( p : % ) : S == rep ( p ) . a"],
            ["second ( p : % ) : T == rep ( p ) . b"]]],
    ]),
    ("P11", [   # macros, imports, top-level statements
        ["macro I == SingleInteger"],
        ["import from I , String"],
        ["n : I := 10"],
        ["m : I := if n > 5 then n - 5 else n + 5"],
        ["print << \"n=\" << n << newline"],
    ]),
    ("P12", [   # try / catch / finally
        ["safe ( f : I -> I , x : I ) : I ==", [
            ["try", [
                ["y := f x"],
                ["y + 1"]],
             "catch E in", [
                ["E has ZeroDivide => 0"],
                ["never"]],
             "finally", [
                ["count := count + 1"]]]]],
    ]),
    ("P13", [   # long argument lists, nested calls, strings, floats, dots
        ["report ( a : I , b : I , c : I , d : I ) : ( ) ==", [
            ["print << \"a\" << a << \"b\" << b << \"c\" << c << \"d\" << d << newline"],
            ["v := [ a , b , c , d ]"],
            ["w := v . 2 + v . 3 * 2.5 - f ( v . 1 , g ( a , b ) , 1.0e3 )"]]],
    ]),
    ("P14", [   # lambdas as arguments, collect
        ["squares ( n : I ) : List I == [ k * k for k in 1 .. n ]"],
        ["apply ( f : I -> I , l : List I ) : List I == [ f x for x in l ]"],
        ["r := apply ( ( z : I ) : I +->", [
            ["t := z + 1"],
            ["t * t"]],
         ", squares 5 )"],
    ]),
    ("P15", [   # union / case, select-like chains with =>
        ["U == Union ( i : I , s : String )"],
        ["show ( u : U ) : String ==", [
            ["u case i => \"int\""],
            ["u case s => u . s"],
            ["\"none\""]]],
    ]),
    ("P16", [   # extend, local functions, default args by where
        ["extend I : with", [
            ["double : % -> %"]],
         "== add", [
            ["double ( n : % ) : % == n + n"]]],
        ["local helper ( n : I ) : I ==", [
            ["n = 0 => 1"],
            ["2 * helper ( n - 1 )"]]],
    ]),
    ("P17", [   # deep nesting
        ["deep ( n : I ) : I ==", [
            ["while n > 0 repeat", [
                ["if n rem 2 = 0 then", [
                    ["for i in 1 .. n repeat", [
                        ["if i = 3 then", [
                            ["n := n - i"],
                            ["break"]]]]]],
                 "else", [
                    ["n := n - 1"]]]]],
            ["n"]]],
    ]),
    ("P18", [   # conditional expression values, assignments to tuples
        ["( q , r ) := divide ( a , b )"],
        ["z := if q > r then", [["q - r"]], "else", [["t := r - q"], ["t * t"]]],
        ["f ( x : I ) ( y : I ) : I == x + y"],
    ]),
    ("P19", [   # add with inheritance, has, pretend
        ["Wrap ( R : Ring ) : Ring with", [
            ["wrap : R -> %"],
            ["if R has Field then inv : % -> %"]],
         "== R add", [
            ["wrap ( r : R ) : % == r pretend %"],
            ["if R has Field then", [
                ["inv ( w : % ) : % == ( 1 / ( w pretend R ) ) pretend %"]]]]],
    ]),
    ("P20", [   # generator of closures inside where inside add
        ["Gens : with", [
            ["adders : I -> Generator ( I -> I )"]],
         "== add", [
            ["adders ( n : I ) : Generator ( I -> I ) == generate", [
                ["for i in 1 .. n repeat", [
                    ["yield mk i"]]]],
             "where", [
                ["mk ( k : I ) : I -> I == ( x : I ) : I +-> x + k"]]]]],
    ]),
]


def braced(block, top=True, ctx=""):
    """Plain braced text of a program (every block in braces) -- for a syntax check only."""
    out = []
    for st in block:
        s = []
        last = ""
        for it in st:
            if isinstance(it, str):
                s.append(it)
                last = it.split()[-1]
            else:
                s.append("{ " + braced(it, False) + " }")
        out.append(" ".join(s))
    return ";\n".join(out) if top else "; ".join(out)


if __name__ == "__main__":
    import os
    import subprocess
    import sys
    import tempfile
    aldor = sys.argv[1]
    d = tempfile.mkdtemp()
    for name, blk in PROGS:
        p = os.path.join(d, name + ".as")
        open(p, "w").write(braced(blk) + "\n")
        r = subprocess.run([aldor, "-Nfile=/repo/aldor/aldor/src/aldor.conf", "-Fap", p], cwd=d, stdout=subprocess.PIPE, stderr=subprocess.STDOUT)
        print(name, r.returncode, r.stdout.decode()[:600].replace("\n", " | ") if r.returncode else "")
