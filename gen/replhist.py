"""C13: programs, erroneous-form catalogue and history rendering for the interactive loop (spec/Repl.tla).

An abstract program of gen/progen.py is prepared for Repl.tla by
  * giving every output statement the marker prefix MARK (so that the text a program prints can be told from what the
    loop itself prints: banner, value echo, timings, diagnostics),
  * adding `forms`: its top-level forms in file order, each with the global names it defines and the global names /
    functions it reads (Repl.tla decides from these whether a form entered out of order is well-typed in the session),
  * adding `cat`: the erroneous forms TLC may interleave, and `maxbad`.
TLC (Repl.tla) enumerates the histories and exports each with the output the session must have produced; this module
renders a history as the text piped to `aldor -Gloop`.  Nothing here decides a verdict.
"""
import copy
import random

import progen
import render

MARK = "@@ "
READY = "@@READY"
END = "@@END"
BADMARK = "BAD:"       # printed only by erroneous forms: must never appear on the loop's output
KCONST = "kq9"         # a constant defined in the preamble, the target of the `assignment to a constant' form

# features of progen that are kept: everything except forms that end the program abnormally
FEATURES = [f for f in progen.ALL_FEATURES if f not in ("halt", "try")]

KINDS = ["undef", "argtype", "argcount", "asgconst", "rettype", "vartype", "syntax", "seqpartial", "noexport",
         "notincat", "condtype", "macroerr"]


# ---------------------------------------------------------------------------------------------------------
# preparation of a program

def _walk(x, f):
    if isinstance(x, dict):
        f(x)
        for v in x.values():
            _walk(v, f)
    elif isinstance(x, list):
        for v in x:
            _walk(v, f)


def add_markers(prog):
    """A copy of prog in which every output statement first prints MARK.  Returns None if some output statement
    does not print exactly one line (the marker discipline needs one line per statement)."""
    p = copy.deepcopy(prog)
    ok = [True]

    def f(x):
        if x.get("e") == "print":
            args = x["args"]
            if not args or args[-1].get("e") != "str" or not args[-1]["s"].endswith("\n"):
                ok[0] = False
            for a in args[:-1]:
                if a.get("e") == "str" and "\n" in a["s"]:
                    ok[0] = False
            if args and args[-1].get("e") == "str" and "\n" in args[-1]["s"][:-1]:
                ok[0] = False
            x["args"] = [{"e": "str", "s": MARK}] + args
        if x.get("e") == "error":
            ok[0] = False
    _walk(p["funs"], f)
    _walk(p["top"], f)
    return p if ok[0] else None


def form_table(prog):
    """The top-level forms in file order: {k: "f"|"t", i: 1-based index into funs/top, defs, uses, must}.
    `uses`: the global variables read and the functions called anywhere in the form (all must have a meaning for the
    form to be accepted).  `must`: the subset whose absence surely makes the form ill-typed: reads that are not inside a
    macro argument (a macro may drop an argument) of names the form does not assign itself (an assignment to an unknown
    name declares it).  Repl.tla offers a form as `entered too early' only if a name in `must` is undefined."""
    gnames = set(t["x"] for t in prog["top"] if t["d"] == "var")
    order = prog.get("order") or ([["f", i] for i in range(len(prog["funs"]))] + [["t", i] for i in range(len(prog["top"]))])
    out = []
    for kind, i in order:
        uses, must, assigned = set(), set(), set()

        def walk(x, inmac):
            if isinstance(x, dict):
                e = x.get("e")
                if e == "var" and x["x"] in gnames:
                    uses.add(x["x"])
                    if not inmac:
                        must.add(x["x"])
                if e == "asg":
                    assigned.add(x["x"])
                if e == "call":
                    n = prog["funs"][x["fi"] - 1]["name"]
                    uses.add(n)
                    if not inmac:
                        must.add(n)
                for v in x.values():
                    walk(v, inmac or e == "mac")
            elif isinstance(x, list):
                for v in x:
                    walk(v, inmac)
        if kind == "f":
            fn = prog["funs"][i]
            walk(fn["body"], False)
            uses.discard(fn["name"])
            must.discard(fn["name"])
            defs = [fn["name"]]
            rec = {"k": "f", "i": i + 1}
        else:
            t = prog["top"][i]
            walk(t["init"] if t["d"] == "var" else t["x"], False)
            defs = [t["x"]] if t["d"] == "var" else []
            rec = {"k": "t", "i": i + 1}
        rec.update({"defs": defs, "uses": sorted(uses), "must": sorted(must - assigned)})
        out.append(rec)
    return out


def catalogue(prog, forms, rng, ncat=None, force=()):
    """The erroneous forms offered for this program: [{c: kind, sh: 0 | form number}].  `sh` > 0: the form tries to
    define the very name that program form `sh` defines (with an ill-typed right-hand side), so that a definition
    that is not rolled back completely collides with the program's own definition."""
    ents = [{"c": k, "sh": 0} for k in KINDS]
    for j, fm in enumerate(forms):
        if fm["k"] == "f":
            ents.append({"c": "rettype", "sh": j + 1})
        elif fm["defs"]:
            ents.append({"c": "vartype", "sh": j + 1})
    if ncat is None or ncat >= len(ents):
        return ents
    chosen = []
    for want in force:
        c = [e for e in ents if e not in chosen and (e["c"] == want or (want == "shadow" and e["sh"] > 0))]
        if c:
            chosen.append(rng.choice(c))
    rest = [e for e in ents if e not in chosen]
    rng.shuffle(rest)
    chosen += rest[:max(0, ncat - len(chosen))]
    return chosen


def prepare(prog, rng, maxbad=1, ncat=None, force=()):
    p = add_markers(prog)
    if p is None:
        return None
    p["forms"] = form_table(p)
    p["cat"] = catalogue(p, p["forms"], rng, ncat, force)
    p["maxbad"] = maxbad
    return p


def small_programs(seed, n, maxforms=6, minforms=3, features=None):
    """n generated programs with at most maxforms top-level forms (function definitions included)."""
    out = []
    k = 0
    while len(out) < n and k < 200 * n + 1000:
        r = random.Random(seed * 7919 + k)
        feats = features if features is not None else [f for f in FEATURES if r.random() < 0.55]
        g = progen.ProgGen(seed * 100003 + k, features=feats, size=r.choice([1, 2, 2, 3, 3, 4]))
        p = g.program("r%d_%d" % (seed, k))
        k += 1
        nf = len(p["funs"]) + len(p["top"])
        if minforms <= nf <= maxforms:
            out.append(p)
    return out


# ---------------------------------------------------------------------------------------------------------
# rendering

def _tname(t):
    return render.tname(t)


def _other_type(t):
    """A type different from t together with a right-hand side that has neither type."""
    if t == "str":
        return "SI", '"s"'
    return "String", "5@SI"


def bad_text(prog, ent):
    """The text of a catalogue form (one line).  Every one of them is ill-formed in every session state."""
    c, sh = ent["c"], ent.get("sh", 0)
    if c == "undef":
        return 'print << "%s" << zz9q << newline;' % BADMARK
    if c == "argtype":
        return 'print << "%s" << (1@SI + "s") << newline;' % BADMARK
    if c == "argcount":
        return 'print << "%s" << odd?(1@SI, 2@SI) << newline;' % BADMARK
    if c == "asgconst":
        return "%s := 8@SI;" % KCONST
    if c == "condtype":
        return 'print << "%s" << (if 3@SI then 1@SI else 2@SI) << newline;' % BADMARK
    if c == "syntax":
        return "zz9q := := 3@SI;"
    if c == "macroerr":
        return 'print << "%s" << ("a"::SI) << newline;' % BADMARK
    if c == "seqpartial":
        return '{ print << "%sa" << newline; print << "%s" << zz9q << newline };' % (BADMARK, BADMARK)
    if c == "noexport":
        return "DQ9: with { foo: SI -> SI } == add { bar(x: SI): SI == x };"
    if c == "notincat":
        return 'print << "%s" << (bar(3@SI)$SI) << newline;' % BADMARK
    if c == "rettype":
        if sh:
            f = prog["funs"][prog["forms"][sh - 1]["i"] - 1]
            ps = ", ".join("%s: %s" % (a, _tname(t)) for a, t in zip(f["ps"], f["pts"]))
            rt = f["rt"]
            body = '"s"' if rt != "str" else "5@SI"
            return "%s(%s): %s == { %s }" % (f["name"], ps, _tname(rt), body)
        return "hq9(a: SI): String == { a + 1@SI }"
    if c == "vartype":
        if sh:
            t = prog["top"][prog["forms"][sh - 1]["i"] - 1]
            ty, rhs = _other_type(t["t"])
            return "%s: %s := %s;" % (t["x"], ty, rhs)
        return "vq9: String := 5@SI;"
    raise ValueError(c)


def preamble(prog, verbose):
    pre, _ = render.render_forms(prog)
    out = []
    if not verbose:
        out.append("#int verbose off")
    out += pre
    if verbose:
        # the value echo of the loop writes to `stdout', which axllib does not define
        out += ["import from TextWriter;", "stdout: TextWriter == print;"]
    out.append("%s: SI == 7@SI;" % KCONST)
    return out


def _scan(text):
    """[(index, char, depth)] for the characters of text that are outside string literals; depth counts ( { [."""
    out = []
    depth = 0
    instr = False
    esc = False
    for i, ch in enumerate(text):
        if esc:
            esc = False
            continue
        if ch == "_":
            esc = True
            continue
        if instr:
            if ch == '"':
                instr = False
            continue
        if ch == '"':
            instr = True
            continue
        if ch in ")}]":
            depth -= 1
        out.append((i, ch, depth))
        if ch in "({[":
            depth += 1
    return out


def _brace_group(text):
    """The last top-level { ... } group of a form if only `;' or nothing follows it: (open index, close index)."""
    sc = _scan(text)
    close = [i for (i, ch, d) in sc if ch == "}" and d == 0]
    if not close or text[close[-1] + 1:].strip() not in ("", ";"):
        return None
    c = close[-1]
    opens = [i for (i, ch, d) in sc if ch == "{" and d == 0 and i < c]
    return (opens[-1], c) if opens else None


def _items(text, o, c):
    """The statements of the brace group text[o..c], split at its own semicolons."""
    cuts = [i for (i, ch, d) in _scan(text) if ch == ";" and d == 1 and o < i < c]
    parts, last = [], o + 1
    for i in cuts + [c]:
        parts.append(text[last:i].strip())
        last = i + 1
    return [p for p in parts if p]


def form_lines(text, layout, rng=None):
    """One form as the lines typed into the loop (the loop reads until scanIsContinued says the form is complete, and
    treats what it read as a pile).  Layouts:
      line    the form on one line
      braces  the last top-level { } group opened at the end of the first line, one statement per line, closed on a
              line of its own (continuation by unmatched braces)
      piled   a function definition as a pile: `head ==', the statements indented, closed by a comment line in column 1
              (continuation by `==' at the end of the line: every following indented line belongs to the form, the first
              line that is not indented ends it and is read with it)
      paren   a line break after the first opening parenthesis (continuation by unmatched parentheses)
    A layout that does not apply to the form gives the one-line form."""
    if layout == "line":
        return [text]
    if layout in ("braces", "piled"):
        g = _brace_group(text)
        if g is None:
            return [text]
        o, c = g
        items = _items(text, o, c)
        if not items:
            return [text]
        if layout == "braces":
            return [text[:o + 1]] + ["        " + it + (";" if n < len(items) - 1 else "") for n, it in enumerate(items)] + [text[c:]]
        head = text[:o].rstrip()
        if not head.endswith("==") or text[c + 1:].strip():
            return [text]
        return [head] + ["        " + it for it in items] + ["-- end"]
    if layout == "paren":
        sc = _scan(text)
        opens = [i for (i, ch, d) in sc if ch == "(" and d == 0]
        # not the parameter list of a definition, and not inside the first token
        for i in opens:
            if i > 8 and "==" not in text[i:] and text[i + 1:].strip():
                return [text[:i + 1], "      " + text[i + 1:]]
        return [text]
    raise ValueError(layout)


def render_history(prog, hist, verbose=False, layout="line"):
    """Returns (text, steps, ends): the text piped to the loop; per history item {"k", "first", "last"} (line numbers);
    and the line numbers at which the loop must take a step (every preamble line, the sentinels, the last line of
    every form)."""
    _, texts = render.render_forms(prog)
    lines = []
    for l in preamble(prog, verbose):
        lines += l.split("\n")
    lines.append('print << "%s" << newline;' % READY)
    ends = list(range(1, len(lines) + 1))
    steps = []
    for it in hist:
        if it["k"] in ("ok", "pre"):
            fl = form_lines(texts[it["j"] - 1][2], layout)
        else:
            fl = form_lines(bad_text(prog, prog["cat"][it["j"] - 1]), layout)
        steps.append({"k": it["k"], "first": len(lines) + 1, "last": len(lines) + len(fl)})
        lines += fl
        ends.append(len(lines))
    lines.append('print << "%s" << newline;' % END)
    ends.append(len(lines))
    return "\n".join(lines) + "\n", steps, ends


def lines_record(rid, text, ends, real=None):
    """A record for spec/ReplLines.tla: the lines as character codes (each with its newline)."""
    ls = text.split("\n")
    if ls and ls[-1] == "":
        ls.pop()
    rec = {"id": rid, "lines": [[ord(c) if ord(c) < 256 else 63 for c in l] + [10] for l in ls], "ends": list(ends)}
    if real is not None:
        rec["real"] = list(real)
    return rec


def harness_input(texts):
    """The input of harness/repl_cont.c for a list of session texts."""
    out = []
    for t in texts:
        ls = t.split("\n")
        if ls and ls[-1] == "":
            ls.pop()
        out.append("R %d\n" % len(ls) + "".join(l + "\n" for l in ls))
    return "".join(out)


SHAPES = {
    "stmt":      ['print << "a;b" << (x + 1) << newline;'],
    "def":       ["f(a: SI): SI == { a + 1 }"],
    "defbrace":  ["f(a: SI): SI == {", "        free g;", '        print << "}" << a;', "        a + 1", "}"],
    "defpile":   ["f(a: SI): SI ==", "        free g", "        a + 1", "-- end"],
    "paren":     ["print << (a +", "      (b * c)) << newline;"],
    "brace":     ["for i in 1..2 repeat {", "        g := g + i;", "        g := g * 2", "};"],
    "comment":   ["-- a note; not code"],
    "direct":    ["#int verbose off"],
    "macro":     ["SI ==> SingleInteger;"],
    "noend":     ["g := g + 1"],
    "strparen":  ['print << "(" << "_"{" << newline;'],
}


def shape_sequences(maxlen=3):
    """All sequences of at most maxlen forms over the layout shapes: the small exhaustive family of ReplLines.tla."""
    import itertools
    recs = []
    names = sorted(SHAPES)
    for n in range(1, maxlen + 1):
        for seq in itertools.product(names, repeat=n):
            lines, ends = [], []
            for nm in seq:
                lines += SHAPES[nm]
                ends.append(len(lines))
            recs.append(("+".join(seq), "\n".join(lines) + "\n", ends))
    return recs


def batch_text(prog):
    """The whole program as one file (same preamble as the session, except the loop command)."""
    pre, texts = render.render_forms(prog)
    return "\n".join(pre + ["%s: SI == 7@SI;" % KCONST] + [t for (_, _, t) in texts]) + "\n"


# ---------------------------------------------------------------------------------------------------------
# reading what the loop printed

import re

_TIMING = re.compile(r"^\s+Comp: \d+ msec, Interp: \d+ msec\s*$")
_GROUP1 = re.compile(r"#1 \((Error|Fatal Error|Warning|Remark|Note)\)")
_ERR = re.compile(r"\((Fatal )?Error\)")


def loop_tokens(stdout):
    """Project the loop's standard output on what the property speaks about:
       ("M", line)  a line printed by the program (marker prefix), in order
       ("G",)       one rejected step: a batch of diagnostics with at least one error.  The messages of one step are
                    numbered from 1 (and listed in source order), so between two other tokens there are as many
                    rejected steps as messages numbered 1
       ("T",)       the loop's own `step evaluated' line (timings), when it prints them
    Only the part between the READY and END sentinels is returned, plus flags."""
    toks = []
    flags = {"ready": False, "end": False, "bad": False, "fault": False, "timing": False}
    gap = {"n1": 0, "nerr": 0}
    skip_t = False

    def close():
        if flags["ready"] and not flags["end"] and gap["nerr"] > 0:
            for _ in range(max(1, gap["n1"])):
                toks.append(("G",))
        gap["n1"] = gap["nerr"] = 0
    for line in stdout.split("\n"):
        if "Program fault" in line or "Bug:" in line or "Unhandled Exception" in line:
            flags["fault"] = True
        if line.startswith(BADMARK):       # text that only an erroneous form could have printed
            flags["bad"] = True
        i = line.find(MARK.rstrip())
        if i >= 0 and (line[i:].startswith(READY) or line[i:].startswith(END)):
            close()
            if line[i:].startswith(READY):
                flags["ready"] = True
                del toks[:]
                skip_t = True          # the sentinel's own `step evaluated' line follows it
            else:
                flags["end"] = True
            continue
        if not flags["ready"] or flags["end"]:
            continue
        if _TIMING.match(line):
            close()
            flags["timing"] = True
            if skip_t:
                skip_t = False
            else:
                toks.append(("T",))
            continue
        if _GROUP1.search(line):
            gap["n1"] += 1
        if _ERR.search(line):
            gap["nerr"] += 1
            continue
        j = line.find(MARK)
        if j >= 0:
            close()
            toks.append(("M", line[j:]))
    close()
    return toks, flags


def expected_tokens(hist, out_atoms, with_timing=True):
    """The same projection of what Repl.tla says the session prints for this history."""
    toks = []
    for n, it in enumerate(hist):
        if it["k"] != "ok":
            toks.append(("G",))
            continue
        nxt = None
        for it2 in hist[n + 1:]:
            if it2["k"] == "ok":
                nxt = it2["o0"]
                break
        seg = out_atoms[it["o0"]:nxt] if nxt is not None else out_atoms[it["o0"]:]
        text = render.expected_text(seg)
        if text:
            if not text.endswith("\n"):
                raise ValueError("a form's output is not a sequence of whole lines")
            for l in text[:-1].split("\n"):
                toks.append(("M", l))
        if with_timing:
            toks.append(("T",))
    return toks


def history_shapes(prog, hist):
    """Syntactic shape predicates of a history, used in known-finding keys."""
    shapes = set()

    def declares(it):
        if it["k"] == "pre":
            return True        # any form of the program may declare names (definitions, implicit declarations by assignment)
        if it["k"] == "bad":
            e = prog["cat"][it["j"] - 1]
            return e["c"] in ("vartype", "rettype", "noexport")
        return False

    def presco(it):
        return it["k"] == "bad" and prog["cat"][it["j"] - 1]["c"] in ("syntax", "macroerr")
    for a, b in zip(hist, hist[1:]):
        if a["k"] != "ok" and b["k"] != "ok":
            shapes.add("two-rejected-adjacent")
            if declares(a) and presco(b):
                shapes.add("declaring-error-then-parse-error")
    entered = set()
    for it in hist:
        if it["k"] == "ok":
            entered.add(it["j"])
        elif it["k"] == "bad":
            e = prog["cat"][it["j"] - 1]
            shapes.add("bad:" + e["c"] + ("+shadow" if e.get("sh") else ""))
            if e["c"] == "rettype":
                shapes.add("rejected-function-definition")
            if e.get("sh") and e["sh"] in entered:
                shapes.add("redeclares-defined-name")
        elif it["k"] == "pre":
            fm = prog["forms"][it["j"] - 1]
            shapes.add("pre:" + ("fun" if fm["k"] == "f" else ("var" if fm["defs"] else "stmt")))
            if fm["k"] == "f":
                shapes.add("rejected-function-definition")
    return sorted(shapes)
