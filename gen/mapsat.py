"""Rendering of the cases of spec/MapSat.tla (function values with domain parameters).  Purely syntactic: the verdict of a
case is TLC's."""


def render(case, ncat):
    formal, actual = case["formal"], case["actual"]
    s = '#include "axllib"\nimport from Integer, SingleInteger;\n'
    s += 'define K1: Category == with { a1: () -> Integer };\n'
    for k in range(2, ncat + 1):
        s += 'define K%d: Category == K%d with { a%d: () -> Integer };\n' % (k, k - 1, k)
    s += 'DN: K%d == add { %s };\n' % (ncat, "; ".join("a%d(): Integer == %d" % (k, k) for k in range(1, ncat + 1)))
    fp = ", ".join("R%d: K%d" % (i, c) for i, c in enumerate(formal["ps"]))
    s += 'use(f: (%s) -> %s): %s == f(%s);\n' % (fp, formal["ret"], formal["ret"], ", ".join(["DN"] * len(formal["ps"])))
    ap = ", ".join("T%d: K%d" % (i, c) for i, c in enumerate(actual["ps"]))
    body = " + ".join("a%d()$T%d" % (c, i) for i, c in enumerate(actual["ps"])) or "0@Integer"
    if actual["ret"] == "SingleInteger":
        body = "{ v: Integer := %s; 5@SingleInteger }" % body
    s += 'fn(%s): %s == %s;\n' % (ap, actual["ret"], body)
    s += 'print << use(fn) << newline;\n'
    return s
