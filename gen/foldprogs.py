"""Constant expressions (C02): every integer / comparison / parity operation of the abstract language applied to boundary
literals, printed one per statement.  With all optimisation off the operations run in the library; from -Q2 on they are inlined
and the constant folder evaluates them at compile time: every level must print what AldorSem.tla computes."""
import random
from progen import lit, prim, SI, BI

SI_VALS = [0, 1, -1, 2, -2, 3, -3, 7, -7, 8, -8, 255, -256, 2**31 - 1, -2**31, 2**31, 2**32 + 1, -(2**32) - 1, 2**62, -(2**62) - 1,
           2**63 - 1, -(2**63) + 1]       # (the literal 2^63 does not fit SingleInteger, so -2^63 cannot be written as a literal)
BI_VALS = [0, 1, -1, 2, -3, 7, -7, 2**31, -(2**31) - 1, 2**62 - 1, 2**62, -(2**62), 2**63, -(2**63) - 1, 2**64 + 1, -(10**20), 10**30 + 7]


def _flag(e):
    return {"e": "if", "c": e, "a": lit(SI, 1), "b": lit(SI, 0), "t": SI}


def exprs():
    """(unary expressions, binary expressions)"""
    un, bi = [], []
    for ty, vals in (("si", SI_VALS), ("bi", BI_VALS)):
        T = SI if ty == "si" else BI
        for a in vals:
            un.append(prim("%s.neg" % ty, lit(T, a)))
            for op in ("odd", "even", "zero"):
                un.append(_flag(prim("%s.%s" % (ty, op), lit(T, a))))
            for b in vals:
                for op in ("add", "sub", "mul"):
                    bi.append(prim("%s.%s" % (ty, op), lit(T, a), lit(T, b)))
                if ty == "si":
                    for op in ("and", "or", "xor"):
                        bi.append(prim("si." + op, lit(T, a), lit(T, b)))
                if b != 0 and not (ty == "si" and a == -(2**63) and b == -1):
                    for op in ("quo", "rem"):
                        bi.append(prim("%s.%s" % (ty, op), lit(T, a), lit(T, b)))
                if b > 0:
                    bi.append(prim("%s.mod" % ty, lit(T, a), lit(T, b)))
                for op in ("lt", "le", "gt", "ge", "eq", "ne"):
                    bi.append(_flag(prim("%s.%s" % (ty, op), lit(T, a), lit(T, b))))
    return un, bi


def _program(pid, part, seed, per_fun=40):
    # the expressions stand in functions (conditional expressions at file level run into the open front-end findings)
    funs, top = [], []
    for k in range(0, len(part), per_fun):
        es = [{"e": "print", "args": [e, {"e": "str", "s": " " if (j + 1) % 10 else "\n"}]} for j, e in enumerate(part[k:k + per_fun])]
        es.append(lit(SI, 0))
        name = "c%d" % (k // per_fun)
        funs.append({"name": name, "oname": name, "ps": [], "pts": [], "rt": SI, "pure": False, "body": {"e": "seq", "t": SI, "es": es}})
        top.append({"d": "stmt", "x": {"e": "call", "fi": len(funs), "args": []}})
    top.append({"d": "stmt", "x": {"e": "print", "args": [{"e": "str", "s": "\n"}]}})
    return {"id": pid, "funs": funs, "top": top, "recs": [], "uns": [], "feat": ["fold"], "seed": seed}


def programs(seed, nbinary, per_prog=120):
    """All unary expressions (always) and `nbinary` programs of seeded binary ones (None: all of them)."""
    rnd = random.Random(seed)
    un, bi = exprs()
    rnd.shuffle(bi)
    progs = [_program("foldu%d_%d" % (seed, k // per_prog), un[k:k + per_prog], seed) for k in range(0, len(un), per_prog)]
    nb = (len(bi) + per_prog - 1) // per_prog if nbinary is None else nbinary
    for k in range(nb):
        part = bi[k * per_prog:(k + 1) * per_prog]
        if part:
            progs.append(_program("foldb%d_%d" % (seed, k), part, seed))
    return progs
