"""C05 binding, class `wide indices': units whose FOAM reaches index / count values beyond one byte.

The byte codec of FOAM (foam.c: foamTagFormat, foamToBuffer, foamFrBuffer, foamFrBuffer0; spec/FoamCodec.tla)
writes an index or a count into the tag byte (0..2), into one byte (..255) or into four bytes.  Every field kind
of spec/FoamCodec.tla that a source program can drive beyond 255 has a generator here.  Most generators build an
ABSTRACT program (gen/progen.py syntax) so that the expected output comes from TLC (spec/AldorSem.tla); the kinds
the abstract language cannot express (state variables of a domain, multiple values, parameter lists, ...)
are given as Aldor text and are judged by equality between the arrangements only (text_units()).

measure(fm_text) reads the FOAM text generated directly from the source and reports, per field kind of
FoamCodec.tla, the largest value that occurs: the trace records it and TLC (TraceUnits.tla, event Reach) accepts
the program as a witness for the field kind only if the value is beyond the boundary.
"""
import re

from progen import lit, prim, var, SI, BI, STR, UNIT, BOOL

NL = {"e": "str", "s": "\n"}
SP = {"e": "str", "s": " "}


def _pr(*a):
    return {"e": "print", "args": list(a) + [NL]}


def _prog(pid, funs, top, order=None, recs=(), **kw):
    p = {"id": pid, "funs": funs, "top": top, "recs": list(recs), "uns": [], "feat": ["fixed", "wide"], "seed": 0,
         "order": order or ([["f", i] for i in range(len(funs))] + [["t", i] for i in range(len(top))])}
    p.update(kw)
    return p


def _fun(name, ps, pts, rt, body, pure=False):
    return {"name": name, "ps": ps, "pts": pts, "rt": rt, "body": body, "pure": pure}


def _acc(names, acc="s"):
    """statements acc := acc + x for every name (a flat sequence: the JSON reader of TLC nests at most 255 deep)"""
    return [{"e": "asg", "x": acc, "v": prim("si.add", var(acc), var(x))} for x in names]


# ---- abstract generators: kind -> program with n items ---------------------------------------------------------

def g_loc(n, pid):
    """one function with n loop variables (locals), each assigned and read: Loc i, a Seq of more than n statements,
    a DDecl of more than n locals.  (Locals of the abstract language are `let' chains or loop variables; a chain of
    n lets cannot be written as JSON, n loops in a row can.)"""
    names = ["l%d" % i for i in range(n)]
    es = []
    for i, x in enumerate(names):
        c = prim("si.add", var("xp"), lit(SI, 3 * i + 1))
        # the last loops show their variable, so that a confusion of index i with i mod 256 changes the output
        body = [{"e": "asg", "x": "s", "v": prim("si.add", var("s"), var(x))}]
        if i >= n - 3 or i in (0, 255, 256, 257):
            body.append(_pr(var(x), SP, var("s")))
        es.append({"e": "for", "x": x, "lo": c, "hi": c, "body": {"e": "seq", "t": UNIT, "es": body}})
    body = {"e": "let", "x": "s", "t": SI, "v": lit(SI, 0), "body": {"e": "seq", "t": SI, "es": es + [var("s")]}}
    f = _fun("wh", ["xp"], [SI], SI, body)
    return _prog(pid, [f], [{"d": "stmt", "x": _pr({"e": "call", "fi": 1, "args": [lit(SI, 5)]})}])


def g_glo(n, pid):
    """n file-level variables and n file-level functions, each function reads and writes `its' variable
    (Lex 0 i of the file level, Const i, Glo i, DDef / DDecl counts)"""
    top, funs, order = [], [], []
    for i in range(n):
        top.append({"d": "var", "x": "v%d" % i, "t": SI, "init": lit(SI, 7 * i + 2)})
        order.append(["t", i])
    for i in range(n):
        body = {"e": "seq", "t": SI, "es": [{"e": "asg", "x": "v%d" % i, "v": prim("si.add", var("v%d" % i), var("xp"))}, var("v%d" % i)]}
        funs.append(_fun("g%d" % i, ["xp"], [SI], SI, body))
        order.append(["f", i])
    ks = sorted(set([0, 1, 2, 3, n - 1, n - 2, n - 3] + ([254, 255, 256, 257, 258, k256(n)] if n > 258 else [])))
    for k in ks:
        if 0 <= k < n:
            # one statement per observation: the call assigns the variable, so the order of the operands of one
            # print would matter
            top.append({"d": "stmt", "x": _pr({"e": "call", "fi": k + 1, "args": [lit(SI, k)]})})
            order.append(["t", len(top) - 1])
            top.append({"d": "stmt", "x": _pr(var("v%d" % k), SP, var("v%d" % (k % 256)))})
            order.append(["t", len(top) - 1])
    return _prog(pid, funs, top, order)


def k256(n):
    return n - 1 - 256 if n - 1 >= 256 else 0


def g_rec(n, pid):
    """one record type with n fields (RElt fmt e i, DDecl of n fields, RNew)"""
    rec = [SI] * n
    top = [{"d": "var", "x": "r", "t": ["rec", 0], "init": {"e": "mkrec", "t": ["rec", 0], "args": [lit(SI, 11 * i + 3) for i in range(n)]}}]
    for k in sorted(set([1, 2, 3, 255, 256, 257, 258, n - 1, n])):
        if 1 <= k <= n:
            top.append({"d": "stmt", "x": {"e": "rset", "r": var("r"), "i": k, "v": prim("si.add", {"e": "rget", "r": var("r"), "i": k, "rt": 0},
                                                                                      lit(SI, 100000 + k)), "rt": 0}})
    shown = sorted(set([1, 2, 3, 4, n - 1, n, n - 256 if n > 256 else 1, n - 255 if n > 256 else 1, 255, 256, 257]))
    top.append({"d": "stmt", "x": _pr(*sum([[{"e": "rget", "r": var("r"), "i": k, "rt": 0}, SP] for k in shown if 1 <= k <= n], [])[:-1])})
    return _prog(pid, [], top, recs=[rec])


def _rtypes(n):
    """n pairwise different record field-type lists"""
    base = [SI, BI, BOOL, STR]
    out = []
    k = 0
    while len(out) < n:
        ds = []
        m = k
        for _ in range(5):
            ds.append(base[m % 4])
            m //= 4
        out.append([SI] + ds)
        k += 1
    return out


def _default(t, i):
    if t == SI:
        return lit(SI, i)
    if t == BI:
        return lit(BI, 10 ** 12 + i)
    if t == BOOL:
        return {"e": "bool", "b": bool(i % 2)}
    return {"e": "str", "s": "s%d" % i}


def g_fmt(n, pid):
    """n distinct record types, one variable of each (format numbers beyond 255: RNew f, RElt f e i, Decl .. f, DFmt count)"""
    recs = _rtypes(n)
    top = []
    for i, r in enumerate(recs):
        top.append({"d": "var", "x": "r%d" % i, "t": ["rec", i], "init": {"e": "mkrec", "t": ["rec", i],
                                                                           "args": [_default(t, 13 * i + j) for j, t in enumerate(r)]}})
    shown = sorted(set([0, 1, n - 1, n - 2, n - 3, 250, 253, 254, 255, 256, 257]))
    for k in shown:
        if 0 <= k < n:
            top.append({"d": "stmt", "x": {"e": "rset", "r": var("r%d" % k), "i": 1, "v": prim("si.add", {"e": "rget", "r": var("r%d" % k), "i": 1, "rt": k},
                                                                                                lit(SI, 5000)), "rt": k}})
    top.append({"d": "stmt", "x": _pr(*sum([[{"e": "rget", "r": var("r%d" % k), "i": 1, "rt": k}, SP] for k in shown if 0 <= k < n], [])[:-1])})
    return _prog(pid, [], top, recs=recs)


def g_clos(n, pid):
    """a function whose n parameters are captured (read and assigned) by a closure: a lexical level of n variables
    (Lex 0 i in the closure and in the function, DDecl of n lexicals, the DEnv of the closure)"""
    names = ["c%d" % i for i in range(n)]
    shown = sorted(set([0, 1, 2, n - 1, n - 2, n - 257 if n > 257 else 0, n - 256 if n > 256 else 0]))
    lam_body = {"e": "let", "x": "t", "t": SI, "v": lit(SI, 0), "body":
                {"e": "seq", "t": SI, "es": [{"e": "asg", "x": x, "v": prim("si.add", var(x), var("q"))} for x in names] +
                 _acc(names, "t") + [var("t")]}}
    lam = {"e": "lam", "ps": ["q"], "pts": [SI], "rt": SI, "body": lam_body}
    body = {"e": "let", "x": "k", "t": ["fn", [SI], SI], "v": lam, "body":
            {"e": "seq", "t": SI, "es": [_pr({"e": "callv", "f": var("k"), "args": [lit(SI, 1)]}),
                                         _pr(*sum([[var(names[i]), SP] for i in shown], [])[:-1]),
                                         {"e": "callv", "f": var("k"), "args": [lit(SI, 2)]}]}}
    f = _fun("wc", names, [SI] * n, SI, body)
    return _prog(pid, [f], [{"d": "stmt", "x": _pr({"e": "call", "fi": 1, "args": [lit(SI, 5 * i + 2) for i in range(n)]})}])


def g_label(n, pid):
    """a function with n conditional statements (more than n labels: Label i, Goto / If targets, the label count of Prog)"""
    es = []
    for i in range(n):
        c = prim("si.eq", prim("si.mod", prim("si.add", var("xp"), lit(SI, i)), lit(SI, 3)), lit(SI, 0))
        es.append({"e": "if", "c": c, "a": {"e": "asg", "x": "s", "v": prim("si.add", var("s"), lit(SI, i))},
                   "b": {"e": "asg", "x": "s", "v": prim("si.sub", var("s"), lit(SI, 1))}, "t": UNIT})
    body = {"e": "let", "x": "s", "t": SI, "v": lit(SI, 0), "body": {"e": "seq", "t": SI, "es": es + [var("s")]}}
    f = _fun("wl", ["xp"], [SI], SI, body)
    return _prog(pid, [f], [{"d": "stmt", "x": _pr({"e": "call", "fi": 1, "args": [lit(SI, 1)]}, SP, {"e": "call", "fi": 1, "args": [lit(SI, 2)]})}])


def g_par(n, pid):
    """a function of n parameters (Par i, DDecl of n parameters, a call with n arguments)"""
    ps = ["a%d" % i for i in range(n)]
    shown = sorted(set([0, 1, 2, n - 1, n - 2, n - 257 if n > 257 else 0, n - 256 if n > 256 else 0]))
    body = {"e": "let", "x": "s", "t": SI, "v": lit(SI, 0), "body":
            {"e": "seq", "t": SI, "es": [_pr(*sum([[var(ps[i]), SP] for i in shown], [])[:-1])] + _acc(ps) + [var("s")]}}
    f = _fun("wp", ps, [SI] * n, SI, body)
    return _prog(pid, [f], [{"d": "stmt", "x": _pr({"e": "call", "fi": 1, "args": [lit(SI, 17 * i + 1) for i in range(n)]})}])


def g_str(n, pid):
    """string literals of n characters (Arr Char of n elements) and an identifier of n characters is not expressible
    here: see text_units"""
    s1 = "".join(chr(97 + (7 * i) % 26) for i in range(n))
    s2 = "".join(chr(65 + (5 * i) % 26) for i in range(n + 1))
    f = _fun("ws", ["xp"], [SI], STR, {"e": "if", "c": prim("si.gt", var("xp"), lit(SI, 0)), "a": {"e": "str", "s": s1},
                                       "b": {"e": "str", "s": s2}, "t": STR}, pure=True)
    return _prog(pid, [f], [{"d": "stmt", "x": _pr({"e": "call", "fi": 1, "args": [lit(SI, 1)]})},
                            {"d": "stmt", "x": _pr({"e": "call", "fi": 1, "args": [lit(SI, 0)]})},
                            {"d": "stmt", "x": _pr({"e": "str", "s": s2[::-1]})}])


ABSTRACT = {"loc": g_loc, "glo": g_glo, "rec": g_rec, "fmt": g_fmt, "clos": g_clos, "label": g_label, "par": g_par, "str": g_str}


# ---- text units (no expected output from the language oracle: equality between arrangements only) --------------

def t_domlex(n):
    """a package with n state variables (a lexical level of the `add' body with more than n entries)"""
    o = ['#include "axllib"', "import from SingleInteger;",
         "WBank: with { deposit: (SingleInteger, SingleInteger) -> SingleInteger; total: () -> SingleInteger; peek: SingleInteger -> SingleInteger } == add {"]
    for i in range(n):
        o.append("  v%d: SingleInteger := %d;" % (i, i + 1))
    o.append("  deposit(k: SingleInteger, a: SingleInteger): SingleInteger == {")
    o.append("    free %s;" % ", ".join("v%d" % i for i in sorted(set([3, n - 1, n - 2, n - 257 if n > 257 else 0]))))
    for i in sorted(set([3, n - 1, n - 2, n - 257 if n > 257 else 0])):
        o.append("    if k = %d then { v%d := v%d + a; return v%d };" % (i, i, i, i))
    o.append("    0 }")
    o.append("  peek(k: SingleInteger): SingleInteger == {")
    for i in sorted(set([0, 3, 255, 256, 257, n - 1, n - 2, n - 257 if n > 257 else 0])):
        if i < n:
            o.append("    if k = %d then return v%d;" % (i, i))
    o.append("    -1 }")
    o.append("  total(): SingleInteger == %s;" % " + ".join("v%d" % i for i in range(n)))
    o.append("}")
    o.append("import from WBank;")
    for i in sorted(set([3, n - 1, n - 2, n - 257 if n > 257 else 0])):
        o.append("print << deposit(%d, %d) << \" \" << peek(%d) << \" \" << peek(%d) << newline;" % (i, 1000 + i, i, i % 256))
    o.append("print << total() << newline;")
    return "\n".join(o) + "\n"


def t_multi(n):
    """functions that return several values, declared after n record types: the format of their value lists lies
    beyond 255 (the format field of Prog, MFmt f, Values)"""
    recs = _rtypes(n)
    names = {SI: "SingleInteger", BI: "Integer", BOOL: "Boolean", STR: "String"}
    o = ['#include "axllib"', "import from SingleInteger, Integer, Boolean, String;"]
    for i, r in enumerate(recs):
        o.append("R%d ==> Record(%s);" % (i, ", ".join("f%d: %s" % (j, names[t]) for j, t in enumerate(r))))
    for i, r in enumerate(recs):
        vals = []
        for j, t in enumerate(r):
            vals.append({SI: "%d" % (i + j), BI: "%d" % (10 ** 12 + i), BOOL: "true" if i % 2 else "false", STR: '"s%d"' % i}[t])
        o.append("r%d: R%d := [%s];" % (i, i, ", ".join(vals)))
    o.append("two(x: SingleInteger): (SingleInteger, SingleInteger) == (x + 1, x + 2);")
    o.append("three(x: SingleInteger): (SingleInteger, Integer, SingleInteger) == (x + 1, 7, x + 3);")
    o.append("(a, b) := two(5);")
    o.append("(c, d, e) := three(8);")
    o.append("print << a << \" \" << b << \" \" << c << \" \" << d << \" \" << e << newline;")
    o.append("print << %s << newline;" % ' << " " << '.join("r%d.f0" % i for i in sorted(set([0, 1, n - 1, n - 2, 255, 256, 257])) if i < n))
    return "\n".join(o) + "\n"


def t_name(n):
    """identifiers of n and n+1 characters (the string of Decl / GDecl is longer than 255)"""
    a = "w" + "".join(chr(97 + (3 * i) % 26) for i in range(n - 1))
    b = "x" + "".join(chr(97 + (5 * i) % 26) for i in range(n))
    o = ['#include "axllib"', "import from SingleInteger;",
         "%s: SingleInteger := 41;" % a,
         "%s(q: SingleInteger): SingleInteger == { %s := %s + q; %s * 2 }" % (b, a, a, a),
         "print << %s(1) << \" \" << %s << newline;" % (b, a)]
    return "\n".join(o) + "\n"


def t_bint(n):
    """an Integer literal of more than n 16-bit places (BInt n: the place count is a compressible field)"""
    digits = int(n * 4.8165) + 8          # log10(65536) = 4.8165
    a = "".join(str((7 * i + 3) % 10) for i in range(digits))
    b = "".join(str((3 * i + 1) % 10) for i in range(digits // 2))
    o = ['#include "axllib"', "import from Integer, SingleInteger;",
         "big(x: Integer): Integer == x + %s;" % a,
         "print << big(1) << newline;",
         "print << (big(0) rem %s) << newline;" % b,
         "print << -%s << newline;" % a]
    return "\n".join(o) + "\n"


TEXT = {"domlex": t_domlex, "multi": t_multi, "name": t_name, "bint": t_bint}


# ---- measuring the FOAM text -------------------------------------------------------------------------------

_RX1 = re.compile(r"\((Loc|Par|Glo|Const|Fluid|Env|RNew|Label|EEnv|PRef|TRNew|RRElt|Lex|RElt|EElt|IRElt|TRElt|PushEnv|MFmt|RRNew) ([0-9]+)")
_RXLEX = re.compile(r"\(Lex ([0-9]+) ([0-9]+)")
_RXRELT = re.compile(r"\(RElt ([0-9]+) ")
_RXGOTO = re.compile(r"\(Goto ([0-9]+)\)")
_RXDECL = re.compile(r'\((G?Decl) [A-Za-z0-9]+ "((?:[^"\\]|\\.)*)" -?[0-9]+ ([0-9]+)')


def measure(fm):
    """field kind of FoamCodec.tla -> largest value in the FOAM text.
    idx:<Tag> first index of a one-index node; midx:<Tag> largest index of a several-index node; count:<Tag> argument
    count of an n-ary node (only those cheap to count in text); decl:str / decl:fmt string length / format of a Decl"""
    out = {}

    def up(k, v):
        if v > out.get(k, -1):
            out[k] = v
    for m in _RX1.finditer(fm):
        t = m.group(1)
        up(("midx:" if t in ("Lex", "RElt", "EElt", "IRElt", "TRElt") else "idx:") + t, int(m.group(2)))
    for m in _RXLEX.finditer(fm):
        up("midx:Lex", int(m.group(2)))
    for m in _RXGOTO.finditer(fm):
        up("label:Goto", int(m.group(1)))
    for m in _RXDECL.finditer(fm):
        up("decl:str", len(m.group(2)))
        up("decl:fmt", int(m.group(3)))
    # last field of RElt / EElt: `(RElt f <expr> i)' -- the closing index precedes the parenthesis
    for m in re.finditer(r"\((RElt|EElt|IRElt) [0-9]+ (?:\([^()]*(?:\([^()]*\)[^()]*)*\)) ([0-9]+)(?: ([0-9]+))?\)", fm):
        up("midx:" + m.group(1), int(m.group(2)))
        if m.group(3):
            up("midx:" + m.group(1), int(m.group(3)))
    # counts: DDecl / DFmt / DDef / Seq are laid out one argument per line, indented two columns deeper than the head
    lines = fm.split("\n")
    stack = []           # (indent, tag, count)
    for ln in lines:
        s = ln.lstrip(" ")
        if not s:
            continue
        ind = len(ln) - len(s)
        while stack and stack[-1][0] >= ind:
            i0, t0, c0 = stack.pop()
            up("count:" + t0, c0)
        if stack and ind == stack[-1][0] + 2:
            stack[-1][2] += 1
        m = re.match(r"\((DDecl|DFmt|DDef|Seq|DEnv|Values|Arr)\b(.*)$", s)
        if m and not s.rstrip().endswith(")" * 1) or (m and s.count("(") > s.count(")")):
            stack.append([ind, m.group(1), 0])
        elif m:
            # a node on one line: count its top-level arguments
            inner = s[1:s.rindex(")")] if ")" in s else s[1:]
            up("count:" + m.group(1), max(0, _args(inner) - 1))
    while stack:
        i0, t0, c0 = stack.pop()
        up("count:" + t0, c0)
    for m in re.finditer(r"\(BInt (-?[0-9]+)\)", fm):
        up("bint:places", (abs(int(m.group(1))).bit_length() + 15) // 16)
    for m in re.finditer(r"\(DEnv((?: [0-9]+)+)\)", fm):
        for x in m.group(1).split():
            up("ilist:DEnv", int(x))
    return out


def _args(s):
    """number of top-level items of an s-expression body"""
    depth = n = 0
    tok = False
    instr = False
    i = 0
    while i < len(s):
        ch = s[i]
        if instr:
            if ch == "\\":
                i += 1
            elif ch == '"':
                instr = False
        elif ch == '"':
            instr = True
            if depth == 0 and not tok:
                n += 1
            tok = True
        elif ch == "(":
            if depth == 0:
                n += 1
            depth += 1
            tok = False
        elif ch == ")":
            depth -= 1
            tok = False
        elif ch in " \t\n":
            tok = False
        elif depth == 0 and not tok:
            n += 1
            tok = True
        i += 1
    return n
