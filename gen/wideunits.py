"""C05 binding, class `wide indices': units whose FOAM reaches index / count values beyond one byte.

The byte codec of FOAM (foam.c: foamTagFormat, foamToBuffer, foamFrBuffer, foamFrBuffer0; spec/FoamCodec.tla)
writes an index or a count into the tag byte (0..2), into one byte (..255) or into four bytes.  Every field kind
of spec/FoamCodec.tla that a source program can drive beyond 255 has a generator here.  Most generators build an
ABSTRACT program (gen/progen.py syntax) so that the expected output comes from TLC (spec/AldorSem.tla); the kinds
the abstract language cannot express (state variables of a domain, multiple values, parameter lists, ...)
are given as Aldor text and are judged by equality between the arrangements only (text_units()).

measure(fm_text) reads the FOAM text generated directly from the source and reports, per field kind of
FoamCodec.tla, the largest value that occurs: the trace records it and TLC (TraceUnits.tla, event Reach) accepts
the program as a witness for the field kind only if the value is beyond the boundary.
"""
import re

from progen import lit, prim, var, SI, BI, STR, UNIT, BOOL

NL = {"e": "str", "s": "\n"}
SP = {"e": "str", "s": " "}


def _pr(*a):
    return {"e": "print", "args": list(a) + [NL]}


def _prog(pid, funs, top, order=None, recs=(), **kw):
    p = {"id": pid, "funs": funs, "top": top, "recs": list(recs), "uns": [], "feat": ["fixed", "wide"], "seed": 0,
         "order": order or ([["f", i] for i in range(len(funs))] + [["t", i] for i in range(len(top))])}
    p.update(kw)
    return p


def _fun(name, ps, pts, rt, body, pure=False):
    return {"name": name, "ps": ps, "pts": pts, "rt": rt, "body": body, "pure": pure}


def _acc(names, acc="s"):
    """statements acc := acc + x for every name (a flat sequence: the JSON reader of TLC nests at most 255 deep)"""
    return [{"e": "asg", "x": acc, "v": prim("si.add", var(acc), var(x))} for x in names]


# ---- abstract generators: kind -> program with n items ---------------------------------------------------------

def g_loc(n, pid):
    """one function with many locals, each assigned and read: Loc i, a Seq of more than n statements, a DDecl of more
    than n locals.  Locals of the abstract language are `let' chains or loop variables; a chain of n lets cannot be
    written as JSON (nesting limit), loops in a row can.  Every `for' loop costs about nine locals (the segment, its
    generator, bounds, temporaries), so n / 6 loops give well over n locals at every level -- and stay below the 3000
    stack slots the interpreter has for one frame (`Stack Growth Excessive!')."""
    m = max(40, n // 6)
    names = ["l%d" % i for i in range(m)]
    es = []
    for i, x in enumerate(names):
        c = prim("si.add", var("xp"), lit(SI, 3 * i + 1))
        body = [{"e": "asg", "x": "s", "v": prim("si.add", var("s"), var(x))}]
        if i >= m - 3 or i % 9 == 0:
            body.append(_pr(var(x), SP, var("s")))
        es.append({"e": "for", "x": x, "lo": c, "hi": c, "body": {"e": "seq", "t": UNIT, "es": body}})
    body = {"e": "let", "x": "s", "t": SI, "v": lit(SI, 0), "body": {"e": "seq", "t": SI, "es": es + [var("s")]}}
    f = _fun("wh", ["xp"], [SI], SI, body)
    return _prog(pid, [f], [{"d": "stmt", "x": _pr({"e": "call", "fi": 1, "args": [lit(SI, 5)]})}])


def g_glo(n, pid):
    """n file-level variables and n file-level functions, each function reads and writes `its' variable
    (Lex 0 i of the file level, Const i, Glo i, DDef / DDecl counts)"""
    top, funs, order = [], [], []
    for i in range(n):
        top.append({"d": "var", "x": "v%d" % i, "t": SI, "init": lit(SI, 7 * i + 2)})
        order.append(["t", i])
    for i in range(n):
        body = {"e": "seq", "t": SI, "es": [{"e": "asg", "x": "v%d" % i, "v": prim("si.add", var("v%d" % i), var("xp"))}, var("v%d" % i)]}
        funs.append(_fun("g%d" % i, ["xp"], [SI], SI, body))
        order.append(["f", i])
    ks = sorted(set([0, 1, 2, 3, n - 1, n - 2, n - 3] + ([254, 255, 256, 257, 258, k256(n)] if n > 258 else [])))
    for k in ks:
        if 0 <= k < n:
            # one statement per observation: the call assigns the variable, so the order of the operands of one
            # print would matter
            top.append({"d": "stmt", "x": _pr({"e": "call", "fi": k + 1, "args": [lit(SI, k)]})})
            order.append(["t", len(top) - 1])
            top.append({"d": "stmt", "x": _pr(var("v%d" % k), SP, var("v%d" % (k % 256)))})
            order.append(["t", len(top) - 1])
    return _prog(pid, funs, top, order)


def k256(n):
    return n - 1 - 256 if n - 1 >= 256 else 0


def g_rec(n, pid):
    """one record type with n fields (RElt fmt e i, DDecl of n fields, RNew)"""
    rec = [SI] * n
    top = [{"d": "var", "x": "r", "t": ["rec", 0], "init": {"e": "mkrec", "t": ["rec", 0], "args": [lit(SI, 11 * i + 3) for i in range(n)]}}]
    for k in sorted(set([1, 2, 3, 255, 256, 257, 258, n - 1, n])):
        if 1 <= k <= n:
            top.append({"d": "stmt", "x": {"e": "rset", "r": var("r"), "i": k, "v": prim("si.add", {"e": "rget", "r": var("r"), "i": k, "rt": 0},
                                                                                      lit(SI, 100000 + k)), "rt": 0}})
    shown = sorted(set([1, 2, 3, 4, n - 1, n, n - 256 if n > 256 else 1, n - 255 if n > 256 else 1, 255, 256, 257]))
    top.append({"d": "stmt", "x": _pr(*sum([[{"e": "rget", "r": var("r"), "i": k, "rt": 0}, SP] for k in shown if 1 <= k <= n], [])[:-1])})
    return _prog(pid, [], top, recs=[rec])


def g_fmt(n, pid):
    """n functions, each with a lexical level of its own (its parameter is captured and assigned by a closure): the unit
    has more than n formats, so format numbers beyond 255 occur in DEnv, PushEnv, Lex levels, the Decl of the closure
    variables and the DFmt count.  (n distinct record types would do as well, but type inference needs minutes for them.)"""
    funs = []
    for i in range(n):
        x, k = "x%d" % i, "k%d" % i
        lam = {"e": "lam", "ps": ["q"], "pts": [SI], "rt": SI,
               "body": {"e": "seq", "t": SI, "es": [{"e": "asg", "x": x, "v": prim("si.add", var(x), var("q"))}, var(x)]}}
        body = {"e": "let", "x": k, "t": ["fn", [SI], SI], "v": lam, "body":
                {"e": "let", "x": "a", "t": SI, "v": {"e": "callv", "f": var(k), "args": [lit(SI, i)]}, "body":
                 {"e": "seq", "t": SI, "es": [prim("si.add", var("a"), {"e": "callv", "f": var(k), "args": [lit(SI, 1)]})]}}}
        funs.append(_fun("g%d" % i, [x], [SI], SI, body))
    shown = sorted(set([0, 1, n - 1, n - 2, n - 3, 249, 250, 251, 252, 253, 254, 255, 256, 257]))
    top = [{"d": "stmt", "x": _pr({"e": "call", "fi": k + 1, "args": [lit(SI, 1)]})} for k in shown if 0 <= k < n]
    # a record type that is met after all those levels: its format number is a field of the Decl of record-valued
    # variables (decl:fmt), of RNew and of RElt
    rb = {"e": "let", "x": "rr", "t": ["rec", 0], "v": {"e": "mkrec", "t": ["rec", 0], "args": [var("xp"), lit(BI, 10 ** 15 + 3)]}, "body":
          {"e": "seq", "t": SI, "es": [{"e": "rset", "r": var("rr"), "i": 1, "v": prim("si.add", {"e": "rget", "r": var("rr"), "i": 1, "rt": 0}, lit(SI, 9)), "rt": 0},
                                       {"e": "rget", "r": var("rr"), "i": 1, "rt": 0}]}}
    funs.append(_fun("wr", ["xp"], [SI], SI, rb))
    top.append({"d": "stmt", "x": _pr({"e": "call", "fi": n + 1, "args": [lit(SI, 30)]})})
    return _prog(pid, funs, top, recs=[[SI, BI]])


def g_clos(n, pid):
    """a function whose n parameters are captured (read and assigned) by a closure: a lexical level of n variables
    (Lex 0 i in the closure and in the function, DDecl of n lexicals, the DEnv of the closure)"""
    names = ["c%d" % i for i in range(n)]
    shown = sorted(set([0, 1, 2, n - 1, n - 2, n - 257 if n > 257 else 0, n - 256 if n > 256 else 0]))
    lam_body = {"e": "let", "x": "t", "t": SI, "v": lit(SI, 0), "body":
                {"e": "seq", "t": SI, "es": [{"e": "asg", "x": x, "v": prim("si.add", var(x), var("q"))} for x in names] +
                 _acc(names, "t") + [var("t")]}}
    lam = {"e": "lam", "ps": ["q"], "pts": [SI], "rt": SI, "body": lam_body}
    body = {"e": "let", "x": "k", "t": ["fn", [SI], SI], "v": lam, "body":
            {"e": "seq", "t": SI, "es": [_pr({"e": "callv", "f": var("k"), "args": [lit(SI, 1)]}),
                                         _pr(*sum([[var(names[i]), SP] for i in shown], [])[:-1]),
                                         {"e": "callv", "f": var("k"), "args": [lit(SI, 2)]}]}}
    f = _fun("wc", names, [SI] * n, SI, body)
    return _prog(pid, [f], [{"d": "stmt", "x": _pr({"e": "call", "fi": 1, "args": [lit(SI, 5 * i + 2) for i in range(n)]})}])


def g_label(n, pid):
    """a function with n conditional statements (more than n labels: Label i, Goto / If targets, the label count of Prog)"""
    es = []
    for i in range(n):
        c = prim("si.eq", prim("si.mod", prim("si.add", var("xp"), lit(SI, i)), lit(SI, 3)), lit(SI, 0))
        es.append({"e": "if", "c": c, "a": {"e": "asg", "x": "s", "v": prim("si.add", var("s"), lit(SI, i))},
                   "b": {"e": "asg", "x": "s", "v": prim("si.sub", var("s"), lit(SI, 1))}, "t": UNIT})
    body = {"e": "let", "x": "s", "t": SI, "v": lit(SI, 0), "body": {"e": "seq", "t": SI, "es": es + [var("s")]}}
    f = _fun("wl", ["xp"], [SI], SI, body)
    return _prog(pid, [f], [{"d": "stmt", "x": _pr({"e": "call", "fi": 1, "args": [lit(SI, 1)]}, SP, {"e": "call", "fi": 1, "args": [lit(SI, 2)]})}])


def g_par(n, pid):
    """a function of n parameters (Par i, DDecl of n parameters, a call with n arguments)"""
    ps = ["a%d" % i for i in range(n)]
    shown = sorted(set([0, 1, 2, n - 1, n - 2, n - 257 if n > 257 else 0, n - 256 if n > 256 else 0]))
    body = {"e": "let", "x": "s", "t": SI, "v": lit(SI, 0), "body":
            {"e": "seq", "t": SI, "es": [_pr(*sum([[var(ps[i]), SP] for i in shown], [])[:-1])] + _acc(ps) + [var("s")]}}
    f = _fun("wp", ps, [SI] * n, SI, body)
    return _prog(pid, [f], [{"d": "stmt", "x": _pr({"e": "call", "fi": 1, "args": [lit(SI, 17 * i + 1) for i in range(n)]})}])


def g_str(n, pid):
    """string literals of n characters (Arr Char of n elements) and an identifier of n characters is not expressible
    here: see text_units"""
    s1 = "".join(chr(97 + (7 * i) % 26) for i in range(n))
    s2 = "".join(chr(65 + (5 * i) % 26) for i in range(n + 1))
    f = _fun("ws", ["xp"], [SI], STR, {"e": "if", "c": prim("si.gt", var("xp"), lit(SI, 0)), "a": {"e": "str", "s": s1},
                                       "b": {"e": "str", "s": s2}, "t": STR}, pure=True)
    return _prog(pid, [f], [{"d": "stmt", "x": _pr({"e": "call", "fi": 1, "args": [lit(SI, 1)]})},
                            {"d": "stmt", "x": _pr({"e": "call", "fi": 1, "args": [lit(SI, 0)]})},
                            {"d": "stmt", "x": _pr({"e": "str", "s": s2[::-1]})}])


ABSTRACT = {"loc": g_loc, "glo": g_glo, "rec": g_rec, "fmt": g_fmt, "clos": g_clos, "label": g_label, "par": g_par, "str": g_str}


# ---- text units (no expected output from the language oracle: equality between arrangements only) --------------

def t_domlex(n):
    """a package with n state variables (a lexical level of the `add' body with more than n entries)"""
    o = ['#include "axllib"', "import from SingleInteger;",
         "WBank: with { deposit: (SingleInteger, SingleInteger) -> SingleInteger; total: () -> SingleInteger; peek: SingleInteger -> SingleInteger } == add {"]
    for i in range(n):
        o.append("  v%d: SingleInteger := %d;" % (i, i + 1))
    o.append("  deposit(k: SingleInteger, a: SingleInteger): SingleInteger == {")
    o.append("    free %s;" % ", ".join("v%d" % i for i in sorted(set([3, n - 1, n - 2, n - 257 if n > 257 else 0]))))
    for i in sorted(set([3, n - 1, n - 2, n - 257 if n > 257 else 0])):
        o.append("    if k = %d then { v%d := v%d + a; return v%d };" % (i, i, i, i))
    o.append("    0 }")
    o.append("  peek(k: SingleInteger): SingleInteger == {")
    for i in sorted(set([0, 3, 255, 256, 257, n - 1, n - 2, n - 257 if n > 257 else 0])):
        if i < n:
            o.append("    if k = %d then return v%d;" % (i, i))
    o.append("    -1 }")
    o.append("  total(): SingleInteger == %s;" % " + ".join("v%d" % i for i in range(n)))
    o.append("}")
    o.append("import from WBank;")
    for i in sorted(set([3, n - 1, n - 2, n - 257 if n > 257 else 0])):
        o.append("print << deposit(%d, %d) << \" \" << peek(%d) << \" \" << peek(%d) << newline;" % (i, 1000 + i, i, i % 256))
    o.append("print << total() << newline;")
    return "\n".join(o) + "\n"


def t_multi(n):
    """functions that return several values, declared after n functions with a lexical level each: the format of their
    value lists lies beyond 255 (the format field of Prog, MFmt f, Values)"""
    o = ['#include "axllib"', "import from SingleInteger, Integer;"]
    for i in range(n):
        o.append("g%d(x%d: SingleInteger): SingleInteger == { k%d: SingleInteger -> SingleInteger := (q: SingleInteger): SingleInteger "
                 "+-> { free x%d; x%d := x%d + q; x%d }; k%d(%d) + k%d(1) }" % (i, i, i, i, i, i, i, i, i, i))
    o.append("two(x: SingleInteger): (SingleInteger, SingleInteger) == (x + 1, x + 2);")
    o.append("three(x: SingleInteger): (SingleInteger, Integer, SingleInteger) == (x + 1, 7, x + 3);")
    o.append("WD: with { wv: SingleInteger -> SingleInteger } == add { st: SingleInteger := 3; wv(q: SingleInteger): SingleInteger == { free st; st := st + q; st } }")
    o.append("import from WD;")
    o.append("print << wv(4) << \" \" << wv(5) << newline;")
    o.append("(a, b) := two(5);")
    o.append("(c, d, e) := three(8);")
    o.append("print << a << \" \" << b << \" \" << c << \" \" << d << \" \" << e << newline;")
    o.append("print << %s << newline;" % ' << " " << '.join("g%d(1)" % i for i in sorted(set([0, 1, n - 1, n - 2])) if i < n))
    return "\n".join(o) + "\n"


def t_name(n):
    """identifiers of n and n+1 characters (the string of Decl / GDecl is longer than 255)"""
    a = "w" + "".join(chr(97 + (3 * i) % 26) for i in range(n - 1))
    b = "x" + "".join(chr(97 + (5 * i) % 26) for i in range(n))
    o = ['#include "axllib"', "import from SingleInteger;",
         "%s: SingleInteger := 41;" % a,
         "%s(q: SingleInteger): SingleInteger == { free %s; %s := %s + q; %s * 2 }" % (b, a, a, a, a),
         "print << %s(1) << \" \" << %s << newline;" % (b, a)]
    return "\n".join(o) + "\n"


def t_bint(n):
    """an Integer literal of more than n 16-bit places (BInt n: the place count is a compressible field)"""
    digits = int(n * 4.8165) + 8          # log10(65536) = 4.8165
    a = "".join(str((7 * i + 3) % 10) for i in range(digits))
    b = "".join(str((3 * i + 1) % 10) for i in range(digits // 2))
    o = ['#include "axllib"', "import from Integer, SingleInteger;",
         "big(x: Integer): Integer == x + %s;" % a,
         "print << big(1) << newline;",
         "print << (big(0) rem %s) << newline;" % b,
         "print << (0 - big(0)) << newline;"]
    return "\n".join(o) + "\n"


TEXT = {"domlex": t_domlex, "multi": t_multi, "name": t_name, "bint": t_bint}


# ---- measuring the FOAM text -------------------------------------------------------------------------------

def _int(x):
    return int(x) if isinstance(x, str) and x.isdigit() else None


def measure(tree):
    """tree: nested token lists of a FOAM text (units.nest(units.sx_tokens(text))).  Returns field kind of
    spec/FoamCodec.tla (SourceFields) -> largest value that occurs in the text."""
    out = {}

    def up(k, v):
        if v is not None and v > out.get(k, -1):
            out[k] = v

    def go(x):
        if not isinstance(x, list) or not x:
            return
        t = x[0]
        if isinstance(t, str):
            a = x[1:]
            if t in ("Loc", "Par", "Glo", "Const", "Label", "RNew") and a:
                up("idx:" + t, _int(a[0]))
            elif t == "Lex" and len(a) >= 2:
                up("midx:Lex", _int(a[0]))
                up("midx:Lex", _int(a[1]))
            elif t == "RElt" and len(a) >= 3:
                up("midx:RElt", _int(a[0]))
                up("midx:RElt", _int(a[2]))
            elif t == "EElt" and len(a) >= 4:
                for k in (0, 2, 3):
                    up("midx:EElt", _int(a[k]))
            elif t in ("DDecl", "Arr"):
                up("count:" + t, len(a) - 1)
            elif t in ("DFmt", "DDef", "Seq"):
                up("count:" + t, len(a))
            elif t == "DEnv":
                for y in a:
                    up("ilist:DEnv", _int(y))
            elif t in ("Decl", "GDecl") and len(a) >= 4:
                if isinstance(a[1], str) and a[1].startswith('"'):
                    up("decl:str", len(a[1]) - 2)
                up("decl:fmt", _int(a[3]))
            elif t == "Prog" and len(a) >= 4:
                up("prog:labels", _int(a[1]))
                up("prog:fmt", _int(a[3]))
            elif t == "BInt" and a and isinstance(a[0], str):
                try:
                    up("bint:places", (abs(int(a[0])).bit_length() + 15) // 16)
                except ValueError:
                    pass
            elif t == "MFmt" and a:
                up("fix:MFmt", _int(a[0]))
        for y in x:
            if isinstance(y, list):
                go(y)
    import sys
    lim = sys.getrecursionlimit()
    sys.setrecursionlimit(max(lim, 20000))
    try:
        go(tree)
    finally:
        sys.setrecursionlimit(lim)
    return out
