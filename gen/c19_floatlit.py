"""Generator/renderer for the compiler-level half of C19: Aldor programs full of floating-point
literals that print, for each literal, what `dissemble' reports about the constant (sign,
exponent, fraction word) and whether assemble(dissemble(x)) = x.

Nothing here decides anything: the printed lines are turned into "Lit" events and judged by
spec/TraceXFloat.tla (Obs agreement between configurations + the repacking XFloatOps computes).
"""
import random
import struct

HEADER = '''#include "axllib"
import from Machine;
import from SingleInteger;
import from DoubleFloat;
import from SingleFloat;

b2i(b: Boolean): SingleInteger == if b then 1 else 0;

showD(tag: SingleInteger, x: DoubleFloat): () == {
	(s, e, w0, w1) := dissemble(x::BDFlo);
	y: DoubleFloat := assemble(s, e, w0, w1)::DoubleFloat;
	si: SingleInteger := b2i(s::Boolean);
	ei: SingleInteger := e::SingleInteger;
	wi: SingleInteger := (w0 pretend BSInt)::SingleInteger;
	print << "D " << tag << " " << si << " " << ei << " " << wi << " " << b2i(y = x) << newline;
}

showS(tag: SingleInteger, x: SingleFloat): () == {
	(s, e, w0) := dissemble(x::BSFlo);
	y: SingleFloat := assemble(s, e, w0)::SingleFloat;
	si: SingleInteger := b2i(s::Boolean);
	ei: SingleInteger := e::SingleInteger;
	wi: SingleInteger := (w0 pretend BSInt)::SingleInteger;
	print << "S " << tag << " " << si << " " << ei << " " << wi << " " << b2i(y = x) << newline;
}

'''


def d_of_bits(v):
    return struct.unpack("<d", struct.pack("<Q", v))[0]


def s_of_bits(v):
    return struct.unpack("<f", struct.pack("<I", v))[0]


def as_float_literal(txt):
    """%.17g / %.9g text -> a token the Aldor scanner reads as a float-style literal."""
    if "e" in txt:
        m, e = txt.split("e")
        if "." not in m:
            m += ".0"
        return m + "e" + e
    if "." not in txt:
        txt += ".0"
    return txt


def mini_fracs(n):
    ones = (1 << n) - 1
    alt = sum(1 << k for k in range(0, n, 2))
    return [0, ones, alt & ones, ~alt & ones, 1, 1 << (n - 1)]


# literals whose correct rounding is delicate (halfway cases, subnormal boundary, overflow boundary,
# double rounding for singles).  No expected value is attached: only agreement is demanded.
HARD_D = [
    "0.1", "0.3", "1e23", "8.41e21", "5e-324", "3e-324", "2.4703282292062327e-324", "2.4703282292062328e-324",
    "4.9406564584124654e-324", "2.2250738585072011e-308", "2.2250738585072012e-308", "2.2250738585072014e-308",
    "1.7976931348623157e308", "1.7976931348623158e308", "9007199254740993.0", "9007199254740995.0",
    "0.500000000000000166533453693773481063544750213623046875",
    "1.00000000000000011102230246251565404236316680908203125",
    "1.00000000000000011102230246251565404236316680908203126",
    "1.00000000000000011102230246251565404236316680908203124",
    "12345678901234567890.0", "0.000001", "1E5", "1.5E+3", "1.5e-3", "123456789012345678901234567890.0e-10",
    "6.9294956446009195e15", "3.4028234664e38", "3.4028235677973366e38", "1.401298464324817e-45", "0.0", "1.0",
    "179769313486231580793728971405303415079934132710037826936173778980444968292764750946649017977587207096330286416692887910946555547851940402630657488671505820681908902000708383676273854845817711531764475730270069855571366959622842914819860834936475292719074168444365510704342711559699508093042880177904174497791.9999",
]
HARD_S = [
    "0.1", "16777217.0", "16777219.0", "1.00000005960464477539", "1.000000059604644775390625",
    "1.000000059604644775390626", "1.0000000596046448", "3.40282347e38", "3.4028235e38", "1.17549435e-38",
    "1.17549421e-38", "1.40129846e-45", "7.0064923e-46", "7.0064924e-46", "1e-46", "0.0", "1.0", "1E5", "1.5e-3",
    "8388608.5", "8388609.5", "0.3", "1e10", "33554430.0", "33554431.0",
]
# the sign is an operation applied to the literal; a folded negation must keep it (also on zero)
NEGATED_D = ["0.0", "1.0", "0.1", "4.9406564584124654e-324", "1.7976931348623157e308"]
NEGATED_S = ["0.0", "1.0", "0.1", "1.40129846e-45", "3.40282347e38"]
# literals beyond the largest finite value: the constant is an infinity
OVERFLOW_D = ["1e999", "1.7976931348623159e308", "2e308"]
OVERFLOW_S = ["3.5e38", "1e39", "3.4028236e38"]


def literal_sets(seed, tier):
    """Returns dict name -> list of (kind, text, expect_bits_or_None, negated).  The sign is not part
    of an Aldor literal: a negated entry is rendered as the negation operator applied to the literal."""
    rnd = random.Random(seed)
    nexp, nrand = (20, 60) if tier == "quick" else (150, 600)
    dl, sl = [], []
    dexps = sorted(set([0, 1, 2, 1022, 1023, 1024, 2045, 2046] + [rnd.randrange(0, 2047) for _ in range(nexp)]))
    for e in dexps:
        for f in mini_fracs(52):
            v = (e << 52) | f
            dl.append(("D", as_float_literal("%.17g" % d_of_bits(v)), v, len(dl) % 5 == 4))
    for _ in range(nrand):
        v = rnd.getrandbits(63)
        if (v >> 52) == 2047:
            v &= ~(1 << 62)
        dl.append(("D", as_float_literal("%.17g" % d_of_bits(v)), v, len(dl) % 5 == 4))
    sexps = sorted(set([0, 1, 2, 126, 127, 128, 253, 254] + [rnd.randrange(0, 255) for _ in range(nexp)]))
    for e in sexps:
        for f in mini_fracs(23):
            v = (e << 23) | f
            sl.append(("S", as_float_literal("%.9g" % s_of_bits(v)), v, len(sl) % 5 == 4))
    for _ in range(nrand):
        v = rnd.getrandbits(31)
        if (v >> 23) == 255:
            v &= ~(1 << 30)
        sl.append(("S", as_float_literal("%.9g" % s_of_bits(v)), v, len(sl) % 5 == 4))
    hard = [("D", t, None, False) for t in HARD_D] + [("S", t, None, False) for t in HARD_S]
    hard += [("D", t, None, True) for t in NEGATED_D] + [("S", t, None, True) for t in NEGATED_S]
    over = [("D", t, None, False) for t in OVERFLOW_D] + [("S", t, None, False) for t in OVERFLOW_S]
    over += [("D", OVERFLOW_D[0], None, True), ("S", OVERFLOW_S[0], None, True)]
    return {"enumD": dl, "enumS": sl, "hard": hard, "overflow": over}


def render(lits):
    """Aldor program text; literal number i (1-based) is printed with tag i."""
    out = [HEADER]
    for i, (kind, txt, _, neg) in enumerate(lits, 1):
        out.append("show%s(%d, %s%s);\n" % (kind, i, "-" if neg else "", txt))
    return "".join(out)


def parse_output(text):
    """Printed lines -> {(kind, tag): dict(sign, exp, frac bytes, idok)}; None if a line is malformed."""
    res = {}
    for line in text.splitlines():
        p = line.split()
        if len(p) != 6 or p[0] not in ("D", "S"):
            return None
        try:
            tag, sign, exp, w, idok = int(p[1]), int(p[2]), int(p[3]), int(p[4]), int(p[5])
        except ValueError:
            return None
        n = 8 if p[0] == "D" else 4
        # the fraction bytes are the first n bytes of the word in memory (little-endian host); for
        # singles the upper half of the word is not written by fiSFloDissemble and is ignored
        frac = [(w >> (8 * i)) & 0xff for i in range(n)]
        res[(p[0], tag)] = {"sign": sign, "exp": exp, "frac": frac, "idok": idok}
    return res


def expected_parts(kind, bits):
    """For the drift-only comparison with the value the literal was rendered from."""
    if kind == "D":
        return {"sign": bits >> 63, "exp": ((bits >> 52) & 0x7ff) - 1023,
                "frac": list(((bits & ((1 << 52) - 1)) << 12).to_bytes(8, "big"))}
    return {"sign": bits >> 31, "exp": ((bits >> 23) & 0xff) - 127,
            "frac": list(((bits & ((1 << 23) - 1)) << 9).to_bytes(4, "big"))}
