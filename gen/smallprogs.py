"""Pack the expressions exported by TLC from spec/SmallProgs.tla into abstract programs (pure packaging:
`x := ..; y := ..; u := ..;` then one output statement per expression)."""
from progen import lit

SETTINGS = [(3, -2, 10**19), (2**63 - 1, 2**31, -(2**63) + 1), (0, 1, -1)]


def pack(exprs, per=150, settings=SETTINGS):
    progs = []
    nl = {"e": "str", "s": "\n"}
    for si, (x, y, u) in enumerate(settings):
        for b in range(0, len(exprs), per):
            top = [{"d": "var", "x": "x", "t": "si", "init": lit("si", x)},
                   {"d": "var", "x": "y", "t": "si", "init": lit("si", y)},
                   {"d": "var", "x": "u", "t": "bi", "init": lit("bi", u)}]
            for e in exprs[b:b + per]:
                top.append({"d": "stmt", "x": {"e": "print", "args": [e, nl]}})
            progs.append({"id": "small_s%d_b%d" % (si, b // per), "funs": [], "top": top, "recs": [], "uns": [],
                          "feat": ["small"], "seed": 0})
    return progs
