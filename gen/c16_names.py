"""C16 -- name-stress renamings of abstract programs and the scan of the emitted C.

Nothing here decides the property.  This module
  * lists the identifiers of an abstract program (functions, file-level variables, parameters, locals),
  * builds renamings for the `names` argument of gen/render.py: identifiers of 20..80 characters that share prefixes
    of every length (the cut points the collision condition of spec/CNames.tla makes critical are over-represented),
    optionally with operator characters (`?`, `!`, and every other special character through the `_` escape),
  * tokenises emitted C and aligns the output of one configuration with the output of the same program under
    -Cidlen=0 (nothing truncated): the identifier at the same token position names the same entity, which gives the
    (scope, entity, C name) triples that spec/TraceCNames.tla judges,
  * decodes an untruncated identifier into (kind, index, name) so that TLC can predict its spelling (drift only).
"""
import random
import re
import string

# ---------------------------------------------------------------------------------------------------------------
# identifiers of an abstract program


def idents_of(prog):
    """[(class, abstract name)] in first-occurrence order; class in fun / gvar / param / local."""
    out, seen = [], set()

    def add(cls, x):
        if isinstance(x, str) and x not in seen:
            seen.add(x)
            out.append((cls, x))

    def walk(x):
        if isinstance(x, dict):
            e = x.get("e")
            if e in ("let", "for", "forin") and isinstance(x.get("x"), str):
                add("local", x["x"])
            if e == "lam":
                for p in x.get("ps", []):
                    add("param", p)
            for v in x.values():
                walk(v)
        elif isinstance(x, list):
            for v in x:
                walk(v)
    for t in prog["top"]:
        if t.get("d") == "var":
            add("gvar", t["x"])
    for f in prog["funs"]:
        add("fun", f.get("oname", f["name"]))
        for p in f["ps"]:
            add("param", p)
    for f in prog["funs"]:
        walk(f["body"])
    for t in prog["top"]:
        walk(t)
    return out


def same_signature_pairs(prog):
    """Pairs of distinct function names (oname) with one signature, neither overloaded: candidates for a global-name collision."""
    count = {}
    for f in prog["funs"]:
        count[f.get("oname", f["name"])] = count.get(f.get("oname", f["name"]), 0) + 1
    sig = {}
    for f in prog["funs"]:
        n = f.get("oname", f["name"])
        if count[n] == 1:
            sig.setdefault(repr((f["pts"], f["rt"])), []).append(n)
    return [(v[0], v[1]) for v in sig.values() if len(v) >= 2]


# ---------------------------------------------------------------------------------------------------------------
# stress names

SPECIALS = "!\"#$%&'()*+,-./:;<=>?@[\\]^`{|}~"
# lengths of the shared prefix that matter under the limits 30/31/40/64: the room left for the name after
# "G_" + five hash digits + "_" + the unit prefix, after "T<i>_", "X<i>_", "C<i>_", "CF<i>_", "tmp<i>_" ...
CRITICAL = [17, 18, 19, 20, 21, 22, 23, 24, 25, 26, 27, 28, 29, 30, 31, 33, 34, 35, 36, 37, 38, 51, 52, 53, 54, 55, 58, 59, 60, 61, 62]


def _spell(real):
    """Source spelling of a real name: alphanumerics as they are, `?`/`!` as they are (not in first position), everything
    else through the escape character `_`."""
    out = []
    for i, ch in enumerate(real):
        if ch.isalnum() and ch.isascii():
            out.append(ch)
        elif ch in "?!" and i > 0:
            out.append(ch)
        else:
            out.append("_" + ch)
    return "".join(out)


def stress_names(prog, seed, ops=False, nonprint=False):
    """Returns (names, real): names maps abstract identifiers to source spellings (for render), real maps them to the
    identifier the compiler sees.  Every pair of names shares a prefix; the lengths of the shared prefixes cover
    1..79 over a few programs, with the critical lengths over-represented."""
    rnd = random.Random(seed)
    alnum = string.ascii_letters + string.digits
    base = [rnd.choice(string.ascii_letters)] + [rnd.choice(alnum) for _ in range(79)]
    if ops:
        for i in range(3, 80):
            if rnd.random() < 0.18:
                base[i] = rnd.choice(SPECIALS + "__??!!")
            elif nonprint and rnd.random() < 0.03:
                base[i] = " "
    base = "".join(base)
    ids = idents_of(prog)
    names, real, used = {}, {}, set()
    for k, (cls, x) in enumerate(ids):
        r = rnd.random()
        if r < 0.6:
            L = rnd.choice(CRITICAL)
        else:
            L = rnd.randint(1, 79)
        total = max(L + 4, rnd.randint(20, 80))
        total = min(total, 80)
        L = min(L, total - 4)
        diff = rnd.choice([c for c in alnum if c != base[L]])
        serial = "q" + "".join(string.ascii_lowercase[(k // 26 ** j) % 26] for j in range(2)) + "z"
        fill = "".join(rnd.choice(alnum) for _ in range(max(0, total - L - 1 - len(serial))))
        if ops and fill:
            fl = list(fill)
            for i in range(len(fl)):
                if rnd.random() < 0.15:
                    fl[i] = rnd.choice(SPECIALS + "_")
            fill = "".join(fl)
        nm = base[:L] + diff + fill + serial
        if ops and rnd.random() < 0.5:
            nm += rnd.choice("?!")
        if nm in used:
            nm += "u%d" % k
        used.add(nm)
        real[x] = nm
        names[x] = _spell(nm)
    return names, real


# ---------------------------------------------------------------------------------------------------------------
# C tokens, alignment, scopes

_TOK = re.compile(r"""
    (?P<ws>\s+|/\*.*?\*/)
  | (?P<str>"(?:\\.|[^"\\])*")
  | (?P<chr>'(?:\\.|[^'\\])*')
  | (?P<id>[A-Za-z_][A-Za-z0-9_]*)
  | (?P<num>[0-9][0-9A-Za-z.]*)
  | (?P<op>.)
""", re.S | re.X)


def ctokens(text):
    out = []
    for m in _TOK.finditer(text):
        k = m.lastgroup
        if k != "ws":
            out.append((k, m.group()))
    return out


def file_scope_positions(toks):
    """[(index, is_static)] of the identifier tokens that stand at file scope: brace depth 0, parenthesis depth 0, and not
    inside the parameter declarations of an old-style function definition (between the `)` of the header and the `{`).
    is_static: the declaration the identifier belongs to starts with `static` (internal linkage)."""
    pos = []
    brace = paren = 0
    knr = False
    static = False
    init = False            # inside the initialiser of a file-scope declaration: identifiers there are uses
    n = len(toks)
    for i, (k, t) in enumerate(toks):
        if k == "op":
            if t == "{":
                if brace == 0:
                    knr = False
                brace += 1
            elif t == "}":
                brace -= 1
                if brace == 0 and i + 1 < n and not (toks[i + 1][0] == "op" and toks[i + 1][1] in ";,=") \
                        and not toks[i + 1][0] == "id":
                    static = False
                if brace == 0 and i + 1 < n and toks[i + 1][0] == "id" and toks[i + 1][1] in ("static", "extern", "typedef", "struct"):
                    static = False
            elif t == ";" and brace == 0 and paren == 0 and not knr:
                static = False
                init = False
            elif t == "=" and brace == 0 and paren == 0:
                init = True
            elif t == "(":
                paren += 1
            elif t == ")":
                paren -= 1
                if brace == 0 and paren == 0 and i + 1 < n:
                    nk, nt = toks[i + 1]
                    if not (nk == "op" and nt in ";,={)"):
                        knr = True          # old-style parameter declarations follow
            continue
        if k == "id" and brace == 0 and paren == 0 and not knr and not init:
            if t == "static":
                static = True
            elif t in ("extern", "typedef"):
                static = False
            pos.append((i, static))
    return pos


def align(ref_files, cfg_files):
    """ref_files / cfg_files: {file name: text} of one program compiled with the same options except the identifier
    limit (ref: -Cidlen=0).  Returns (binds, problem): binds = sorted list of [scope, entity, cname] with scope "extern"
    (file-scope identifiers with external linkage, shared by all files), "static:<file>" (file-scope identifiers of
    declarations that start with `static`) or "link" (string literals: the names handed to fiExportGlobal /
    fiImportGlobal); problem = None or a text saying why the two outputs could not be aligned (drift, not a violation)."""
    binds = set()
    if sorted(ref_files) != sorted(cfg_files):
        return [], "different file sets: %s vs %s" % (sorted(ref_files), sorted(cfg_files))
    for fn in sorted(ref_files):
        a, b = ctokens(ref_files[fn]), ctokens(cfg_files[fn])
        if len(a) != len(b):
            return [], "%s: %d tokens vs %d" % (fn, len(a), len(b))
        for (ka, ta), (kb, tb) in zip(a, b):
            if ka != kb or (ka not in ("id", "str") and ta != tb):
                return [], "%s: token %r vs %r" % (fn, ta, tb)
        for i, st in file_scope_positions(a):
            binds.add(("static:" + fn if st else "extern", a[i][1], b[i][1]))
        for (ka, ta), (kb, tb) in zip(a, b):
            if ka == "str" and re.match(r'^"p?G_', ta):
                binds.add(("link", ta[1:-1], tb[1:-1]))
    for fn, k, name in export_calls(cfg_files):
        binds.add(("export", "%s: fiExportGlobal call #%d" % (fn, k), name))
    return sorted(list(x) for x in binds), None


def export_calls(files):
    """[(file, ordinal, name string)] of the fiExportGlobal calls: every call exports one global of the unit into the run-time
    table keyed by the string, so two calls with one string are two entities with one name (this does not need the
    untruncated reference output)."""
    out = []
    for fn in sorted(files):
        for k, m in enumerate(re.finditer(r'fiExportGlobal\s*\(\s*"([^"]*)"', files[fn])):
            out.append((fn, k, m.group(1)))
    return out


# ---------------------------------------------------------------------------------------------------------------
# decoding an untruncated identifier (drift-only path: the spelling is predicted by TLC from the decoded parts)

SPEC_NAMES = {"BANG": "!", "QUOTE": '"', "SHARP": "#", "DOLLR": "$", "PCENT": "%", "AMPER": "&", "APOS": "'", "OPAREN": "(",
              "CPAREN": ")", "STAR": "*", "PLUS": "+", "COMMA": ",", "MINUS": "-", "DOT": ".", "SLASH": "/", "COLON": ":",
              "SEMI": ";", "LT": "<", "EQ": "=", "GT": ">", "QMARK": "?", "AT": "@", "OBRACK": "[", "BSLSH": "\\", "CBRACK": "]",
              "HAT": "^", "GRAVE": "`", "OBRACE": "{", "BAR": "|", "CBRACE": "}", "TILDE": "~"}


def unimage(img):
    """Inverse of the character table on a complete image; None if it is not an image."""
    out, i = [], 0
    while i < len(img):
        c = img[i]
        if c != "_":
            out.append(c)
            i += 1
        elif img.startswith("__", i):
            out.append("_")
            i += 2
        else:
            j = img.find("_", i + 1)
            if j < 0 or img[i + 1:j] not in SPEC_NAMES:
                return None
            out.append(SPEC_NAMES[img[i + 1:j]])
            i = j + 1
    return "".join(out)


_GLOBAL = re.compile(r"^(p?G)_([0-9A-Z]*)_(.*)$", re.S)
_INDEXED = re.compile(r"^(INIT__|tmpClos|tmp|GRRFmt|CF|GA|GB|[CPTXFRJ])(\d+)(?:_(.*))?$", re.S)


def decode_ident(ident):
    """(kind, index, name) of an identifier spelled without truncation, or None."""
    m = _GLOBAL.match(ident)
    if m:
        nm = unimage(m.group(3))
        return None if nm is None else (m.group(1), 0, nm)
    m = _INDEXED.match(ident)
    if m:
        nm = unimage(m.group(3) or "")
        kind = "INIT_" if m.group(1) == "INIT__" else m.group(1)
        return None if nm is None else (kind, int(m.group(2)), nm)
    return None


# ---------------------------------------------------------------------------------------------------------------
# the hand-built program whose two functions get colliding names (one signature, no file-level variables: both can be
# moved into a library unit by render.render_split)

def collision_program(pid="c16_collide"):
    si = "si"

    def lit(n):
        return {"e": "lit", "t": si, "neg": n < 0, "ds": [int(d) for d in str(abs(n))]}

    def fun(name, par, k):
        return {"name": name, "oname": name, "ps": [par], "pts": [si], "rt": si, "pure": True,
                "body": {"e": "prim", "op": "si.add", "args": [{"e": "var", "x": par}, lit(k)]}}
    funs = [fun("fa", "pa", 1), fun("fb", "pb", 100)]
    top = [{"d": "stmt", "x": {"e": "print", "args": [{"e": "call", "fi": 1, "args": [lit(1)]}, {"e": "str", "s": " "},
                                                      {"e": "call", "fi": 2, "args": [lit(1)]}, {"e": "str", "s": "\n"}]}}]
    return {"id": pid, "funs": funs, "top": top, "recs": [], "uns": [], "exns": [], "feat": ["fixed", "fun"], "seed": 0,
            "order": [["f", 0], ["f", 1], ["t", 0]]}
