"""C07: the input families.  Every family is enumerated (and, where the specification can, certified invalid) by a TLC
run on an explicit module; this file only starts those runs, expands / joins what they export into bytes, and draws
the seeded random texts that TLC then judges.

  (a) enum      spec/Total.tla       all class strings up to a length bound x variants, sharded over TLC processes
  (b) mutant    spec/Mutants.tla     token- and character-level corruptions of valid texts (generated programs rendered
                                     by gen/render.py, #pile sources of the repository's test corpus)
      dirs      spec/Directives.tla  #if / #include / #assert / #error / #quit soups
      stress    spec/Stress.tla      20 000-byte lines, nesting depth 2 000, 256 errors
  (c) random    spec/TotalFile.tla   seeded random bytes, printable soups, token soups
"""
import json
import os
import random
import re
import shutil
import sys
import threading
from concurrent.futures import ThreadPoolExecutor

sys.path.insert(0, os.path.join(os.path.dirname(os.path.dirname(os.path.abspath(__file__))), "lib"))
import vlib                     # noqa: E402
from c07_run import Input       # noqa: E402

MODULES = ["Scan.tla", "Linear.tla", "SrcText.tla", "Total.tla", "Mutants.tla", "Directives.tla", "Stress.tla",
           "TotalFile.tla", "TotalFile.cfg", "Macros.tla", "Calls.tla"]
FOAMLIB_ARGS = ["-I" + os.path.join(vlib.REPO, "aldor/aldor/lib/libfoamlib/al"),
                "-Y" + os.path.join(vlib.REPO, "aldor/aldor/lib/libfoamlib/al")]
_lock = threading.Lock()
LIGHT_JVM = {"JAVA_TOOL_OPTIONS": "-XX:TieredStopAtLevel=1 -XX:ParallelGCThreads=2"}


def spec_dir():
    d = vlib.scratch("c07spec")
    for f in MODULES:
        shutil.copy(os.path.join(vlib.SPEC, f), d)
    return d


def _cfg(d, base, name, subst):
    """Copy spec/<base>.cfg to <d>/<name>.cfg with `Const = value` lines rewritten."""
    t = open(os.path.join(vlib.SPEC, base + ".cfg")).read()
    for k, v in subst.items():
        t, n = re.subn(r"(?m)^(\s*%s\s*=\s*).*$" % re.escape(k), lambda m: m.group(1) + str(v), t)
        if n != 1:
            raise vlib.MachineryError("%s.cfg: constant %s not found" % (base, k))
    with open(os.path.join(d, name + ".cfg"), "w") as fh:
        fh.write(t)


def _tlc_many(chk, d, jobs, parallel, label, light=False):
    """jobs: [(module, cfgname, env, timeout)]; runs them `parallel` at a time; returns the TlcResults in order.
    A violated invariant of one of these modules is a defect of the model, reported as such."""
    def one(j):
        module, cfg, env, timeout = j
        e = dict(LIGHT_JVM) if light else {}
        e.update(env or {})
        return vlib.tlc(module, cfg, workers=1, timeout=timeout, cwd=d, env=e, xmx="3g", xss="256m")
    with ThreadPoolExecutor(max_workers=parallel) as ex:
        res = list(ex.map(one, jobs))
    gen = dist = 0
    wall = 0.0
    for (module, cfg, env, timeout), r in zip(jobs, res):
        if r.error:
            raise vlib.MachineryError("TLC run %s/%s failed: %s" % (module, cfg, r.error))
        if r.violated:
            chk.violation("the model %s (%s) violates %s" % (module, cfg, r.violated), r.trace_text,
                          key={"kind": "model", "model": module, "inv": r.violated})
        gen += r.states
        dist += r.distinct
        wall = max(wall, r.wall)
    chk.states += dist
    chk.transitions += gen
    chk.tlc_runs.append({"name": label, "generated": gen, "distinct": dist, "wall_s": round(wall, 2), "processes": len(jobs)})
    return res


def _printed(res, tag):
    out = []
    for r in res:
        for p in r.printed:
            if isinstance(p, str) and p.startswith(tag + " "):
                out.append(json.loads(p[len(tag) + 1:]))
        r.printed, r.out = [], ""
    return out


# ---------------------------------------------------------------------------
# (a) class strings

def enum_family(chk, d, parts, parallel=14, timeout=1500):
    """parts: [(maxlen, variants)].  Returns Inputs (distinct byte strings; the first certificate seen is kept --
    two variants of a class string with equal bytes have equal verdicts)."""
    jobs = []
    expect = 0
    for pi, (maxlen, variants) in enumerate(parts):
        total = sum(13 ** n for n in range(maxlen + 1))
        expect += total * len(variants)
        shardlen = 0 if maxlen < 2 else (1 if total < 40000 else 2)
        nshards = 1 if shardlen == 0 else (13 if shardlen == 1 else 39)
        for s in range(nshards):
            name = "Total_p%d_s%d" % (pi, s)
            _cfg(d, "TotalQuick", name, {"MaxLen": maxlen, "ShardLen": shardlen, "NShards": nshards, "ShardNo": s,
                                         "Variants": "{" + ", ".join(str(v) for v in variants) + "}"})
            jobs.append(("Total", name, None, timeout))
    res = _tlc_many(chk, d, jobs, parallel, "Total (class strings, %d shards)" % len(jobs), light=len(jobs) > 20)
    recs = _printed(res, "SRC")
    if len(recs) != expect:
        raise vlib.MachineryError("Total exported %d texts, the shards should cover %d" % (len(recs), expect))
    seen = {}
    for r in recs:
        b = bytes(r["b"])
        if b not in seen:
            # variant 1 goes through the whole front end (-Fao); variants 2 and 3 stop after the syntactic phases (-Fap), so
            # that a text the parser accepts is not rescued by a type error of the library-less context
            seen[b] = Input("enum", r["b"], b, r["c"], r["r"], r["f"], kinds=("ao",) if r["v"] == 1 else ("ap",))
    return list(seen.values()), len(recs)


# ---------------------------------------------------------------------------
# (b) mutants of valid texts

def valid_texts(tier, seed):
    """[(id, bytes, extra compiler options)]: rendered generated programs (the typed family of C01; fixed generator
    seed in the quick tier so that the quick verdict does not depend on VERIF_SEED) and corpus sources."""
    sys.path.insert(0, os.path.join(vlib.VERIF, "gen"))
    import progen
    import render
    out = []
    if tier == "quick":
        progs = [progen.ProgGen(7 * 100003 + i, size=6).program("g7_%d" % i) for i in range(1, 5)]
    else:
        progs = progen.generate(7, 8) + progen.generate(1000 + seed % 9973, 12)
    for p in progs:
        out.append((p["id"], render.render(p).encode(), []))
    tdir = os.path.join(vlib.REPO, "aldor/aldor/test")
    names = sorted(f for f in os.listdir(tdir) if f.endswith(".as"))
    piled = [f for f in names if b"\n#pile" in open(os.path.join(tdir, f), "rb").read()]
    pick = sorted(piled, key=lambda f: os.path.getsize(os.path.join(tdir, f)))[:5] if tier == "quick" else names
    for f in pick:
        data = open(os.path.join(tdir, f), "rb").read()
        if len(data) <= (700 if tier == "quick" else 1000):
            out.append(("corpus:" + f, data, FOAMLIB_ARGS))
    return out


def unscan(u):
    out = []
    for k in range(0, len(u), 2):
        pad, t = u[k], u[k + 1]
        out.append("\n" if pad == -1 else " " * pad + t)
    return "".join(out).encode("latin-1")


def mutant_family(chk, d, texts, stride, cstride, seed, maxquotes, shards=8, timeout=2700):
    jobs = []
    args_of = {}
    groups = [texts[i::shards] for i in range(shards)]
    for gi, g in enumerate(groups):
        if not g:
            continue
        path = os.path.join(d, "progs%d.json" % gi)
        with open(path, "w") as fh:
            json.dump([{"id": tid, "b": list(data)} for tid, data, args in g], fh)
        for tid, data, args in g:
            args_of[tid] = args
        name = "Mutants_s%d" % gi
        _cfg(d, "MutantsQuick", name, {"Stride": stride, "CStride": cstride, "Seed": seed, "MaxQuotes": maxquotes})
        jobs.append(("Mutants", name, {"PROGS": path}, timeout))
    res = _tlc_many(chk, d, jobs, shards, "Mutants (%d texts, %d shards)" % (len(texts), len(jobs)))
    recs = _printed(res, "MUT")
    ins = []
    for r in recs:
        data = bytes(r["b"]) if "b" in r else unscan(r["u"])
        ins.append(Input("mutant", [r["id"], r["kind"], r["i"], r["n"]], data, r["c"], r["r"], r["f"], args=args_of[r["id"]],
                         label={"text": r["id"], "mutation": r["kind"], "level": "char" if "b" in r else "token"}))
    return ins


_calls = [0]


def rejudge(chk, d, inputs, shards=8, timeout=1500):
    """TLC scans the given texts again from their bytes (spec/TotalFile.tla); returns {index: record}."""
    with _lock:
        _calls[0] += 1
        call = _calls[0]
    groups = [list(range(len(inputs)))[i::shards] for i in range(shards)]
    jobs = []
    for gi, g in enumerate(groups):
        if not g:
            continue
        path = os.path.join(d, "texts%d_%d.json" % (call, gi))
        with open(path, "w") as fh:
            json.dump([{"id": i, "b": list(inputs[i].data)} for i in g], fh)
        jobs.append(("TotalFile", "TotalFile", {"TEXTS": path}, timeout))
    res = _tlc_many(chk, d, jobs, shards, "TotalFile (%d texts, %d shards)" % (len(inputs), len(jobs)))
    return {r["id"]: r for r in _printed(res, "SRC")}


# ---------------------------------------------------------------------------
# directive soups

DIR_TEXT = {"IFT": b"#if t\n", "IFF": b"#if f\n", "IFQ": b"#if q\n", "ELIFT": b"#elseif t\n", "ELIFF": b"#elseif f\n",
            "ELSE": b"#else\n", "ENDIF": b"#endif\n", "ASSERTQ": b"#assert q\n", "UNASSERTQ": b"#unassert q\n",
            "OK": b"-- nothing\n", "BAD": b"\"abc\n", "MISSING": b"#include \"no-such-file-c07.as\"\n",
            "ERROR": b"#error stop here\n", "QUIT": b"#quit\n"}


def dirs_family(chk, d, maxlen, sample=None, rng=None, timeout=1500):
    total = sum(14 ** n for n in range(maxlen + 1))
    shardlen = 0 if total < 5000 else 1
    nshards = 1 if shardlen == 0 else 14
    jobs = []
    for s in range(nshards):
        name = "Directives_s%d" % s
        _cfg(d, "DirectivesQuick", name, {"MaxLen": maxlen, "ShardLen": shardlen, "NShards": nshards, "ShardNo": s})
        jobs.append(("Directives", name, None, timeout))
    res = _tlc_many(chk, d, jobs, 14, "Directives (soups of <= %d lines, %d shards)" % (maxlen, len(jobs)))
    recs = _printed(res, "DIR")
    if len(recs) != total:
        raise vlib.MachineryError("Directives exported %d soups, expected %d" % (len(recs), total))
    if sample and len(recs) > sample:
        recs = rng.sample(recs, sample)
    return [Input("dirs", r["l"], b"#assert t\n" + b"".join(DIR_TEXT[x] for x in r["l"]), r["c"], r["r"], r["f"], kinds=("ap",))
            for r in recs]


# ---------------------------------------------------------------------------
# size stress

def stress_family(chk, d, timeout=600):
    shutil.copy(os.path.join(vlib.SPEC, "StressQuick.cfg"), d)
    res = _tlc_many(chk, d, [("Stress", "StressQuick", None, timeout)], 1, "Stress (laws for sizes 0..4, family exported)")
    recs = _printed(res, "STRESS")
    ins = []
    for r in recs:
        data = bytes(r["pre"]) + bytes(r["unit"]) * max(r["n"], 0) + bytes(r["mid"]) + bytes(r["unit2"]) * max(r["m"], 0) + bytes(r["post"])
        ins.append(Input("stress", r["name"], data, r["law"], args=(["-Mno-emax"] if r["name"].startswith("many-errors") else []),
                         timeout=120))
    if not ins:
        raise vlib.MachineryError("Stress exported nothing")
    return ins


# ---------------------------------------------------------------------------
# (c) seeded random texts

SOUP = [b"(", b")", b"[", b"]", b"{", b"}", b"(|", b"|)", b";", b",", b":=", b"==", b"==>", b"+->", b"->", b":", b"::", b"$", b"@",
        b".", b"..", b"#", b"'", b"`", b"&", b"|", b"||", b"\\", b"/\\", b"\\/", b"^", b"~", b"~=", b"<-", b"=>", b"+", b"-",
        b"*", b"/", b"<", b">", b"<=", b">=", b"=", b"if", b"then", b"else", b"for", b"in", b"while", b"repeat", b"where",
        b"with", b"add", b"import", b"from", b"export", b"return", b"yield", b"generate", b"try", b"catch", b"finally",
        b"throw", b"break", b"iterate", b"macro", b"define", b"default", b"local", b"free", b"fluid", b"has", b"case", b"of",
        b"and", b"or", b"not", b"never", b"select", b"extend", b"pretend", b"Category", b"Type", b"Tuple", b"Record", b"%",
        b"x", b"y", b"f", b"Integer", b"0", b"1", b"42", b"1.5", b"2r101", b"16rFF", b"1e9", b"\"s\"", b"\"", b"_", b"_\xe9",
        b"\n", b"\n  ", b"\n\t", b"\n#pile\n", b"\n#endpile\n", b"--c\n", b"++d\n", b"+++d\n", b"\x00", b"\xe9", b"\x7f", b"\r"]


def random_texts(rng, n):
    out = []
    for k in range(n):
        mode = k % 4
        if mode == 0:
            data = bytes(rng.randrange(256) for _ in range(rng.randint(1, 64)))
        elif mode == 1:
            alpha = b" \n\t\"_#-+(){}[].;:=,ab01xEr|'%?!@$\\/<>"
            data = bytes(rng.choice(alpha) for _ in range(rng.randint(1, 80)))
        elif mode == 2:
            data = b" ".join(rng.choice(SOUP) for _ in range(rng.randint(1, 40)))
        else:
            data = b"".join(rng.choice(SOUP) for _ in range(rng.randint(1, 40)))
        out.append(data)
    return out


def random_family(chk, d, rng, n, shards=8):
    texts = random_texts(rng, n)
    ins = [Input("random", i, t) for i, t in enumerate(texts)]
    verdicts = rejudge(chk, d, ins, shards=shards)
    if len(verdicts) != len(ins):
        raise vlib.MachineryError("TotalFile judged %d of %d random texts" % (len(verdicts), len(ins)))
    for i, inp in enumerate(ins):
        v = verdicts[i]
        inp.cert, inp.asread, inp.feat = v["c"], v["r"], v["f"]
        inp.name = list(inp.data)
    return ins
