"""C08 binding: run the compiler on groups of source files under configurations exported by TLC from
spec/DetCfg.tla and record one Observe event per (file, output kind, configuration) for spec/TraceDet.tla.

Nothing here decides the property: this module realises a configuration (command line, environment, working
directory, ASLR wrapper, batched or separate invocation), hashes what the compiler emitted and writes events.
The comparison of observations is the Obs monitor's, evaluated by TLC.
"""
import concurrent.futures
import difflib
import hashlib
import json
import os
import random
import re
import shutil
import subprocess
import sys
import threading
import time

import vlib

sys.path.insert(0, os.path.join(vlib.VERIF, "gen"))
import progen  # noqa: E402
import render  # noqa: E402
import detproj  # noqa: E402

KINDS = [("ao", "-Fao"), ("fm", "-Ffm"), ("c", "-Fc"), ("lsp", "-Flsp"), ("java", "-Fjava")]
KIND_NAMES = [k for k, _ in KINDS] + ["msg"]
CORPUS = os.path.join(vlib.REPO, "aldor/lib/axllib/test")
CWD = {"A": "A", "B": "B-a-considerably-longer-name-for-the-second-working-directory/nested/deeper"}
ABSENT = [-1, -1, -1, -1]

# variables the compiler documents as inputs (search paths, default arguments, collector tuning, terminal
# selection): they are options, not "the environment" of the property, and are never set by the polluted environment
INPUT_VARS = ("ALDORROOT", "AXIOMXLROOT", "ALDORARGS", "AXIOMXLARGS", "INCPATH", "LIBPATH", "CC", "CGO", "UNICL",
              "GC_DETAIL", "GC_FRUGAL", "GC_GEFN", "GC_GEFD", "GC_GGFN", "GC_GGFD", "GC_CLASSIFY", "GC_BLACKLIST",
              "ALDOR_TERM", "ALDOR_TERMINFO", "ALDOR_ANSI_COLOURS", "ALDOR_ANSI_COLORS", "ALDOR_HP_COLOURS", "ALDOR_HP_COLORS")


def polluted_env(rep):
    e = {"LANG": "tr_TR.UTF-8", "LC_ALL": "tr_TR.UTF-8", "LC_NUMERIC": "de_DE.UTF-8", "TZ": "Pacific/Kiritimati",
         "HOME": "/nonexistent/home", "USER": "nobody", "LOGNAME": "nobody", "TMPDIR": "/nonexistent/tmp", "TMP": "/nonexistent/tmp",
         "COLUMNS": "23", "LINES": "5", "TERM": "xterm-256color", "PWD": "/somewhere/else", "OLDPWD": "/",
         "PATH": "/nonexistent/bin:/usr/bin:/bin", "SHELL": "/bin/false", "MALLOC_PERTURB_": "165", "POSIXLY_CORRECT": "1",
         "SOURCE_DATE_EPOCH": "1", "EDITOR": "ed", "LS_COLORS": "di=01;34:" * 40}
    # shift the initial stack (the conservative collector scans it) by a different amount in every repetition
    for i in range(40 + 17 * rep):
        e["VERIF_POLLUTION_%03d" % i] = ("%d-" % i) * (50 + 7 * rep)
    assert not set(e) & set(INPUT_VARS)
    return e


# --------------------------------------------------------------------------
# inputs

class Input(object):
    def __init__(self, name, text, cls, origin):
        self.name = name          # file name, unique in the whole run, ends in .as
        self.text = text
        self.cls = cls            # "tiny" | "gen" | "corpus"   (DetCfg!Classes)
        self.origin = origin
        self.stem = name[:-3]


class Group(object):
    def __init__(self, gid, inputs, opts=(), batch_only=False, comp=None):
        self.gid = gid
        self.inputs = inputs
        self.opts = list(opts)
        self.cls = inputs[0].cls
        self.midk = False         # generated programs: also run under forced schedules with 50 <= k < 1000
        self.batch_only = batch_only   # a batch composition of the family: only run as one invocation (inv = batch)
        self.comp = comp          # the BATCH record of DetCfg it realises


ILL_TYPED = [  # appended to a rendered program: each line adds a diagnostic
    'vbad1: SingleInteger := "a string where an integer is required";',
    'print << vbadUndefinedName << newline;',
    'vbad2(a: String): SingleInteger == a;',
    'vbad3: Boolean := 1 + "x";',
    'vbad4: SingleInteger == 3; vbad4 := 4;',
    'import from NoSuchDomainAnywhere;',
]


# --------------------------------------------------------------------------
# the batch family (DetCfg!FileKinds): two representatives of every kind, all derived from the seed

SENSOR = ('#if C08FlagA\nprint << "C08FlagA is asserted in this file" << newline;\n#endif\n'
          '#if C08FlagB\nprint << "C08FlagB is asserted in this file" << newline;\n#endif\n')
HEADERS = {"A": ["c08hdrone.h", "c08hdrtwo.h", "<math.h>"], "B": ["c08hdrtwo.h", "c08hdrthree.h", "<stdlib.h>", "c08hdrone.h"]}
STUB_HEADERS = ["c08hdrone.h", "c08hdrtwo.h", "c08hdrthree.h"]


def _hdr(h):
    return 'C "%s"' % h if h.startswith("<") else 'C("%s")' % h


def _fam_foreign(rnd, which, rep):
    hs = list(HEADERS[which])
    if rep == 2:
        hs.reverse()
    lines = ['#include "axllib"', SENSOR.rstrip("\n"), "import from SingleInteger, String;"]
    calls = []
    for n, h in enumerate(hs):
        sep = "_" if which == "A" else "x"       # `_' is the escape character: the files of set A carry warnings
        f1, f2 = "c08%s%d%s%da" % (which.lower(), rep, sep, n), "c08%s%d%s%db" % (which.lower(), rep, sep, n)
        lines.append("import {\n  %s: SingleInteger -> SingleInteger;\n  %s: (SingleInteger, String) -> SingleInteger;\n} from Foreign %s;"
                     % (f1, f2, _hdr(h)))
        calls.append('%s(%d) + %s(%d, "%s")' % (f1, rnd.randrange(1000), f2, rnd.randrange(1000), "s%d" % rnd.randrange(10 ** 6)))
    lines.append("print << %s << newline;" % " + ".join(calls))
    return "\n".join(lines) + "\n"


def _fam_fuse(rnd, rep):
    h = ["c08hdrtwo.h", "c08hdrone.h"][rep - 1]
    return ('#include "axllib"\n' + SENSOR + "import from SingleInteger, String;\n"
            "import { c08use%d: (SingleInteger, SingleInteger) -> SingleInteger } from Foreign %s;\n"
            "import { c08plain%d: String -> SingleInteger } from Foreign C;\n"
            'g(x: SingleInteger): SingleInteger == c08use%d(x, %d) + c08plain%d "%s";\nprint << g %d << newline;\n'
            % (rep, _hdr(h), rep, rep, rnd.randrange(1000), rep, "u%d" % rnd.randrange(10 ** 6), rnd.randrange(100)))


def _fam_lits(rnd, rep):
    lines = ['#include "axllib"', SENSOR.rstrip("\n"), "SI ==> SingleInteger;", "BI ==> Integer;",
             "import from SI, BI, String, DoubleFloat, Character;"]
    uses = []
    n = 14 + 6 * rep
    for i in range(n):
        k = rnd.randrange(5)
        if k == 0:
            lines.append('s%d: String := "%s";' % (i, "".join(rnd.choice("abcdefghijklmnopqrstuvwxyz 0123456789-+*/") for _ in range(rnd.randrange(1, 40)))))
            uses.append("s%d" % i)
        elif k == 1:
            lines.append("b%d: BI := %d@BI;" % (i, rnd.randrange(10 ** 20, 10 ** (21 + rnd.randrange(30)))))
            uses.append("b%d" % i)
        elif k == 2:
            lines.append("k%d: SI := %d@SI;" % (i, rnd.randrange(2 ** 30)))
            uses.append("k%d" % i)
        elif k == 3:
            lines.append("d%d: DoubleFloat := %d.%d;" % (i, rnd.randrange(1000), rnd.randrange(1, 10 ** 6)))
            uses.append("d%d" % i)
        else:
            lines.append('c%d: Character := char "%s";' % (i, rnd.choice("abcdefghijkXYZ0123")))
            uses.append("c%d" % i)
    # the same literal more than once: a pool keyed by content must not remember an earlier file
    lines.append('t1: String := "shared literal"; t2: String := "shared literal"; t3: BI := 340282366920938463463374607431768211456@BI;')
    lines.append("print << %s << t1 << t2 << t3 << newline;" % ' << " " << '.join(uses))
    return "\n".join(lines) + "\n"


def _fam_prag(rnd, rep):
    a, b = ("C08FlagA", "C08FlagB") if rep == 1 else ("C08FlagB", "C08FlagA")
    return ('#include "axllib"\n#assert %s\n#assert %s\n#unassert %s\n#int verbose\n' % (a, b, b) + SENSOR +
            'import from SingleInteger;\n#libraryDir "/c08/no/such/libdir%d"\n#includeDir "/c08/no/such/incdir%d"\n'
            "#pile\nh(x: SingleInteger): SingleInteger ==\n  y := x + %d\n  y * %d\nprint << h %d << newline\n#endpile\n#assert C08FlagLate%d\n"
            % (rep, rep, rnd.randrange(100), 1 + rnd.randrange(9), rnd.randrange(100), rep))


def _fam_tiny(rnd, rep):
    """A program that loads no library at all (after axllib/test/triv1): it declares the few types it needs itself."""
    more = "" if rep == 1 else 'import { putchar: Char -> () } from Foreign C "<stdio.h>";\n'
    return ("export { Type: Type; Tuple: Type -> Type; ->: (Tuple Type, Tuple Type) -> Type; Literal: Type; String: Type%s }\n"
            'import { puts: String -> () } from Foreign C "<stdlib.h>";\n%s'
            "string(s: Literal): String == s pretend String;\n"
            '#if C08FlagA\nputs "C08FlagA is asserted in this file";\n#endif\n#if C08FlagB\nputs "C08FlagB is asserted in this file";\n#endif\n'
            'puts "%d Skidoo %d";\n' % ("; Char: Type" if rep == 2 else "", more, rnd.randrange(100), rnd.randrange(10 ** 6)))


def family_files(seed, tiny_corpus=None):
    """(kind, rep) -> Input for every slot of DetCfg!Slots."""
    rnd = random.Random(seed * 31 + 5)
    notry = [f for f in progen.ALL_FEATURES if f != "try"]
    progs = progen.generate((seed + 21) % 1000003, 4, notry)

    def prog_text(i):
        t = render.render(progs[i])
        return t.replace('#include "axllib"\n', '#include "axllib"\n' + SENSOR, 1)
    texts = {}
    for rep in (1, 2):
        texts[("tiny", rep)] = _fam_tiny(rnd, rep)
        texts[("clean", rep)] = prog_text(rep - 1)
        texts[("lits", rep)] = _fam_lits(rnd, rep)
        texts[("fhdrA", rep)] = _fam_foreign(rnd, "A", rep)
        texts[("fhdrB", rep)] = _fam_foreign(rnd, "B", rep)
        texts[("fuse", rep)] = _fam_fuse(rnd, rep)
        texts[("prag", rep)] = _fam_prag(rnd, rep)
    texts[("err", 1)] = prog_text(2).rstrip("\n") + "\n" + "\n".join(rnd.sample(ILL_TYPED, 3)) + "\n"
    # a syntax error (the parser recovers and goes on) before a type error
    texts[("err", 2)] = ('#include "axllib"\n' + SENSOR + "import from SingleInteger;\nw1: SingleInteger := (3 + ;\n"
                         'w2: SingleInteger := 4;\nprint << w2 << newline;\n')
    out = {}
    for (kind, rep), t in texts.items():
        origin = "family:%s%d" % (kind, rep)
        out[(kind, rep)] = Input("f_%s%d.as" % (kind, rep), t, "fam", origin)
    return out


def family_groups(seed, tier, batches, tiny_corpus=None):
    """The pool (every representative, compiled separately and in pool order) and the batch compositions chosen for the tier
    from the BATCH export of DetCfg: every two-file batch, and a seeded sample of the longer ones."""
    files = family_files(seed, tiny_corpus)
    rnd = random.Random(seed * 17 + 3)
    kinds = sorted({k for k, _ in files})
    if {b["kind"] for c in batches for b in c["files"]} != set(kinds):
        raise vlib.MachineryError("the file kinds of DetCfg (%s) are not the kinds the generator knows (%s)" %
                                  (sorted({b["kind"] for c in batches for b in c["files"]}), kinds))
    groups = []
    pool = [files[(k, r)] for r in (1, 2) for k in kinds]
    for i in range(0, len(pool), 4):
        groups.append(Group("fampool%d" % (i // 4), pool[i:i + 4]))
    by_len = {}
    for c in batches:
        by_len.setdefault(len(c["files"]), []).append(c)
    for v in by_len.values():
        v.sort(key=lambda c: c["id"])
    n3, n4 = (14, 10) if tier == "quick" else (len(by_len.get(3, [])), 400)
    scale = float(os.environ.get("VERIF_C08_SCALE", "1"))
    if tier != "quick" and scale != 1:
        n3, n4 = int(n3 * scale), int(n4 * scale)
    chosen = list(by_len.get(2, []))
    chosen += rnd.sample(by_len.get(3, []), min(n3, len(by_len.get(3, []))))
    chosen += rnd.sample(by_len.get(4, []), min(n4, len(by_len.get(4, []))))
    for c in chosen:
        groups.append(Group("fam:" + c["id"], [files[(f["kind"], f["rep"])] for f in c["files"]], batch_only=True, comp=c))
    return groups


def _safe(name):
    return re.sub(r"[^A-Za-z0-9_]", "_", name)


def corpus_files():
    """(path, text, library_free) for every corpus source that is self-contained or only includes the library."""
    out = []
    for d in sorted(os.listdir(CORPUS)):
        p = os.path.join(CORPUS, d, d + ".as")
        if not os.path.isfile(p):
            continue
        try:
            text = open(p, encoding="latin-1").read()
        except OSError:
            continue
        incs = re.findall(r'^\s*#\s*(?:include|library|reinclude)\s+(?:\w+\s+)?"([^"]*)"', text, re.M)
        if any(i not in ("axllib", "axllib.as") for i in incs):
            continue
        out.append((p, text, not incs))
    return out


def make_inputs(seed, tier, batches=None):
    """Returns the list of groups for a tier.  Everything is derived from `seed`.  `batches` = the BATCH records exported
    by TLC from DetCfg (None: no batch family, for callers that only want the ordinary groups)."""
    rnd = random.Random(seed)
    cf = corpus_files()
    tiny = [c for c in cf if c[2] and len(c[1]) < (2500 if tier == "quick" else 6000)]
    big = [c for c in cf if not c[2] and len(c[1]) < 20000]     # measured: every one compiles in < 0.5 s of CPU
    n_tiny, n_gen, n_bad, n_corpus, gsize = (9, 6, 3, 6, 3) if tier == "quick" else (57, 90, 24, 300, 3)
    scale = float(os.environ.get("VERIF_C08_SCALE", "1"))       # development aid: shrink the thorough tier's input sample
    if tier != "quick" and scale != 1:
        n_tiny, n_gen, n_bad, n_corpus = (max(3, int(n * scale)) for n in (n_tiny, n_gen, n_bad, n_corpus))
    rnd.shuffle(tiny)
    rnd.shuffle(big)
    want = [w for w in os.environ.get("VERIF_C08_CORPUS", "").split(",") if w]    # development aid: put these corpus files first
    if want:
        big.sort(key=lambda c: 0 if os.path.basename(c[0])[:-3] in want else 1)
        tiny.sort(key=lambda c: 0 if os.path.basename(c[0])[:-3] in want else 1)
    groups = []

    def add(prefix, inputs, opts=()):
        for i in range(0, len(inputs), gsize):
            part = inputs[i:i + gsize]
            if part:
                groups.append(Group("%s%d" % (prefix, i // gsize), part, opts))

    def corpus_input(c, cls, tag):
        p, text, _ = c
        return Input("%s_%s.as" % (tag, _safe(os.path.basename(p)[:-3])), text, cls, os.path.relpath(p, vlib.REPO))

    # library-free corpus files: plain, and with the planted errors of the corpus switched on
    t_err = [c for c in tiny if "TestErrorsToo" in c[1]]
    t_plain = tiny[:n_tiny]
    add("tiny", [corpus_input(c, "tiny", "t") for c in t_plain])
    add("tinyerr", [corpus_input(c, "tiny", "te") for c in t_err[:max(3, n_tiny // 3)]], ["-DTestErrorsToo"])
    # generated programs (the AldorSem family), a few of them made ill-typed
    # the Java generator aborts on try/catch ("Java not implemented"), which ends a whole batch: most programs avoid it
    notry = [f for f in progen.ALL_FEATURES if f != "try"]
    n_try = max(1, n_gen // 8)
    progs = (progen.generate((seed + 8) % 1000003, n_gen - n_try, notry) + progen.generate((seed + 9) % 1000003, n_try)
             + progen.generate((seed + 10) % 1000003, n_bad, notry))
    gens = []
    for i, p in enumerate(progs):
        text = render.render(p)
        if i >= n_gen:
            lines = rnd.sample(ILL_TYPED, 1 + rnd.randrange(3))
            text = text.rstrip("\n") + "\n" + "\n".join(lines) + "\n"
        gens.append(Input("%s%s.as" % ("gb_" if i >= n_gen else "g_", _safe(p["id"])), text, "gen", "progen:%s" % p["id"]))
    good, bad = gens[:n_gen], gens[n_gen:]
    half = len(good) // 2
    add("gen", good[:half])
    add("genq", good[half:], ["-Q3"])
    add("genbad", bad)
    if tier == "quick":
        pass      # periods 50 <= k < 1000 cost about 20 s of CPU per generated program: thorough tier only
    else:
        marked = 0
        for g in groups:
            if g.gid.startswith("gen") and not g.opts and marked < 5:
                g.midk = True
                marked += 1
    # corpus programs over the library: plain and with planted errors
    c_err = [c for c in big if "TestErrorsToo" in c[1]]
    cin = [corpus_input(c, "corpus", "c") for c in big[:n_corpus]]
    if tier == "quick":
        add("corpus", cin)
    else:
        # the optimiser and the inliner walk tables too: a third of the corpus is compiled at other levels
        third = len(cin) // 3
        add("corpus", cin[:len(cin) - third])
        add("cq3_", cin[len(cin) - third:len(cin) - third // 2], ["-Q3"])
        add("cq0_", cin[len(cin) - third // 2:], ["-Q0"])
    add("corpuserr", [corpus_input(c, "corpus", "ce") for c in c_err[:max(3, n_corpus // 3)]], ["-DTestErrorsToo"])
    if batches:
        groups += family_groups(seed, tier, batches, [c for c in cf if c[2] and len(c[1]) < 2500 and "TestErrorsToo" not in c[1]])
    return groups


# --------------------------------------------------------------------------
# one run = one group under one configuration

def digest_words(data):
    h = hashlib.sha256(data).digest()
    n = int.from_bytes(h[:16], "big")
    return [(n >> (31 * i)) & 0x7FFFFFFF for i in range(4)]


def out_file(d, stem, kind):
    return os.path.join(d, "aldorcode", stem + ".java") if kind == "java" else os.path.join(d, stem + "." + kind)


def split_batch_stream(text, names):
    """The driver prints "\\n<name>:\\n" before it starts each file of a multi-file invocation; the messages of a
    file are what follows its header up to the next header.  `names` may name a file more than once (it is then compiled
    more than once).  Returns a list parallel to `names`: bytes, or None where the header is missing."""
    pos = []
    start = 0
    for n in names:
        h = b"\n" + n.encode() + b":\n"
        i = text.find(h, start)
        if i < 0:
            pos.append(None)
            continue
        pos.append((i, i + len(h)))
        start = i + len(h)
    out = [None] * len(names)
    order = [k for k in range(len(names)) if pos[k] is not None]
    for j, k in enumerate(order):
        end = pos[order[j + 1]][0] if j + 1 < len(order) else len(text)
        out[k] = text[pos[k][1]:end]
    return out


class Runner(object):
    def __init__(self, build, workdir):
        self.wd = workdir
        self.aldor = os.path.join(workdir, "aldor-under-test")
        shutil.copy(build["aldor"], self.aldor)          # the shared build cache may evict its directory mid-run
        self.setarch = shutil.which("setarch") or "/usr/bin/setarch"
        self.keep = os.path.join(workdir, "keep")
        os.makedirs(self.keep, exist_ok=True)
        self.kept = {}            # (input, digest tuple) -> path of a copy (detail of a disagreement only)
        self.kept_n = {}
        self.commands = {}        # (gid, cfg id) -> how the run was made (for the replay file)
        self.nruns = 0
        self.paths_recorded = set()
        self.lock = threading.Lock()
        self.durations = {}
        self.unreached = 0        # files of a batch that a failed invocation never started
        # every run has a directory of its own, but the compiler must see the SAME absolute path whenever the cwd axis
        # has the same value (otherwise a recorded path would be blamed on whatever axis the two runs differ in): each
        # invocation gets a private mount namespace in which its directory is bound onto the path of its cwd value
        self.mnt = {k: os.path.join(workdir, "cwd", v) for k, v in CWD.items()}
        for m in self.mnt.values():
            os.makedirs(m)
        self.unshare, self.sh, self.mount = (shutil.which(x) for x in ("unshare", "sh", "mount"))
        self.ns = self._probe_ns()
        self.hangs = 0
        self.hang_list = []
        self.skipped_after_hangs = 0
        # projections (DetCfg!Projections) are functions of the bytes of an output: computed once per distinct content
        self.proj_cache = {}      # (kind, sha256 of the content) -> {projection: bytes}
        self.stubs = os.path.join(workdir, "c08-stub-headers")
        os.makedirs(self.stubs, exist_ok=True)
        for h in STUB_HEADERS:
            open(os.path.join(self.stubs, h), "w").close()
        self.nproj = 0
        self.ngcc = 0

    def projections(self, kind, data, path):
        k = (kind, hashlib.sha256(data).digest())
        with self.lock:
            p = self.proj_cache.get(k)
        if p is not None:
            return p
        syntax = None
        if kind == "c":
            syntax = detproj.gcc_syntax(path, [os.path.join(vlib.REPO, "aldor/aldor/src"), self.stubs])
            if syntax is None:
                raise vlib.MachineryError("gcc -fsyntax-only did not finish on %s" % path)
        p = detproj.project(kind, data, syntax)
        if sorted(p) != sorted(detproj.PROJECTIONS[kind]):
            raise vlib.MachineryError("projections of %s: %s computed, %s declared" % (kind, sorted(p), detproj.PROJECTIONS[kind]))
        with self.lock:
            self.proj_cache[k] = p
            self.nproj += 1
            self.ngcc += 1 if kind == "c" else 0
        return p

    NS_SCRIPT = '%s --bind "$1" "$2" && cd "$2" && shift 2 && exec "$@"'

    def _probe_ns(self):
        if not (self.unshare and self.sh and self.mount):
            return False
        d = os.path.join(self.wd, "nsprobe")
        os.makedirs(d, exist_ok=True)
        r = subprocess.run([self.unshare, "-m", self.sh, "-c", self.NS_SCRIPT % self.mount, "sh", d, self.mnt["B"], "/bin/pwd"],
                           stdout=subprocess.PIPE, stderr=subprocess.PIPE, env={})
        return r.returncode == 0 and r.stdout.decode().strip() == self.mnt["B"]

    def check_aslr_switch(self):
        """setarch -R must really switch randomisation off in this sandbox (and it must be on otherwise)."""
        def maps(pre):
            r = subprocess.run(pre + ["cat", "/proc/self/maps"], stdout=subprocess.PIPE, stderr=subprocess.PIPE)
            return r.returncode, hashlib.sha1(re.sub(rb"\s+\d+\s+/", b" /", r.stdout)).hexdigest()
        off = [maps([self.setarch, "-R"]) for _ in range(2)]
        on = [maps([]) for _ in range(3)]
        if off[0][0] != 0 or off[0] != off[1]:
            raise vlib.MachineryError("setarch -R does not give a reproducible address space here")
        if len(set(on)) < 2:
            raise vlib.MachineryError("address space layout randomisation is not active: the aslr axis would be vacuous")

    def invoke(self, group, conf, files, nth):
        """One compiler invocation on `files` (names) of `group` under configuration `conf` (a CONFIG record of DetCfg).
        Returns {"rc", "obs": {(name, kind): bytes digest list}, "reached": [names]}."""
        c = conf["cfg"]
        t_start = time.time()
        top = os.path.join(self.wd, "r%06d" % nth)
        d = os.path.join(top, CWD[c["cwd"]])
        os.makedirs(d)
        texts = {i.name: i for i in group.inputs}
        for n in set(files):
            with open(os.path.join(d, n), "w", encoding="latin-1") as fh:
                fh.write(texts[n].text)
        env = {} if c["env"] == "empty" else polluted_env(c["rep"])
        for k, v in conf["envadd"]:
            env[k] = v
        pre = [self.setarch if w == "setarch" else w for w in conf["wrapper"]]
        cmd = pre + [self.aldor] + vlib.ALDOR_BASE_ARGS + list(conf["args"]) + group.opts + [f for _, f in KINDS] + list(files)
        seen_dir = d
        if self.ns:
            seen_dir = self.mnt[c["cwd"]]
            cmd = [self.unshare, "-m", self.sh, "-c", self.NS_SCRIPT % self.mount, "sh", d, seen_dir] + cmd
        est = sum(cost_file(texts[n], conf) for n in files)
        limit = min(1800, 120 + 100 * est)
        with self.lock:
            skip = self.hangs >= 3 and c["gc"]["k"] > 0
        if skip:
            # several invocations already failed to terminate: the verdict is settled, do not wait for the rest of the forced runs
            shutil.rmtree(top, ignore_errors=True)
            with self.lock:
                self.skipped_after_hangs += 1
            return None
        rc, out, err, to = vlib.run(cmd, cwd=d, timeout=limit, env=env)
        if to:
            # no exit within the limit (a hundred times the estimate plus two minutes).  Before this is taken as the Hang
            # event of DESIGN.md appendix D the invocation is repeated with three times the limit: a loaded machine is not a hang
            for n in os.listdir(d):
                if n not in files:
                    pth = os.path.join(d, n)
                    shutil.rmtree(pth) if os.path.isdir(pth) else os.unlink(pth)
            rc, out, err, to = vlib.run(cmd, cwd=d, timeout=3 * limit, env=env)
        if to:
            with self.lock:
                self.hangs += 1
                self.hang_list.append({"group": group.gid, "cfg": conf["id"], "files": list(files), "limit_s": round(4 * limit)})
            rc = 999
            out = (out or b"") + b"\0<hang: no exit within the time limit>"
            err = err or b""
        tail = b"\0stderr:" + err + (b"\0signal %d" % -rc if rc < 0 else b"")
        # msgs: one entry per position of `files` (a file named twice is compiled twice and reports twice)
        if len(files) == 1:
            msgs = [out + tail]
            nreached = 1
        else:
            seg = split_batch_stream(out, files)
            got = [k for k in range(len(files)) if seg[k] is not None]
            msgs = [None] * len(files)
            for k in got:
                msgs[k] = seg[k] + (tail if k == got[-1] else b"\0stderr:")
            if rc == 0 or not got:
                # a successful invocation must have announced every file: a missing one is observed as absent
                nreached = len(files)
            else:
                # the invocation failed (fatal error, abort) inside its last announced file: the files after it were
                # never started, which the failing file's own diagnostics and the exit status already show
                nreached = got[-1] + 1
        reached = list(files[:nreached])
        # projections: in the baseline, in its repetition (so that every projection is observed twice even for a file that
        # no batch ever reaches) and in every batched run
        want_proj = c["inv"] == "batch" or conf["dist"] == 0 or (conf["dist"] == 1 and c["rep"] == 2)
        obs = []                 # (file, kind, view, digest); view "text" = the whole output
        dtag = seen_dir.encode()

        def keep(key, dg, data):
            kk = (key, tuple(dg))
            with self.lock:
                # every distinct content of an input is kept (reports and signatures of differences need both sides)
                if kk not in self.kept and len(self.kept) < 60000 and data is not None:
                    variants = self.kept_n.get(key, 0)
                    self.kept_n[key] = variants + 1
                    kp = os.path.join(self.keep, "%s.%d" % (key.replace("|", ".").replace(":", "-"), variants))
                    with open(kp, "wb") as fh:
                        fh.write(data)
                    self.kept[kk] = kp
        last_pos = {n: k for k, n in enumerate(reached)}
        for k, n in enumerate(reached):
            # every occurrence reports its messages; the files on disk are those of the last occurrence
            data = msgs[k]
            if data is not None and dtag in data:
                self.paths_recorded.add("msg")
            dg = ABSENT if data is None else digest_words(data)
            obs.append((n, "msg", "text", dg))
            keep("%s|msg" % n, dg, data)
            if last_pos[n] != k:
                continue
            for kind in KIND_NAMES[:-1]:
                pth = out_file(d, n[:-3], kind)
                data = open(pth, "rb").read() if os.path.isfile(pth) else None
                if data is not None and dtag in data:
                    self.paths_recorded.add(kind)
                dg = ABSENT if data is None else digest_words(data)
                obs.append((n, kind, "text", dg))
                keep("%s|%s" % (n, kind), dg, data)
                if want_proj:
                    pr = self.projections(kind, data, pth) if data is not None else {}
                    for v in detproj.PROJECTIONS[kind]:
                        pdg = digest_words(pr[v]) if v in pr else ABSENT
                        obs.append((n, kind, v, pdg))
                        keep("%s|%s:%s" % (n, kind, v), pdg, pr.get(v))
        shutil.rmtree(top, ignore_errors=True)
        with self.lock:
            self.nruns += 1
            self.unreached += len(files) - len(reached)
            ent = self.commands.setdefault((group.gid, conf["id"]), {"cwd": seen_dir, "env": c["env"], "envadd": conf["envadd"], "commands": []})
            ent["commands"].append(" ".join(cmd))
            self.durations[(group.gid, conf["id"], files[0])] = time.time() - t_start
        ends = rc != 0 and any(m in out for m in (b"(Fatal Error)", b"Program fault", b"Compiler bug"))
        return {"rc": rc, "obs": obs, "reached": reached, "files": list(files), "ends_invocation": ends}

    def describe_difference(self, key, dg1, dg2):
        """Human-readable detail for the replay file (never used for the verdict)."""
        p1, p2 = self.kept.get((key, tuple(dg1))), self.kept.get((key, tuple(dg2)))
        if not p1 or not p2:
            return "(one side absent or not kept: digests %s / %s)" % (dg1, dg2)
        a, b = open(p1, "rb").read(), open(p2, "rb").read()
        if key.endswith("|ao"):
            n = next((i for i in range(min(len(a), len(b))) if a[i] != b[i]), min(len(a), len(b)))
            return "binary: lengths %d/%d, first difference at byte %d: %r / %r" % (len(a), len(b), n, a[n:n + 24], b[n:n + 24])
        ud = difflib.unified_diff(a.decode("latin-1").splitlines(), b.decode("latin-1").splitlines(), "first", "other", lineterm="", n=1)
        return "\n".join(list(ud)[:60])


def plan(confs, groups, tier, seed):
    """Which (group, configuration) pairs are run.  Configurations come from the TLC export only; a configuration is
    applied to a group only if the group's size class is in the configuration's `classes` (DetCfg!Classes)."""
    rnd = random.Random(seed + 77)
    by_id = {c["id"]: c for c in confs}
    base = [c for c in confs if c["dist"] == 0]
    assert len(base) == 1
    star = [c for c in confs if c["dist"] == 1]
    unforced = [c for c in star if c["cfg"]["gc"]["k"] == 0]
    forced = [c for c in star if c["cfg"]["gc"]["k"] > 0]
    far = [c for c in confs if c["dist"] >= 2]
    chosen = {}

    def cid(**kw):
        b = dict(base[0]["cfg"])
        b.update(kw)
        g = b["gc"]
        gid = g["flag"] if g["k"] == 0 else "%s+forced%d:%d" % (g["flag"], g["k"], g["j"])
        return "gc=%s,aslr=%s,cwd=%s,env=%s,inv=%s,rep=%d" % (gid, b["aslr"], b["cwd"], b["env"], b["inv"], b["rep"])

    def gc(flag, k=0, j=0):
        return {"flag": flag, "k": k, "j": j}
    if tier == "quick":
        common = base + unforced     # aslr on, cwd B, env polluted, batch, rep 2, rep 3, -Wgc, -Wno-gc
        extra_ids = [cid(aslr="on", rep=2), cid(aslr="on", inv="batch"), cid(aslr="on", inv="batch", rep=2),
                     cid(aslr="on", cwd="B", env="polluted", inv="batch", gc=gc("-Wno-gc"), rep=3),
                     cid(gc=gc("none", 1000, 500)), cid(gc=gc("-Wgc", 1000, 999), aslr="on", env="polluted")]
        by_class = {"tiny": [cid(gc=gc("none", 1, 0)), cid(gc=gc("-Wgc", 2, 1)), cid(gc=gc("none", 3, 1)), cid(gc=gc("none", 7, 6), aslr="on"),
                             cid(gc=gc("none", 50, 25), inv="batch")],
                    "gen": [], "corpus": [], "fam": []}
        fam_pool = [cid(), cid(rep=2), cid(aslr="on"), cid(inv="batch"), cid(aslr="on", inv="batch")]
    else:
        common = base + unforced + rnd.sample([c for c in far if c["cfg"]["gc"]["k"] == 0], 40)
        common += [c for c in star + far if c["cfg"]["gc"]["k"] >= 1000 and c["dist"] <= 1]
        common += rnd.sample([c for c in far if c["cfg"]["gc"]["k"] >= 1000], 10)
        extra_ids = []
        small_k = [c for c in confs if 0 < c["cfg"]["gc"]["k"] < 50]
        mid_k = [c for c in confs if 50 <= c["cfg"]["gc"]["k"] < 1000]
        by_class = {"tiny": [c["id"] for c in small_k if c["dist"] <= 1] + [c["id"] for c in rnd.sample([c for c in small_k if c["dist"] >= 2], 12)]
                            + [c["id"] for c in mid_k if c["dist"] <= 1],
                    "gen": [c["id"] for c in mid_k if c["dist"] <= 1 and c["cfg"]["gc"]["flag"] == "none"], "corpus": [], "fam": []}
        fam_pool = None       # the pool of the family gets every unforced configuration chosen above
    batch_cfgs = sorted(c["id"] for c in confs if c["cfg"]["inv"] == "batch" and c["cfg"]["gc"]["k"] == 0 and c["dist"] >= 2)
    for i in extra_ids + [x for v in by_class.values() for x in v]:
        if i not in by_id:
            raise vlib.MachineryError("configuration %s is not in the TLC export of DetCfg" % i)
    pairs = []
    for gi, g in enumerate(groups):
        if g.batch_only:
            # a batch composition: one invocation under the baseline's batched neighbour; some also under a second batched
            # configuration (quick: every fourth, ASLR on; thorough: every one, a seeded unforced configuration)
            cs = [by_id[cid(inv="batch")]]
            if tier == "quick":
                cs += [by_id[cid(aslr="on", inv="batch")]] if gi % 4 == 0 else []
            else:
                cs.append(by_id[rnd.choice(batch_cfgs)])
        elif g.cls == "fam" and fam_pool is not None:
            cs = [by_id[i] for i in fam_pool]
        else:
            cs = list(common) + [by_id[i] for i in extra_ids] + [by_id[i] for i in by_class[g.cls]]
        seen = set()
        for c in cs:
            if c["id"] in seen or g.cls not in c["classes"]:
                continue
            seen.add(c["id"])
            # periods below 1000 cost 10-100 s of CPU per generated program: only the groups marked for it get them
            if g.cls == "gen" and 0 < c["cfg"]["gc"]["k"] < 1000 and not g.midk:
                continue
            pairs.append((g, c))
            chosen[c["id"]] = c
    return pairs, list(chosen.values())


def hash_int(s):
    return int(hashlib.sha1(s.encode()).hexdigest()[:8], 16)


def cost_file(inp, c):
    """Estimated CPU seconds of compiling one file under configuration c (measured on this machine, unloaded:
    a forced collection costs about 1 ms on a library-free file plus 2 ms per KB of source, and 13 ms once the library is loaded)."""
    k = c["cfg"]["gc"]["k"]
    kb = len(inp.text) / 1000.0
    if inp.cls == "tiny":
        return 0.006 + ((1.0 + 2.3 * kb) / k if k else 0)
    unit, per = {"gen": (0.09, 15000.0), "corpus": (0.05, 10000.0), "fam": (0.07, 12000.0)}[inp.cls]
    return unit * (1 + (per / k if k else 0))


def cost(g, c):
    return max(cost_file(i, c) for i in g.inputs)


def run_all(runner, pairs, nproc):
    """Run every (group, configuration) pair -- one job per compiler invocation -- and turn the results into Observe
    events grouped by monitor input, the baseline observation first (so that `first` in a report is the baseline)."""
    results = {}

    def stage(pis):
        jobs = []
        for pi in pis:
            g, c = pairs[pi]
            names = [i.name for i in g.inputs]
            if g.batch_only and c["cfg"]["inv"] != "batch":
                raise vlib.MachineryError("batch composition %s planned under a separate-invocation configuration" % g.gid)
            for files in ([names] if c["cfg"]["inv"] == "batch" else [[n] for n in names]):
                jobs.append((pi, files))
        texts = {i.name: i for g, _ in pairs for i in g.inputs}
        jobs.sort(key=lambda j: -sum(cost_file(texts[n], pairs[j[0]][1]) for n in j[1]))      # longest first
        with concurrent.futures.ThreadPoolExecutor(max_workers=nproc) as ex:
            futs = {ex.submit(runner.invoke, pairs[pi][0], pairs[pi][1], files, n): (pi, files)
                    for n, (pi, files) in enumerate(jobs, start=stage.counter)}
            stage.counter += len(jobs)
            for f in concurrent.futures.as_completed(futs):
                pi, files = futs[f]
                results.setdefault(pi, []).append(f.result())
    stage.counter = 0
    # stage 1: the baseline (separate invocations).  A file whose own compilation ends the invocation (fatal error, abort)
    # would keep the files after it in a batch from being compiled at all, so such files are moved to the end of their
    # group before any batched run is made (the order of a group is fixed from then on).
    first = [pi for pi, (g, c) in enumerate(pairs) if c["dist"] == 0]
    stage(first)
    for pi in first:
        g = pairs[pi][0]
        ends = {r["files"][0]: r["ends_invocation"] for r in results[pi] if r is not None}
        g.inputs.sort(key=lambda i: 1 if ends.get(i.name) else 0)
    fs = set(first)
    stage([pi for pi in range(len(pairs)) if pi not in fs])
    jobs_results = [(pi, r) for pi in results for r in results[pi]]
    per_pair = {pi: [] for pi in range(len(pairs))}
    for pi, r in jobs_results:
        if r is not None:
            per_pair[pi].append(r)
    by_input = {}

    def emit(c, key, dg, kind, view="text", run=""):
        by_input.setdefault(key, []).append((c["dist"], c["id"], {"ev": "Observe", "input": key, "kind": kind, "proj": view, "run": run,
                                                                  "cfg": c["cfg"], "digest": dg}))
    # how many batched runs a group has: the batch as an input of its own needs two of them to say anything
    nbatch = {}
    for g, c in pairs:
        if c["cfg"]["inv"] == "batch":
            nbatch[g.gid] = nbatch.get(g.gid, 0) + 1
    sep_rc = {}      # (configuration id, file) -> status of its separate compilation
    for pi, (g, c) in enumerate(pairs):
        rs = per_pair[pi]
        batch = c["cfg"]["inv"] == "batch"
        own = nbatch.get(g.gid, 0) >= 2
        complete = len(rs) == (1 if batch else len(g.inputs))
        rcsum = 0
        for r in rs:
            rcsum += r["rc"] if r["rc"] >= 0 else 1000 - r["rc"]
            complete = complete and len(r["reached"]) == len(r["files"])
            if not batch and len(r["reached"]) == 1:
                sep_rc[(c["id"], r["files"][0])] = r["rc"]
            for n, kind, view, dg in r["obs"]:
                vk = kind if view == "text" else "%s:%s" % (kind, view)
                emit(c, "%s|%s" % (n, vk), dg, kind, view, g.gid)
                if batch and own and view == "text":
                    # the batch as a whole is an input too: the same multi-file command line must reproduce itself
                    emit(c, "%s|%s|in-batch:%s" % (n, vk, g.gid), dg, kind, view, g.gid)
        # the exit status of the group, comparable between one invocation and several only as "did any file fail"
        # (a fatal error ends a batch with status 1 whatever was counted before); only if every file was started
        if complete:
            emit(c, "%s|exit" % g.gid, [1 if rcsum else 0, 0, 0, 0], "exit", "text", g.gid)
        if batch and rs and own:
            emit(c, "%s|exit|in-batch:%s" % (g.gid, g.gid), [rcsum, 0, 0, 0], "exit", "text", g.gid)
    # a batch composition of the family has no separate runs of its own: its files were compiled separately in the pool
    base = next((c for _, c in pairs if c["dist"] == 0), None)
    for g in {id(g): g for g, _ in pairs if g.batch_only}.values():
        rcs = [sep_rc.get((base["id"], i.name)) for i in g.inputs] if base else [None]
        if all(x is not None for x in rcs):
            emit(base, "%s|exit" % g.gid, [1 if any(rcs) else 0, 0, 0, 0], "exit", "text", "fampool")
    out = {}
    for k, lst in by_input.items():
        lst.sort(key=lambda t: (t[0], t[1]))
        out[k] = [(i, e) for _, i, e in lst]
    return out


def write_chunks(by_input, workdir, nchunks):
    """All observations of an input stay in one chunk; Reset separates nothing here (inputs are distinct keys)."""
    keys = sorted(by_input, key=lambda k: -len(by_input[k]))
    chunks = [[] for _ in range(nchunks)]
    sizes = [0] * nchunks
    for k in keys:
        i = sizes.index(min(sizes))
        chunks[i].extend(e for _, e in by_input[k])
        sizes[i] += len(by_input[k])
    paths = []
    for i, evs in enumerate(chunks):
        if not evs:
            continue
        p = os.path.join(workdir, "trace%02d.ndjson" % i)
        vlib.write_ndjson(p, evs)
        paths.append(p)
    return paths


def validate(paths, cfg="TraceDet", nproc=8, timeout=900):
    """Run TLC (TraceDet) on every chunk in parallel.  Returns (list of TlcResult, list of DET records)."""
    with concurrent.futures.ThreadPoolExecutor(max_workers=nproc) as ex:
        res = list(ex.map(lambda p: vlib.tlc("TraceDet", cfg, workers=1, env={"TRACE": p}, timeout=timeout, xmx="3g"), paths))
    dets = []
    for r in res:
        det = [json.loads(l[4:]) for l in r.printed if isinstance(l, str) and l.startswith("DET ")]
        dets.append(det[0] if det else None)
    return res, dets
