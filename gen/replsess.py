"""C13: rendering of the sessions that spec/ReplTab.tla (symbol table / roll-back) and spec/ReplReader.tla (grouping of
input lines into steps) enumerate, and the inputs of those two modules.

Nothing here decides a verdict: which steps are accepted, what they print and where a step ends all come from the TLC
runs; this module turns the abstract forms into the text typed into `aldor -Gloop' and the exported expectations into
the token projection of gen/replhist.py (("M", line) | ("G",) | ("T",)).
"""
import random

import replhist

# ---------------------------------------------------------------------------------------------------------
# ReplTab: the symbol table across steps

TYPES = {"SI": "SI", "Str": "String", "Bool": "Boolean", "ListSI": "List SI", "ArraySI": "Array SI",
         "Rec1": "Record(a: SI, b: SI)", "Rec2": "Record(p: SI, q: String)",
         "Uni1": "Union(p: SI, q: String)", "Uni2": "Union(a: SI, b: Boolean)",
         "Enum1": "Enumeration(p, q)", "Enum2": "Enumeration(a, b, c)", "Zork": "Zork9"}
FIELDS = {"Rec1": ("a", "b"), "Rec2": ("p", "q"), "Uni1": ("p", "q"), "Uni2": ("a", "b"), "Enum1": ("p", "q"),
          "Enum2": ("a", "b", "c")}
NDEFS, NBADS = 10, 17
# definitions that need earlier ones (ReplTab.Defs): l after the import of List SI, g after f: SI->SI and c
AFTER = {5: (4,), 7: (1, 3)}


def tab_orders(rng, n):
    """n orders of the definitions: the order of Defs and n-1 random ones that respect AFTER."""
    out = [list(range(1, NDEFS + 1))]
    while len(out) < n:
        o = list(range(1, NDEFS + 1))
        rng.shuffle(o)
        if all(o.index(a) < o.index(d) for d, aa in AFTER.items() for a in aa) and o not in out:
            out.append(o)
    return out


def tab_config(seed, tier):
    rng = random.Random(seed * 7 + 1)
    if tier == "quick":
        orders = tab_orders(rng, 2)[1:] if seed % 2 else tab_orders(rng, 1)     # one order per run; odd seeds a permuted one
        return {"orders": orders, "bads": list(range(1, NBADS + 1)), "maxbad": 1, "gaps": [0, 1]}
    return {"orders": tab_orders(rng, 4), "bads": list(range(1, NBADS + 1)), "maxbad": 1, "gaps": [0, 1]}


def tab_config_deep(seed):
    """thorough tier only: two rejected forms per session (eight catalogue forms, one of each overlap class), on one permuted order."""
    rng = random.Random(seed * 7 + 2)
    return {"orders": tab_orders(rng, 2)[1:], "bads": [1, 4, 5, 8, 10, 12, 14, 15], "maxbad": 2, "gaps": [0]}


def _karg(t):
    return {"SI": "a", "Str": "#a", "Bool": "(if a then 1@SI else 0@SI)"}[t]


def _ill_value(t):
    return {"SI": '"s"', "Str": "5@SI", "ListSI": '["s"]', "Rec1": '[31@SI, "s"]', "Rec2": "[1@SI, 2@SI]",
            "Uni1": "[true]", "Uni2": '["s"]', "Enum1": "5@SI", "Enum2": "5@SI", "ArraySI": 'new(2, "s")'}[t]


def _good_value(t, v):
    if t == "SI":
        return "%d@SI" % v[0]
    if t in ("ListSI", "Rec1"):
        return "[" + ", ".join("%d@SI" % x for x in v) + "]"
    if t == "Uni1":
        return "[%d@SI]" % v[0]
    if t in ("Enum1", "Enum2"):
        return FIELDS[t][v[0] - 1]
    raise ValueError(t)


def tab_form_text(f):
    """The text of one form of ReplTab.tla (one line)."""
    k = f["k"]
    if k == "imp":
        return "import from %s;" % ", ".join(TYPES[d] for d in f["ds"])
    if k == "fun":
        if f["ill"] == "":
            body = "f(a) + c" if f["body"] == "fc" else "%s + %d@SI" % (_karg(f["t"]), f["v"][0])
        else:
            body = {"lit": '"s"', "undef": "zz9q", "call": 'f("x", a)'}[f["ill"]]
        return "%s(a: %s): SI == %s;" % (f["n"], TYPES[f["t"]], body)
    if k == "con":
        val = _good_value(f["t"], f["v"]) if f["ill"] == "" else _ill_value(f["t"])
        return "%s: %s == %s;" % (f["n"], TYPES[f["t"]], val)
    if k == "use":
        return "print << \"%s%s \" << %s << newline;" % (replhist.MARK, use_label(f), ' << " " << '.join(use_exprs(f)))
    raise ValueError(k)


def use_label(f):
    return (f["n"] + "/" if f["n"] else "") + f["t"]


def use_exprs(f):
    n, t = f["n"], f["t"]
    if t == "pre":
        return ["(1@SI + 2@SI)", '"s"', "(1@SI = 2@SI)"]
    if n == "":
        if t == "ListSI":
            return ["([5@SI, 6@SI]@List(SI))", "#([5@SI, 6@SI]@List(SI))"]
        if t == "ArraySI":
            return ["#(new(2, 7@SI)@Array(SI))"]
        raise ValueError(t)
    if t in ("SI", "Str"):
        return ["(%s@%s)" % (n, TYPES[t])]          # the type is named: another constant of that name must not answer
    if t == "ListSI":
        return [n, "#" + n, n + ".1", "(%s = %s)" % (n, n)]
    if t in ("Rec1", "Rec2"):
        return ["%s.%s" % (n, x) for x in FIELDS[t]]
    if t in ("Uni1", "Uni2"):
        return ["(%s case %s)" % (n, FIELDS[t][0]), "%s.%s" % (n, FIELDS[t][0])]
    if t in ("Enum1", "Enum2"):
        return ["(%s = %s)" % (n, x) for x in FIELDS[t][:2]]
    if t.endswith("->SI"):
        return ["%s(%s)" % (n, {"SI": "1@SI", "Str": '"x"', "Bool": "true"}[t[:-4]])]
    raise ValueError(t)


def atom_text(a):
    if isinstance(a, bool):
        return "true" if a else "false"
    if isinstance(a, int):
        return str(a)
    if isinstance(a, dict) and "list" in a:
        return "list(" + ", ".join(str(x) for x in a["list"]) + ")"
    return str(a)


def session_text(lines, verbose=False):
    """The whole input of one loop session: preamble, READY, the given lines, END."""
    pre = []
    if not verbose:
        pre.append("#int verbose off")
    pre += ['#include "axllib"', "SI ==> SingleInteger;", "import from SI, String;"]
    if verbose:
        pre += ["import from TextWriter;", "stdout: TextWriter == print;"]
    pre.append('print << "%s" << newline;' % replhist.READY)
    return "\n".join(pre + list(lines) + ['print << "%s" << newline;' % replhist.END]) + "\n"


def render_tab(sess, verbose=False):
    """sess: one exported record of ReplTab.tla.  Returns (text, expected tokens, shapes)."""
    lines, toks, shapes = [], [], set()
    for it in sess["hist"]:
        f = it["f"]
        lines.append(tab_form_text(f))
        if it["dlg"]:
            lines.append(f["ans"])             # the answer to `Redefine? (y/n)'
        if not it["ok"]:
            toks.append(("G",))
            if f["k"] != "use":
                shapes.add(it["cls"])
                shapes.add("rejected:%s:%s:%s" % (f["k"], f["n"] or "+".join(f["ds"]), f["t"]))
                if it["re2"]:
                    shapes.add("redefinition-after-refused-redefinition")
                if it["lib"]:
                    shapes.add("rejected-form-first-mentions-library-type")
                if it["cls"] == "redeclaration-other-type":
                    shapes.add("redeclares-defined-name")
        else:
            if f["k"] == "use":
                toks.append(("M", (replhist.MARK + use_label(f) + " " + " ".join(atom_text(a) for a in it["o"])).rstrip("\n")))
            toks.append(("T",))
    return session_text(lines, verbose), toks, sorted(shapes)


def tab_sig(sess):
    """A short name of one session: order, then d = definition, B... = rejected catalogue form, u = a round of uses."""
    out = []
    for it in sess["hist"]:
        f = it["f"]
        if f["k"] == "use":
            if not out or out[-1] != "u":
                out.append("u")
        elif it["ok"]:
            out.append("d")
        else:
            out.append("B%s%s%s%s" % (f["k"][0], f["n"] or "+".join(f["ds"]), f["t"], f["ill"][:1] + f["ans"]))
    return "o%s:" % "".join("%x" % d for d in sess["order"]) + "".join(out)


# ---------------------------------------------------------------------------------------------------------
# ReplReader: the grouping of input lines into steps

def _codes(text):
    return [ord(c) for c in text]


# the pieces of text the forms of ReplReader.tla are made of (the module sees the character codes only)
READER_PIECES = {
    "mark": replhist.MARK,                                # what every printed line starts with (followed by the form number)
    "po": 'print << "' + replhist.MARK,                   # ... form number, literal content ...
    "pcl": '" << newline;',
    "pcp": '" << newline',                                # inside a pile: no semicolon
    "pbo": 'print << "' + replhist.BADMARK,
    "pbc": '" << zz9q << newline;',
    "badstmt": 'print << "' + replhist.BADMARK + '" << zz9q << newline;',
    "cmo": " -- ", "cml": "-- ", "note": "a note",
    "par1": '" << (1@SI +', "par2": "      2@SI) << newline;", "three": "3",
    "hid": "h", "pid": "p", "defb": "(a: SI): SI == {", "defp": "(a: SI): SI ==", "ind": "        ", "reta": "a",
    "call": "(1@SI);", "endc": "-- end",
    "kid": "k_", "kdef": ": SI == 3@SI;", "kuse1": ' " << k_', "kuse2": " << newline;",
    "nlo1": ' " << 1@SI +_', "nlo2": "      2@SI << newline;",
    "nlia": " ab_", "nlib": "cd",
    "trailop": 'print << "' + replhist.BADMARK + '" << 1@SI +', "trailasg": "zq9: SI :=",
    "surplus1": 'print << "' + replhist.BADMARK + '" << zz9q) << newline;',
    "surplus2": 'print << "' + replhist.BADMARK + '" << zz9q} << newline;',
    "dir1": "#assert Aq9", "dir2": "#int verbose off",
}
CONTENT_ATOMS = ["a", " ", "(", ")", "{", "}", ";", "--", "==", '_"', "__", "_(", "#"]
COMMENT_ATOMS = ["a", '"', "(", ")", "{", "}", "_", ";", "=="]
ESCID_CHARS = ["(", ")", "{", "}", '"', ";", "_"]


def reader_config(seed, tier):
    return {"pc": {k: _codes(v) for k, v in READER_PIECES.items()},
            "ca": [_codes(a) for a in CONTENT_ATOMS], "cm": [_codes(a) for a in COMMENT_ATOMS],
            "escid": [ord(c) for c in ESCID_CHARS],
            "badlines": ["trailop", "trailasg", "surplus1", "surplus2"], "dirs": ["dir1", "dir2"],
            "nlit": 2 if tier == "quick" else 3, "ncmt": 2 if tier == "quick" else 3,
            "pack": 12, "rot": seed % 9973}


def _text(codes):
    return "".join(chr(c) for c in codes)


def item_name(sp):
    return sp["t"] + (":" + sp["x"] if sp["x"] else "") + ("[" + _text(sp["c"]) + "]" if sp["c"] else "") + \
        ("--[" + _text(sp["m"]) + "]" if sp["h"] else "")


def render_reader(sess):
    """sess: one exported record of ReplReader.tla.  Returns (text, expected tokens, ends (line numbers in the text at which a
    step must end), name)."""
    lines = []
    for l in sess["lines"]:
        if not l or l[-1] != 10 or 10 in l[:-1]:
            raise ValueError("a line of ReplReader.tla does not end in exactly one newline")
        lines.append(_text(l[:-1]))
    toks = []
    for e in sess["exps"]:
        if e["k"] == "print":
            toks += [("M", _text(e["t"])), ("T",)]
        elif e["k"] == "rej":
            toks.append(("G",))
        elif e["k"] == "quiet":
            toks.append(("T",))
        elif e["k"] != "none":
            raise ValueError(e["k"])
    text = session_text(lines)
    npre = text.count("\n") - len(lines) - 1
    name = "+".join(item_name(sp) for sp in sess["items"])
    if len(name) > 120:
        name = "packed%d:%s..." % (sess["id"], name[:80])
    return text, toks, npre, name
