"""C13: rendering of the sessions that spec/ReplTab.tla (symbol table / roll-back) and spec/ReplReader.tla (grouping of
input lines into steps) enumerate, and the inputs of those two modules.

Nothing here decides a verdict: which steps are accepted, what they print and where a step ends all come from the TLC
runs; this module turns the abstract forms into the text typed into `aldor -Gloop' and the exported expectations into
the token projection of gen/replhist.py (("M", line) | ("G",) | ("T",)).
"""
import random

import replhist

# ---------------------------------------------------------------------------------------------------------
# ReplTab: the symbol table across steps

TYPES = {"SI": "SI", "Str": "String", "Bool": "Boolean", "ListSI": "List SI", "ArraySI": "Array SI",
         "Rec1": "Record(a: SI, b: SI)", "Rec2": "Record(p: SI, q: String)",
         "Uni1": "Union(p: SI, q: String)", "Uni2": "Union(a: SI, b: Boolean)",
         "Enum1": "Enumeration(p, q)", "Enum2": "Enumeration(a, b, c)", "Zork": "Zork9"}
FIELDS = {"Rec1": ("a", "b"), "Rec2": ("p", "q"), "Uni1": ("p", "q"), "Uni2": ("a", "b"), "Enum1": ("p", "q"),
          "Enum2": ("a", "b", "c")}
NDEFS, NBADS = 10, 17
# definitions that need earlier ones (ReplTab.Defs): l after the import of List SI, g after f: SI->SI and c
AFTER = {5: (4,), 7: (1, 3)}


def tab_orders(rng, n):
    """n orders of the definitions: the order of Defs and n-1 random ones that respect AFTER."""
    out = [list(range(1, NDEFS + 1))]
    while len(out) < n:
        o = list(range(1, NDEFS + 1))
        rng.shuffle(o)
        if all(o.index(a) < o.index(d) for d, aa in AFTER.items() for a in aa) and o not in out:
            out.append(o)
    return out


def tab_config(seed, tier):
    rng = random.Random(seed * 7 + 1)
    if tier == "quick":
        orders = tab_orders(rng, 2)[1:] if seed % 2 else tab_orders(rng, 1)     # one order per run; odd seeds a permuted one
        return {"orders": orders, "bads": list(range(1, NBADS + 1)), "maxbad": 1, "gaps": [0, 1]}
    return {"orders": tab_orders(rng, 4), "bads": list(range(1, NBADS + 1)), "maxbad": 1, "gaps": [0, 1]}


def tab_config_deep(seed):
    """thorough tier only: two rejected forms per session, on one order."""
    rng = random.Random(seed * 7 + 2)
    return {"orders": tab_orders(rng, 1), "bads": list(range(1, NBADS + 1)), "maxbad": 2, "gaps": [0]}


def _karg(t):
    return {"SI": "a", "Str": "#a", "Bool": "(if a then 1@SI else 0@SI)"}[t]


def _ill_value(t):
    return {"SI": '"s"', "Str": "5@SI", "ListSI": '["s"]', "Rec1": '[31@SI, "s"]', "Rec2": "[1@SI, 2@SI]",
            "Uni1": "[true]", "Uni2": '["s"]', "Enum1": "5@SI", "Enum2": "5@SI", "ArraySI": 'new(2, "s")'}[t]


def _good_value(t, v):
    if t == "SI":
        return "%d@SI" % v[0]
    if t in ("ListSI", "Rec1"):
        return "[" + ", ".join("%d@SI" % x for x in v) + "]"
    if t == "Uni1":
        return "[%d@SI]" % v[0]
    if t in ("Enum1", "Enum2"):
        return FIELDS[t][v[0] - 1]
    raise ValueError(t)


def tab_form_text(f):
    """The text of one form of ReplTab.tla (one line)."""
    k = f["k"]
    if k == "imp":
        return "import from %s;" % ", ".join(TYPES[d] for d in f["ds"])
    if k == "fun":
        if f["ill"] == "":
            body = "f(a) + c" if f["body"] == "fc" else "%s + %d@SI" % (_karg(f["t"]), f["v"][0])
        else:
            body = {"lit": '"s"', "undef": "zz9q", "call": 'f("x", a)'}[f["ill"]]
        return "%s(a: %s): SI == %s;" % (f["n"], TYPES[f["t"]], body)
    if k == "con":
        val = _good_value(f["t"], f["v"]) if f["ill"] == "" else _ill_value(f["t"])
        return "%s: %s == %s;" % (f["n"], TYPES[f["t"]], val)
    if k == "use":
        return "print << \"%s%s \" << %s << newline;" % (replhist.MARK, use_label(f), ' << " " << '.join(use_exprs(f)))
    raise ValueError(k)


def use_label(f):
    return (f["n"] + "/" if f["n"] else "") + f["t"]


def use_exprs(f):
    n, t = f["n"], f["t"]
    if t == "pre":
        return ["(1@SI + 2@SI)", '"s"', "(1@SI = 2@SI)"]
    if n == "":
        if t == "ListSI":
            return ["([5@SI, 6@SI]@List(SI))", "#([5@SI, 6@SI]@List(SI))"]
        if t == "ArraySI":
            return ["#(new(2, 7@SI)@Array(SI))"]
        raise ValueError(t)
    if t in ("SI", "Str"):
        return ["(%s@%s)" % (n, TYPES[t])]          # the type is named: another constant of that name must not answer
    if t == "ListSI":
        return [n, "#" + n, n + ".1", "(%s = %s)" % (n, n)]
    if t in ("Rec1", "Rec2"):
        return ["%s.%s" % (n, x) for x in FIELDS[t]]
    if t in ("Uni1", "Uni2"):
        return ["(%s case %s)" % (n, FIELDS[t][0]), "%s.%s" % (n, FIELDS[t][0])]
    if t in ("Enum1", "Enum2"):
        return ["(%s = %s)" % (n, x) for x in FIELDS[t][:2]]
    if t.endswith("->SI"):
        return ["%s(%s)" % (n, {"SI": "1@SI", "Str": '"x"', "Bool": "true"}[t[:-4]])]
    raise ValueError(t)


def atom_text(a):
    if isinstance(a, bool):
        return "true" if a else "false"
    if isinstance(a, int):
        return str(a)
    if isinstance(a, dict) and "list" in a:
        return "list(" + ", ".join(str(x) for x in a["list"]) + ")"
    return str(a)


def session_text(lines, verbose=False):
    """The whole input of one loop session: preamble, READY, the given lines, END."""
    pre = []
    if not verbose:
        pre.append("#int verbose off")
    pre += ['#include "axllib"', "SI ==> SingleInteger;", "import from SI, String;"]
    if verbose:
        pre += ["import from TextWriter;", "stdout: TextWriter == print;"]
    pre.append('print << "%s" << newline;' % replhist.READY)
    return "\n".join(pre + list(lines) + ['print << "%s" << newline;' % replhist.END]) + "\n"


def render_tab(sess, verbose=False):
    """sess: one exported record of ReplTab.tla.  Returns (text, expected tokens, shapes)."""
    lines, toks, shapes = [], [], set()
    for it in sess["hist"]:
        f = it["f"]
        lines.append(tab_form_text(f))
        if it["dlg"]:
            lines.append(f["ans"])             # the answer to `Redefine? (y/n)'
        if not it["ok"]:
            toks.append(("G",))
            if f["k"] != "use":
                shapes.add(it["cls"])
                shapes.add("rejected:%s:%s:%s" % (f["k"], f["n"] or "+".join(f["ds"]), f["t"]))
                if it["cls"] == "redeclaration-other-type":
                    shapes.add("redeclares-defined-name")
        else:
            if f["k"] == "use":
                toks.append(("M", (replhist.MARK + use_label(f) + " " + " ".join(atom_text(a) for a in it["o"])).rstrip("\n")))
            toks.append(("T",))
    return session_text(lines, verbose), toks, sorted(shapes)


def tab_sig(sess):
    """A short name of one session: order, then d = definition, B... = rejected catalogue form, u = a round of uses."""
    out = []
    for it in sess["hist"]:
        f = it["f"]
        if f["k"] == "use":
            if not out or out[-1] != "u":
                out.append("u")
        elif it["ok"]:
            out.append("d")
        else:
            out.append("B%s%s%s%s" % (f["k"][0], f["n"] or "+".join(f["ds"]), f["t"], f["ill"][:1] + f["ans"]))
    return "o%s:" % "".join("%x" % d for d in sess["order"]) + "".join(out)
