"""C04 binding: render builtin cases (exported by TLC from spec/BuiltinsGen.tla) as Aldor programs that
import each operation directly from Builtin and apply it to literal constants, run each program on the three
evaluators, and project the printed results back to the value space of the specification.

Nothing here decides the property: expected values come from TLC (CASE lines), agreement of unspecified
operations is decided by TLC (Observe events -> spec/TraceBuiltins.tla), hook events are validated by TLC.
This module renders, runs, parses and converts representations.

How constants are written (and what that depends on -- it cannot be avoided, the language has no machine
level literals):
  SInt  n >= 0  (n@SingleInteger pretend BSInt)     literal conversion ArrToSInt
        n <  0  -(|n|) through SingleInteger's unary minus (SIntNegate); -2^63 as SIntPrev(-(2^63-1))
  BInt          (n@Integer pretend BBInt), negative through BIntNegate
  Char  c       CharNum(c)                          (a character literal is an array element, never constant)
  Bool          BoolTrue() / BoolFalse()
  HInt, Byte    SIntToHInt(n), SIntToByte(n);  Word: the SInt with the same bit pattern, pretend Word
  SFlo, DFlo    ArrToSFlo("text"), ArrToDFlo("text"), negative text through XFloNegate
  Str           "text" pretend Arr
How results are printed: integers through the library's formatSInt/formatBInt (one C function shared by all
evaluators, never folded), booleans as T/F followed by the raw word (canonical form), characters through
CharOrd (and raw for CharNum), floats through XFloDissemble (sign, exponent, first fraction word).
"""
import hashlib
import json
import os
import re
import subprocess
import sys

sys.path.insert(0, os.path.join(os.path.dirname(os.path.dirname(os.path.abspath(__file__))), "lib"))
import vlib  # noqa: E402

B = 2048
if hasattr(sys, "set_int_max_str_digits"):
    sys.set_int_max_str_digits(0)        # results such as (2^64-1)^64 have thousands of decimal digits
SINT_MIN = -(1 << 63)
MODES = ("q0i", "q2i", "q0c")
# route labels used in finding keys: -Q0 interpreted (fint.c evaluates), -Q2 interpreted (of_cfold.c folds what it can,
# fint.c the rest), -Q0 C executable (genc mapping + run-time), -Q2 interpreted with a non-constant first operand
# (of_peep.c simplifies, fint.c evaluates).  Hook events carry "fint" / "cfold".
MODE_EVALUATOR = {"q0i": "q0i", "q0c": "q0c", "q2i": "q2i", "q2v": "q2v"}
Q2_OPTS = ["-Q2", "-Qinline-size=1000000"]

ALDOR_TYPE = {"Bool": "BBool", "Char": "BChar", "Byte": "BByte", "HInt": "BHInt", "SInt": "BSInt",
              "Word": "BWord", "BInt": "BBInt", "Str": "BArr", "SFlo": "BSFlo", "DFlo": "BDFlo"}
INT_TYPES = ("Byte", "HInt", "SInt", "Word", "BInt")


# ---------------------------------------------------------------- values

def z_of(j):
    """[sign, d1, d2, ...] (radix 2^11, little endian) -> int"""
    n = 0
    for d in reversed(j[1:]):
        n = n * B + d
    return -n if j[0] else n


def zj(n):
    s = 1 if n < 0 else 0
    n = abs(n)
    d = []
    while n:
        d.append(n % B)
        n //= B
    return [s] + d


def dec_val(v, t):
    if t in INT_TYPES:
        return z_of(v)
    if t == "Str":
        return v if isinstance(v, str) else "".join(chr(c) for c in v)
    return v            # bool, char code, float literal text


def parse_cases(printed, sig):
    """CASE lines of BuiltinsGen -> list of dicts {op, args (python values), res (python values) | None}"""
    cases = []
    for line in printed:
        if not line.startswith("CASE "):
            continue
        d = json.loads(line[5:])
        s = sig[d["op"]]
        args = [dec_val(v, t) for v, t in zip(d["args"], s["args"])]
        res = None
        if d["res"] != "Unspecified":
            res = [dec_val(v, t) for v, t in zip(d["res"], s["res"])]
        cases.append({"op": d["op"], "args": args, "res": res})
    cases.sort(key=lambda c: (c["op"], json.dumps(c["args"], sort_keys=True)))
    return cases


def parse_sig(printed):
    for line in printed:
        if line.startswith("SIG "):
            return {e["op"]: e for e in json.loads(line[4:])}
    raise vlib.MachineryError("no SIG line in TLC output")


# ---------------------------------------------------------------- rendering

def lit_sint(n):
    if n == SINT_MIN:
        return "SIntPrev(si(-%d))" % ((1 << 63) - 1)
    return "si(%d)" % n if n >= 0 else "si(-%d)" % -n


def aldor_string(s):
    out = []
    for ch in s:
        if ch in '"_':
            out.append("_" + ch)
        else:
            out.append(ch)
    return '"' + "".join(out) + '"'


def lit(v, t, uses):
    if t == "Bool":
        uses.update(("BoolTrue", "BoolFalse"))
        return "BoolTrue()" if v else "BoolFalse()"
    if t == "Char":
        uses.add("CharNum")
        return "CharNum(si(%d))" % v
    if t == "SInt":
        if v == SINT_MIN:
            uses.add("SIntPrev")
        return lit_sint(v)
    if t == "HInt":
        uses.add("SIntToHInt")
        return "SIntToHInt(%s)" % lit_sint(v)
    if t == "Byte":
        uses.add("SIntToByte")
        return "SIntToByte(%s)" % lit_sint(v)
    if t == "Word":
        sv = v - (1 << 64) if v >= (1 << 63) else v
        if sv == SINT_MIN:
            uses.add("SIntPrev")
        return "(%s pretend BWord)" % lit_sint(sv)
    if t == "BInt":
        return "bi(%d)" % v if v >= 0 else "bi(-%d)" % -v
    if t == "Str":
        return "st(%s)" % aldor_string(v)
    if t in ("SFlo", "DFlo"):
        conv = "ArrTo" + t
        uses.add(conv)
        if v.startswith("-"):
            uses.add(t + "Negate")
            return "%sNegate(%s(st(%s)))" % (t, conv, aldor_string(v[1:]))
        return "%s(st(%s))" % (conv, aldor_string(v))
    raise ValueError(t)


PRINTER = {"Bool": "qB", "Char": "qC", "Byte": "qY", "HInt": "qH", "SInt": "qS", "Word": "qW", "BInt": "qZ",
           "SFlo": "qF", "DFlo": "qD"}
PRINTER_USES = {"qC": ("CharOrd",), "qY": ("ByteToSInt",), "qH": ("HIntToSInt",),
                "qF": ("SFloDissemble",), "qD": ("DFloDissemble",)}

HEADER = '''#include "axllib"
import from Machine;
macro BWord == Word$Machine;
import {
%s
} from Builtin;
import from SingleInteger, Boolean, Character, Integer, String;
macro si(x) == ((x)@SingleInteger pretend BSInt);
macro bi(x) == ((x)@Integer pretend BBInt);
macro st(x) == ((x)@String pretend BArr);
qS(x: BSInt): () == print << (x pretend SingleInteger) << " ";
qZ(x: BBInt): () == print << (x pretend Integer) << " ";
qB(x: BBool): () == print << (if (x pretend Boolean) then "T" else "F") << (x pretend SingleInteger) << " ";
qW(x: BWord): () == qS(x pretend BSInt);
qR(x: BChar): () == print << "<" << (x pretend Character) << ">";
%s
nl(): () == print << newline;
'''
OPT_PRINTERS = {
    "qC": "qC(x: BChar): () == qS(CharOrd x);",
    "qY": "qY(x: BByte): () == qS(ByteToSInt x);",
    "qH": "qH(x: BHInt): () == qS(HIntToSInt x);",
    "qF": "qF(x: BSFlo): () == { (s, e, m) := SFloDissemble x; qB s; qS e; qW m }",
    "qD": "qD(x: BDFlo): () == { (s, e, m, m2) := DFloDissemble x; qB s; qS e; qW m; qW m2 }",
}


def sig_text(op, s):
    def ty(ts):
        ts = [ALDOR_TYPE[t] for t in ts]
        return "(" + ", ".join(ts) + ")" if len(ts) != 1 else ts[0]
    res = s["res"]
    if op in ("FormatSInt", "FormatBInt"):
        res = ["SInt"]
    return "  %s: %s -> %s;" % (op, ty(s["args"]) if s["args"] else "()", ty(res))


def render(cases, sig, variable_first=False):
    """One Aldor program for a batch of cases.  Case k prints exactly one line.
    variable_first: route the first operand through a one-element array so that the optimiser sees a
    non-constant operand (exercises the algebraic simplifier instead of the folder)."""
    uses = set()
    printers = set()
    wrappers = {}
    body = []
    for k, c in enumerate(cases):
        op = c["op"]
        s = sig[op]
        uses.add(op)
        args = [lit(v, t, uses) for v, t in zip(c["args"], s["args"])]
        pre = ""
        if variable_first and args and s["args"][0] in ("SInt", "BInt", "Bool"):
            t0 = s["args"][0]
            cell = {"SInt": "cS", "BInt": "cZ", "Bool": "cB"}[t0]
            printers.add("cell" + t0)
            pre = "%s.1 := %s pretend %s; " % (cell, args[0], {"SInt": "SingleInteger", "BInt": "Integer", "Bool": "Boolean"}[t0])
            args[0] = "(%s.1 pretend %s)" % (cell, ALDOR_TYPE[t0])
        rts = s["res"]
        if op in ("FormatSInt", "FormatBInt"):
            # wrapper: copies the buffer text (literals are read-only), formats, prints index and buffer
            wrappers[op] = ("m%s(x: %s, t: String, i: BSInt): () == { b: String := copy t; "
                            "qS(%s(x, b pretend BArr, i)); print << \"[\" << b << \"]\" }" %
                            (op, ALDOR_TYPE[s["args"][0]], op))
            body.append("%sm%s(%s, %s, %s); nl();" % (pre, op, args[0], aldor_string(c["args"][1]), args[2]))
            continue
        call = "%s(%s)" % (op, ", ".join(args))
        if op == "CharNum":
            printers.add("qC")
            body.append("%sqC(%s); qR(%s); nl();" % (pre, call, call))
            continue
        shown = rts
        for t in shown:
            p = PRINTER[t]
            if p in OPT_PRINTERS:
                printers.add(p)
        if len(rts) == 1:
            body.append("%s%s(%s); nl();" % (pre, PRINTER[rts[0]], call))
        else:
            # multiple values: a wrapper function per operation (thousands of top-level tuple assignments
            # overflow the compiler's stack)
            ps = ["p%d" % i for i in range(len(args))]
            vs = ["r%d" % i for i in range(len(rts))]
            wrappers[op] = "m%s(%s): () == { (%s) := %s(%s); %s }" % (
                op, ", ".join("%s: %s" % (p, ALDOR_TYPE[t]) for p, t in zip(ps, s["args"])),
                ", ".join(vs), op, ", ".join(ps),
                " ".join("%s %s;" % (PRINTER[t], v) for t, v in zip(shown, vs)))
            body.append("%sm%s(%s); nl();" % (pre, op, ", ".join(args)))
    extra = []
    for p in sorted(printers):
        if p.startswith("cell"):
            t0 = p[4:]
            dom = {"SInt": "SingleInteger", "BInt": "Integer", "Bool": "Boolean"}[t0]
            cell = {"SInt": "cS", "BInt": "cZ", "Bool": "cB"}[t0]
            init = {"SInt": "0", "BInt": "0", "Bool": "false"}[t0]
            extra.append("import from Array %s; %s: Array %s := new(1, %s);" % (dom, cell, dom, init))
            continue
        extra.append(OPT_PRINTERS[p])
        uses.update(PRINTER_USES.get(p, ()))
    for op in sorted(wrappers):
        extra.append(wrappers[op])
    imports = "\n".join(sig_text(op, sig[op]) for op in sorted(uses))
    return HEADER % (imports, "\n".join(extra)) + "\n".join(body) + "\n"


# ---------------------------------------------------------------- expected text

def show_val(v, t):
    if t == "Bool":
        return "T1" if v else "F0"
    if t == "Char":
        return str(v)
    if t == "Word":
        return str(v - (1 << 64) if v >= (1 << 63) else v)
    if t in INT_TYPES:
        return str(v)
    raise ValueError(t)


def expected_line(c, sig):
    """The line a correct evaluator prints for a specified case."""
    op = c["op"]
    if c["res"] is None:
        return None
    if op in ("FormatSInt", "FormatBInt"):
        buf = list(c["args"][1])
        i = c["args"][2]
        txt = c["res"][1]
        # the C function copies the text and its terminating NUL: the buffer ends after the number
        new = "".join(buf[:i]) + txt
        return "%d [%s]" % (c["res"][0], new)
    if op == "CharNum":
        return "%d <%s>" % (c["res"][0], chr(c["res"][0]))
    return " ".join(show_val(v, t) for v, t in zip(c["res"], sig[op]["res"]))


def normalise_line(raw):
    return raw.rstrip(" ")


# ---------------------------------------------------------------- running

def _split_lines(out, n, cases):
    """Split program output into per-case lines.  CharNum prints a raw character that may be a newline or NUL,
    so lines are cut with knowledge of the expected shape: '<code> <X>' where X is exactly one byte."""
    lines = []
    pos = 0
    # compiler chatter ("#1 (Warning) The file `x.c' will now be out of date.") precedes the program's output
    data = re.sub(rb"(?m)^#\d+ \((?:Warning|Remark)\)[^\n]*\n", b"", out)
    # a fault of the evaluator ends the output: "Program fault (segmentation violation).#1 (Error) ...",
    # "Compiler bug...Bug: BCall: X unimplemented...", "Unhandled Exception: ..." -- the case being evaluated
    # has no complete line and is reported as the one on which the evaluator stopped
    cut = [i for i in (data.find(m) for m in (b"Program fault", b"Compiler bug", b"Unhandled Exception")) if i >= 0]
    if cut:
        data = data[:min(cut)]
        if not data.endswith(b"\n"):
            data = data[:data.rfind(b"\n") + 1]
    for c in cases:
        if pos >= len(data):
            break
        if c["op"] == "CharNum":
            i = data.find(b" <", pos)
            if i < 0 or i + 4 > len(data):
                break
            end = i + 4                       # ' <' X '>'
            # tolerate a missing/extra byte: resynchronise on the newline
            j = data.find(b"\n", end)
            if data[end:end + 1] != b"\n":
                j = data.find(b">\n", i)
                end = j + 1 if j >= 0 else len(data)
            lines.append(data[pos:end].decode("latin-1"))
            pos = end + 1
        else:
            j = data.find(b"\n", pos)
            if j < 0:
                break
            lines.append(data[pos:j].decode("latin-1"))
            pos = j + 1
    return lines


def run_batch(build, cases, sig, workdir, name, modes=MODES, trace=None, variable_first=False):
    """Render + run one batch.  Returns {mode: {"lines": [...], "rc": rc, "stderr": text, "complete": bool}}.
    trace: dict mode -> (path, ALDOR_VERIF_BCALL value) to record hook events."""
    src = os.path.join(workdir, name + ".as")
    with open(src, "w") as fh:
        fh.write(render(cases, sig, variable_first=variable_first))
    res = {}
    for m in modes:
        env = dict(os.environ)
        env.pop("ALDOR_VERIF_TRACE", None)
        if trace and m in trace:
            env["ALDOR_VERIF_TRACE"] = trace[m][0]
            env["ALDOR_VERIF_BCALL"] = trace[m][1]
        if m == "q0i":
            rc, out, err, to = vlib.aldor(build, ["-Q0", "-Ginterp", name + ".as"], cwd=workdir, timeout=1200, env=env)
        elif m in ("q2i", "q2v"):
            rc, out, err, to = vlib.aldor(build, Q2_OPTS + ["-Ginterp", name + ".as"], cwd=workdir, timeout=1200, env=env)
        elif m == "q0c":
            rc, out, err, to = vlib.aldor(build, ["-Q0", "-Fc", "-Fmain", name + ".as"], cwd=workdir, timeout=1200, env=env)
            if rc == 0 and not to:
                rc2, o2, e2, to2 = vlib.link_c(build, workdir, [name + ".c", name + "-aldormain.c"], name + ".exe", timeout=1200)
                if rc2 != 0 or to2:
                    raise vlib.MachineryError("gcc failed on generated C for %s: %s" % (name, (o2 + e2).decode(errors="replace")[-2000:]))
                rc, out, err, to = vlib.run([os.path.join(workdir, name + ".exe")], cwd=workdir, timeout=1200)
        else:
            raise ValueError(m)
        text_err = (err or b"").decode(errors="replace")
        if re.search(rb"\[L\d+ C\d+\] #\d+ \((?:Fatal )?Error\)", out or b""):
            # the generated program did not compile: harness problem, not evidence about the builtin
            raise vlib.MachineryError("generated program %s rejected by the compiler (%s):\n%s" %
                                      (name, m, (out or b"").decode(errors="replace")[:3000]))
        lines = _split_lines(out or b"", len(cases), cases)
        res[m] = {"lines": [normalise_line(x) for x in lines], "rc": rc, "timeout": to, "stderr": text_err[-500:],
                  "complete": len(lines) == len(cases) and rc == 0 and not to}
    return res


# ---------------------------------------------------------------- hook events -> trace for TLC

def conv_event_value(v):
    if v is None:
        return {"x": 0}
    for k in ("w", "u", "z"):
        if k in v:
            return {"i": zj(int(v[k]))}
    return v


def convert_events(path, dedupe=None):
    """ndjson written by the hooks (wide values as decimal strings) -> list of events in the schema of
    TraceBuiltins.tla (digit arrays).  Identical events are validated once (dedupe set)."""
    evs = []
    n = 0
    if not os.path.exists(path):
        return evs, 0
    with open(path, "rb") as fh:
        for raw in fh:
            raw = raw.strip()
            if not raw or b'"ev":"BCall"' not in raw:
                continue              # other hooks (driver, store) write to the same trace file
            n += 1
            if dedupe is not None:
                h = hashlib.sha1(raw).digest()
                if h in dedupe:
                    continue
                dedupe.add(h)
            try:
                e = json.loads(raw.decode("latin-1"))
            except ValueError:
                raise vlib.MachineryError("unparsable hook event: %r" % raw[:200])
            if e.get("ev") != "BCall":
                continue
            e["args"] = [conv_event_value(v) for v in e["args"]]
            e["res"] = [conv_event_value(v) for v in e["res"]]
            evs.append(e)
    return evs, n


def case_event_key(c, sig):
    """(op, args) of a case in the comparable form of cfold_event_key."""
    s = sig[c["op"]]
    out = []
    for v, t in zip(c["args"], s["args"]):
        if t == "Bool":
            out.append(("b", 1 if v else 0))
        elif t == "Char":
            out.append(("c", v))
        elif t in INT_TYPES:
            out.append(("i", v))
        elif t == "Str":
            out.append(("s", v))
        else:
            return None            # float operands: the literal text is not comparable with the bit pattern
    return (c["op"], tuple(out))


def event_key(e):
    out = []
    for v in e["args"]:
        if "b" in v:
            out.append(("b", 1 if v["b"] else 0))
        elif "c" in v:
            out.append(("c", v["c"] & 255))
        elif "i" in v:
            out.append(("i", z_of(v["i"])))
        elif "s" in v:
            out.append(("s", "".join(chr(x) for x in v["s"])))
        else:
            return None
    return (e["op"], tuple(out))


def digest_words(text):
    h = hashlib.sha256(text.encode("latin-1", "replace")).digest()
    return [int.from_bytes(h[i * 4:i * 4 + 4], "big") & 0x7FFFFFFF for i in range(4)]


# ---------------------------------------------------------------- argument classes (labels for finding keys)

def _icls(n):
    return "neg" if n < 0 else "zero" if n == 0 else "pos"


def argclass(op, args, sig):
    """A coarse label of the argument tuple, used only to key findings (never to decide)."""
    s = sig[op]["args"]
    if op in ("SIntPlusMod",):
        return "sum>=2^63" if args[0] + args[1] >= (1 << 63) else "sum<2^63"
    if op in ("SIntTimesMod",):
        return "product>=2^63" if args[0] * args[1] >= (1 << 63) else "product<2^63"
    if op == "SIntMinusMod":
        return "a<b" if args[0] < args[1] else "a>=b"
    if op == "BIntPowerMod":
        return "exp=0,|m|=1" if args[1] == 0 and abs(args[2]) == 1 else "other"
    if op == "SIntGcd" and SINT_MIN in args:
        return "operand=SIntMin"
    if op[4:] in ("RPlus", "RMinus", "RTimes", "RDivide", "RTimesPlus") or op in ("SFloRound", "DFloRound"):
        return "mode=%d" % args[-1]
    out = []
    for v, t in zip(args, s):
        if t == "Bool":
            out.append("T" if v else "F")
        elif t == "Char":
            out.append("digit" if 48 <= v <= 57 else "upper" if 65 <= v <= 90 else "lower" if 97 <= v <= 122 else "other")
        elif t in INT_TYPES:
            if op in ("SIntIsOdd", "SIntIsEven", "BIntIsOdd", "BIntIsEven"):
                out.append(_icls(v) + ("-odd" if v % 2 else "-even"))
            else:
                out.append(_icls(v))
        elif t == "Str":
            out.append("radix" if "r" in v else "decimal")
        else:
            out.append("negative-literal" if str(v).startswith("-") else "literal")
    if len(out) == 2 and s[0] == s[1] and s[0] in ("Bool", "Char") and op[4:] in ("EQ", "NE", "LT", "LE"):
        return "a=b" if args[0] == args[1] else "a<b" if args[0] < args[1] else "a>b"
    return ",".join(out) if out else "-"
