"""C08 binding: the PROJECTIONS of an emitted file (spec/DetCfg.tla, Projections(kind)).

A projection is a function of the bytes of one output.  Each one is observed as an Obs input of its own, so the monitor
(TLC, TraceDet.tla) compares it between runs exactly like the full text.  The projections are chosen so that they do not
change when the numbers of the lexical slots of one environment format are permuted (the recorded defect of the batch axis:
"permuted numbering of the lexicals that hold imported domains"), and each was confirmed stable on the unchanged tree over
batches of 2-4 files in several orders before it was added here.  Nothing in this module compares anything.

    c     includes  the preprocessor lines, in order
          decls     the set of file-level declarations (extern / static / typedef, with their types)
          structs   every struct: name and the multiset of its fields (slot numbers of lexical fields removed)
          funcs     the function definitions in order: return type, name, number of parameters
          literals  the multiset of string, character and numeric literals
          canon     the token sequence with the slot numbers of lexical fields removed and struct fields sorted
          syntax    whether gcc -fsyntax-only accepts the file
    fm    tags      the multiset of node tags
          globals   (DDecl Globals ...) verbatim
          consts    (DDecl Consts ...) verbatim
          formats   the other formats of DFmt, each with its declarations as a multiset
          literals  the multiset of literal nodes (SInt BInt HInt SFlo DFlo Char Byte Arr ...) and of strings outside DFmt
          progs     for every constant: number, name, the Prog header, parameter and local counts, DEnv
          canon     the token sequence with the slot number of every Lex / EElt removed and lexical formats sorted
    lsp   tags declare structs literals canon     (the same ideas on the Lisp form)
    java  imports members literals canon
    ao    sections  the names of the sections of the file, in order
          ids       the file-identity and macro sections verbatim
          foamsize  the lengths of the code sections (foam, fsyme)
"""
import collections
import hashlib
import os
import re
import subprocess

PROJECTIONS = {
    "c": ["includes", "decls", "structs", "funcs", "literals", "canon", "syntax"],
    "fm": ["tags", "globals", "consts", "formats", "literals", "progs", "canon"],
    "lsp": ["tags", "declare", "structs", "literals", "canon"],
    "java": ["imports", "members", "literals", "canon"],
    "ao": ["sections", "ids", "foamsize"],
    "msg": [],
}


# ---------------------------------------------------------------------------
# S-expressions (.fm, .lsp)

_SX = re.compile(rb'\s+|;[^\n]*|(\()|(\))|("(?:[^"\\]|\\.)*")|(\|(?:[^|\\]|\\.)*\|)|((?:\\.|[^\s()"|;])+)', re.S)


def sx_tokens(data):
    out = []
    for m in _SX.finditer(data):
        if m.lastindex:
            out.append(m.group(m.lastindex))
    return out


def sx_parse(toks):
    """Nested lists of byte strings; unbalanced input is closed / ignored rather than rejected (a projection never fails)."""
    root = []
    stack = [root]
    for t in toks:
        if t == b"(":
            n = []
            stack[-1].append(n)
            stack.append(n)
        elif t == b")":
            if len(stack) > 1:
                stack.pop()
        else:
            stack[-1].append(t)
    return root


def sx_ser(x):
    if isinstance(x, list):
        return b"(" + b" ".join(sx_ser(y) for y in x) + b")"
    return x


def sx_walk(x):
    if isinstance(x, list):
        yield x
        for y in x:
            for z in sx_walk(y):
                yield z


def _head(x):
    return x[0] if isinstance(x, list) and x and not isinstance(x[0], list) else None


def _multiset(items):
    c = collections.Counter(items)
    return b"\n".join(b"%d %s" % (n, k) for k, n in sorted(c.items()))


FM_LITERAL_TAGS = {b"SInt", b"BInt", b"HInt", b"SFlo", b"DFlo", b"Char", b"Byte", b"Arr", b"Nil", b"Bool"}
# position of the slot number among the children: (Lex level slot [name]), (EElt format ref level slot [name])
FM_SLOT_TAGS = {b"Lex": 2, b"EElt": 4}


def fm_canon(x):
    """Slot numbers of Lex / EElt references removed; the declarations of lexical formats as a sorted list."""
    if not isinstance(x, list):
        return x
    h = _head(x)
    if h in FM_SLOT_TAGS and len(x) > FM_SLOT_TAGS[h]:
        i = FM_SLOT_TAGS[h]
        return [fm_canon(y) for k, y in enumerate(x) if k != i]
    if h == b"DDecl" and len(x) > 1 and x[1] == b"LocalEnv":
        return x[:2] + sorted((fm_canon(y) for y in x[2:]), key=sx_ser)
    return [fm_canon(y) for y in x]


def proj_fm(data):
    tree = sx_parse(sx_tokens(data))
    unit = tree[0] if tree and isinstance(tree[0], list) else []
    dfmt = next((y for y in unit if _head(y) == b"DFmt"), [])
    ddecls = [y for y in dfmt[1:] if _head(y) == b"DDecl"]
    named = {y[1]: y for y in reversed(ddecls) if len(y) > 1 and not isinstance(y[1], list)}
    out = {}
    out["tags"] = _multiset(_head(n) or b"()" for n in sx_walk(tree))
    out["globals"] = sx_ser(named.get(b"Globals", []))
    out["consts"] = sx_ser(named.get(b"Consts", []))
    out["formats"] = b"\n".join(sx_ser(y[:2] + sorted(y[2:], key=sx_ser)) for y in ddecls
                                if len(y) > 1 and y[1] not in (b"Globals", b"Consts"))
    lits = []
    for n in sx_walk([y for y in unit if _head(y) != b"DFmt"]):
        h = _head(n)
        if h in FM_LITERAL_TAGS:
            lits.append(sx_ser(n))
        lits.extend(t for t in n if not isinstance(t, list) and t[:1] == b'"')
    out["literals"] = _multiset(lits)
    progs = []
    for n in sx_walk(unit):
        if _head(n) == b"Def" and len(n) == 3 and _head(n[1]) == b"Const" and _head(n[2]) == b"Prog":
            p = n[2]
            hdr = [t for t in p[1:] if not isinstance(t, list)]
            par = next((y for y in p if _head(y) == b"DDecl" and len(y) > 1 and y[1] == b"Params"), [])
            loc = next((y for y in p if _head(y) == b"DDecl" and len(y) > 1 and y[1] == b"Locals"), [])
            denv = next((y for y in p if _head(y) == b"DEnv"), [])
            progs.append(sx_ser(n[1]) + b" " + b" ".join(hdr) + b" params " + sx_ser(par) + b" nlocals %d " % max(0, len(loc) - 2)
                         + sx_ser(denv))
    out["progs"] = b"\n".join(progs)
    out["canon"] = sx_ser(fm_canon(tree))
    return out


_LSP_SLOT = re.compile(rb"^(\|?.*?)-(\d+)(\|?)$", re.S)


def _lsp_strip(atom):
    m = _LSP_SLOT.match(atom)
    return m.group(1) + m.group(3) if m else atom


def lsp_canon(x):
    """`|Struct-f-5-name-3|` -> `|Struct-f-5-name|`, the integer that follows such an atom removed, struct fields sorted."""
    if not isinstance(x, list):
        return x
    h = _head(x)
    if h in (b"|DDecl|", b"DDecl"):
        return x[:2] + sorted(([_lsp_strip(y[0])] + y[1:] if isinstance(y, list) and y and not isinstance(y[0], list) else lsp_canon(y)
                               for y in x[2:]), key=sx_ser)
    out = []
    skip = False
    for y in x:
        if skip and not isinstance(y, list) and y.isdigit():
            skip = False
            continue
        skip = False
        if not isinstance(y, list) and b"Struct-" in y[:8]:
            out.append(_lsp_strip(y))
            skip = True
        else:
            out.append(lsp_canon(y))
    return out


def proj_lsp(data):
    toks = sx_tokens(data)
    tree = sx_parse(toks)
    out = {}
    # the fields of a struct are lists headed by `name-slot': the slot number is not part of the tag
    out["tags"] = _multiset(_lsp_strip(_head(n) or b"()") for n in sx_walk(tree))
    out["declare"] = b"\n".join(sx_ser(y) for y in tree if _head(y) in (b"declare-prog", b"declare-type", b"defspecials", b"in-package"))
    out["structs"] = b"\n".join(sx_ser(lsp_canon(y)) for y in tree if _head(y) in (b"|DDecl|", b"DDecl"))
    lits = []
    prev = b""
    for t in toks:
        if t[:1] == b'"':
            lits.append(t)
        elif re.match(rb"^[-+]?[0-9][0-9.eE+-]*$", t) and not (b"Struct-" in prev[:8]):
            lits.append(t)
        prev = t
    # integers are slot numbers in too many positions (Lex, struct accessors): only wide ones and non-integers are literals
    out["literals"] = _multiset(t for t in lits if t[:1] == b'"' or not t.isdigit() or len(t) > 3)
    out["canon"] = sx_ser(lsp_canon(tree))
    return out


# ---------------------------------------------------------------------------
# C

_CT = re.compile(rb'\s+|/\*.*?\*/|//[^\n]*|(#[^\n]*(?:\\\n[^\n]*)*)|("(?:[^"\\\n]|\\.)*")|(\'(?:[^\'\\\n]|\\.)*\')'
                 rb'|([0-9][0-9A-Za-z_.]*(?:[eEpP][-+][0-9]+)?)|([A-Za-z_$][A-Za-z0-9_$]*)|(->|\+\+|--|<<|>>|<=|>=|==|!=|&&|\|\||.)', re.S)
_LEXFIELD = re.compile(rb"^X\d+_")


def c_tokens(data):
    """[(class, text)] with class in pp str chr num id op."""
    out = []
    names = (None, "pp", "str", "chr", "num", "id", "op")
    for m in _CT.finditer(data):
        if m.lastindex:
            out.append((names[m.lastindex], m.group(m.lastindex)))
    return out


def _c_toplevel(toks):
    """Split the token list into file-level items: ('pp', line) | ('stmt', tokens up to ';' at depth 0) |
    ('body', header tokens, body tokens) for `header { ... }` optionally followed by declarators and ';'."""
    items = []
    cur = []
    i = 0
    n = len(toks)
    while i < n:
        cls, t = toks[i]
        if cls == "pp":
            items.append(("pp", t))
            i += 1
            continue
        if t == b"{" and cls == "op":
            depth = 1
            j = i + 1
            while j < n and depth:
                if toks[j][0] == "op" and toks[j][1] == b"{":
                    depth += 1
                elif toks[j][0] == "op" and toks[j][1] == b"}":
                    depth -= 1
                j += 1
            body = toks[i + 1:j - 1]
            # `= { ... }` is an initialiser, part of a statement
            if cur and cur[-1] == ("op", b"="):
                cur.extend(toks[i:j])
                i = j
                continue
            tail = []
            is_fun = any(c == "op" and x == b")" for c, x in cur[-1:])
            if not is_fun:
                while j < n and not (toks[j][0] == "op" and toks[j][1] == b";"):
                    tail.append(toks[j])
                    j += 1
                j += 1
            items.append(("body", cur, body, tail))
            cur = []
            i = j
            continue
        cur.append((cls, t))
        if cls == "op" and t == b";":
            items.append(("stmt", cur))
            cur = []
        i += 1
    if cur:
        items.append(("stmt", cur))
    return items


def _tj(toks):
    return b" ".join(t for _, t in toks)


def _c_norm_tok(tok):
    cls, t = tok
    return (cls, _LEXFIELD.sub(b"X_", t)) if cls == "id" else tok


def _split_stmts(toks):
    out, cur, depth = [], [], 0
    for tok in toks:
        cur.append(tok)
        if tok[0] == "op" and tok[1] in (b"{", b"(", b"["):
            depth += 1
        elif tok[0] == "op" and tok[1] in (b"}", b")", b"]"):
            depth -= 1
        elif tok[0] == "op" and tok[1] == b";" and depth == 0:
            out.append(cur)
            cur = []
    if cur:
        out.append(cur)
    return out


def _nparams(hdr):
    """Number of top-level commas + 1 inside the last parenthesis pair of a function header (0 for `()` / `(void)`)."""
    depth = 0
    end = None
    for k in range(len(hdr) - 1, -1, -1):
        c, t = hdr[k]
        if c == "op" and t == b")":
            if depth == 0:
                end = k
            depth += 1
        elif c == "op" and t == b"(":
            depth -= 1
            if depth == 0:
                inner = hdr[k + 1:end]
                if not inner or _tj(inner) == b"void":
                    return 0
                d = 0
                commas = 0
                for c2, t2 in inner:
                    if c2 == "op" and t2 in (b"(", b"["):
                        d += 1
                    elif c2 == "op" and t2 in (b")", b"]"):
                        d -= 1
                    elif c2 == "op" and t2 == b"," and d == 0:
                        commas += 1
                return commas + 1
    return -1


def proj_c(data, syntax=None):
    toks = c_tokens(data)
    items = _c_toplevel(toks)
    out = {}
    out["includes"] = b"\n".join(re.sub(rb"\s+", b" ", it[1]).strip() for it in items if it[0] == "pp")
    decls, structs, funcs, canon = [], [], [], []
    for it in items:
        if it[0] == "pp":
            canon.append(re.sub(rb"\s+", b" ", it[1]).strip())
        elif it[0] == "stmt":
            decls.append(_tj(it[1]))
            canon.append(_tj([_c_norm_tok(t) for t in it[1]]))
        else:
            _, hdr, body, tail = it
            is_struct = any(c == "id" and t in (b"struct", b"union", b"enum") for c, t in hdr) and not any(
                c == "op" and t == b"(" for c, t in hdr)
            if is_struct:
                fields = sorted(_tj([_c_norm_tok(t) for t in s]) for s in _split_stmts(body))
                text = _tj(hdr) + b" { " + b" ".join(fields) + b" } " + _tj(tail)
                structs.append(text)
                canon.append(text)
            else:
                funcs.append(_tj(hdr[:max(0, next((k for k, (c, t) in enumerate(hdr) if c == "op" and t == b"("), len(hdr)))])
                             + b" / %d" % _nparams(hdr))
                canon.append(_tj(hdr) + b" { " + _tj([_c_norm_tok(t) for t in body]) + b" }")
    out["decls"] = b"\n".join(sorted(set(decls)))
    out["structs"] = b"\n".join(structs)
    out["funcs"] = b"\n".join(funcs)
    out["literals"] = _multiset(t for c, t in toks if c in ("str", "chr", "num"))
    out["canon"] = b"\n".join(canon)
    if syntax is not None:
        out["syntax"] = syntax
    return out


def gcc_syntax(path, incdirs, timeout=300):
    """b'accepted' / b'rejected' (+ the first diagnostic without the path): the compiler's C must be C whatever came before."""
    cmd = ["gcc", "-fsyntax-only", "-std=gnu99", "-w", "-x", "c"] + ["-I" + d for d in incdirs] + [path]
    try:
        r = subprocess.run(cmd, stdout=subprocess.PIPE, stderr=subprocess.PIPE, timeout=timeout, env={"PATH": os.environ.get("PATH", "/usr/bin:/bin"), "LC_ALL": "C"})
    except subprocess.TimeoutExpired:
        return None
    if r.returncode == 0:
        return b"accepted"
    first = next((l for l in r.stderr.splitlines() if b"error" in l), b"")
    first = re.sub(rb"^[^ ]*?:(\d+):\d+: ", b"", first)
    return b"rejected: " + first


# ---------------------------------------------------------------------------
# Java

_JFIELD = re.compile(rb"\b((?:set|get)Field)\(\s*\d+\s*,")
_JSTR = re.compile(rb'"(?:[^"\\\n]|\\.)*"')
_JNUM = re.compile(rb"(?<![A-Za-z0-9_$.\"])-?\d+(?:\.\d+)?(?:[eE][-+]?\d+)?[LlFfDd]?(?![A-Za-z0-9_$\"])")
_JMEMBER = re.compile(rb"^\s*((?:public|private|protected|static|final|abstract)\b[^;={]*?)(\s*[;={].*)?$")


def proj_java(data):
    out = {}
    lines = data.splitlines()
    out["imports"] = b"\n".join(l.strip() for l in lines if re.match(rb"\s*(import|package)\b", l))
    mem = []
    for l in lines:
        m = _JMEMBER.match(l)
        if m and b" new " not in m.group(1):
            mem.append(re.sub(rb"\s+", b" ", m.group(1)).strip())
    out["members"] = b"\n".join(mem)
    nofield = _JFIELD.sub(rb"\1(", data)
    nostr = _JSTR.sub(b'""', nofield)
    out["literals"] = _multiset(_JSTR.findall(nofield) + _JNUM.findall(nostr))
    out["canon"] = b"\n".join(re.sub(rb"\s+", b" ", l).strip() for l in nofield.splitlines())
    return out


# ---------------------------------------------------------------------------
# .ao

AO_SECTIONS = ["syme", "foam", "fsyme", "pos", "postbl", "name", "kind", "file", "lazy", "type",
               "inline", "twins", "extend", "doc", "foreign", "fileid", "macros"]


def ao_sections(data):
    """[(name, bytes)] in file order (struct libHdr: magic u16, versions 2 x u32, numSect u16, 17 x (name u8, offset u32, length u32))."""
    import struct
    if len(data) < 165:
        return []
    numsect, = struct.unpack_from("<H", data, 10)
    out = []
    for e in range(min(numsect, 17)):
        name, off, ln = struct.unpack_from("<BII", data, 12 + 9 * e)
        out.append((AO_SECTIONS[name] if name < 17 else "?%d" % name, data[off:off + ln]))
    return out


def proj_ao(data):
    ss = ao_sections(data)
    d = dict(ss)
    return {"sections": data[:12].hex().encode() + b" " + b" ".join(n.encode() for n, _ in ss),
            "ids": d.get("fileid", b"").hex().encode() + b" " + d.get("macros", b"").hex().encode(),
            "foamsize": b"%d %d" % (len(d.get("foam", b"")), len(d.get("fsyme", b"")))}


def project(kind, data, syntax=None):
    """name -> bytes for every projection of PROJECTIONS[kind]."""
    if kind == "c":
        p = proj_c(data, syntax)
    elif kind == "fm":
        p = proj_fm(data)
    elif kind == "lsp":
        p = proj_lsp(data)
    elif kind == "java":
        p = proj_java(data)
    elif kind == "ao":
        p = proj_ao(data)
    else:
        p = {}
    return {k: p[k] for k in PROJECTIONS[kind] if k in p}


def sha(data):
    return hashlib.sha256(data).digest()
