"""C17 binding (Replay): damage real .ao / .al / .fm files and observe consuming compilations.

Nothing here decides the property.  This module
  * compiles a few small axllib programs with the compiler built from the working tree,
  * parses the resulting files ITSELF (independently of lib.c / archive.c) and maps every
    byte offset to the cell class of spec/LibFile.tla (magic, verMajor, ..., tbl.offset,
    sect.first/interior/last, end; archive and FOAM-text classes likewise),
  * produces truncations and single-byte substitutions, runs a consuming compilation on each
    damaged file in a private directory under a timeout and resource limits, and
  * records RAW observations (exit status, signal, timeout, fault-report marker, diagnostic
    marker, outputs byte-equal to the intact run) as ndjson events for spec/TraceLibFile.tla.
The outcome vocabulary (Same/Rejected/Garbage/Fault/Hang/Silent) and the verdict are computed
by TLC from those raw fields.

Command line (for reproducing a finding by hand):
  python3-vt gen/libfile.py repro --fmt ao --route fc --kind subst --off 143 --val 0
  python3-vt gen/libfile.py repro --fmt ao --route interp --kind trunc --off 2000
  python3-vt gen/libfile.py layout --fmt ao          (prints offset ranges and their classes)
"""
import os
import re
import resource
import shutil
import struct
import subprocess
import sys
import tempfile
import time
from concurrent.futures import ThreadPoolExecutor

sys.path.insert(0, os.path.join(os.path.dirname(os.path.dirname(os.path.abspath(__file__))), "lib"))
import vlib  # noqa: E402

# --------------------------------------------------------------------------
# corpus: small axllib programs (sources are part of the check, written here)

SRC_PROG = '''#include "axllib"
import from SingleInteger, Integer;
f(n: SingleInteger): SingleInteger == if n < 2 then 1 else n * f(n - 1);
g(n: Integer): Integer == { r: Integer := 1; for i in 1..n repeat r := r * i; r }
print << "fact " << f(7) << newline;
print << "big " << g(25) << newline;
l: List SingleInteger := [3, 1, 4, 1, 5, 9, 2, 6];
s: SingleInteger := 0;
for x in l repeat s := s + x * x;
print << "sumsq " << s << newline;
'''

SRC_SMALL = '''#include "axllib"
import from SingleInteger;
f(n: SingleInteger): SingleInteger == if n < 2 then 1 else n * f(n - 1);
print << "fact " << f(7) << " " << f(3) + 12345 << newline;
'''

SRC_LIB1 = '''#include "axllib"

Pt: with {
	mk: (SingleInteger, SingleInteger) -> %;
	sum: % -> SingleInteger;
	scale: (%, SingleInteger) -> %;
} == add {
	Rep ==> Record(x: SingleInteger, y: SingleInteger);
	import from Rep;
	mk(a: SingleInteger, b: SingleInteger): % == per [a, b];
	sum(p: %): SingleInteger == rep(p).x + rep(p).y;
	scale(p: %, k: SingleInteger): % == per [k * rep(p).x, k * rep(p).y];
}
'''

LONGNAME = "averyveryverylongname2"
SRC_LIB2 = '''#include "axllib"

Acc: with {
	new: SingleInteger -> %;
	bump: (%, SingleInteger) -> %;
	val: % -> SingleInteger;
} == add {
	Rep ==> Record(v: SingleInteger);
	import from Rep;
	new(a: SingleInteger): % == per [a];
	bump(p: %, k: SingleInteger): % == { rep(p).v := rep(p).v + k; p }
	val(p: %): SingleInteger == rep(p).v;
}
'''

SRC_CLIENT = '''#include "axllib"
#library L "lib1.ao"
import from L;
import from SingleInteger, Pt;
print << "pt " << sum(scale(mk(3, 4), 5)) << newline;
'''

SRC_CLIENT2 = '''#include "axllib"
#library MyLib "libmy.al"
import from MyLib;
import from SingleInteger, Pt, Acc;
a := new(10);
bump(a, sum(scale(mk(3, 4), 5)));
print << "acc " << val a << newline;
'''

SECT_NAMES = ["syme", "foam", "fsyme", "pos", "postbl", "name", "kind", "file", "lazy", "type",
              "inline", "twins", "extend", "doc", "foreign", "fileid", "macros"]
LIB_LIMIT = 17
LIB_HDR = 2 + 4 + 4 + 2 + LIB_LIMIT * 9      # 165


class Target(object):
    """One valid file + one way of consuming it."""

    def __init__(self, fmt, route, victim, data, files, args, classes):
        self.fmt, self.route, self.victim, self.data = fmt, route, victim, data
        self.files = files            # other files the run directory needs: name -> bytes
        self.args = args              # compiler arguments after the base arguments
        self.classes = classes        # list over offsets 0..len(data): (cls, sect, byte)  [len = "end"]
        self.ref = None               # intact observation


# --------------------------------------------------------------------------
# independent parsers: byte offset -> cell class

def classes_ao(d, prefix=""):
    """Cell classes of an .ao image (struct libHdr of lib.h as libPutHeader lays it out)."""
    n = len(d)
    if n < LIB_HDR:
        raise vlib.MachineryError("corpus .ao shorter than its header")
    magic, = struct.unpack_from("<H", d, 0)
    numsect, = struct.unpack_from("<H", d, 10)
    if magic != 0o420 or numsect > LIB_LIMIT:
        raise vlib.MachineryError("corpus .ao has an unexpected header (magic %o, numSect %d)" % (magic, numsect))
    cl = [None] * (n + 1)

    def put(lo, ln, cls, sect):
        for k in range(ln):
            cl[lo + k] = (prefix + cls, sect, k)
    put(0, 2, "magic", "")
    put(2, 4, "verMajor", "")
    put(6, 4, "verMinor", "")
    put(10, 2, "numSect", "")
    end = LIB_HDR
    for e in range(LIB_LIMIT):
        o = 12 + 9 * e
        name, off, ln = struct.unpack_from("<BII", d, o)
        used = e < numsect
        sn = SECT_NAMES[name] if name < LIB_LIMIT else ""
        t = "tbl." if used else "tblu."
        put(o, 1, t + "name", sn)
        put(o + 1, 4, t + "offset", sn)
        put(o + 5, 4, t + "length", sn)
        if used:
            if off != end or off + ln > n:
                raise vlib.MachineryError("corpus .ao: section table not contiguous")
            for k in range(ln):
                c = "sect.first" if k == 0 else ("sect.last" if k == ln - 1 else "sect.interior")
                cl[off + k] = (prefix + c, sn, k)
            end = off + ln
    if end != n:
        raise vlib.MachineryError("corpus .ao: %d bytes after the last section" % (n - end))
    cl[n] = (prefix + "end", "", 0)
    return cl


AR_FIELDS = [("name", 16), ("date", 12), ("uid", 6), ("gid", 6), ("mode", 8), ("size", 10), ("fmag", 2)]


def classes_al(d):
    """Cell classes of a GNU ar archive of .ao members."""
    n = len(d)
    if d[:8] != b"!<arch>\n":
        raise vlib.MachineryError("corpus .al: no ar magic")
    cl = [None] * (n + 1)
    for k in range(8):
        cl[k] = ("ar.magic", "", k)
    pos = 8
    midx = 0
    while pos < n:
        name = d[pos:pos + 16]
        size = int(d[pos + 48:pos + 58].decode().strip())
        special = name.startswith(b"//") or name.startswith(b"/ ")
        who = "names" if name.startswith(b"//") else ("symtab" if special else "m%d" % midx)
        o = pos
        for f, ln in AR_FIELDS:
            for k in range(ln):
                cl[o + k] = ("arhdr." + f, who, k)
            o += ln
        body = d[o:o + size]
        if name.startswith(b"//"):
            for k in range(size):
                cl[o + k] = ("ar.names", who, k)
        elif special:
            for k in range(size):
                cl[o + k] = ("ar.symtab", who, k)
        else:
            sub = classes_ao(body, prefix="member.")
            for k in range(size):
                c = sub[k]
                cl[o + k] = (c[0], who + ":" + c[1] if c[1] else who, c[2])
            midx += 1
        pos = o + size
        if pos % 2 == 1 and pos < n:
            cl[pos] = ("ar.pad", who, 0)
            pos += 1
    cl[n] = ("end", "", 0)
    return cl


def classes_fm(d):
    """Cell classes of FOAM text (the s-expression syntax sexpr.c reads)."""
    n = len(d)
    cl = [None] * (n + 1)
    i = 0
    depth = 0
    while i < n:
        c = d[i:i + 1]
        if c == b"(":
            depth += 1
            cl[i] = ("fm.open", "", 0)
            i += 1
        elif c == b")":
            depth -= 1
            cl[i] = ("fm.close", "", 0)
            i += 1
        elif c in b" \t\r\n":
            cl[i] = ("fm.space", "", 0)
            i += 1
        elif c == b'"':
            j = i + 1
            while j < n and d[j:j + 1] != b'"':
                j += 2 if d[j:j + 1] in (b"\\", b"_") else 1
            j = min(j, n - 1)
            for k in range(i, j + 1):
                cl[k] = ("fm.string.quote" if k in (i, j) else "fm.string.char", "", k - i)
            i = j + 1
        else:
            j = i
            while j < n and d[j:j + 1] not in b"() \t\r\n\"":
                j += 1
            tok = d[i:j]
            kind = "fm.number" if re.match(rb"^-?[0-9]", tok) else "fm.symbol"
            for k in range(i, j):
                pos = "first" if k == i else ("last" if k == j - 1 else "interior")
                cl[k] = ("%s.%s" % (kind, pos), "", k - i)
            i = j
    cl[n] = ("end", "", 0)
    return cl


ALL_CLASSES = {
    "ao": ["magic", "verMajor", "verMinor", "numSect", "tbl.name", "tbl.offset", "tbl.length",
           "tblu.name", "tblu.offset", "tblu.length", "sect.first", "sect.interior", "sect.last", "end"],
}


# --------------------------------------------------------------------------
# building the corpus

def _compile(build, cwd, args):
    rc, out, err, to = vlib.aldor(build, args, cwd=cwd, timeout=120)
    if rc != 0 or to:
        raise vlib.MachineryError("corpus compilation failed: aldor %s\n%s%s" % (" ".join(args), out.decode(errors="replace"), err.decode(errors="replace")))


def build_targets(build, formats=("ao", "al", "fm")):
    d = vlib.scratch("c17corpus")
    w = lambda name, text: open(os.path.join(d, name), "w").write(text)
    rd = lambda name: open(os.path.join(d, name), "rb").read()
    w("prog.as", SRC_PROG)
    w("lib1.as", SRC_LIB1)
    w("small.as", SRC_SMALL)
    w(LONGNAME + ".as", SRC_LIB2)
    _compile(build, d, ["-Fao", "-Ffm", "prog.as"])
    _compile(build, d, ["-Fao", "lib1.as"])
    _compile(build, d, ["-Ffm", "small.as"])
    _compile(build, d, ["-Fao", LONGNAME + ".as"])
    r = subprocess.run(["ar", "crD", "libmy.al", "lib1.ao", LONGNAME + ".ao"], cwd=d, stdout=subprocess.PIPE, stderr=subprocess.STDOUT)
    if r.returncode != 0:
        raise vlib.MachineryError("ar failed: " + r.stdout.decode())
    prog_ao, small_fm, lib1_ao, libmy = rd("prog.ao"), rd("small.fm"), rd("lib1.ao"), rd("libmy.al")
    ts = []
    if "ao" in formats:
        ca = classes_ao(prog_ao)
        ts.append(Target("ao", "fc", "prog.ao", prog_ao, {}, ["-Fc=o.c", "-Ffm=o.fm", "prog.ao"], ca))
        ts.append(Target("ao", "interp", "prog.ao", prog_ao, {}, ["-laxllib", "-Ginterp", "prog.ao"], ca))
        ts.append(Target("ao", "client", "lib1.ao", lib1_ao, {"client.as": SRC_CLIENT.encode()},
                         ["-laxllib", "-Fc=client.c", "-Ginterp", "client.as"], classes_ao(lib1_ao)))
    if "al" in formats:
        ts.append(Target("al", "client", "libmy.al", libmy, {"client2.as": SRC_CLIENT2.encode()},
                         ["-laxllib", "-Fc=client2.c", "-Ginterp", "client2.as"], classes_al(libmy)))
    if "fm" in formats:
        cf = classes_fm(small_fm)
        ts.append(Target("fm", "fc", "small.fm", small_fm, {}, ["-Fc=o.c", "small.fm"], cf))
        ts.append(Target("fm", "interp", "small.fm", small_fm, {}, ["-laxllib", "-Ginterp", "small.fm"], cf))
    return ts


# --------------------------------------------------------------------------
# one consuming compilation

# what the compiler (or libc) prints when it faults internally; NOT its ordinary diagnostics
# (note: "Archive ... is truncated or corrupted" is an ordinary diagnostic)
FAULT_RE = re.compile(rb"Program fault|[Cc]ompiler bug|Bug:|Assertion.*failed|Unhandled Exception|core dumped|stack smashing|"
                      rb"double free|malloc\(\): |free\(\): |realloc\(\): |munmap_chunk\(\)|corrupted (size|double-linked|top)")
DIAG_RE = re.compile(rb"\((Fatal )?Error\)|[Ee]rror|[Cc]ould not|[Cc]annot|[Cc]an't")


def _limits(cpu):
    def f():
        resource.setrlimit(resource.RLIMIT_CORE, (0, 0))
        resource.setrlimit(resource.RLIMIT_AS, (256 << 20, 256 << 20))   # intact runs need < 10 MB
        resource.setrlimit(resource.RLIMIT_FSIZE, (64 << 20, 64 << 20))
        resource.setrlimit(resource.RLIMIT_CPU, (cpu, cpu + 1))
    return f


def observe(build, t, data, root, timeout):
    """Run t's consuming compilation with `data` in place of the valid file; raw observation."""
    d = tempfile.mkdtemp(prefix="r", dir=root)
    try:
        with open(os.path.join(d, t.victim), "wb") as fh:
            fh.write(data)
        for n, b in t.files.items():
            with open(os.path.join(d, n), "wb") as fh:
                fh.write(b)
        cmd = [build["aldor"]] + vlib.ALDOR_BASE_ARGS + t.args
        t0 = time.time()
        try:
            p = subprocess.run(cmd, cwd=d, stdin=subprocess.DEVNULL, stdout=subprocess.PIPE, stderr=subprocess.PIPE,
                               timeout=timeout, preexec_fn=_limits(int(timeout) + 2))
            rc, out, err, to = p.returncode, p.stdout, p.stderr, False
            if rc == -24:                     # SIGXCPU: the CPU limit, i.e. it did not terminate
                rc, to = None, True
        except subprocess.TimeoutExpired as e:
            rc, out, err, to = None, e.stdout or b"", e.stderr or b"", True
        files = {}
        for f in sorted(os.listdir(d)):
            if f == t.victim or f in t.files:
                continue
            try:
                with open(os.path.join(d, f), "rb") as fh:
                    files[f] = fh.read()
            except OSError:
                files[f] = None
        victim_left = os.path.exists(os.path.join(d, t.victim))
    finally:
        shutil.rmtree(d, ignore_errors=True)
    both = out + b"\n" + err
    sig = -rc if (rc is not None and rc < 0) else 0
    if rc is not None and rc >= 128:         # a shell-style "killed by signal" status
        sig = rc - 128
    return {"exit": 0 if rc is None else (rc if rc >= 0 else 128 - rc), "sig": sig, "timeout": to,
            "fault": bool(FAULT_RE.search(both)),
            "diag": bool(DIAG_RE.search(both)), "out": out, "files": files, "err": err,
            "wall": time.time() - t0, "victim_left": victim_left}


def intact(build, t, root):
    r = observe(build, t, t.data, root, 120)
    if r["exit"] != 0 or r["sig"] or r["timeout"] or r["fault"]:
        raise vlib.MachineryError("intact %s/%s run failed: exit %s\n%s%s" % (t.fmt, t.route, r["exit"], r["out"].decode(errors="replace"), r["err"].decode(errors="replace")))
    if not r["files"] and not r["out"].strip():
        raise vlib.MachineryError("intact %s/%s run produced no output to compare" % (t.fmt, t.route))
    t.ref = r
    return r


def same_outputs(t, r):
    return r["out"] == t.ref["out"] and r["files"] == t.ref["files"]


# --------------------------------------------------------------------------
# damage enumeration

def subst_values(fmt, b, thorough):
    """Substituted byte values: a fixed function of the original byte (never of the seed), so that
    whatever the quick tier tries is a subset of what the thorough tier tries."""
    if fmt == "fm":
        vs = [b ^ 1, 0x29, 0x22, 0x00, 0x28, 0x20] if thorough else [b ^ 1, 0x29, 0x22, 0x00]
    else:
        vs = [b ^ 1, 0x00, 0xFF, b ^ 0x80, (b + 1) & 0xFF] if thorough else [b ^ 1, 0x00, 0xFF]
    out = []
    for v in vs:
        if v != b and v not in out:
            out.append(v)
    return out


HEADER_CLASSES = ("magic", "verMajor", "verMinor", "numSect", "tbl.", "tblu.", "ar.magic", "arhdr.", "ar.names",
                  "ar.symtab", "ar.pad", "member.magic", "member.verM", "member.numSect", "member.tbl")


def is_header_class(cls):
    return cls.startswith(HEADER_CLASSES)


def offsets_for(t, tier, rng, sample):
    """Offsets to damage.  thorough: every offset.  quick: every offset of header / section table /
    archive headers / name table, every class boundary +-1 elsewhere, and `sample` seeded others."""
    n = len(t.data)
    stride = max(1, int(os.environ.get("VERIF_C17_STRIDE", "1")))
    if tier == "thorough" and stride == 1:
        return list(range(n))
    if tier == "thorough":
        # a thinned thorough run (for a loaded machine): header classes fully, the rest every stride-th offset
        start = rng.randrange(stride)
        return [i for i in range(n) if is_header_class(t.classes[i][0]) or i % stride == start
                or i == n - 1 or (t.fmt != "fm" and i > 0 and t.classes[i - 1][:2] != t.classes[i][:2])]
    keep = set()
    if t.fmt == "fm":
        # text: token boundaries are everywhere; take head, tail and a seeded sample per class
        keep.update(range(min(80, n)))
        keep.update(range(max(0, n - 40), n))
        by = {}
        for i in range(n):
            by.setdefault(t.classes[i][0], []).append(i)
        # a fixed base sample per class (the same for every seed, so that the set of classes in which
        # the unchanged tree shows its known payload findings does not depend on the seed) + seeded extras
        import random as _random
        base = _random.Random(0xC17)
        for c in sorted(by):
            fixed = list(by[c])
            base.shuffle(fixed)
            keep.update(fixed[:24])
            rng.shuffle(by[c])
            keep.update(by[c][:max(4, sample // 5)])
        return sorted(keep)
    for i in range(n):
        c = t.classes[i]
        if is_header_class(c[0]):
            keep.add(i)
        if i == 0 or (t.classes[i - 1][0], t.classes[i - 1][1]) != (c[0], c[1]):
            for j in (i - 1, i, i + 1):
                if 0 <= j < n:
                    keep.add(j)
    keep.update((n - 1, n - 2) if n > 1 else (0,))
    rest = [i for i in range(n) if i not in keep]
    rng.shuffle(rest)
    keep.update(rest[:sample])
    return sorted(keep)


def cases_for(t, tier, rng, sample, max_header_vals=None):
    """Yield (kind, off, val).  trunc off = new length (class of the first missing byte)."""
    offs = offsets_for(t, tier, rng, sample)
    thorough = tier == "thorough"
    cs = []
    for o in offs:
        cs.append(("trunc", o, -1))
    for o in offs:
        vals = subst_values(t.fmt, t.data[o], thorough)
        if not is_header_class(t.classes[o][0]):
            vals = vals[:3] if thorough else vals[:2]
        for v in vals:
            cs.append(("subst", o, v))
    return cs


def apply_damage(data, kind, off, val):
    if kind == "none":
        return data
    if kind == "trunc":
        return data[:off]
    return data[:off] + bytes([val]) + data[off + 1:]


def newname_class(t, kind, off, val):
    """For a substitution in a used section-table name cell: what the new value names -- "present" (a section the table
    already lists: a duplicate), "unused" (a valid name the table does not list) or "invalid"; "" otherwise."""
    if kind != "subst" or t.fmt == "fm":
        return ""
    c = t.classes[off]
    if not c[0].endswith("tbl.name"):
        return ""
    if val >= LIB_LIMIT:
        return "invalid"
    pre = c[0][:-len("tbl.name")]
    present = set(x[1] for x in t.classes if x is not None and x[0] == c[0] and x[1])
    return "present" if SECT_NAMES[val] in present else "unused"


def event(t, kind, off, val, r, idn):
    c = t.classes[off] if kind != "none" else ("none", "", 0)
    return {"ev": "Case", "id": idn, "fmt": t.fmt, "route": t.route, "kind": kind, "off": off, "val": val,
            "newname": newname_class(t, kind, off, val),
            "cls": c[0], "sect": c[1], "byte": c[2],
            "exit": int(r["exit"]), "sig": int(r["sig"]), "timeout": bool(r["timeout"]),
            "fault": bool(r["fault"]), "diag": bool(r["diag"]), "same": bool(same_outputs(t, r))}


def run_campaign(build, targets, tier, rng, sample, timeout, workers, progress=None):
    """Returns (events, details) - details[id] = short text of the run for the replay file."""
    root = vlib.scratch("c17runs")
    # private copy of the compiler: the shared build cache may be evicted by a concurrent vbuild
    own = os.path.join(root, "aldor")
    shutil.copy2(build["aldor"], own)
    build = dict(build, aldor=own)
    jobs = []
    for t in targets:
        intact(build, t, root)
        jobs.append((t, "none", 0, -1))
        for (k, o, v) in cases_for(t, tier, rng, sample):
            jobs.append((t, k, o, v))
    events = [None] * len(jobs)
    details = {}

    def one(ix):
        t, k, o, v = jobs[ix]
        r = observe(build, t, apply_damage(t.data, k, o, v), root, timeout)
        return ix, r

    def record(ix, r):
        t, k, o, v = jobs[ix]
        events[ix] = event(t, k, o, v, r, ix)
        bad = r["timeout"] or r["sig"] or r["fault"] or (r["exit"] == 0 and not same_outputs(t, r)) or (r["exit"] != 0 and not r["diag"])
        if bad:
            diff = [f for f in set(r["files"]) | set(t.ref["files"]) if r["files"].get(f) != t.ref["files"].get(f)]
            details[ix] = {"cmd": "aldor " + " ".join(t.args), "exit": r["exit"], "sig": r["sig"], "timeout": r["timeout"],
                           "stdout": r["out"][-600:].decode(errors="replace"), "stderr": r["err"][-300:].decode(errors="replace"),
                           "outputs_differing": sorted(diff) + ([] if r["out"] == t.ref["out"] else ["<stdout>"])}

    t0 = time.time()
    with ThreadPoolExecutor(workers) as ex:
        for ix, r in ex.map(one, range(len(jobs))):
            record(ix, r)
            if os.environ.get("VERIF_PROGRESS") and ix % 5000 == 4999:
                sys.stderr.write("c17: %d/%d cases, %.0fs\n" % (ix + 1, len(jobs), time.time() - t0))
    # A timeout may be the machine, not the compiler: confirm each alone with a long limit.
    hung = [ix for ix, e in enumerate(events) if e["timeout"]]
    confirm_to = max(20.0, timeout * 5)
    with ThreadPoolExecutor(4) as ex:
        def again(ix):
            t, k, o, v = jobs[ix]
            return ix, observe(build, t, apply_damage(t.data, k, o, v), root, confirm_to)
        for ix, r in ex.map(again, hung):
            details.pop(ix, None)
            record(ix, r)
    return events, details, jobs


# --------------------------------------------------------------------------
# command line

def _main(argv):
    import argparse
    ap = argparse.ArgumentParser()
    ap.add_argument("cmd", choices=["repro", "layout"])
    ap.add_argument("--fmt", default="ao")
    ap.add_argument("--route", default="fc")
    ap.add_argument("--kind", default="trunc")
    ap.add_argument("--off", type=int, default=0)
    ap.add_argument("--val", type=int, default=0)
    a = ap.parse_args(argv)
    build = vlib.vbuild()
    try:
        ts = [t for t in build_targets(build, (a.fmt,)) if t.fmt == a.fmt and (a.cmd == "layout" or t.route == a.route)]
        if not ts:
            print("no such target")
            return 2
        t = ts[0]
        if a.cmd == "layout":
            prev = None
            for i, c in enumerate(t.classes):
                if prev is None or (c[0], c[1]) != (prev[0], prev[1]):
                    print("%6d  %-22s %s" % (i, c[0], c[1]))
                prev = c
            return 0
        root = vlib.scratch("c17repro")
        intact(build, t, root)
        r = observe(build, t, apply_damage(t.data, a.kind, a.off, a.val), root, 30)
        e = event(t, a.kind, a.off, a.val, r, 0)
        print("file %s (%d bytes), class %s %s; command: aldor %s" % (t.victim, len(t.data), e["cls"], e["sect"], " ".join(t.args)))
        print({k: e[k] for k in ("exit", "sig", "timeout", "fault", "diag", "same")})
        print("--- stdout\n" + r["out"].decode(errors="replace") + "--- stderr\n" + r["err"].decode(errors="replace"))
        print("--- intact stdout\n" + t.ref["out"].decode(errors="replace"))
        return 0
    finally:
        vlib.cleanup_scratch()


if __name__ == "__main__":
    sys.exit(_main(sys.argv[1:]))
