"""C09, large-scale part: parametrised allocation-heavy Aldor programs (too long-running to be evaluated step by step by TLC).
For them the statement is checked in its equality form: the observation (output, exit class) under every collection schedule
must equal the observation with no forced collection -- decided by TLC with the Obs monitor (spec/TraceObs.tla)."""
import random

HEAD = '#include "axllib"\nSI ==> SingleInteger;\nimport from SI, String, List SI;\n'


def long_list(n, rounds, m):
    return HEAD + """
l: List SI := nil;
for i in 1..%d repeat l := cons(i, l);
t: SI := 0;
for k in 1..%d repeat { junk: List SI := nil; for i in 1..%d repeat junk := cons(i + k, junk); t := t + #junk }
s: SI := 0;
for x in l repeat s := s + (x mod 7);
print << #l << " " << s << " " << t << newline;
""" % (n, rounds, m)


def many_sizes(k, rounds):
    return HEAD + """import from PrimitiveArray SI;
PA ==> PrimitiveArray SI;
mk(n: SI): PA == new(n, 0);
ys: PrimitiveArray PA := new(%d, mk 1);
zs: PrimitiveArray PA := new(%d, mk 1);
h: PA := mk(%d);           -- one big block given back: the arrays below are carved out of one heap section
dispose! h;
for k in 1..%d repeat { ys.k := mk(32*(k+20) + 8); zs.k := mk(32*20 + 8); zs.k.1 := 1000 + k }
for k in 1..%d repeat ys.k := zs.1;
t: SI := 0;
for r in 1..%d repeat { junk: List SI := nil; for i in 1..5000 repeat junk := cons(i, junk); t := t + #junk }
ws: PrimitiveArray PA := new(%d, mk 1);
for k in 1..%d repeat { ws.k := mk(32*(k+20) + 8); ws.k.1 := k }
s: SI := 0;
for k in 1..%d repeat s := s + zs.k.1 + ws.k.1;
print << s << " " << t << newline;
""" % (k, k, 16 * (k + 44) * (k + 2) + 32 * 22 * k, k, k, rounds, k, k, k)


def nested_lists(n, m):
    return HEAD + """import from List List SI;
ll: List List SI := nil;
for i in 1..%d repeat { row: List SI := nil; for j in 1..(i mod %d + 1) repeat row := cons(i * j, row); ll := cons(row, ll) }
t: SI := 0;
for k in 1..400 repeat { junk: List SI := nil; for i in 1..2000 repeat junk := cons(i, junk); t := t + #junk }
s: SI := 0;
for row in ll repeat for x in row repeat s := s + (x mod 11);
print << #ll << " " << s << " " << t << newline;
""" % (n, m)


def bignums(n):
    return '#include "axllib"\nSI ==> SingleInteger;\nimport from SI, Integer, String;\n' + """
f: Integer := 1@Integer;
for i in 1@SI..%d@SI repeat f := f * (i::Integer);
g: Integer := f quo (f quo 1000003@Integer + 1@Integer);
s: SI := 0@SI;
for i in 1@SI..200@SI repeat { h: Integer := f + (i::Integer); if h > f then s := s + 1@SI }
print << g << " " << s << " " << (f mod 1000000007@Integer) << newline;
""" % n


def family(seed, tier):
    r = random.Random(seed)
    progs = []
    nl = 2 if tier == "quick" else 6
    for i in range(nl):
        n = r.choice([60000, 90000, 150000, 220000, 300000])
        progs.append(("long_list_%d" % n, long_list(n, r.randint(300, 1500), r.choice([500, 1000, 2000]))))
    for i in range(2 if tier == "quick" else 5):
        k = r.choice([560, 600, 700, 800, 900])     # more distinct large free sizes than one node of the free-size index holds
        progs.append(("many_sizes_%d" % k, many_sizes(k, r.randint(100, 300))))
    for i in range(1 if tier == "quick" else 3):
        n = r.choice([20000, 50000])
        progs.append(("nested_lists_%d" % n, nested_lists(n, r.choice([5, 9, 17]))))
    progs.append(("bignums", bignums(r.choice([1500, 3000]))))
    seen, out = set(), []
    for n, t in progs:
        if n not in seen:
            seen.add(n)
            out.append((n, t))
    return out


SCHEDULES = {"quick": [(20011, 3), (50021, 0)], "thorough": [(5003, 1), (20011, 3), (50021, 0), (100003, 77), (1009, 5)]}
