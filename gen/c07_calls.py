"""C07: call shapes (spec/Calls.tla).  TLC enumerates signatures, base applications and their one-defect variants and
certifies the ones no signature accepts; this file starts those runs and renders every exported application into
an otherwise valid axllib program.  Nothing here decides a verdict.
"""
import json
import os
import sys

sys.path.insert(0, os.path.join(os.path.dirname(os.path.dirname(os.path.abspath(__file__))), "lib"))
import vlib                     # noqa: E402
from c07_run import Input       # noqa: E402
import c07_inputs as ci         # noqa: E402

TYPE = {"I": "SingleInteger", "B": "Boolean", "S": "String"}
VAR = {"I": "vI", "B": "vB", "S": "vS"}
DEFAULT = {"I": "0", "B": "false", "S": '"d"'}
PRELUDE = ('#include "axllib"\nimport from SingleInteger, Boolean, String;\n'
           'vI: SingleInteger := 1; vB: Boolean := true; vS: String := "s";\n')


def values(tys):
    return VAR[tys[0]] if len(tys) == 1 else "(%s)" % ", ".join(VAR[t] for t in tys)


def typ(tys):
    return TYPE[tys[0]] if len(tys) == 1 else "(%s)" % ", ".join(TYPE[t] for t in tys)


def render(rec):
    out = [PRELUDE]
    prods = sorted(set("".join(a["tys"]) for a in rec["args"] if len(a["tys"]) != 1))
    for p in prods:      # functions that return several values
        out.append("m%s(): %s == %s;\n" % (p, typ(list(p)), values(list(p))))
    for s in rec["sigs"]:
        ps = ", ".join("%s: %s%s" % (p["nm"], TYPE[p["ty"]], (" == " + DEFAULT[p["ty"]]) if p["df"] else "") for p in s["ps"])
        out.append("fq(%s): %s == %s;\n" % (ps, typ(s["ret"]), values(s["ret"])))
    args = []
    for a in rec["args"]:
        v = VAR[a["tys"][0]] if len(a["tys"]) == 1 else "m%s()" % "".join(a["tys"])
        args.append(("%s == %s" % (a["kw"], v)) if a["kw"] else v)
    call = "fq(%s)" % ", ".join(args)
    lhs = rec["lhs"]
    names = ["rq", "sq", "tq"]
    if len(lhs) == 1:
        stmt = "rq: %s := %s" % (TYPE[lhs[0]], call)
    else:
        stmt = "(%s) := %s" % (", ".join("%s: %s" % (names[i], TYPE[t]) for i, t in enumerate(lhs)), call)
    place = rec["place"]
    if place == 1:
        out.append("gq(): () == { %s };\n" % stmt)
    elif place == 2:
        out.append("if vB then { %s };\n" % stmt)
    else:
        out.append(stmt + ";\n")
    return "".join(out).encode()


def applications(chk, d, parts, seed, timeout=1500, parallel=8):
    jobs = []
    for pi, subst in enumerate(parts):
        name = "Calls_p%d" % pi
        c = dict(subst)
        c["Seed"] = seed
        ci._cfg(d, "CallsQuick", name, c)
        jobs.append(("Calls", name, None, timeout))
    res = ci._tlc_many(chk, d, jobs, parallel, "Calls (call shapes, %d runs)" % len(jobs), light=True)
    recs = ci._printed(res, "CALL")
    if not recs:
        raise vlib.MachineryError("Calls exported nothing")
    return recs


def family(chk, d, tier, seed):
    """Inputs of class "call": one text per exported application (compiled with -Fao)."""
    if tier == "quick":
        parts = [{"Pats": "{1}", "Ovs": '{"none"}', "Stride": 6},
                 {"Pats": "{2}", "Ovs": '{"none"}', "Stride": 29},
                 {"Pats": "{1, 2}", "Ovs": '{"arity", "types", "ret"}', "Stride": 83}]
        seed = 0
    else:
        parts = [{"Pats": "{%d}" % p, "Ovs": '{"%s"}' % o, "Stride": 1 if o == "none" else 4}
                 for p in (1, 2, 3) for o in ("none", "arity", "types", "ret")]
    recs = applications(chk, d, parts, seed)
    seen = set()
    ins = []
    for r in recs:
        key = json.dumps([r["sigs"], r["args"], r["lhs"], r["place"]], sort_keys=True)
        if key in seen:
            continue
        seen.add(key)
        ins.append(Input("call", [r["id"], r["ov"], r["dk"], r["di"], r["place"]], render(r), r["c"], feat=[], kinds=("ao",),
                         label={"defect": r["dk"], "overloads": r["ov"], "params": len(r["sigs"][0]["ps"]),
                                "keywords": sum(1 for a in r["args"] if a["kw"]), "control": r["dk"] == "none"}))
    return ins
