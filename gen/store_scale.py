"""Concretise the real-scale behaviours exported by TLC for the allocator's housekeeping structures
(spec/StoreTreeGen.tla: the free tree with its node and carrier pools) and for fresh sections of large
requests (spec/StoreSect.tla) into scripts for harness/store_drv.c.

Sizes arrive in quanta of 256 bytes (store.c: MixedSizeQuantum) including the 32-byte piece header
(MxMemHeadSize); a request of n bytes occupies RoundUp(n + 32, 256) bytes, so every piece size of q
quanta has 256 request sizes; which one is used rotates with the seed (both ends of the range and
values in between).  Nothing here decides anything: the scripts are inputs, the recorded traces are
judged by TLC (TraceStore.tla).
"""
import json

Q = 256
MXHEAD = 32
FIXED_MAX = 256
PTR_CODE = 3
PTRFREE_CODE = 30
GIANT_ID = 4000      # registry slot of the giant block (the harness has 4096 slots)


def request_for(quanta, pick):
    """A request size whose piece has exactly `quanta` quanta; pick selects the position in the range."""
    hi = quanta * Q - MXHEAD
    lo = max(FIXED_MAX + 1, (quanta - 1) * Q - MXHEAD + 1)
    r = pick % 4
    if r == 0:
        return hi
    if r == 1:
        return lo
    if r == 2:
        return hi - 1 if hi - 1 >= lo else hi
    return lo + (pick * 7919) % (hi - lo + 1)


def tree_script(rec, seed, notes_every=400):
    """rec: the JSON record printed by StoreTreeGen's terminal state.  Returns the script text."""
    lines = ["G %d %d %d 0" % (GIANT_ID, PTRFREE_CODE, rec["rq"] * Q - MXHEAD), "F %d" % GIANT_ID, "N"]
    for k, op in enumerate(rec["ops"]):
        if op[0] == "A":
            bid, quanta = op[1], op[2]
            pick = seed + k * 3 + bid
            code = PTRFREE_CODE if (bid + seed) % 3 == 0 else PTR_CODE
            lines.append("A %d %d %d %d" % (bid, code, request_for(quanta, pick), 1 + (bid + seed) % 8))
        else:
            lines.append("F %d" % op[1])
        if (k + 1) % notes_every == 0:
            lines.append("N")
    lines += ["N", "C", "N", "X"]
    return "\n".join(lines) + "\n"


def records(printed):
    out = []
    for p in printed:
        if isinstance(p, str) and p.startswith("{"):
            try:
                out.append(json.loads(p))
            except ValueError:
                pass
    return out


def sect_entries(printed):
    """The windows printed by StoreSect (one JSON array per page count) as one list of dicts, by request size."""
    seen, out = set(), []
    for p in printed:
        if isinstance(p, str) and p.startswith("["):
            try:
                arr = json.loads(p)
            except ValueError:
                continue
            for e in arr:
                if isinstance(e, dict) and "n" in e and e["n"] not in seen:
                    seen.add(e["n"])
                    out.append(e)
    out.sort(key=lambda e: e["n"])
    return out


def sect_script(entries, seed, variant):
    """Every request of `entries` served from a fresh section: all blocks stay live until the end of a round
    (what the frontier keeps after a large block is smaller than the smallest request here, so the next
    large request finds neither a free piece nor a frontier that fits), each followed by a small mixed
    block that lands behind it.  Two rounds in one heap: the second one, after a collection has returned
    the emptied sections, takes its pages from the page map instead of from the operating system.
    Returns (script text, {block id: entry})."""
    import random
    rng = random.Random(seed * 31 + variant)
    base = list(entries)
    # a third request size inside each quantum range (same sub-case as its neighbours)
    extra = []
    for e in base:
        if e["n"] == e["q"] * Q - MXHEAD and e["q"] > 2:
            extra.append(dict(e, n=e["n"] - 1 - rng.randrange(Q - 2), mid=True))
    allv = sorted(base + extra, key=lambda e: e["n"])
    orders = [allv, list(reversed(allv)), rng.sample(allv, len(allv))]
    lines, idmap = [], {}
    for rnd in range(2):
        order = orders[(variant + rnd) % 3]
        ids = []
        for i, e in enumerate(order):
            bid = 1 + i
            idmap[(rnd, bid)] = e
            code = PTRFREE_CODE if (i + seed) % 2 else PTR_CODE
            lines.append("A %d %d %d %d" % (bid, code, e["n"], 1 + (i + seed + rnd) % 8))
            lines.append("A %d %d %d %d" % (1000 + bid, PTR_CODE, (257, 300, 480)[(i + seed) % 3], 9 + i % 5))
            ids += [bid, 1000 + bid]
        lines.append("N")
        rng.shuffle(ids)
        if (variant + rnd) % 2:
            ids.sort(reverse=True)
        lines += ["F %d" % b for b in ids]
        lines += ["C", "N"]
    lines.append("X")
    return "\n".join(lines) + "\n", idmap


# --------------------------------------------------------------------------- collections inside an operation

SECT2_QUANTA = 31      # quanta of a fresh two-page mixed section (StoreSect: Cap(2))


def gc_points(tlc_output):
    """The situations printed by StoreImpl's IPendGc (<<"GCPOINT", k, prev, next, far, frontier-in-section>>)."""
    import re
    out = set()
    for m in re.finditer(r'<<"GCPOINT", "(\w+)", "([\w-]+)", "([\w-]+)", (TRUE|FALSE), (TRUE|FALSE)>>', tlc_output):
        out.add((m.group(1), m.group(2), m.group(3), m.group(4) == "TRUE", m.group(5) == "TRUE"))
    return sorted(out)


def reent_script(point, seed, use_drain=True):
    """One script that puts the real allocator into the situation `point` at the moment mxmemLink asks for its
    first carrier page with no heap page free (script command D), in automatic collection mode:
      k = "free":    [K][P] M [N][K] in a fresh two-page section, M freed explicitly;
      k = "discard": [K] P and a frontier too small for the next request (the frontier is thrown away).
    prev/next say what P / N are: live (rooted), garbage (unreferenced), none, frontier.  far: another rooted
    block K in the section; fin: the frontier stays in the section.  All mixed sizes differ, so that the
    collection links no piece of the size being linked.  Returns None if the situation cannot be laid out in
    one section."""
    import random
    k, prev, nxt, far, fin = point
    rng = random.Random(seed)
    pool = [2, 3, 4, 5, 6, 7, 8]
    rng.shuffle(pool)
    qK, qP, qM, qN = pool[:4]
    seq = []                      # (block id, quanta or None = "the rest of the section", rooted)
    K, P, M, N, BIG = 1, 2, 3, 4, 5
    if k == "free":
        if nxt == "free" or prev in ("free", "half-done") or nxt == "half-done":
            return None
        k_first = far and prev != "none"
        k_last = far and prev == "none"
        if k_last and nxt in ("frontier", "none"):
            return None
        if k_first:
            seq.append((K, qK, True))
        if prev in ("live", "garbage"):
            seq.append((P, qP, prev == "live"))
        seq.append((M, qM, False))
        if nxt in ("live", "garbage"):
            seq.append((N, qN, nxt == "live"))
        if k_last:
            seq.append((K, qK, True))
        if nxt == "frontier" and not fin:
            return None
        if not fin:                # the last block takes what is left of the section: no frontier stays behind
            last = seq[-1]
            seq[-1] = (last[0], None, last[2])
    elif k == "discard":
        if nxt != "none" or prev not in ("live", "garbage"):
            return None
        if far:
            seq.append((K, qK, True))
        seq.append((P, qP, prev == "live"))
    else:
        return None
    lines, used, root = [], 0, 0
    for bid, q, rooted in seq:
        if q is None:
            q = SECT2_QUANTA - used
        used += q
        lines.append("A %d %d %d %d" % (bid, PTR_CODE, request_for(q, seed + bid), 1 + (bid + seed) % 8))
        if rooted:
            lines.append("S %d %d %d" % (root, bid, 0 if (seed + root) % 2 else 1 << 30))
            root += 1
    if used > SECT2_QUANTA or (fin and SECT2_QUANTA - used < 6):
        return None
    if use_drain:
        lines.append("D")
    if k == "free":
        lines.append("F %d" % M)
    else:
        lines.append("A %d %d %d %d" % (BIG, PTR_CODE, request_for(40, seed), 7))
    lines += ["N", "A 6 %d 300 3" % PTR_CODE, "N", "C", "N", "A 7 %d 700 4" % PTR_CODE, "F 7", "X"]
    return "\n".join(lines) + "\n"


def known_reent_scripts():
    """Histories in which a collection that starts inside stoFree / stoAlloc damages the free index on the
    unmodified tree (known findings of C10; the candidate patch makes all of them pass)."""
    req = lambda q: q * Q - MXHEAD
    out = {}
    out["free-alone-in-section"] = "A 1 3 7649 5\nD\nF 1\nN\nA 2 3 300 6\nX\n"
    out["same-size-garbage-neighbour"] = "A 1 3 300 5\nA 2 3 300 6\nD\nF 1\nN\nX\n"
    out["unmerged-neighbours-section-returned"] = ("A 1 3 600 5\nA 2 3 300 6\nD\nF 1\nN\nA 3 3 6624 7\nC\nN\n"
                                                  "A 4 3 7000 8\nA 5 3 300 9\nX\n")
    sizes = [q for q in range(3, 258) if q != 41]          # 254 sizes + 300 (twice) + the rest = 256 carriers
    need = sum(sizes) + 2 * 300 + 2 * (len(sizes) + 2) + 400
    lines = ["G %d %d %d 0" % (GIANT_ID, PTRFREE_CODE, req(need)), "F %d" % GIANT_ID]
    bid, bigs = 1, []
    for q in sizes + [300, 300]:
        lines.append("A %d 3 %d %d" % (bid, req(q), 1 + bid % 8))
        bigs.append(bid)
        lines.append("A %d 3 %d %d" % (bid + 1, req(2), 1 + bid % 8))
        bid += 2
    lines += ["F %d" % b for b in bigs]
    lines += ["N", "D", "A 3900 3 %d 5" % req(259), "N", "X"]
    out["split-remainder-at-full-carrier-page"] = "\n".join(lines) + "\n"
    return out
