"""Concretise the real-scale behaviours exported by TLC for the allocator's housekeeping structures
(spec/StoreTreeGen.tla: the free tree with its node and carrier pools) and for fresh sections of large
requests (spec/StoreSect.tla) into scripts for harness/store_drv.c.

Sizes arrive in quanta of 256 bytes (store.c: MixedSizeQuantum) including the 32-byte piece header
(MxMemHeadSize); a request of n bytes occupies RoundUp(n + 32, 256) bytes, so every piece size of q
quanta has 256 request sizes; which one is used rotates with the seed (both ends of the range and
values in between).  Nothing here decides anything: the scripts are inputs, the recorded traces are
judged by TLC (TraceStore.tla).
"""
import json

Q = 256
MXHEAD = 32
FIXED_MAX = 256
PTR_CODE = 3
PTRFREE_CODE = 30
GIANT_ID = 4000      # registry slot of the giant block (the harness has 4096 slots)


def request_for(quanta, pick):
    """A request size whose piece has exactly `quanta` quanta; pick selects the position in the range."""
    hi = quanta * Q - MXHEAD
    lo = max(FIXED_MAX + 1, (quanta - 1) * Q - MXHEAD + 1)
    r = pick % 4
    if r == 0:
        return hi
    if r == 1:
        return lo
    if r == 2:
        return hi - 1 if hi - 1 >= lo else hi
    return lo + (pick * 7919) % (hi - lo + 1)


def tree_script(rec, seed, notes_every=400):
    """rec: the JSON record printed by StoreTreeGen's terminal state.  Returns the script text."""
    lines = ["G %d %d %d 0" % (GIANT_ID, PTRFREE_CODE, rec["rq"] * Q - MXHEAD), "F %d" % GIANT_ID, "N"]
    for k, op in enumerate(rec["ops"]):
        if op[0] == "A":
            bid, quanta = op[1], op[2]
            pick = seed + k * 3 + bid
            code = PTRFREE_CODE if (bid + seed) % 3 == 0 else PTR_CODE
            lines.append("A %d %d %d %d" % (bid, code, request_for(quanta, pick), 1 + (bid + seed) % 8))
        else:
            lines.append("F %d" % op[1])
        if (k + 1) % notes_every == 0:
            lines.append("N")
    lines += ["N", "C", "N", "X"]
    return "\n".join(lines) + "\n"


def records(printed):
    out = []
    for p in printed:
        if isinstance(p, str) and p.startswith("{"):
            try:
                out.append(json.loads(p))
            except ValueError:
                pass
    return out


def sect_entries(printed):
    """The windows printed by StoreSect (one JSON array per page count) as one list of dicts, by request size."""
    seen, out = set(), []
    for p in printed:
        if isinstance(p, str) and p.startswith("["):
            try:
                arr = json.loads(p)
            except ValueError:
                continue
            for e in arr:
                if isinstance(e, dict) and "n" in e and e["n"] not in seen:
                    seen.add(e["n"])
                    out.append(e)
    out.sort(key=lambda e: e["n"])
    return out


def sect_script(entries, seed, variant):
    """Every request of `entries` served from a fresh section: all blocks stay live until the end of a round
    (what the frontier keeps after a large block is smaller than the smallest request here, so the next
    large request finds neither a free piece nor a frontier that fits), each followed by a small mixed
    block that lands behind it.  Two rounds in one heap: the second one, after a collection has returned
    the emptied sections, takes its pages from the page map instead of from the operating system.
    Returns (script text, {block id: entry})."""
    import random
    rng = random.Random(seed * 31 + variant)
    base = list(entries)
    # a third request size inside each quantum range (same sub-case as its neighbours)
    extra = []
    for e in base:
        if e["n"] == e["q"] * Q - MXHEAD and e["q"] > 2:
            extra.append(dict(e, n=e["n"] - 1 - rng.randrange(Q - 2), mid=True))
    allv = sorted(base + extra, key=lambda e: e["n"])
    orders = [allv, list(reversed(allv)), rng.sample(allv, len(allv))]
    lines, idmap = [], {}
    for rnd in range(2):
        order = orders[(variant + rnd) % 3]
        ids = []
        for i, e in enumerate(order):
            bid = 1 + i
            idmap[(rnd, bid)] = e
            code = PTRFREE_CODE if (i + seed) % 2 else PTR_CODE
            lines.append("A %d %d %d %d" % (bid, code, e["n"], 1 + (i + seed + rnd) % 8))
            lines.append("A %d %d %d %d" % (1000 + bid, PTR_CODE, (257, 300, 480)[(i + seed) % 3], 9 + i % 5))
            ids += [bid, 1000 + bid]
        lines.append("N")
        rng.shuffle(ids)
        if (variant + rnd) % 2:
            ids.sort(reverse=True)
        lines += ["F %d" % b for b in ids]
        lines += ["C", "N"]
    lines.append("X")
    return "\n".join(lines) + "\n", idmap
