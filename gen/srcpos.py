"""C15: abstract file sets for SrcPos/Include, their rendering as Aldor source text, and the
parser of the compiler's diagnostics.

Direction of information: a CASE is an abstract file set in the vocabulary of spec/Include.tla
(files = sequences of items: runs of non-directive lines with planted tokens at chosen columns,
#include, #line, #if/#else/#endif, other directives).  This module only *renders* such a case as
text (a token planted at column c is realised by padding) and *parses* what the compiler prints.
Which file/line/column each diagnostic must carry is computed by TLC (spec/TraceSrcPos.tla) from
the abstract case; nothing here computes an expected position.
"""
import os
import re

PRELUDE_LIB = '#library AxlLib "axllib"'
PRELUDE_CODE = ["import from AxlLib;", "import from SingleInteger;"]
FILLER_CODE = "import from SingleInteger;"
TABSTOP = 8

# --------------------------------------------------------------------------
# fault catalogue: statement text with the offending token marked by "@" (the place where
# "mid" padding goes, and whose column is the planted column), a marker that occurs in the
# message text.  `phase` groups faults that can be reported by the same compilation (a syntax
# error stops before the semantic phases, an includer error stops before scanning).

FAULTS = {
    "undef":   dict(stmt="fU%(i)d(x: SingleInteger): SingleInteger == x + @undefName%(i)d;", marker="`undefName%(i)d'", phase="sem"),
    "strlit":  dict(stmt="fS%(i)d(x: SingleInteger): SingleInteger == @\"planted%(i)d\";", marker="`\"planted%(i)d\"'", phase="sem"),
    "rettype": dict(stmt="fR%(i)d(xr%(i)d: SingleInteger): String == @xr%(i)d;", marker="`xr%(i)d'", phase="sem"),
    "macro":   dict(stmt="macro mac%(i)d == @undefMac%(i)d;", marker="`undefMac%(i)d'", phase="sem",
                    use="fM%(i)d(x: SingleInteger): SingleInteger == x + mac%(i)d;"),
    # short statements, so that several fit on one line below the width at which the report splits the heading
    "bare":    dict(stmt="@bareName%(i)d;", marker="`bareName%(i)d'", phase="sem"),
    # a scanner WARNING (no marker: every such message has the same text): generated before every message of
    # the semantic phases, so the order of generation differs from the order of positions
    "funny":   dict(stmt="wq%(i)d@_a: SingleInteger := %(i)d;", marker=None, phase="sem"),
    "syntax":  dict(stmt="fY%(i)d(x: SingleInteger): SingleInteger == x + @;", marker=None, phase="syn"),
    "error":   dict(stmt="@#error planted%(i)d", marker=" planted%(i)d", phase="scan", directive="unknown"),
    "endif":   dict(stmt="@#endif", marker="`#endif'", phase="incl", directive="endif"),
    "else":    dict(stmt="@#else", marker="`#else'", phase="incl", directive="else"),
}


class Skip(Exception):
    """the layout does not apply to this family"""


class Fault(object):
    def __init__(self, kind, i, col=None, pad="lead"):
        """col: 1-based column at which the offending token is planted (None = natural position);
        pad: lead | mid | tab | midtab (how the column is reached)."""
        self.kind, self.i, self.pad = kind, i, pad
        d = FAULTS[kind]
        s = d["stmt"] % {"i": i}
        self.off = s.index("@")
        self.stmt = s.replace("@", "")
        self.marker = (d["marker"] % {"i": i}) if d["marker"] else None
        self.phase = d["phase"]
        self.directive = d.get("directive")
        self.use = (d["use"] % {"i": i}) if d.get("use") else None
        self.col = col if (col is not None and not self.directive) else self.off + 1
        if self.col < self.off + 1:
            raise ValueError("column %d too small for %s" % (self.col, kind))

    def text(self):
        extra = self.col - 1 - self.off
        if extra == 0:
            return self.stmt
        if self.pad == "mid":
            return self.stmt[:self.off] + " " * extra + self.stmt[self.off:]
        if self.pad == "midtab":        # tabs inside the line, then spaces (tab stops every TABSTOP columns)
            t, p0 = self.col - 1, self.off
            ntab = t // TABSTOP - p0 // TABSTOP
            fill = "\t" * ntab + " " * (t % TABSTOP) if ntab > 0 else " " * extra
            return self.stmt[:self.off] + fill + self.stmt[self.off:]
        if self.pad == "tab":
            return "\t" * (extra // TABSTOP) + " " * (extra % TABSTOP) + self.stmt
        return " " * extra + self.stmt

    def key(self):
        return "%s@%d/%s" % (self.kind, self.col, self.pad)


class EofIf(object):
    """pseudo fault: the includer's own "end of file in #if" error (no text is planted for it)"""
    kind, phase, use, directive, pad = "eofif", "incl", None, None, "lead"

    def __init__(self, i):
        self.i, self.marker, self.col = i, "`#if'", 1

    def key(self):
        return "eofif"


# --------------------------------------------------------------------------
# abstract items (all fields present: TLC records are accessed by field)

def _item(k, n=0, toks=None, f="", on=False, id=0, **render):
    it = {"k": k, "n": n, "toks": toks or [], "f": f, "on": on, "id": id}
    it.update({"_" + a: b for a, b in render.items()})
    return it


def lines(n, fill="blank"):
    return _item("lines", n=n, fill=fill)


def fault_item(ft):
    if ft.directive:
        return _item(ft.directive, id=ft.i, text=ft.text())
    return _item("lines", n=1, toks=[{"j": 1, "c": ft.col, "id": ft.i}], texts={1: ft.text()}, fill="code")


def include(f):
    return _item("include", f=f)


def linedir(n, f=""):
    return _item("line", n=n, f=f)


def unknown(text):
    return _item("unknown", text=text)


def assert_(prop):
    return _item("assert", text="#assert " + prop)


def if_(prop, on):
    return _item("if", on=on, text="#if " + prop)


def elseif_(prop, on):
    return _item("elseif", on=on, text="#elseif " + prop)


def else_():
    return _item("else", text="#else")


def endif():
    return _item("endif", text="#endif")


def prelude():
    return [unknown(PRELUDE_LIB), _item("lines", n=2, fill="prelude")]


def gap(k, style):
    return [lines(k, style)] if k > 0 else []


# --------------------------------------------------------------------------
# rendering

def _fill_line(style, j):
    if style == "blank":
        return ""
    if style == "comment":
        return "-- inserted line %d" % j
    if style == "spaces":
        return " " * (1 + j % 7)
    if style == "mixed":
        return ("", "-- c%d" % j, "   ", "\t", "-- " + "x" * (j % 50))[j % 5]
    if style == "code":
        return FILLER_CODE
    raise ValueError(style)


def render_item(it, out):
    k = it["k"]
    if k == "lines":
        fill = it.get("_fill", "blank")
        texts = it.get("_texts", {})
        if fill == "prelude":
            out.extend(PRELUDE_CODE[:it["n"]])
            return
        if not texts and fill == "blank":
            out.extend([""] * it["n"])
            return
        for j in range(1, it["n"] + 1):
            out.append(texts[j] if j in texts else _fill_line(fill, j))
    elif k == "include":
        out.append('#include "%s"' % it["f"])
    elif k == "line":
        out.append('#line %d "%s"' % (it["n"], it["f"]) if it["f"] else "#line %d" % it["n"])
    else:
        out.append(it["_text"])


def render_case(case, d):
    """Write the files of `case` into directory d (plus empty stand-ins for names that only occur
    in #line directives, so that printing the source line does not abort the compiler)."""
    names = set()
    for name, items in case["files"].items():
        out = []
        for it in items:
            render_item(it, out)
            if it["k"] == "line" and it["f"]:
                names.add(it["f"])
        with open(os.path.join(d, name), "w") as fh:
            fh.write("\n".join(out) + ("\n" if out else ""))
    standins = case.get("standins", {})
    for n in (names | set(standins)) - set(case["files"]):
        if os.path.dirname(n):
            os.makedirs(os.path.join(d, os.path.dirname(n)), exist_ok=True)
        with open(os.path.join(d, n), "w") as fh:
            fh.write("-- stand-in for a name used by #line\n")
            for j in range(2, standins.get(n, 1) + 1):
                fh.write("-- stand-in line %d of %s\n" % (j, n))


def abstract_case(case):
    """The case as TLC sees it (render-only fields removed)."""
    files = {name: [{a: b for a, b in it.items() if not a.startswith("_")} for it in items]
             for name, items in case["files"].items()}
    return {"id": case["id"], "top": case["top"], "files": files, "eofid": case.get("eofid", 0)}


# --------------------------------------------------------------------------
# layouts: where the faults of a family are put.  Every layout returns {"files", "top", ...}.
# `k` code-free lines of style `style` are inserted at insertion point `where`.

TOP = "top.as"


def _faults_block(faults, sep=True):
    items = []
    for n, ft in enumerate(faults):
        if n and sep:
            items.append(lines(1, "code"))
        items.append(fault_item(ft))
    return items


def _uses(faults):
    """what follows the planted lines in the top file: the uses of planted macros and one line of
    ordinary code, so that a planted statement is never the last one of the compilation (the
    parser's error recovery, hence the text of a syntax error, depends on the following token)"""
    return [_item("lines", n=1, fill="code", texts={1: ft.use}) for ft in faults if ft.use] + [lines(1, "code")]


def _need(cond):
    if not cond:
        raise Skip()


def layout_same(faults, k=0, where=1, style="blank"):
    """all faults in the top file; where: 0 = very first lines of the file, 1 = after the prelude,
    2 = between the first and the second fault (only the later ones move)."""
    body = _faults_block(faults[:1]) + (gap(k, style) if where == 2 else []) + \
        ([lines(1, "code")] if len(faults) > 1 else []) + _faults_block(faults[1:])
    items = (gap(k, style) if where == 0 else []) + prelude() + (gap(k, style) if where == 1 else []) + body + _uses(faults)
    return {"files": {TOP: items}, "top": TOP}


def layout_inc(faults, k=0, where=1, style="blank", depth=1, split=False):
    """faults moved into an included file (depth 2: included by an included file).  where: 0 = the
    k lines go into the top file before the #include (must not move anything in the included
    file), 1 = into the included file before the faults, 2 = into the top file after the #include
    (moves only what follows there).  split: the last fault stays in the top file after the #include."""
    inner = faults[:-1] if (split and len(faults) > 1) else faults
    outer = faults[-1:] if (split and len(faults) > 1) else []
    files = {}
    last = "inc%d.as" % depth
    files[last] = [lines(1, "comment")] + (gap(k, style) if where == 1 else []) + _faults_block(inner) + [lines(1, "comment")]
    for dlev in range(depth - 1, 0, -1):
        files["inc%d.as" % dlev] = [lines(2, "comment"), include("inc%d.as" % (dlev + 1)), lines(1, "blank")]
    files[TOP] = prelude() + (gap(k, style) if where == 0 else []) + [include("inc1.as")] + \
        (gap(k, style) if where == 2 else []) + [lines(1, "code")] + _faults_block(outer) + _uses(faults)
    return {"files": files, "top": TOP}


def layout_line(faults, k=0, where=1, style="blank", n=5000, fname=""):
    """a #line directive renumbers the faults.  where: 0/1 = the k lines come before the #line
    (nothing after it may move), 2 = after it (everything after moves)."""
    items = prelude() + (gap(k, style) if where in (0, 1) else []) + [linedir(n, fname)] + \
        (gap(k, style) if where == 2 else []) + _faults_block(faults) + _uses(faults)
    return {"files": {TOP: items}, "top": TOP}


def layout_if(faults, k=0, where=1, style="blank", branch="then"):
    """faults inside conditional text: branch then = active #if part; else = the #else part of an
    inactive #if (the then-part holds a fault that must NOT be reported); off = all faults in an
    inactive part, one fault after #endif."""
    g = gap(k, style)
    _need(all(ft.phase != "incl" for ft in faults))
    if branch == "then":
        body = [assert_("PlantedA"), if_("PlantedA", True)] + (g if where == 2 else []) + _faults_block(faults) + [endif()]
        shown = faults
    elif branch == "else":
        _need(len(faults) >= 2)
        body = [if_("PlantedB", False)] + _faults_block(faults[:1]) + (g if where == 2 else []) + [else_()] + \
            _faults_block(faults[1:]) + [endif()]
        shown = faults[1:]
    else:
        _need(len(faults) >= 2)
        body = [if_("PlantedB", False)] + (g if where == 2 else []) + _faults_block(faults[:-1]) + [endif()] + _faults_block(faults[-1:])
        shown = faults[-1:]
    items = prelude() + (g if where in (0, 1) else []) + body + _uses(shown)
    return {"files": {TOP: items}, "top": TOP}


def layout_ifline(faults, k=0, where=2, style="blank", branch="formerly", n=500, fname="skipped.src"):
    """a #line directive inside conditional text.  Only a directive in text that is being read renumbers and renames
    what follows (include.c:inclHandleLine under INCLUDING(ifState)); branch:
      formerly = in the #elseif part after a taken #if part (state FormerlyActiveIf): ignored;
      nested   = in an #if nested in skipped text (pushed as FormerlyActiveIf): ignored;
      inactive = in the part of an #if whose property is not asserted (InactiveIf): ignored;
      active   = in the taken #if part: everything after it moves, also after #endif;
      elseon   = in an #elseif part that is taken after an inactive #if part: everything after it moves."""
    g = gap(k, style)
    _need(all(ft.phase != "incl" for ft in faults))
    ld = [linedir(n, fname), lines(1, "comment")]
    if branch == "formerly":
        _need(len(faults) >= 2)
        body = [assert_("PlantedA"), if_("PlantedA", True)] + _faults_block(faults[:1]) + [elseif_("PlantedB", False)] + ld + g + \
            [endif()] + _faults_block(faults[1:])
        shown = faults
    elif branch == "nested":
        body = [if_("PlantedB", False), assert_("PlantedA"), if_("PlantedA", False)] + ld + g + [endif(), endif()] + _faults_block(faults)
        shown = faults
    elif branch == "inactive":
        body = [if_("PlantedB", False)] + ld + g + [endif()] + _faults_block(faults)
        shown = faults
    elif branch == "active":
        body = [assert_("PlantedA"), if_("PlantedA", True)] + ld + g + _faults_block(faults[:1]) + [endif()] + _faults_block(faults[1:])
        shown = faults
    else:
        body = [assert_("PlantedA"), if_("PlantedB", False), lines(1, "comment"), elseif_("PlantedA", True)] + ld + g + \
            _faults_block(faults[:1]) + [endif()] + _faults_block(faults[1:])
        shown = faults
    items = prelude() + (g if where in (0, 1) else []) + body + _uses(shown)
    return {"files": {TOP: items}, "top": TOP}


def layout_ifinc(faults, k=0, where=2, style="blank"):
    """text skipped by an inactive #if, then an #include, then the faults: the first position made
    after the return starts a new line-table segment, so the includer's own line count (which
    must include the skipped lines) becomes visible.  where: 2 = the k lines are inserted inside
    the skipped text, 1 = before the #if."""
    _need(all(ft.phase != "incl" for ft in faults))
    g = gap(k, style)
    files = {"inc1.as": [lines(2, "comment")] + _faults_block(faults[:-1]) + [lines(1, "code")]}
    files[TOP] = prelude() + (g if where == 1 else []) + [if_("PlantedB", False), lines(2, "code")] + (g if where == 2 else []) + \
        [lines(1, "comment"), endif(), include("inc1.as")] + _faults_block(faults[-1:]) + _uses(faults)
    return {"files": files, "top": TOP}


def layout_inc_line(faults, k=0, where=1, style="blank", n=300, fname="gen.src"):
    """included file whose lines are renumbered by #line (own numbering or another name)."""
    files = {"inc1.as": [lines(1, "comment"), linedir(n, fname)] + (gap(k, style) if where == 1 else []) +
             _faults_block(faults[:-1] or faults)}
    files[TOP] = prelude() + (gap(k, style) if where == 0 else []) + [include("inc1.as")] + \
        (gap(k, style) if where == 2 else []) + [lines(1, "code")] + (_faults_block(faults[-1:]) if len(faults) > 1 else []) + _uses(faults)
    return {"files": files, "top": TOP}


def layout_collide(faults, k=0, where=1, style="blank", n=300):
    """includer and included file both carry #line directives that name the same original source
    (what a literate-programming tool emits); the last fault sits in the includer after the
    #include."""
    files = {"inc1.as": [linedir(n, "doc.src")] + _faults_block(faults[:-1])}
    files[TOP] = prelude() + [linedir(10, "doc.src")] + (gap(k, style) if where in (0, 1) else []) + [include("inc1.as")] + \
        (gap(k, style) if where == 2 else []) + [lines(1, "code")] + _faults_block(faults[-1:]) + _uses(faults)
    return {"files": files, "top": TOP}


def layout_eofif(faults, k=0, where=1, style="blank", eofid=9):
    """includer-phase family: the top file ends inside an #if right after an #include; the included
    file ends with an unbalanced directive (faults[0], kind endif/else)."""
    _need(all(ft.phase == "incl" for ft in faults))
    files = {"inc1.as": (gap(k, style) if where == 1 else []) + [lines(1, "comment")] + _faults_block(faults)}
    files[TOP] = prelude() + (gap(k, style) if where == 0 else []) + [assert_("PlantedA"), if_("PlantedA", True), include("inc1.as")]
    return {"files": files, "top": TOP, "eofid": eofid, "pseudo": [EofIf(eofid)]}


def plant_line(fts):
    """one physical line carrying several planted statements (columns increasing)"""
    out = ""
    for ft in fts:
        t = ft.stmt
        need = ft.col - 1 - ft.off
        if need < len(out) + (1 if out else 0):
            raise ValueError("column %d cannot be reached on a line that already holds %r" % (ft.col, out))
        if ft.pad == "tab" and not out:
            out = "\t" * (need // TABSTOP) + " " * (need % TABSTOP) + t
        else:
            out = out + " " * (need - len(out)) + t
    return out


def layout_gen(faults, hist=(), plan=None, top="ra.as", standins=None, tail=0, how="", n=0, k=0, where=1, style="blank"):
    """A layout enumerated by TLC (spec/ReportGen.tla): hist = the items the includer read, each with the
    file it was read from; plan = {serial line number: [indices into faults]} says which remembered
    lines carry planted statements (the other lines are ordinary code).  The top file starts with the
    prelude the generator's initial state assumes; `tail' lines of ordinary code are appended to every file
    (they move no line of the layout; with them more of the renumbered lines exist on disk)."""
    plan = {int(a): b for a, b in (plan or {}).items()}
    files = {top: prelude()}
    g = sum(it["n"] if it["k"] == "lines" else 1 for it in files[top])
    for h in hist:
        items = files.setdefault(h["file"], [])
        if h["k"] == "lines":
            toks, texts = [], {}
            for j in range(1, h["n"] + 1):
                fts = [faults[x] for x in plan.get(g + j, [])]
                if fts:
                    texts[j] = plant_line(fts)
                    toks += [{"j": j, "c": ft.col, "id": ft.i} for ft in fts]
            items.append(_item("lines", n=h["n"], toks=toks, texts=texts, fill="code"))
            g += h["n"]
        elif h["k"] == "include":
            items.append(include(h["f"]))
            g += 1
        elif h["k"] == "line":
            items.append(linedir(h["n"], h["f"]))
            g += 1
        elif h["k"] == "eof":
            if tail:
                items.append(lines(tail, "code"))
        else:
            raise ValueError("item kind %r is not rendered" % h["k"])
    return {"files": files, "top": top, "standins": dict(standins or {})}


def layout_adj(faults, k=0, where=1, style="blank", mode="inc"):
    """Two messages that are adjacent in the report and have the SAME line number n = k + 6 without being on
    the same line (the layouts of spec/ReportGen.tla at a chosen size).  mode inc: the last fault of the included
    file is on its line n, the next fault of the includer on its own line n;  line: a fault on line n, then
    `#line n "adj.src"' renumbers the next fault to line n of another name;  same: the same with `#line n'
    (two different lines that are both line n of one file);  rev: the renumbered stretch comes first, then
    an included file with a fault on its line n.  The k lines are code-free lines before the faults."""
    _need(len(faults) >= 2 and all(ft.phase == "sem" for ft in faults))
    n = k + 6
    a, b = faults[0], faults[1]
    rest = faults[2:]
    files, standins = {}, {}
    tailf = _faults_block(rest, sep=False)
    if mode == "inc":
        files["inc1.as"] = [lines(2, "comment")] + gap(k, style) + [lines(3, "code"), fault_item(a)]
        files[TOP] = prelude() + gap(k, style) + [lines(1, "code"), include("inc1.as"), fault_item(b)] + tailf + _uses(faults)
    elif mode in ("line", "same"):
        nm = "adj.src" if mode == "line" else ""
        files[TOP] = prelude() + gap(k, style) + [lines(2, "code"), fault_item(a), lines(1, "comment"), linedir(n, nm), fault_item(b)] + \
            tailf + _uses(faults)
        if nm:
            standins[nm] = n + 3
    elif mode == "rev":
        files["inc1.as"] = [lines(2, "comment")] + gap(k, style) + [lines(3, "code"), fault_item(b)]
        files[TOP] = prelude() + [linedir(n, "adj.src"), fault_item(a), include("inc1.as")] + tailf + _uses(faults)
        standins["adj.src"] = n + 3
    else:
        raise ValueError(mode)
    return {"files": files, "top": TOP, "standins": standins}


LAYOUTS = {"adj": layout_adj, "gen": layout_gen, "same": layout_same, "inc": layout_inc, "line": layout_line, "if": layout_if, "ifline": layout_ifline,
           "incline": layout_inc_line, "ifinc": layout_ifinc, "collide": layout_collide, "eofif": layout_eofif}


def build(layout, faults, **kw):
    c = LAYOUTS[layout](faults, **kw)
    c.setdefault("eofid", 0)
    c.setdefault("pseudo", [])
    return c


# --------------------------------------------------------------------------
# parsing the compiler's output

RE_LC = re.compile(r'^\[L(\d+) C(\d+)\] #(\d+) \(([A-Za-z ]+)\) ?(.*)$')
RE_FL = re.compile(r'^"([^"]*)", line (\d+): #(\d+) \(([A-Za-z ]+)\) ?(.*)$')
RE_NOPOS = re.compile(r'^#(\d+) \(([A-Za-z ]+)\) ?(.*)$')


def parse_source_mode(text):
    """default message format: serial -> (ln, col, severity, text)"""
    out = {}
    for line in text.splitlines():
        m = RE_LC.match(line)
        if m:
            out[int(m.group(3))] = (int(m.group(1)), int(m.group(2)), m.group(4), m.group(5))
            continue
        m = RE_NOPOS.match(line)
        if m:
            out[int(m.group(1))] = (-1, -1, m.group(2), m.group(3))
    return out


def parse_nosource_mode(text):
    """-M no-source format: serial -> (file, line, severity, text)"""
    out = {}
    for line in text.splitlines():
        m = RE_FL.match(line)
        if m:
            out[int(m.group(3))] = (m.group(1), int(m.group(2)), m.group(4), m.group(5))
            continue
        m = RE_NOPOS.match(line)
        if m:
            out[int(m.group(1))] = ("", -1, m.group(2), m.group(3))
    return out


RE_HEAD = re.compile(r'^"([^"]*)", line (\d+): ?(.*)$')
RE_DOTS = re.compile(r'^( *)([.^]*\^)$')


def parse_report(text):
    """The report of a style that shows the source, as printed: a list of groups
    {pre, head, file, line, echo (text or None), estart, indent, carets, leads: [(ln, col, serial, sev, text)]}.
    A group starts after an empty line (or at the start, or after a preview marker) with a heading, a caret
    line or a lead; every other line continues the text of the last lead."""
    lines = text.split("\n")
    groups, cur, boundary, pre_next, i = [], None, True, False, 0

    def new(**kw):
        g = dict(pre=pre_next, head=False, file="", line=-1, echo=None, estart=0, indent=0, carets=[], leads=[])
        g.update(kw)
        groups.append(g)
        return g
    while i < len(lines):
        ln = lines[i]
        if ln.strip() in ("(Message Preview)", "[Message Preview]"):
            pre_next, boundary, cur = True, True, None
            i += 1
            continue
        if ln == "":
            boundary, cur = True, None
            i += 1
            continue
        if boundary:
            m = RE_HEAD.match(ln)
            d = RE_DOTS.match(ln)
            if m:
                cur = new(head=True, file=m.group(1), line=int(m.group(2)))
                pre_next = False
                if m.group(3) == "":            # heading on a line of its own: the source text follows, if any
                    nxt = lines[i + 1] if i + 1 < len(lines) else ""
                    if RE_DOTS.match(nxt):
                        cur["echo"], cur["estart"] = "", len(ln)     # an empty text (or none) on the heading's line
                    else:
                        cur["echo"], cur["estart"] = nxt, 0
                        i += 1
                else:
                    cur["echo"], cur["estart"] = m.group(3), m.start(3)
                i += 1
                d = RE_DOTS.match(lines[i]) if i < len(lines) else None
                if d:
                    cur["indent"] = len(d.group(1))
                    cur["carets"] = [x + 1 for x, ch in enumerate(d.group(2)) if ch == "^"]
                    i += 1
                boundary = False
                continue
            if d:
                cur = new(indent=len(d.group(1)), carets=[x + 1 for x, ch in enumerate(d.group(2)) if ch == "^"])
                pre_next, boundary = False, False
                i += 1
                continue
        m = RE_LC.match(ln)
        n = RE_NOPOS.match(ln) if not m else None
        if m or n:
            if cur is None:
                cur = new()
                pre_next = False
            if m:
                cur["leads"].append([int(m.group(1)), int(m.group(2)), int(m.group(3)), m.group(4), m.group(5)])
            else:
                cur["leads"].append([-1, -1, int(n.group(1)), n.group(2), n.group(3)])
        elif cur is not None and cur["leads"]:
            cur["leads"][-1][4] += "\n" + ln
        boundary = False
        i += 1
    return [g for g in groups if g["leads"] or g["head"] or g["carets"]]


def headings(text):
    """(file, line) of every heading in a report (what the binding has to look up on disk)"""
    out = set()
    for ln in text.split("\n"):
        m = RE_HEAD.match(ln)
        if m:
            out.add((m.group(1), int(m.group(2))))
    return out


def untab(s):
    return s.expandtabs(TABSTOP)


def report_obs(text, serial_mk, srcs, intern):
    """Project a printed report for TLC.  serial_mk: message serial -> tag (from observations());
    srcs: (file, line) -> text of that line on disk or None; intern: text -> index >= 1."""
    pre, fin = [], []
    for g in parse_report(text):
        src = srcs.get((g["file"], g["line"])) if g["head"] else None
        # echo / src: index of the text shown / of the text that line has on disk; 0 = nothing visible (no such
        # line, or an empty one: a heading followed by an empty text and a heading alone look the same)
        o = {"head": g["head"], "file": g["file"], "line": g["line"],
             "echo": intern(g["echo"]) if g["echo"] else 0,
             "src": intern(untab(src)) if src else 0,
             "align": (not g["head"]) or g["indent"] == g["estart"],
             "carets": g["carets"],
             "leads": [{"mk": serial_mk.get(ld[2], 0), "ln": ld[0], "col": ld[1]} for ld in g["leads"]]}
        (pre if g["pre"] else fin).append(o)
    return pre, fin


def observations(src_out, nosrc_out, faults, intern):
    """Join the two runs on the message serial number and project each message:
    mk = tag of the planted fault whose marker occurs in the text (a message without any marker is
    attributed to the family's unmarked fault, if it has exactly one), tx = interned severity+text."""
    a, b = parse_source_mode(src_out), parse_nosource_mode(nosrc_out)
    unmarked = [f.i for f in faults if f.marker is None]
    nomark = []
    obs = []
    for serial in sorted(set(a) | set(b)):
        ln, col, sev1, t1 = a.get(serial, (-2, -2, "?", "<absent from default-format run>"))
        fn, line, sev2, t2 = b.get(serial, ("?", -2, "?", "<absent from no-source run>"))
        text = "%s|%s" % (sev1, t1) if (sev1, t1) == (sev2, t2) or serial not in b else "%s|%s||%s|%s" % (sev1, t1, sev2, t2)
        mk = 0
        for f in faults:
            if f.marker and f.marker in text:
                mk = f.i
                break
        else:
            if len(unmarked) == 1:
                mk = unmarked[0]
            elif len(unmarked) > 1:
                # several planted statements whose messages carry no marker (the scanner's warnings): they are
                # generated in the order in which the lines are read, which is the order of `faults'
                mk = unmarked[len(nomark)] if len(nomark) < len(unmarked) else 0
                nomark.append(serial)
        obs.append({"mk": mk, "file": fn, "line": line, "ln": ln, "col": col, "tx": intern(text), "serial": serial, "text": text})
    return obs
