"""C05 binding, class `type tables of a library as seen by a client'.

spec/SefoCodec.tla exports type-expression SHAPES (TYPE lines): applications of a constructor to one or two
arguments, each an integer / float / string literal, an identifier, a negated literal or again an application.
Here a group of shapes becomes three texts of the same program:
    library   the constructors, and for every shape T a maker `m<j>: SingleInteger -> T', a consumer
              `f<j>: T -> SingleInteger', a function over `Record(p: T, q: SingleInteger)' and a constant of type T
    client    uses all of them through `#library' / `import from'
    whole     library followed by the client's statements: the one-unit arrangement
No expected output is computed here: the property is the equality of the two arrangements (TraceUnits.tla compares the
run of library + client with the run of the whole program).
"""

INT_LITS = ["0", "2", "2147483647"]
FLT_LITS = ["0.5", "1.25e2", "3.0"]
STR_LITS = ['""', '"s"', '"s t,u"']

HEAD = '#include "axllib"\n'
IMPORTS = "import from SingleInteger, DoubleFloat, String;\n"

CONSTRUCTORS = '''define WCat: Category == with { mk: SingleInteger -> %; get: % -> SingleInteger; show: () -> () };
DI(n: SingleInteger): WCat == add { Rep ==> SingleInteger; import from Rep; mk(x: SingleInteger): % == per x; get(x: %): SingleInteger == rep(x) + n; show(): () == { print << "DI(" << n << ")" } }
DF(f: DoubleFloat): WCat == add { Rep ==> SingleInteger; import from Rep; mk(x: SingleInteger): % == per x; get(x: %): SingleInteger == rep(x) + 1; show(): () == { print << "DF(" << f << ")" } }
DS(s: String): WCat == add { Rep ==> SingleInteger; import from Rep; mk(x: SingleInteger): % == per x; get(x: %): SingleInteger == rep(x) + #s; show(): () == { print << "DS(" << s << ")" } }
D2(n: SingleInteger, s: String): WCat == add { Rep ==> SingleInteger; import from Rep; mk(x: SingleInteger): % == per x; get(x: %): SingleInteger == rep(x) + n + #s; show(): () == { print << "D2(" << n << "," << s << ")" } }
D2f(f: DoubleFloat, n: SingleInteger): WCat == add { Rep ==> SingleInteger; import from Rep; mk(x: SingleInteger): % == per x; get(x: %): SingleInteger == rep(x) + n + 2; show(): () == { print << "D2f(" << f << "," << n << ")" } }
Box(T: WCat): WCat == add { Rep ==> T; import from Rep; mk(x: SingleInteger): % == per mk(x); get(x: %): SingleInteger == get(rep x) + 1000; show(): () == { print << "Box("; show()$T; print << ")" } }
Pair(A: WCat, B: WCat): WCat == add { Rep ==> Record(a: A, b: B); import from Rep, A, B; mk(x: SingleInteger): % == per [mk(x), mk(x + 1)]; get(x: %): SingleInteger == get(rep(x).a) * 100 + get(rep(x).b); show(): () == { print << "Pair("; show()$A; print << ","; show()$B; print << ")" } }
kI: SingleInteger == 7;
'''


def kind(x):
    return x["leaf"] if "leaf" in x else "type"


def text(shape):
    """Aldor text of a shape; the constructor follows from the kinds of the arguments."""
    if "leaf" in shape:
        k, v = shape["leaf"], shape["v"]
        if k == "int":
            return INT_LITS[v]
        if k == "flt":
            return FLT_LITS[v]
        if k == "str":
            return STR_LITS[v]
        if k == "id":
            return "kI"
        if k == "neg":
            return "-2"
        raise ValueError(k)
    ks = tuple(kind(a) for a in shape["args"])
    args = ", ".join(text(a) for a in shape["args"])
    con = {("int",): "DI", ("id",): "DI", ("neg",): "DI", ("flt",): "DF", ("str",): "DS", ("int", "str"): "D2",
           ("flt", "int"): "D2f", ("type",): "Box", ("type", "type"): "Pair"}.get(ks)
    if con is None:
        raise ValueError("no constructor for %s" % (ks,))
    return "%s(%s)" % (con, args)


def leaves(shape):
    if "leaf" in shape:
        return {"int" if shape["leaf"] == "neg" else shape["leaf"]}
    out = set()
    for a in shape["args"]:
        out |= leaves(a)
    return out


def render(shapes, consts=True):
    """(library text, client text, whole text) for a group of shapes.  consts=False: the library exports no constant of
    the types (a client that reads such a constant from an ARCHIVE member crashes: open finding of C05, kept visible by one
    fixed program of checks/c05.py; the other archive splits stay clear of it so that they can show anything else)."""
    ts = [text(s) for s in shapes]
    lib = [HEAD + IMPORTS + CONSTRUCTORS]
    cli = []
    for j, t in enumerate(ts):
        lib.append("m%d(k: SingleInteger): %s == { import from %s; mk(k) }" % (j, t, t))
        lib.append("f%d(x: %s): SingleInteger == { import from %s; get(x) + %d }" % (j, t, t, j))
        lib.append("r%d(x: Record(p: %s, q: SingleInteger)): SingleInteger == { import from %s; get(x.p) + x.q }" % (j, t, t))
        cli.append("import from %s, Record(p: %s, q: SingleInteger);" % (t, t))
        if consts:
            lib.append("c%d: %s == { import from %s; mk(%d) }" % (j, t, t, 40 + j))
            cli.append('print << f%d(m%d(5)) << " " << r%d([m%d(6), 3]) << " " << get(c%d) << " "; show()$%s; print << newline;'
                       % (j, j, j, j, j, t))
        else:
            cli.append('print << f%d(m%d(5)) << " " << r%d([m%d(6), 3]) << " "; show()$%s; print << newline;' % (j, j, j, j, t))
    lib_text = "\n".join(lib) + "\n"
    body = "\n".join(cli) + "\n"
    client = HEAD + '#library PLib "%s"\nimport from PLib;\n' + IMPORTS + body
    whole = lib_text + body
    return lib_text, client, whole
