"""C05 binding: perform the derivation paths and splits that TLC exported from spec/Units.tla with the real compiler.

Nothing here decides the property.  This module
  * materialises, per (program, level), the tree of saved forms (.ao, .fm, .al) a path walks through and the final
    artefact of the path (generated C / Lisp / FOAM text, interpretation, linked executable);
  * reads the generated texts, finds the expressions foamSIntReduce leaves behind (so that spec/SIntReduceEval.tla can
    evaluate them) and computes the two normal forms the property allows (input-file-name record; wide machine
    integers) as digests;
  * writes the ndjson trace that spec/TraceUnits.tla validates against the Units machine (legality of every step,
    Commute, Resave/Archive identity, conformance of every run).
"""
import glob
import hashlib
import json
import os
import re
import shutil
import subprocess
import sys
import time

import vlib
import progcheck
import progrun

sys.path.insert(0, os.path.join(vlib.VERIF, "gen"))
import render  # noqa: E402

TEXTS = ("c", "lsp", "fm")
RUNS = ("run", "exe")
BASE = "p"


def qopt(level):
    return "-" + level          # "Q2" -> "-Q2"


def digest(data):
    """sha256 split into 4 words below 2^31 (TLC integers are 32-bit)."""
    if isinstance(data, str):
        data = data.encode("utf-8", "surrogateescape")
    h = hashlib.sha256(data).digest()
    return [int.from_bytes(h[4 * i:4 * i + 4], "big") & 0x7FFFFFFF for i in range(4)]


# --------------------------------------------------------------------------------------------------------------
# the tree of saved forms of one (program text, level)

class Tree(object):
    TIMEOUT = 60         # seconds for one compiler command

    def __init__(self, build, root, text, level, dialect_args=(), lib_args=("-laxllib",), extra_files=None):
        self.b = build
        self.root = root
        self.text = text
        self.level = level
        self.dargs = list(dialect_args)
        self.largs = list(lib_args)
        self.extra = extra_files or {}     # files every step needs next to its input (library units of a client)
        self.nodes = {}
        self.finals = {}
        self.ncmd = 0
        self.dead = None
        self.slow = []
        self.retries = 0
        os.makedirs(root, exist_ok=True)

    def _dir(self, name):
        d = os.path.join(self.root, name)
        os.makedirs(d, exist_ok=True)
        for fn, src in self.extra.items():
            shutil.copy(src, os.path.join(d, fn))
        return d

    def _aldor(self, args, d, timeout=None):
        if self.dead:        # the direct compilation at this level already failed: nothing else is attempted
            return {"rc": None, "out": "", "err": "skipped: " + self.dead, "timeout": True, "cmd": "(skipped)", "dir": d}
        self.ncmd += 1
        t0 = time.time()
        rc, out, err, to = vlib.aldor(self.b, self.dargs + [qopt(self.level)] + list(args), d, timeout=timeout or self.TIMEOUT)
        self.slow.append((round(time.time() - t0, 1), "%s %s" % (qopt(self.level), " ".join(args)), os.path.basename(d)))
        self.slow = sorted(self.slow, reverse=True)[:3]
        if to and not any(a.endswith(".as") for a in args):
            self.retries += 1
            # a reload normally takes a fraction of a second: a timeout is reported only if a patient second attempt repeats it
            rc, out, err, to = vlib.aldor(self.b, self.dargs + [qopt(self.level)] + list(args), d, timeout=4 * (timeout or self.TIMEOUT))
        return {"rc": rc, "out": out.decode(errors="replace"), "err": err.decode(errors="replace"), "timeout": to,
                "cmd": "aldor %s %s" % (qopt(self.level), " ".join(args)), "dir": d}

    def node(self, chain):
        """{"ok", "file" (the saved form), "kind", "res" (result of the failing command), "step"}"""
        chain = tuple(chain)
        if chain in self.nodes:
            return self.nodes[chain]
        if not chain:
            d = self._dir("src")
            f = os.path.join(d, BASE + ".as")
            with open(f, "w") as fh:
                fh.write(self.text)
            n = {"ok": True, "file": f, "kind": "src", "res": None}
            self.nodes[chain] = n
            return n
        prev = self.node(chain[:-1])
        to = chain[-1]
        n = {"ok": False, "file": None, "kind": to, "res": None, "step": (prev["kind"], to)}
        self.nodes[chain] = n
        if not prev["ok"]:
            n["res"] = prev["res"]
            n["step"] = prev.get("step")
            n["inherited"] = True
            return n
        d = self._dir("n_" + "_".join(chain))
        frm = prev["kind"]
        if frm == "src":
            shutil.copy(prev["file"], os.path.join(d, BASE + ".as"))
            r = self._aldor(["-F" + to, BASE + ".as"], d)
            out = os.path.join(d, BASE + "." + to)
        elif frm == "al" and to == "ao":
            shutil.copy(prev["file"], os.path.join(d, "lib%s.al" % BASE))
            r = self._tool(["ar", "x", "lib%s.al" % BASE, BASE + ".ao"], d)
            out = os.path.join(d, BASE + ".ao")
        elif frm == "ao" and to == "al":
            shutil.copy(prev["file"], os.path.join(d, BASE + ".ao"))
            r = self._tool(["ar", "cr", "lib%s.al" % BASE, BASE + ".ao"], d)
            out = os.path.join(d, "lib%s.al" % BASE)
        elif frm == "fm" and to == "fm":
            # the driver refuses an output that has the name of its input: re-save under another name
            shutil.copy(prev["file"], os.path.join(d, BASE + ".fm"))
            r = self._aldor(self.largs + ["-Ffm=r.fm", BASE + ".fm"], d)
            out = os.path.join(d, "r.fm")
        else:
            shutil.copy(prev["file"], os.path.join(d, BASE + "." + frm))
            r = self._aldor(self.largs + ["-F" + to, BASE + "." + frm], d)
            out = os.path.join(d, BASE + "." + to)
        if r["rc"] == 0 and not r["timeout"] and os.path.isfile(out):
            n["ok"] = True
            n["file"] = out
        else:
            n["res"] = r
        return n

    def _tool(self, cmd, d):
        self.ncmd += 1
        rc, out, err, to = vlib.run(cmd, cwd=d, timeout=60)
        return {"rc": rc, "out": out.decode(errors="replace"), "err": err.decode(errors="replace"), "timeout": to,
                "cmd": " ".join(cmd), "dir": d}

    def member_bytes(self, chain):
        """bytes of the saved form at the end of chain (for an archive: of its member)."""
        n = self.node(chain)
        if not n["ok"]:
            return None
        if n["kind"] == "al":
            p = subprocess.run(["ar", "p", n["file"], BASE + ".ao"], stdout=subprocess.PIPE, stderr=subprocess.PIPE)
            return p.stdout if p.returncode == 0 else None
        with open(n["file"], "rb") as fh:
            return fh.read()

    def final(self, chain, kind):
        """{"ok", "file" | "run" (rc/out/err/phase), "res", "inherited"}"""
        key = (tuple(chain), kind)
        if key in self.finals:
            return self.finals[key]
        n = self.node(chain)
        f = {"ok": False, "file": None, "res": None, "kind": kind, "inherited": False}
        self.finals[key] = f
        if not n["ok"]:
            f["res"] = n["res"]
            f["inherited"] = True
            f["step"] = n.get("step")
            return f
        frm = n["kind"]
        ext = "as" if frm == "src" else frm
        d = self._dir("f_%s_%s" % ("_".join(chain) or "src", kind))
        inp = BASE + "." + ext
        shutil.copy(n["file"], os.path.join(d, inp))
        largs = [] if frm == "src" else self.largs
        f["step"] = (frm, kind)
        if kind in TEXTS:
            r = self._aldor(largs + ["-F" + kind, inp], d)
            out = os.path.join(d, BASE + "." + kind)
            if r["rc"] == 0 and not r["timeout"] and os.path.isfile(out):
                f["ok"] = True
                f["file"] = out
            else:
                f["res"] = r
            return f
        if kind == "run":
            r = self._aldor(largs + ["-Ginterp", inp], d)
            r["phase"] = "interp"
            f["ok"] = True
            f["run"] = r
            return f
        if kind == "exe":
            r = self._aldor(largs + ["-Fc", "-Fmain", inp], d)
            if r["rc"] != 0 or r["timeout"]:
                r["phase"] = "compile"
                f["ok"] = True
                f["run"] = r
                return f
            cfiles = [BASE + ".c", BASE + "-aldormain.c"] + [x for x in self.extra if x.endswith(".c")]
            self.ncmd += 1
            rc, out, err, to = vlib.link_c(self.b, d, cfiles, BASE)
            if rc != 0 or to:
                f["ok"] = True
                f["run"] = {"rc": rc, "out": out.decode(errors="replace"), "err": err.decode(errors="replace"),
                            "timeout": to, "phase": "link", "cmd": "gcc", "dir": d}
                return f
            self.ncmd += 1
            rc, out, err, to = vlib.run(["./" + BASE], cwd=d, timeout=60)
            f["ok"] = True
            f["run"] = {"rc": rc, "out": out.decode(errors="replace"), "err": err.decode(errors="replace"),
                        "timeout": to, "phase": "run", "cmd": "./" + BASE, "dir": d}
            return f
        raise ValueError(kind)


# --------------------------------------------------------------------------------------------------------------
# reading the generated texts

HEADER = {"c": re.compile(rb'^( \* C code generated by Aldor from file )"[^"\n]*"\.$', re.M),
          "lsp": re.compile(rb'^(;;; Lisp code generated by Aldor from file )"[^"\n]*"\.$', re.M)}


def norm_name(kind, data):
    """Normalisation (a): the one line that records the input file name."""
    rx = HEADER.get(kind)
    if rx is None:
        return data
    return rx.sub(rb'\1"<input>".', data, count=1)


def sx_tokens(text):
    """Tokens of s-expression text (FOAM text, generated Lisp): ( ) ' strings |symbols| atoms ;comments."""
    toks = []
    i, n = 0, len(text)
    while i < n:
        ch = text[i]
        if ch in " \t\r\n\f":
            i += 1
        elif ch in "()'":
            toks.append(ch)
            i += 1
        elif ch == ";":
            j = text.find("\n", i)
            j = n if j < 0 else j
            toks.append(text[i:j].rstrip())
            i = j
        elif ch == '"':
            j = i + 1
            while j < n and text[j] != '"':
                j += 2 if text[j] == "\\" else 1
            toks.append(text[i:j + 1])
            i = j + 1
        else:
            j = i
            while j < n and text[j] not in " \t\r\n\f()'\";":
                if text[j] == "\\":
                    j += 2
                elif text[j] == "|":
                    j += 1
                    while j < n and text[j] != "|":
                        j += 2 if text[j] == "\\" else 1
                    j += 1
                else:
                    j += 1
            toks.append(text[i:j])
            i = j
    return toks


def nest(toks, op="(", cl=")"):
    """Nested lists from a token list; unbalanced input -> None."""
    stack = [[]]
    for t in toks:
        if t == op:
            stack.append([])
        elif t == cl:
            if len(stack) == 1:
                return None
            x = stack.pop()
            stack[-1].append(x)
        else:
            stack[-1].append(t)
    return stack[0] if len(stack) == 1 else None


def flat(tree, op="(", cl=")"):
    out = []

    def go(x):
        for y in x:
            if isinstance(y, list):
                out.append(op)
                go(y)
                out.append(cl)
            else:
                out.append(y)
    go(tree)
    return out


INT31 = re.compile(r"^[0-9]+$")


def _small(tok):
    return isinstance(tok, str) and INT31.match(tok) and int(tok) < 2**31


class FoamSyntax(object):
    """(SInt n)  (BCall SIntShiftUp e (SInt 31))  (BCall SIntOr a (SInt n))  (BCall SIntNegate e)"""
    kind = "fm"

    def lit(self, x):
        if isinstance(x, list) and len(x) == 2 and x[0] == "SInt" and _small(x[1]):
            return int(x[1])
        return None

    def call(self, x, name, argc):
        if isinstance(x, list) and len(x) == 2 + argc and x[0] == "BCall" and x[1] == name:
            return x[2:]
        return None

    def literal(self, v):
        return ["SInt", str(v)]

    def constants(self, tree):
        """every (SInt n) of the text, as integers"""
        out = []

        def go(x):
            if isinstance(x, list):
                if len(x) == 2 and x[0] == "SInt" and isinstance(x[1], str) and re.match(r"^-?[0-9]+$", x[1]):
                    out.append(int(x[1]))
                for y in x:
                    go(y)
        go(tree)
        return out


class LispSyntax(FoamSyntax):
    """(the |SInt| n)  (|SIntShiftUp| e (the |SInt| 31))  (|SIntOr| a (the |SInt| n))  (|SIntNegate| e)"""
    kind = "lsp"

    def lit(self, x):
        if isinstance(x, list) and len(x) == 3 and x[0] == "the" and x[1] == "|SInt|" and _small(x[2]):
            return int(x[2])
        return None

    def call(self, x, name, argc):
        if isinstance(x, list) and len(x) == 1 + argc and x[0] == "|%s|" % name:
            return x[1:]
        return None

    def literal(self, v):
        return ["the", "|SInt|", str(v)]


def sx_match(syn, x):
    """The expression tree (JSON form of spec/SIntReduceEval.tla) if x has exactly the shape foamSIntReduce builds."""
    def chain(y):
        v = syn.lit(y)
        if v is not None:
            return {"o": "lit", "v": v}
        a = syn.call(y, "SIntOr", 2)
        if a is None:
            return None
        low = syn.lit(a[1])
        sh = syn.call(a[0], "SIntShiftUp", 2)
        if low is None or sh is None or syn.lit(sh[1]) != 31:
            return None
        inner = chain(sh[0])
        if inner is None:
            return None
        return {"o": "or", "a": {"o": "shl", "a": inner, "k": 31}, "b": {"o": "lit", "v": low}}
    neg = syn.call(x, "SIntNegate", 1)
    if neg is not None:
        c = chain(neg[0])
        return {"o": "neg", "a": c} if c is not None and c["o"] == "or" else None
    c = chain(x)
    return c if c is not None and c["o"] == "or" else None


def sx_rewrite(syn, tree, values, found):
    """Replace every maximal foamSIntReduce-shaped subtree by the literal of its value (values: canonical JSON ->
    integer, from TLC); subtrees met are appended to found."""
    out = []
    for x in tree:
        if isinstance(x, list):
            m = sx_match(syn, x)
            if m is not None:
                k = json.dumps(m, sort_keys=True)
                found.append(m)
                if values is None:              # collecting: a maximal match is one expression
                    out.append(x)
                    continue
                if k in values:
                    out.append(syn.literal(values[k]))
                    continue
            out.append(sx_rewrite(syn, x, values, found))
        else:
            out.append(x)
    return out


# ---- generated C ----

C_TOKEN = re.compile(r'''\s+|/\*.*?\*/|"(?:\\.|[^"\\])*"|'(?:\\.|[^'\\])*'|[A-Za-z_][A-Za-z_0-9]*|[0-9][0-9A-Za-z_.]*|<<=|>>=|<<|>>|->|\+\+|--|&&|\|\||[<>=!+\-*/%&|^]=|.''', re.S)
C_LONG = re.compile(r"^([0-9]+)L$")


def c_tokens(text):
    return [m.group(0) for m in C_TOKEN.finditer(text) if not m.group(0).isspace()]


def c_small(tok):
    m = isinstance(tok, str) and C_LONG.match(tok)
    return int(m.group(1)) if m and int(m.group(1)) < 2**31 else None


def c_chain(seq):
    """seq = [X, '<<', '31L', '|', 'nL'] with X a literal or a parenthesised chain."""
    if len(seq) != 5 or seq[1] != "<<" or seq[2] != "31L" or seq[3] != "|" or c_small(seq[4]) is None:
        return None
    x = seq[0]
    if isinstance(x, list):
        inner = c_chain(x)
    else:
        v = c_small(x)
        inner = {"o": "lit", "v": v} if v is not None else None
    if inner is None:
        return None
    return {"o": "or", "a": {"o": "shl", "a": inner, "k": 31}, "b": {"o": "lit", "v": c_small(seq[4])}}


def c_rewrite(tree, values, found):
    """The C spelling of the same expressions: `(e << 31L | nL)`, `-(...)`; a chain may also stand unparenthesised
    as a whole argument / initialiser.  Replaced by the literal `vL` (or `- vL`)."""
    def lit(v):
        return ["-", "%dL" % -v] if v < 0 else ["%dL" % v]

    def value(m):
        k = json.dumps(m, sort_keys=True)
        found.append(m)
        return values.get(k) if values is not None else 0      # collecting: a maximal match is one expression

    BEFORE = (None, "=", ",", "return", "?", ":")
    AFTER = (None, ";", ",", "?", ":")
    out = []
    i = 0
    n = len(tree)
    while i < n:
        x = tree[i]
        # an unparenthesised chain that is a whole operand: X << 31L | nL between = , ; ( )
        if i + 5 <= n and (tree[i - 1] if i > 0 else None) in BEFORE and (tree[i + 5] if i + 5 < n else None) in AFTER:
            m = c_chain(tree[i:i + 5])
            if m is not None:
                v = value(m)
                if v is not None:
                    out += lit(v)
                    i += 5
                    continue
        # - ( chain )
        if x == "-" and i + 1 < n and isinstance(tree[i + 1], list):
            m = c_chain(tree[i + 1])
            if m is not None:
                v = value({"o": "neg", "a": m})
                if v is not None:
                    out += lit(v)
                    i += 2
                    continue
        if isinstance(x, list):
            m = c_chain(x)
            if m is not None:
                v = value(m)
                if v is not None:
                    out.append(lit(v))        # keeps the parentheses: ( vL ); see c_canon
                    i += 1
                    continue
            out.append(c_rewrite(x, values, found))
            i += 1
            continue
        out.append(x)
        i += 1
    return out


IDENT = re.compile(r"^[A-Za-z_][A-Za-z_0-9]*$")


def c_canon(tree):
    """Drop parentheses that enclose nothing but one integer literal (optionally signed) unless they are the argument
    list of a call; applied to both texts that are compared."""
    out = []
    for i, x in enumerate(tree):
        if isinstance(x, list):
            y = c_canon(x)
            single = (len(y) == 1 and isinstance(y[0], str) and C_LONG.match(y[0])) or \
                     (len(y) == 2 and y[0] == "-" and isinstance(y[1], str) and C_LONG.match(y[1]))
            prev = tree[i - 1] if i > 0 else None
            if single and not (isinstance(prev, str) and IDENT.match(prev)):
                out += y
            else:
                out.append(y)
        else:
            out.append(x)
    return out


class TextForm(object):
    """One generated text: bytes, name-normalised bytes, token tree."""

    def __init__(self, kind, data):
        self.kind = kind
        self.raw = data
        self.named = norm_name(kind, data)
        text = self.named.decode("latin-1")
        if kind == "c":
            self.tree = nest(c_tokens(text))
        else:
            self.tree = nest(sx_tokens(text))
        self.syn = {"fm": FoamSyntax(), "lsp": LispSyntax()}.get(kind)

    def exprs(self):
        found = []
        if self.tree is None:
            return found
        if self.kind == "c":
            c_rewrite(self.tree, None, found)
        else:
            sx_rewrite(self.syn, self.tree, None, found)
        return found

    def token_form(self, values):
        """(canonical token text after replacing the re-expressed constants, number of replacements)"""
        key = id(values), len(values)
        if getattr(self, "_tf", (None, None))[0] != key:
            self._tf = (key, self._token_form(values))
        return self._tf[1]

    def _token_form(self, values):
        if self.tree is None:
            return self.named.decode("latin-1"), 0
        found = []
        if self.kind == "c":
            t = c_canon(c_rewrite(self.tree, values, found))
        else:
            t = sx_rewrite(self.syn, self.tree, values, found)
        return "\n".join(flat(t)), len(found)

    def constants(self):
        if self.kind != "fm" or self.tree is None:
            return []
        return self.syn.constants(self.tree)


def first_diff(a, b, ctx=3):
    la, lb = a.split("\n"), b.split("\n")
    for i in range(min(len(la), len(lb))):
        if la[i] != lb[i]:
            return {"at": i, "direct": la[max(0, i - ctx):i + ctx + 1], "saved": lb[max(0, i - ctx):i + ctx + 1]}
    if len(la) != len(lb):
        i = min(len(la), len(lb))
        return {"at": i, "direct": la[i - ctx:i + ctx], "saved": lb[i - ctx:i + ctx]}
    return None


def diff_class(a, b):
    """A signature of how two token texts (one token per line) differ, used in finding keys."""
    la, lb = a.split("\n"), b.split("\n")
    if la == lb:
        return "same-tokens-different-layout"
    if len(la) != len(lb):
        # only casts `(FiXxx)` and the parentheses that wrapped the cast expression are missing from b?
        tyname = re.compile(r"^Fi[A-Za-z]+$")
        i = j = 0
        skipped_type = False
        while i < len(la):
            if j < len(lb) and la[i] == lb[j]:
                i += 1
                j += 1
            elif la[i] in ("(", ")") or tyname.match(la[i]):
                skipped_type = skipped_type or la[i] not in ("(", ")")
                i += 1
            else:
                return "token-count-differs"
        return "only-casts-missing" if j == len(lb) and skipped_type else "token-count-differs"
    num = re.compile(r"^-?([0-9]+)L?$")
    for x, y in zip(la, lb):
        if x != y:
            m = num.match(x)
            if not (m and int(m.group(1)) >= 2**62 and num.match(y)):
                return "tokens-differ"
    return "only-huge-sint-literals-differ"


# --------------------------------------------------------------------------------------------------------------
# TLC services

def tlc_reduce_eval(chk, exprs, consts, name="SIntReduceEval"):
    """exprs: list of expression trees; consts: list of integers.  Returns (values: canonical json -> int,
    reduced: int -> tree or None (not wide), bad: list of constants whose Reduce TLC found incorrect)."""
    uniq = {}
    for e in exprs:
        uniq.setdefault(json.dumps(e, sort_keys=True), e)
    cs = sorted(set(consts))
    if not uniq and not cs:
        return {}, {}, []
    d = vlib.scratch("sred")
    items = []
    ids = {}
    for k, e in uniq.items():
        ids[len(items) + 1] = ("expr", k)
        items.append({"id": len(items) + 1, "k": "expr", "t": e})
    for c in cs:
        ids[len(items) + 1] = ("const", c)
        items.append({"id": len(items) + 1, "k": "const", "neg": c < 0, "ds": [int(ch) for ch in str(abs(c))]})
    path = os.path.join(d, "items.ndjson")
    vlib.write_ndjson(path, items)
    r = vlib.tlc("SIntReduceEval", "SIntReduceEval", workers=1, env={"ITEMS": path}, timeout=600)
    chk.add_tlc(name, r)
    if r.violated:
        raise vlib.MachineryError("SIntReduceEval: unexpected %s" % r.violated)
    values, reduced, bad = {}, {}, []
    n = 0
    for line in r.printed:
        if isinstance(line, str) and line.startswith("ANS "):
            a = json.loads(line[4:])
            kind, k = ids[a["id"]]
            n += 1
            if kind == "expr":
                v = int("".join(str(x) for x in a["val"]["ds"]))
                values[k] = -v if a["val"]["neg"] else v
            else:
                if not a.get("ok"):
                    bad.append(k)
                reduced[k] = a.get("red") if a.get("wide") else None
    if n != len(items):
        raise vlib.MachineryError("SIntReduceEval answered %d of %d items" % (n, len(items)))
    return values, reduced, bad


def corpus_candidates():
    return sorted(glob.glob(os.path.join(vlib.REPO, "aldor/lib/axllib/test/*/*.as")))
