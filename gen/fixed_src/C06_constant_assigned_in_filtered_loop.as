#include "axllib"
SI ==> SingleInteger;
BI ==> Integer;
R0 ==> Record(f1: SI, f2: Boolean);
R1 ==> Record(f1: SI, f2: SI);
U0 ==> Union(t1: String, t2: SI, t3: SI, t4: Boolean);
U1 ==> Union(t1: Boolean, t2: SI);
import from SI, BI, String, Boolean, List(SI), R0, R1, U0, U1;
define CatA: Category == with { op1: () -> Boolean; op2: (Boolean) -> SI };
define CatB: Category == with { op7: (SI, Boolean) -> SI; op8: (SI) -> Boolean; op9: (Boolean, Boolean) -> SI; default { op9(q10: Boolean, q11: Boolean): SI == (-20@SI) } };
AD0: with { mk: (SI, Boolean) -> %; get1: (%) -> SI; get2: (%) -> Boolean; comb: (%, %) -> % } == add { Rep == R0; import from Rep; mk(x0: SI, x1: Boolean): % == per(([x0, x1]@R0)); get1(a: %): SI == ((rep(a)).f1); get2(a: %): Boolean == ((rep(a)).f2); comb(a: %, b: %): % == per(([(((rep(a)).f1) + ((rep(b)).f1)), ((rep(a)).f2)]@R0)) };
AD1: with { mk: (SI, SI) -> %; get1: (%) -> SI; get2: (%) -> SI; comb: (%, %) -> % } == add { Rep == R1; import from Rep; mk(x0: SI, x1: SI): % == per(([x0, x1]@R1)); get1(a: %): SI == ((rep(a)).f1); get2(a: %): SI == ((rep(a)).f2); comb(a: %, b: %): % == per(([(((rep(a)).f1) + ((rep(b)).f1)), (((rep(a)).f2) + ((rep(b)).f2))]@R1)) };
DA0: CatA == add { op1(): Boolean == odd?((- 3@SI)); op2(q3: Boolean): SI == ((6@SI mod 5@SI) \/ (#(" Za_""))) };
DA1: CatA == add { op1(): Boolean == (if (if true then false else true) then (",x0_"aZ" = "~_"__Z") else ((-5@SI) = (-4@SI))); op2(q4: Boolean): SI == ((k5 + (k6 /\ k5)) where { k5: SI == (3@SI \/ 10@SI); k6: SI == (1@SI /\ (-4@SI)) }) };
PD0(T: CatA): CatB == add { op7(q12: SI, q13: Boolean): SI == q12; op8(q14: SI): Boolean == ((not true) and (op1()$T)) };
g15: SI == ((18@SI + 12@SI) + (#("--__ ")));
g16: List(SI) := ([(c17 * (op9(true, false)$PD0(DA0))) for c17 in 3@SI..2@SI]@List(SI));
g18: R0 := ([(#("0")), (g15 <= g15)]@R0);
g19: SI := (-8@SI);
ovf20(p21: SI, p22: SI): (SI, Boolean) == { ((#(({ (true) => "x"; (false) => "~Z~__"; ",,-0+" }))), (op8(({ (true) => p22; (false) => p21; p22 }))$PD0(DA1))) }
f23(p24: SI): (SI, SI) == { ((xor(14@SI, p24) rem 10@SI), p24) }
f25(p26: SI): (SI, SI) == { print << "tup2" << newline; ((- (4@SI * g19)), ((k27 + k28) where { k27: SI == (get2((mk(8@SI, (-1@SI))$AD1))$AD1); k28: SI == (if empty?(g16) then g19 else first(g16)) })) }
print << g15 << " " << (get2((mk(10@SI, 1@SI)$AD1))$AD1) << newline;
f29(): Boolean == { free g16; free g19; v30: AD1 := (mk(2147483647@SI, 12345678901234@SI)$AD1); v31: SI := (-17@SI); v32: U0 := ([t2 == g15]@U0); if (g19 = v31) then { for i33 in g16 for i34 in (-1@SI)..(-2@SI) for i35 in g16 repeat { (v31, g19) := (g19, v31); print << "" << "=" << newline; print << (-17@SI) << " " << 11@SI << newline }; if false then return false } else { if true then { g19 := g15; (g19, v31) := f23(1073741825@SI) } else { v31 := v31 }; g16 := ([(c36 + g15) for c36 in 2@SI..5@SI]@List(SI)) }; g16 := cons(({ (false) => v31; 536870912@SI }), g16); v32 := ([t3 == (v31 /\ g19)]@U0); f25((g18.f1)); (op8(g19)$PD0(DA0)) }
print << concat(concat("aa__", "__"), "_"__") << newline;
g18 := ([(op7(g19, true)$PD0(DA1)), ("," ~= "x")]@R0);
print << g15 << "=" << newline;
ovf20(p38: AD1, p39: SI): Boolean == { free g15; v40: Boolean := (false ~= false); v41: String := " __0_"b"; v42: R1 := ([(-2@SI), g19]@R1); if (op1()$DA1) then { for i43 in g16 for i44 in g16 repeat { v40 := false; v41 := v41 }; for i45 in ([4611686018427387904@SI, 15@SI, 1073741825@SI, (-1@SI)]@List(SI)) for i46 in g16 | (op8(g15)$PD0(DA1)) repeat { g15 := 41@SI; v42 := v42 } } else { v42 := v42; if v40 then return v40 }; v41 := (v41 where { k47: SI == (get1((mk((-8@SI), true)$AD0))$AD0) }); for e48 in g16 | (not false) repeat { if v40 then return v40; for i49 in g16 for i50 in g16 repeat { p39 := 3@SI } }; v42 := ([(-12@SI), ({ (v40) => (-9223372036854775807@SI); (-12@SI) })]@R1); (v41 ~= concat("-_",%____", v41)) }
ovf20(p52: SI, p53: List(SI), p54: R1): SI == { free g19; (g19, p52) := f25(g15); g19 := (if empty?(p53) then (g18.f1) else first(p53)); (#(p53)) }
print << (get2((mk(g15, (-11@SI))$AD1))$AD1) << "=" << newline;
g18 := ([(op7(g19, true)$PD0(DA0)), (g18.f2)]@R0);
g55: AD0 := (mk((-7@SI), false)$AD0);
g56: String == concat("a", "%~Z%0+");
g18 := g18;
f57(): SI == { free g19; v58: SI := g19; v59: String := g56; v60: AD1 := (mk(12@SI, 5@SI)$AD1); (g19, v58) := ((#(v59)), (g15 quo (-7@SI))); for i61 in (-1@SI)..(-1@SI) for i62 in g16 for i63 in g16 repeat { f23(i62) }; ((g18.f1) where { k64: Boolean == (not true); k65: Boolean == ovf20(v60, v58) }) }
f66(p67: Boolean == true): Boolean == { v68: SI := (if p67 then g19 else g19); v69: List(SI) := ([(-2@SI), g15, g19]@List(SI)); v69 := ([(c70 * (#(v69))) for c70 in v69 | (op8(g15)$PD0(DA1))]@List(SI)); for i71 in g16 for i72 in g16 for i73 in g16 repeat { v68 := (if empty?(g16) then (-19@SI) else first(g16)); for i74 in (-1@SI)..0@SI for i75 in 1@SI..4@SI repeat { v69 := g16 } }; ovf20((mk((-13@SI), 4294967296@SI)$AD1), (#(g56))) }
print << g56 << newline;
g55 := g55;
print << g15 << " " << g19 << " " << g56 << " " << newline;
