"""C07: run the compiler built from the working tree over many source texts and turn every run into a
trace for spec/TraceTotal.tla (Reset, the H3 hook events, Observed) -- the same event vocabulary as
gen/driver_trace.py (C18), whose Run / validate machinery is reused.

Nothing here decides the property.  The harness only observes (exit status, death by signal, time-out,
error lines, fault texts, presence of the requested output) and copies the certificates that TLC derived
for the text (SrcText / Mutants / Directives) into the Observed event; TLC judges every run.
"""
import json
import os
import re
import shutil
import subprocess
import sys
import tempfile

sys.path.insert(0, os.path.join(os.path.dirname(os.path.dirname(os.path.abspath(__file__))), "lib"))
import vlib            # noqa: E402
import driver_trace as dt   # noqa: E402

# an error line of comsg.c: "[L1 C6] #1 (Error) ..." or "#1 (Fatal Error) ..." at the start of a line (source text
# echoed in a message follows the `"file", line n: ' prefix or is indented, so it cannot fake one)
ERR_LINE = re.compile(rb"^(?:\[L\d+ C\d+\] )?#\d+ \((?:Fatal )?Error\)", re.M)
FAULTS = [("program-fault", re.compile(rb"^(?:\[L\d+ C\d+\] )?#\d+ \((?:Fatal )?Error\) Program fault", re.M)),
          ("unexpected-signal", re.compile(rb"^(?:\[L\d+ C\d+\] )?#\d+ \((?:Fatal )?Error\) Unexpected signal", re.M)),
          ("bug", re.compile(rb"^Bug: |^Compiler bug\.\.\.", re.M)),
          ("assert", re.compile(rb"Assertion failed, file ")),
          ("sanitizer", re.compile(rb"ERROR: AddressSanitizer|runtime error: |ERROR: LeakSanitizer"))]
TIMEOUT_RC = 124


def fast_scratch(prefix):
    """tmpfs when there is one (tens of thousands of tiny files); removed with the other scratch directories"""
    if os.path.isdir("/dev/shm") and os.access("/dev/shm", os.W_OK) and "VERIF_TMP" not in os.environ:
        d = tempfile.mkdtemp(prefix="aldor-verif-%s-" % prefix, dir="/dev/shm")
        vlib._scratch_dirs.append(d)
        return d
    return vlib.scratch(prefix)


def private_compiler(build, d):
    """The cache keeps few entries and other builders mutate in parallel: run a private copy of the executable."""
    exe = os.path.join(d, "aldor-under-test")
    if not os.path.exists(exe):
        shutil.copy2(build["aldor"], exe)
    return exe


class Input(object):
    """One source text and what TLC said about it."""
    __slots__ = ("cls", "name", "data", "cert", "asread", "args", "files", "label", "kinds")

    def __init__(self, cls, name, data, cert=(), asread=None, args=(), files=None, label=None, kinds=("ao",)):
        self.cls = cls                # input class: "enum", "mutant", "stress", "dirs", "random", ...
        self.name = name              # identifies the text within its class (json-able)
        self.data = data              # bytes
        self.cert = list(cert)        # certificates of invalidity (TLC)
        self.asread = list(cert) if asread is None else list(asread)
        self.args = list(args)        # extra command-line options (valid ones; only the text varies)
        self.files = files or {}      # {relative name: bytes} further files the text refers to
        self.label = label or {}
        self.kinds = list(kinds)


def fault_of(rc, out):
    for name, rx in FAULTS:
        if rx.search(out):
            return name
    return ""


def run_inputs(build, inputs, jobs=None, timeout=20, hooks=True, env_extra=None, vlimit_kb=4000000, tag="c07"):
    """Compile every input in its own compiler process (jobs shell loops in parallel).  Returns dt.Run objects
    (events = Reset .. Observed) in the order of `inputs`."""
    jobs = jobs or vlib.NCPU
    d = fast_scratch(tag)
    exe = private_compiler(build, d)
    n = len(inputs)
    for i, inp in enumerate(inputs):
        sub = os.path.join(d, "w%d" % i) if inp.files else d
        if inp.files:
            os.mkdir(sub)
            for fn, data in inp.files.items():
                with open(os.path.join(sub, fn), "wb") as fh:
                    fh.write(data)
        with open(os.path.join(sub, "r%d.as" % i), "wb") as fh:
            fh.write(inp.data)
    procs = []
    for j in range(jobs):
        idx = list(range(j, n, jobs))
        if not idx:
            continue
        sp = os.path.join(d, "job%d.sh" % j)
        with open(sp, "w") as fh:
            fh.write("cd '%s'\n" % d)
            if vlimit_kb:
                fh.write("ulimit -v %d\n" % vlimit_kb)
            fh.write("ulimit -c 0\n")
            for i in idx:
                inp = inputs[i]
                args = [exe] + vlib.ALDOR_BASE_ARGS + ["-F" + k for k in inp.kinds] + inp.args + ["r%d.as" % i]
                cmd = " ".join("'%s'" % a for a in args)
                pre = "cd w%d && " % i if inp.files else ""
                envs = ("ALDOR_VERIF_TRACE='%s/r%d.nd' " % (d, i)) if hooks else ""
                fh.write("(%s%stimeout -k 2 %d %s > '%s/r%d.out' 2>&1 < /dev/null); echo %d $? >> job%d.rc\n"
                         % (pre, envs, timeout, cmd, d, i, i, j))
        e = dict(os.environ)
        e.pop("ALDOR_VERIF_TRACE", None)
        if env_extra:
            e.update(env_extra)
        procs.append(subprocess.Popen(["sh", sp], stdout=subprocess.DEVNULL, stderr=subprocess.DEVNULL, env=e))
    for p in procs:
        p.wait()
    rcs = {}
    for j in range(jobs):
        p = os.path.join(d, "job%d.rc" % j)
        if os.path.exists(p):
            for line in open(p):
                a, b = line.split()
                rcs[int(a)] = int(b)
    runs = []
    for i, inp in enumerate(inputs):
        if i not in rcs:
            raise vlib.MachineryError("compiler run %d (%s %s) left no status" % (i, inp.cls, inp.name))
        r = dt.Run()
        r.rc = rcs[i]
        sub = os.path.join(d, "w%d" % i) if inp.files else d
        try:
            out = open(os.path.join(d, "r%d.out" % i), "rb").read()
        except OSError:
            out = b""
        r.stdout = out
        r.timeout = r.rc == TIMEOUT_RC or r.rc == 137
        if r.rc > 128 and not r.timeout:
            r.signal = r.rc - 128
        r.errl = len(ERR_LINE.findall(out))
        fault = fault_of(r.rc, out)
        if r.signal and not fault:
            fault = "signal"
        raw = []
        ndp = os.path.join(d, "r%d.nd" % i)
        if hooks and os.path.exists(ndp):
            for line in open(ndp, errors="replace"):
                line = line.strip()
                if line:
                    try:
                        raw.append(json.loads(line))
                    except ValueError:
                        if r.signal or r.timeout:
                            break       # the process died while writing the line
                        raise vlib.MachineryError("unparsable hook event: %r" % line)
            os.unlink(ndp)
        evs = [{"ev": "Reset", "nfiles": 1, "requested": [k for k in dt.KINDS if k in inp.kinds], "post": [],
                "hooks": bool(hooks)}]
        for e in raw:
            nme = e.get("ev")
            if nme not in dt.MODEL_EVENTS or (nme in ("OutOpen", "OutClose", "Cleanup") and e.get("kind") not in dt.KINDS):
                r.dropped.append(e)
                continue
            evs.append(e)
        obs = []
        for k in inp.kinds:
            full = os.path.join(sub, dt.default_out_path(k, "r%d" % i, "r%d" % i))
            st = "complete" if os.path.isfile(full) and not os.path.islink(full) else "absent"
            obs.append({"file": 1, "kind": k, "st": st, "size": os.path.getsize(full) if st == "complete" else -1})
            if st == "complete":
                os.unlink(full)
        r.obs = obs
        evs.append({"ev": "Observed", "exit": r.rc, "signal": r.signal, "timeout": r.timeout, "errl": r.errl, "obs": obs,
                    "failed": [], "fault": fault, "cert": inp.cert})
        r.events = evs
        r.label = {"fault": fault}
        r.inp = inp
        r.cmd = [build["aldor"]] + vlib.ALDOR_BASE_ARGS + ["-F" + k for k in inp.kinds] + inp.args + ["<text>.as"]
        runs.append(r)
    shutil.rmtree(d, ignore_errors=True)
    return runs


def validate(runs, chunk=400, parallel=8, timeout=600):
    """TLC (spec/TraceTotal.tla) judges every run; returns (verdicts, stats) like driver_trace.validate."""
    return dt.validate(runs, chunk=chunk, parallel=parallel, timeout=timeout, module="TraceTotal", cfg="TraceTotal")


def backtrace(build, inp, timeout=60):
    """Top frames of the crash site under gdb (for the key of a finding); [] when gdb shows nothing."""
    d = vlib.scratch("c07bt")
    for fn, data in inp.files.items():
        with open(os.path.join(d, fn), "wb") as fh:
            fh.write(data)
    with open(os.path.join(d, "t.as"), "wb") as fh:
        fh.write(inp.data)
    cmd = ["gdb", "-q", "-batch", "-ex", "handle SIGSEGV stop nopass", "-ex", "handle SIGABRT stop nopass",
           "-ex", "handle SIGFPE stop nopass", "-ex", "handle SIGBUS stop nopass", "-ex", "handle SIGILL stop nopass",
           "-ex", "run", "-ex", "bt 12", "--args", build["aldor"]] + vlib.ALDOR_BASE_ARGS + \
          ["-F" + k for k in inp.kinds] + inp.args + ["t.as"]
    try:
        p = subprocess.run(cmd, cwd=d, stdout=subprocess.PIPE, stderr=subprocess.STDOUT, timeout=timeout,
                           stdin=subprocess.DEVNULL)
        out = p.stdout.decode(errors="replace")
    except subprocess.TimeoutExpired as e:
        out = (e.stdout or b"").decode(errors="replace")
    shutil.rmtree(d, ignore_errors=True)
    frames = []
    for m in re.finditer(r"^#\d+\s+(?:0x[0-9a-f]+ in )?([A-Za-z_][A-Za-z0-9_]*) \(", out, re.M):
        f = m.group(1)
        if f in ("raise", "abort", "__pthread_kill_implementation", "__pthread_kill_internal", "__GI_raise", "__GI_abort",
                 "pthread_kill", "__assert_fail", "_do_assert", "bug", "bugBadCase", "__GI___pthread_kill"):
            continue
        frames.append(f)
    return frames[:4]
