"""C07: run the compiler built from the working tree over many source texts and turn every run into a
trace for spec/TraceTotal.tla (Reset, the H3 hook events, Observed) -- the same event vocabulary as
gen/driver_trace.py (C18), whose Run / validate machinery is reused.

Nothing here decides the property.  The harness only observes (exit status, death by signal, time-out,
error lines, fault texts, presence of the requested output) and copies the certificates that TLC derived
for the text (SrcText / Mutants / Directives) into the Observed event; TLC judges every run.
"""
import json
import os
import re
import shutil
import subprocess
import sys
import tempfile

sys.path.insert(0, os.path.join(os.path.dirname(os.path.dirname(os.path.abspath(__file__))), "lib"))
import vlib            # noqa: E402
import driver_trace as dt   # noqa: E402

# Source text echoed in a message stands on lines of the form `"file", line n: <text>'; they are removed before the
# output is searched, so that the text of the input cannot fake an error line or a fault report.
ECHO_LINE = re.compile(rb'^"[^"\n]*", line \d+: .*$', re.M)
ERR_LINE = re.compile(rb"#\d+ \((?:Fatal )?Error\) ")
FAULTS = [("sanitizer", re.compile(rb"ERROR: AddressSanitizer|: runtime error: |ERROR: LeakSanitizer")),
          ("bug", re.compile(rb"Bug: |Compiler bug\.\.\.")),
          ("assert", re.compile(rb"Assertion failed, file ")),
          ("program-fault", re.compile(rb"#\d+ \((?:Fatal )?Error\) Program fault")),
          ("unexpected-signal", re.compile(rb"#\d+ \((?:Fatal )?Error\) Unexpected signal")),
          ("out-of-memory", re.compile(rb"#\d+ \((?:Fatal )?Error\) Storage allocation error"))]
TIMEOUT_RC = 124


def fast_scratch(prefix):
    """tmpfs when there is one (tens of thousands of tiny files); removed with the other scratch directories"""
    if os.path.isdir("/dev/shm") and os.access("/dev/shm", os.W_OK) and "VERIF_TMP" not in os.environ:
        d = tempfile.mkdtemp(prefix="aldor-verif-%s-" % prefix, dir="/dev/shm")
        vlib._scratch_dirs.append(d)
        return d
    return vlib.scratch(prefix)


def private_compiler(build, d):
    """The cache keeps few entries and other builders mutate in parallel: run a private copy of the executable."""
    exe = os.path.join(d, "aldor-under-test")
    if not os.path.exists(exe):
        shutil.copy2(build["aldor"], exe)
    return exe


class Input(object):
    """One source text and what TLC said about it."""
    __slots__ = ("cls", "name", "data", "cert", "asread", "feat", "args", "files", "label", "kinds", "timeout")

    def __init__(self, cls, name, data, cert=(), asread=None, feat=(), args=(), files=None, label=None, kinds=("ao",),
                 timeout=None):
        self.cls = cls                # input class: "enum", "mutant", "stress", "dirs", "random", ...
        self.name = name              # identifies the text within its class (json-able)
        self.data = data              # bytes
        self.cert = list(cert)        # certificates of invalidity (TLC)
        self.asread = list(cert) if asread is None else list(asread)
        self.feat = list(feat)        # implementation-shaped features of the text (TLC), used in finding keys only
        self.timeout = timeout        # the time bound of this input in seconds (None: the default of the batch)
        self.args = list(args)        # extra command-line options (valid ones; only the text varies)
        self.files = files or {}      # {relative name: bytes} further files the text refers to
        self.label = label or {}
        self.kinds = list(kinds)


def fault_of(rc, out):
    for name, rx in FAULTS:
        if rx.search(out):
            return name
    return ""


def run_inputs(build, inputs, jobs=None, timeout=20, hooks=True, env_extra=None, vlimit_kb=4000000, tag="c07", stack_kb=None):
    """Compile every input in its own compiler process (jobs shell loops in parallel).  Returns dt.Run objects
    (events = Reset .. Observed) in the order of `inputs`."""
    jobs = jobs or vlib.NCPU
    d = fast_scratch(tag)
    exe = private_compiler(build, d)
    n = len(inputs)
    for i, inp in enumerate(inputs):
        sub = os.path.join(d, "w%d" % i) if inp.files else d
        if inp.files:
            os.mkdir(sub)
            for fn, data in inp.files.items():
                with open(os.path.join(sub, fn), "wb") as fh:
                    fh.write(data)
        with open(os.path.join(sub, "r%d.as" % i), "wb") as fh:
            fh.write(inp.data)
    procs = []
    for j in range(jobs):
        idx = list(range(j, n, jobs))
        if not idx:
            continue
        sp = os.path.join(d, "job%d.sh" % j)
        with open(sp, "w") as fh:
            fh.write("cd '%s'\n" % d)
            if vlimit_kb:
                fh.write("ulimit -v %d\n" % vlimit_kb)
            if stack_kb:
                fh.write("ulimit -s %d\n" % stack_kb)
            fh.write("ulimit -c 0\n")
            for i in idx:
                inp = inputs[i]
                args = [exe] + vlib.ALDOR_BASE_ARGS + ["-F" + k for k in inp.kinds] + inp.args + ["r%d.as" % i]
                cmd = " ".join("'%s'" % a for a in args)
                pre = "cd w%d && " % i if inp.files else ""
                envs = ("ALDOR_VERIF_TRACE='%s/r%d.nd' " % (d, i)) if hooks else ""
                line = "%s%stimeout -k 2 %s %s > '%s/r%d.out' 2>&1 < /dev/null" % (pre, envs, inp.timeout or timeout, cmd, d, i)
                fh.write("%s; echo %d $? >> job%d.rc\n" % (("(%s)" % line) if pre else line, i, j))
        e = dict(os.environ)
        e.pop("ALDOR_VERIF_TRACE", None)
        if env_extra:
            e.update(env_extra)
        procs.append(subprocess.Popen(["sh", sp], stdout=subprocess.DEVNULL, stderr=subprocess.DEVNULL, env=e))
    for p in procs:
        p.wait()
    rcs = {}
    for j in range(jobs):
        p = os.path.join(d, "job%d.rc" % j)
        if os.path.exists(p):
            for line in open(p):
                a, b = line.split()
                rcs[int(a)] = int(b)
    runs = []
    for i, inp in enumerate(inputs):
        if i not in rcs:
            raise vlib.MachineryError("compiler run %d (%s %s) left no status" % (i, inp.cls, inp.name))
        r = dt.Run()
        r.rc = rcs[i]
        sub = os.path.join(d, "w%d" % i) if inp.files else d
        try:
            out = open(os.path.join(d, "r%d.out" % i), "rb").read()
        except OSError:
            out = b""
        r.stdout = out
        r.timeout = r.rc == TIMEOUT_RC or r.rc == 137
        plain = ECHO_LINE.sub(b"", out)
        r.errl = len(ERR_LINE.findall(plain))
        fault = fault_of(r.rc, plain)
        raw = []
        ndp = os.path.join(d, "r%d.nd" % i)
        if hooks and os.path.exists(ndp):
            lines = [x.strip() for x in open(ndp, errors="replace") if x.strip()]
            for li, line in enumerate(lines):
                try:
                    raw.append(json.loads(line))
                except ValueError:
                    if li == len(lines) - 1 and (r.timeout or r.rc > 128):
                        break           # the process died while writing its last line
                    raise vlib.MachineryError("unparsable hook event: %r" % line)
            os.unlink(ndp)
        # The shell reports death by signal n as status 128+n, and the compiler's own exit status is its error count, which
        # may be as large: a status in 129..159 is a signal only if the process did not announce its exit (hook event Exit)
        # -- without hooks, only if it printed no error at all.
        announced = any(e.get("ev") == "Exit" for e in raw)
        if 128 < r.rc < 160 and not r.timeout and not announced and (hooks or r.errl == 0):
            r.signal = r.rc - 128
            fault = fault or "signal"
        evs = [{"ev": "Reset", "nfiles": 1, "requested": [k for k in dt.KINDS if k in inp.kinds], "post": [],
                "hooks": bool(hooks)}]
        for e in raw:
            nme = e.get("ev")
            if nme not in dt.MODEL_EVENTS or (nme in ("OutOpen", "OutClose", "Cleanup") and e.get("kind") not in dt.KINDS):
                r.dropped.append(e)
                continue
            evs.append(e)
        obs = []
        for k in inp.kinds:
            full = os.path.join(sub, dt.default_out_path(k, "r%d" % i, "r%d" % i))
            st = "complete" if os.path.isfile(full) and not os.path.islink(full) else "absent"
            obs.append({"file": 1, "kind": k, "st": st, "size": os.path.getsize(full) if st == "complete" else -1})
            if st == "complete":
                os.unlink(full)
        r.obs = obs
        evs.append({"ev": "Observed", "exit": r.rc, "signal": r.signal, "timeout": r.timeout, "errl": r.errl, "obs": obs,
                    "failed": [], "fault": fault, "cert": inp.cert})
        r.events = evs
        r.label = {"fault": fault}
        r.inp = inp
        r.cmd = [build["aldor"]] + vlib.ALDOR_BASE_ARGS + ["-F" + k for k in inp.kinds] + inp.args + ["<text>.as"]
        runs.append(r)
    shutil.rmtree(d, ignore_errors=True)
    return runs


def validate_chunk(runs, workdir, tag, stats, timeout=600):
    """One TLC process (spec/TraceTotal.tla, -continue) judges `runs`; returns a dt.Verdict per run.
    STUCK i   no action of the module matches event i (fault, hang, signal, not a behaviour of Driver)
    JUDGED i  the invariants of Driver / InvalidDiagnosed that fail in the state reached by the Observed event i
    a violated invariant of the configuration (any other state) is read off TLC's error block as in driver_trace."""
    path = os.path.join(workdir, "trace-%s.ndjson" % tag)
    evs, starts = [], []
    for r in runs:
        starts.append(len(evs) + 1)
        evs.extend(r.events)
    evs.append({"ev": "End"})
    vlib.write_ndjson(path, evs)
    env = {"TRACE": path, "JAVA_TOOL_OPTIONS": "-XX:TieredStopAtLevel=1 -XX:ParallelGCThreads=2"} if len(evs) < 3000 else {"TRACE": path}
    for attempt in (0, 1):
        res = vlib.tlc("TraceTotal", "TraceTotal", workers=1, env=env, timeout=timeout * (1 + 3 * attempt),
                       xss="64m", xmx="2g", extra=("-continue",))
        if re.search(r'<<"END", %d>>' % len(evs), res.out):
            break
    os.unlink(path)
    with dt._lock:
        stats["tlc_runs"] += 1
        stats["states"] += res.distinct
        stats["generated"] += res.states
        stats["wall"] += res.wall
    out = res.out
    if not re.search(r'<<"END", %d>>' % len(evs), out):
        raise vlib.MachineryError("TLC did not reach the end of the trace file (%s):\n%s" % (tag, vlib._first_error(out)))
    verdicts = [dt.Verdict(True) for _ in runs]
    import bisect

    def which(idx):
        return bisect.bisect_right(starts, idx) - 1
    for m in re.finditer(r'<<"STUCK", (\d+)>>', out):
        idx = int(m.group(1))
        j = which(idx)
        if verdicts[j].ok:
            verdicts[j] = dt.Verdict(False, "stuck", "NotABehaviour", idx - starts[j], evs[idx - 1], evs[idx - 2] if idx >= 2 else None,
                                     "no action of TraceTotal matches event %d of the run: %s\nafter: %s" %
                                     (idx - starts[j], json.dumps(evs[idx - 1]), json.dumps(evs[idx - 2] if idx >= 2 else None)))
    for m in re.finditer(r'<<"JUDGED", (\d+), \{([^}]*)\}>>', out):
        idx = int(m.group(1))
        names = sorted(x.strip().strip('"') for x in m.group(2).split(","))
        j = which(idx)
        if verdicts[j].ok:
            verdicts[j] = dt.Verdict(False, "invariant", "+".join(names), idx - starts[j], evs[idx - 1], evs[idx - 2],
                                     "%s violated in the state reached by the Observed event of the run: %s" %
                                     (", ".join(names), json.dumps(evs[idx - 1])))
    blocks = re.split(r"Error: Invariant (\S+) is violated\.", out)
    for bi in range(1, len(blocks), 2):
        name, body = blocks[bi], blocks[bi + 1]
        ls = re.findall(r"^/\\ l = (\d+)", body, re.M)
        if not ls:
            raise vlib.MachineryError("TLC reported %s without a trace:\n%s" % (name, body[:2000]))
        idx = int(ls[-1]) - 1
        j = which(idx)
        if verdicts[j].ok:
            verdicts[j] = dt.Verdict(False, "invariant", name, idx - starts[j], evs[idx - 1], evs[idx - 2] if idx >= 2 else None,
                                     "Invariant %s is violated in the state reached by event %d of the run: %s" %
                                     (name, idx - starts[j], json.dumps(evs[idx - 1])))
    other = [e for e in re.findall(r"^Error: (.*)$", out, re.M)
             if not e.startswith("Invariant ") and not e.startswith("The behavior up to this point")]
    if other:
        raise vlib.MachineryError("TLC trace validation failed (%s): %s" % (tag, vlib._first_error(out)))
    return verdicts


def validate(runs, chunk=1500, parallel=8, timeout=600):
    """TLC (spec/TraceTotal.tla) judges every run; returns (verdicts, stats)."""
    from concurrent.futures import ThreadPoolExecutor
    workdir = vlib.scratch("trv7")
    stats = {"tlc_runs": 0, "states": 0, "generated": 0, "wall": 0.0}
    chunks = [runs[i:i + chunk] for i in range(0, len(runs), chunk)]
    with ThreadPoolExecutor(max_workers=parallel) as ex:
        futs = [ex.submit(validate_chunk, c, workdir, str(i), stats, timeout) for i, c in enumerate(chunks)]
        res = [f.result() for f in futs]
    shutil.rmtree(workdir, ignore_errors=True)
    return [v for vs in res for v in vs], stats


SKIP_FRAMES = ("raise", "abort", "__pthread_kill_implementation", "__pthread_kill_internal", "__GI_raise", "__GI_abort",
               "pthread_kill", "__assert_fail", "_do_assert", "bug", "bugBadCase", "__GI___pthread_kill", "osExit", "exit")


def crash_site(build, inp, timeout=60, hang_after=None, stack_kb=None):
    """Where the compiler faults on this input: "file.c:function" of the innermost frame of the compiler's own code
    under gdb (signals stopped before the compiler's handler sees them).  With hang_after=s the process is
    interrupted after s seconds and the outermost frame below the driver (axlcomp.c), i.e. the entry point of
    the phase that loops, is taken.  "" when gdb shows nothing.  Used only for the key of a finding."""
    d = vlib.scratch("c07bt")
    for fn, data in inp.files.items():
        with open(os.path.join(d, fn), "wb") as fh:
            fh.write(data)
    with open(os.path.join(d, "t.as"), "wb") as fh:
        fh.write(inp.data)
    cmd = ["gdb", "-q", "-batch"]
    for sig in ("SIGSEGV", "SIGABRT", "SIGFPE", "SIGBUS", "SIGILL"):
        cmd += ["-ex", "handle %s stop nopass" % sig]
    cmd += ["-ex", "run", "-ex", "bt 40", "--args", build["aldor"]] + vlib.ALDOR_BASE_ARGS + \
           ["-F" + k for k in inp.kinds] + inp.args + ["t.as"]
    if hang_after:
        cmd = ["timeout", "-s", "INT", str(hang_after)] + cmd
    if stack_kb:        # the stack bound of the class, so that an unbounded recursion ends as soon as it did in the run
        cmd = ["sh", "-c", "ulimit -s %d; exec \"$@\"" % stack_kb, "sh"] + cmd
    try:
        p = subprocess.run(cmd, cwd=d, stdout=subprocess.PIPE, stderr=subprocess.STDOUT, timeout=timeout,
                           stdin=subprocess.DEVNULL)
        out = p.stdout.decode(errors="replace")
    except subprocess.TimeoutExpired as e:
        out = (e.stdout or b"").decode(errors="replace")
    shutil.rmtree(d, ignore_errors=True)
    frames = []
    for m in re.finditer(r"^#\d+\s+(?:0x[0-9a-f]+ in )?([A-Za-z_][A-Za-z0-9_]*) \(.*?\)(?: at ([A-Za-z0-9_./-]+):\d+)?\s*$", out, re.M):
        f, src = m.group(1), os.path.basename(m.group(2) or "")
        if f in SKIP_FRAMES or not src.endswith(".c"):
            continue
        frames.append("%s:%s" % (src, f))
    if hang_after:
        # a sample of a loop: the innermost frame varies from sample to sample, the entry point of the phase does not
        inner = [f for f in frames if f.split(":")[0] not in ("axlcomp.c", "main.c")]
        return inner[-1] if inner else ""
    if len(frames) >= 30:
        # 40 frames deep and one function many times among them: the stack is exhausted by a recursion; where exactly it
        # ends is chance, the function that recurs is not
        import collections
        cnt = collections.Counter(frames)
        top = sorted(cnt.items(), key=lambda kv: (-kv[1], kv[0]))[0]
        if top[1] >= 6:
            return "recursion:" + top[0]
    return frames[0] if frames else ""


def error_site(build, inp, timeout=60):
    """Who reports the first error of this run: "file.c:function" of the caller of comsgError/comsgFatal under gdb.
    Used only for the key of a finding (an error that is counted but not printed)."""
    d = vlib.scratch("c07es")
    for fn, data in inp.files.items():
        with open(os.path.join(d, fn), "wb") as fh:
            fh.write(data)
    with open(os.path.join(d, "t.as"), "wb") as fh:
        fh.write(inp.data)
    cmd = ["gdb", "-q", "-batch", "-ex", "break comsgVError", "-ex", "break comsgVFatal", "-ex", "run", "-ex", "bt 6",
           "--args", build["aldor"]] + vlib.ALDOR_BASE_ARGS + ["-F" + k for k in inp.kinds] + inp.args + ["t.as"]
    try:
        p = subprocess.run(cmd, cwd=d, stdout=subprocess.PIPE, stderr=subprocess.STDOUT, timeout=timeout, stdin=subprocess.DEVNULL)
        out = p.stdout.decode(errors="replace")
    except subprocess.TimeoutExpired as e:
        out = (e.stdout or b"").decode(errors="replace")
    shutil.rmtree(d, ignore_errors=True)
    for m in re.finditer(r"^#\d+\s+(?:0x[0-9a-f]+ in )?([A-Za-z_][A-Za-z0-9_]*) \(.*?\)(?: at ([A-Za-z0-9_./-]+):\d+)?\s*$", out, re.M):
        f, src = m.group(1), os.path.basename(m.group(2) or "")
        if src == "comsg.c" or not src.endswith(".c"):
            continue
        return "%s:%s" % (src, f)
    return ""
