#include "aldor"
#include "aldorio"
import from Machine;
import {
  BIntLength: BInt -> SInt;
  BIntMod: (BInt, BInt) -> BInt;
  ByteToSInt: XByte -> SInt;
  SIntToByte: SInt -> XByte;
  SIntPlusMod: (SInt, SInt, SInt) -> SInt;
  SIntTimesMod: (SInt, SInt, SInt) -> SInt;
} from Builtin;
import from MachineInteger, Integer;
s(x: SInt): MachineInteger == x pretend MachineInteger;
z(x: BInt): Integer == x pretend Integer;
S(x: MachineInteger): SInt == x pretend SInt;
Z(x: Integer): BInt == x pretend BInt;
stdout << "length(-1) = " << s BIntLength(Z(-1)) << "  length(-2^63) = " << s BIntLength(Z(-9223372036854775808)) << newline;
stdout << "ByteToSInt(SIntToByte 255) = " << s ByteToSInt(SIntToByte(S 255)) << "  128 -> " << s ByteToSInt(SIntToByte(S 128)) << newline;
stdout << "(2147483646 + 2) mod 2147483647 = " << s SIntPlusMod(S 2147483646, S 2, S 2147483647) << newline;
stdout << "(65549 * 65549) mod 65551 = " << s SIntTimesMod(S 65549, S 65549, S 65551) << newline;
stdout << "BIntMod(-7, 4) = " << z BIntMod(Z(-7), Z 4) << newline;
stdout << "BIntMod(7, -4) = " << z BIntMod(Z 7, Z(-4)) << newline;
