"""Planted-fault mutants of abstract programs (C06).  This module only PROPOSES mutants; whether a mutant is ill-typed
is decided by TLC with spec/AldorTypes.tla (some mutants stay well typed: they are the control group)."""
import copy
import random

from progen import lit


def _paths(x, path=()):
    if isinstance(x, dict):
        yield path, x
        for k, v in x.items():
            if k in ("t", "rt", "et", "pts", "ty"):
                continue
            for r in _paths(v, path + (k,)):
                yield r
    elif isinstance(x, list):
        for i, v in enumerate(x):
            for r in _paths(v, path + (i,)):
                yield r


def _get(x, path):
    for p in path:
        x = x[p]
    return x


def _set(x, path, v):
    for p in path[:-1]:
        x = x[p]
    x[path[-1]] = v


WRONG = {"si": [lit("bi", 3), {"e": "str", "s": "zz"}], "bi": [lit("si", 3), {"e": "str", "s": "zz"}],
         "str": [lit("si", 3)], "bool": [lit("si", 1), {"e": "str", "s": "t"}]}
SAME = {"si": lit("si", 41), "bi": lit("bi", 41), "str": {"e": "str", "s": "same"}, "bool": {"e": "bool", "b": True}}

PRIM_ARGT = {"si": "si", "bi": "bi", "bool": "bool"}


def sites(prog):
    """Yield (catalogue_entry, description, mutate_fn)."""
    for path, node in list(_paths(prog)):
        e = node.get("e") if isinstance(node, dict) else None
        if e == "prim":
            at = node["op"].split(".")[0]
            if node["op"] in ("si.tobi",):
                at = "si"
            for i in range(len(node["args"])):
                if node["op"] == "bi.pow" and i == 1:
                    at_i = "si"
                else:
                    at_i = at
                for w in WRONG[at_i]:
                    def f(p, path=path, i=i, w=w):
                        _get(p, path)["args"][i] = copy.deepcopy(w)
                    yield ("wrong-argument-type", "operand %d of %s" % (i + 1, node["op"]), f)
                def g(p, path=path, i=i, at_i=at_i):
                    _get(p, path)["args"][i] = copy.deepcopy(SAME[at_i])
                yield ("control-same-type", "operand %d of %s" % (i + 1, node["op"]), g)
        if e == "call":
            fn = prog["funs"][node["fi"] - 1]
            for i, t in enumerate(fn["pts"]):
                if isinstance(t, str) and t in WRONG:
                    for w in WRONG[t]:
                        def f(p, path=path, i=i, w=w):
                            _get(p, path)["args"][i] = copy.deepcopy(w)
                        yield ("wrong-argument-type", "argument %d of %s" % (i + 1, fn["name"]), f)
            # (axllib's Order exports x < y also with the result (Boolean, %) -- for chains a <= b < c -- and a value of
            # several components spreads over parameters: f(x < y) may be a well-typed call of f(Boolean, T).  The typing
            # rules do not model that export, so no verdict is asked where a comparison would end the shortened list.)
            def _cmp(a):
                return isinstance(a, dict) and a.get("e") == "prim" and a["op"].split(".")[1] in ("lt", "le", "gt", "ge")
            if node["args"] and not any(_cmp(a) for a in node["args"][:-1]):
                def f(p, path=path):
                    _get(p, path)["args"].pop()
                yield ("wrong-argument-count", "one argument less for %s" % fn["name"], f)
            def f(p, path=path):
                _get(p, path)["args"].append(lit("si", 7))
            yield ("wrong-argument-count", "one argument more for %s" % fn["name"], f)
        if e == "call" and node.get("kw"):
            def f(p, path=path):
                _get(p, path)["kw"][0]["p"] = "noSuchParameterZq9"
            yield ("unknown-keyword", "keyword argument of %s renamed" % prog["funs"][node["fi"] - 1]["name"], f)
            def f(p, path=path):
                n = _get(p, path)
                n["kw"].append(copy.deepcopy(n["kw"][0]))
            yield ("duplicate-keyword", "keyword argument of %s given twice" % prog["funs"][node["fi"] - 1]["name"], f)
        if e == "masg":
            if len(node["xs"]) > 2 or node["v"].get("e") == "call":
                def f(p, path=path):
                    _get(p, path)["xs"].pop()
                yield ("wrong-multiple-assignment-arity", "one variable less on the left of %s" % ", ".join(node["xs"]), f)
            def f(p, path=path):
                _get(p, path)["v"] = lit("si", 3)
            yield ("wrong-multiple-assignment-arity", "single value assigned to (%s)" % ", ".join(node["xs"]), f)
        if e == "tuple" and len(node["args"]) > 2:
            def f(p, path=path):
                _get(p, path)["args"].pop()
            yield ("wrong-tuple-arity", "one component less", f)
        if e == "collect":
            et = node["t"][1]
            if isinstance(et, str) and et in WRONG:
                def f(p, path=path, w=WRONG[et][0]):
                    _get(p, path)["body"] = copy.deepcopy(w)
                yield ("wrong-collect-element-type", "element of a collect form", f)
            if node["cond"].get("e") != "none":
                def f(p, path=path):
                    _get(p, path)["cond"] = lit("si", 1)
                yield ("non-boolean-condition", "filter of a collect form", f)
        if e in ("for", "forin", "pfor") and node.get("filt") and node["filt"].get("e") != "none":
            def f(p, path=path):
                _get(p, path)["filt"] = lit("si", 1)
            yield ("non-boolean-condition", "filter of a loop", f)
        if e == "assert":
            def f(p, path=path):
                _get(p, path)["c"] = lit("si", 1)
            yield ("non-boolean-condition", "condition of an assertion", f)
        if e == "acall":
            ops = prog["adts"][node["adt"]]["ops"]
            o = [q for q in ops if q["name"] == node["op"]][0]
            for i, t in enumerate(o["pts"]):
                if isinstance(t, str) and t in WRONG:
                    def f(p, path=path, i=i, w=WRONG[t][0]):
                        _get(p, path)["args"][i] = copy.deepcopy(w)
                    yield ("wrong-argument-type", "argument %d of %s$AD%d" % (i + 1, node["op"], node["adt"]), f)
            def f(p, path=path):
                _get(p, path)["op"] = "noSuchExportZq9"
            yield ("missing-export", "operation %s$AD%d replaced by a name the domain does not export" % (node["op"], node["adt"]), f)
        if e in ("per", "rep"):
            def f(p, path=path, other={"per": "rep", "rep": "per"}[e]):
                _get(p, path)["e"] = other
            yield ("per-rep-confusion", "%s written for %s" % ({"per": "rep", "rep": "per"}[e], e), f)
        if e == "throw" and node.get("args"):
            def f(p, path=path):
                _get(p, path)["args"] = []
            yield ("wrong-exception-value", "value of %s left out" % node["exn"], f)
        if e == "var":
            def f(p, path=path):
                _get(p, path)["x"] = "undefinedZq9"
            yield ("undefined-name", "reference to %s" % node["x"], f)
        if e == "asg":
            consts = [(d_["x"], d_["t"]) for d_ in prog["top"] if d_.get("d") == "var" and d_.get("const") and d_["t"] in SAME]
            for cx, ct in consts[:2]:
                def f(p, path=path, cx=cx, ct=ct):
                    n = _get(p, path)
                    n["x"] = cx
                    n["v"] = copy.deepcopy(SAME[ct])
                yield ("assignment-to-constant", "assignment turned into %s := <value of its type>" % cx, f)
        if e == "ret" and path and path[0] == "funs":
            rt = prog["funs"][path[1]]["rt"]
            if isinstance(rt, str) and rt in WRONG:
                def f(p, path=path, w=WRONG[rt][0]):
                    _get(p, path)["v"] = copy.deepcopy(w)
                yield ("wrong-return-type", "value of a return statement in %s" % prog["funs"][path[1]]["name"], f)
        if e == "dcall" and node["dom"].get("d") == "base" and not node.get("unqual"):
            di = node["dom"]["i"]
            dm = prog["doms"][di - 1]
            if not dm["pcat"]:
                same_cat = [k + 1 for k, o in enumerate(prog["doms"]) if not o["pcat"] and o["cat"] == dm["cat"] and k + 1 != di]
                def f(p, path=path, di=di):
                    _get(p, path)["unqual"] = True
                    p["dimports"] = [di]
                yield ("control-unqualified-export", "%s$%s used unqualified with the domain imported" % (node["op"], dm["name"]), f)
                if same_cat:
                    def f(p, path=path, di=di, other=same_cat[0]):
                        _get(p, path)["unqual"] = True
                        p["dimports"] = [di, other]
                    yield ("ambiguous-export", "%s used unqualified with two domains of its category imported" % node["op"], f)
        if e == "asg" and prog["funs"]:
            def f(p, path=path):
                n = _get(p, path)
                n["x"] = p["funs"][0].get("oname", p["funs"][0]["name"])
                n["v"] = lit("si", 3)
            yield ("assignment-to-constant", "assignment turned into %s := 3" % prog["funs"][0]["name"], f)
    for di, dm in enumerate(prog.get("doms", [])):
        for k, o in enumerate(dm["ops"]):
            def f(p, di=di, k=k):
                del p["doms"][di]["ops"][k]
            yield ("missing-export", "domain %s without its definition of %s" % (dm["name"], o["name"]), f)
    for path, node in list(_paths(prog)):
        if isinstance(node, dict) and node.get("e") == "dcall" and node["dom"].get("d") == "param" and len(prog.get("cats", [])) > 1:
            other = [o for o in prog["cats"][1]["ops"]]
            if other:
                def f(p, path=path, name=other[0]["name"]):
                    _get(p, path)["op"] = name
                yield ("operation-not-in-parameter-category", "%s$T replaced by %s$T" % (node["op"], other[0]["name"]), f)
    for fi, fn in enumerate(prog["funs"]):
        rt = fn["rt"]
        if isinstance(rt, str) and rt in WRONG:
            for w in WRONG[rt]:
                def f(p, fi=fi, w=w):
                    b = p["funs"][fi]
                    # descend through the lets to the body; replace its value
                    holder, key = b, "body"
                    while holder[key].get("e") == "let":
                        holder, key = holder[key], "body"
                    body = holder[key]
                    if body.get("e") == "seq" and body["es"]:
                        body["es"][-1] = copy.deepcopy(w)
                    else:
                        holder[key] = copy.deepcopy(w)
                yield ("wrong-return-type", "result of %s" % fn["name"], f)


def _changed_in_exit_value(a, b, inside=False):
    """Is the part of b that differs from a inside the value of an exit `c => v`?"""
    if a == b:
        return False
    if isinstance(a, dict) and isinstance(b, dict) and a.get("e") == b.get("e") and set(a) == set(b):
        diff = [k for k in a if a[k] != b[k]]
        return any(_changed_in_exit_value(a[k], b[k], inside or (a.get("e") == "exit" and k == "v")) for k in diff)
    if isinstance(a, list) and isinstance(b, list) and len(a) == len(b):
        return any(_changed_in_exit_value(x, y, inside) for x, y in zip(a, b) if x != y)
    return inside


def mutants(prog, seed, cap=None):
    all_sites = list(sites(prog))
    rnd = random.Random(seed)
    if cap is not None and len(all_sites) > cap:
        # keep every catalogue entry represented
        by = {}
        for s in all_sites:
            by.setdefault(s[0], []).append(s)
        chosen = []
        while len(chosen) < cap and any(by.values()):
            for k in sorted(by):
                if by[k] and len(chosen) < cap:
                    chosen.append(by[k].pop(rnd.randrange(len(by[k]))))
        all_sites = chosen
    out = []
    for n, (cat, desc, fn) in enumerate(all_sites):
        m = copy.deepcopy(prog)
        try:
            fn(m)
        except Exception:
            continue
        m["id"] = "%s~m%d" % (prog["id"], n)
        m["mutation"] = {"catalogue": cat, "site": desc, "base": prog["id"], "in_exit_value": _changed_in_exit_value(prog, m)}
        out.append(m)
    return out
