"""Operator nests (C03, C16): every pair (parent operator, child operator, operand side) of the machine-integer, comparison and
Boolean operators of the abstract language, as the body of a function whose arguments are loop variables (so that nothing is
folded and, once the library operations are inlined at -Q2+, the nest reaches the C / Java printer as one expression).
The expected values come from AldorSem.tla like those of every other abstract program."""
import random
from progen import lit, prim, var, SI, BOOL, UNIT

SI_OPS = ["add", "sub", "mul", "quo", "rem", "mod", "and", "or", "xor"]
CMP_OPS = ["lt", "le", "gt", "ge", "eq", "ne"]


def _si(op, a, b):
    return prim("si." + op, a, b)


def all_nests():
    """(result type, expression over a, b, c) for every nest: once over three variables, once with literal second operands (the
    inliner keeps a nest of builtin operations as one expression when the other operands are constants)."""
    out = _nests(var("a"), var("b"), var("c"), "")
    out += _nests(var("a"), lit(SI, 6), lit(SI, 3), "k")
    return out


def _nests(a, b, c, tag):
    out = []
    for p in SI_OPS:
        for ch in SI_OPS:
            out.append((SI, "%s(%s(a,b),c)" % (p, ch), _si(p, _si(ch, a, b), c)))
            if p not in ("quo", "rem", "mod"):          # the child would be a divisor: may be zero
                out.append((SI, "%s(c,%s(a,b))" % (p, ch), _si(p, c, _si(ch, a, b))))
        out.append((SI, "%s(neg(a),b)" % p, _si(p, prim("si.neg", a), b)))
        out.append((SI, "neg(%s(a,b))" % p, prim("si.neg", _si(p, a, b))))
    for p in CMP_OPS:
        for ch in SI_OPS:
            out.append((BOOL, "%s(%s(a,b),c)" % (p, ch), _si(p, _si(ch, a, b), c)))
            out.append((BOOL, "%s(c,%s(a,b))" % (p, ch), _si(p, c, _si(ch, a, b))))
    # predicates of one machine integer (odd?, even?, zero?) over an operand of either sign and over every operator
    for u in ("odd", "even", "zero"):
        out.append((BOOL, "%s(a)" % u, prim("si." + u, a)))
        out.append((BOOL, "%s(neg(a))" % u, prim("si." + u, prim("si.neg", a))))
        for ch in SI_OPS:
            out.append((BOOL, "%s(%s(a,b))" % (u, ch), prim("si." + u, _si(ch, a, b))))
    for p in ("eq", "ne", "and", "or"):
        for c1 in CMP_OPS:
            x, y = _si(c1, a, b), _si(CMP_OPS[(CMP_OPS.index(c1) + 2) % 6], b, c)
            if p in ("and", "or"):
                out.append((BOOL, "%s(%s(a,b),cmp(b,c))" % (p, c1), {"e": p, "a": x, "b": y}))
            else:
                out.append((BOOL, "bool.%s(%s(a,b),cmp(b,c))" % (p, c1), prim("bool." + p, x, y)))
            out.append((BOOL, "not(%s(a,b))" % c1, prim("bool.not", x)))
    return [(t, n + tag, e) for (t, n, e) in out]


def programs(seed, nprog, per_prog=24):
    rnd = random.Random(seed)
    nests = all_nests()
    rnd.shuffle(nests)
    progs = []
    for k in range(nprog):
        part = nests[k * per_prog:(k + 1) * per_prog]
        if not part:
            break
        funs, top = [], []
        for j, (t, name, ex) in enumerate(part):
            body = ex if t == SI else {"e": "if", "c": ex, "a": lit(SI, 7), "b": lit(SI, 4), "t": SI}
            funs.append({"name": "n%d" % j, "oname": "n%d" % j, "ps": ["a", "b", "c"], "pts": [SI, SI, SI], "rt": SI, "pure": True,
                         "body": {"e": "seq", "t": SI, "es": [body]}})
        # operands: functions of the loop variable (nothing to fold)
        off = rnd.choice([3, 5, 6])
        stmts = []
        for j in range(len(funs)):
            # a < 0 < b, c: divisors and moduli (b, c) are positive, the dividend has both signs over the calls
            call = {"e": "call", "fi": j + 1, "args": [prim("si.sub", prim("si.mul", var("i"), lit(SI, 5)), lit(SI, 11)),
                                                       prim("si.add", var("i"), lit(SI, off)), prim("si.add", var("i"), lit(SI, 1))]}
            stmts.append({"e": "print", "args": [call, {"e": "str", "s": " " if (j + 1) % 16 else "\n"}]})
        stmts.append({"e": "print", "args": [{"e": "str", "s": "\n"}]})
        top.append({"d": "stmt", "x": {"e": "for", "x": "i", "lo": lit(SI, 1), "hi": lit(SI, 3),
                                       "body": {"e": "seq", "t": UNIT, "es": stmts}}})
        progs.append({"id": "nest%d_%d" % (seed, k), "funs": funs, "top": top, "recs": [], "uns": [], "feat": ["opnest"], "seed": seed,
                      "nests": [n for (_, n, _) in part]})
    return progs
