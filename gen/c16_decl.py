"""C16: the declarator family -- programs whose functions take parameters of every KIND the C printer distinguishes
(gen -> abstract JSON; spec/CDeclEval.tla defines what each item prints; render() writes the axllib Aldor text).

Kinds reached (genc.c:gc0Param / gc0Decl -> ccode.c:ccoPrParam):
  value of a narrow machine type   SFlo (float: K&R promotion to double), DFlo, Char, HInt, XByte, Bool   (Machine types)
  raw machine array (FOAM Arr)     `T *P0_a': the compiler-generated PackedArrayGet / PackedArraySet of a USER-DEFINED domain
                                   stored in PrimitiveArray / Array (called, not inlined, below -Q3), and a user function `(Arr, SInt)'
  pointer / record                 PackedRecordGet / PackedRecordSet (FiPtr), a user function `(Ptr, SInt)'
  closure-valued parameter         app / appd: the call goes through a cast that carries the parameter types
  multiple-value return            `T* R<i>' slots after the parameters (two, twof, three)
  C-callable wrappers              `export ... to Foreign C' (heads without the environment parameter)
All floating values are multiples of 1/4 below 2^20 (exact in single precision); the abstract program carries them as
integers in quarters.
"""
import random
import re

# Aldor-level signatures of the functions of the fixed prelude, as kinds (shape, C type), the environment parameter
# e1 not included.  Element types of raw arrays are left to the compiler ("arr", None).
SIGNATURES = {
    "fmix": [("val", "FiSFlo"), ("val", "FiSInt"), ("val", "FiDFlo"), ("val", "FiChar")],
    "dmix": [("val", "FiDFlo"), ("val", "FiChar"), ("val", "FiSFlo")],
    "narrow": [("val", "FiHInt"), ("val", "FiByte"), ("val", "FiBool"), ("val", "FiSInt")],
    "two": [("val", "FiWord"), ("val", "FiWord"), ("ret", "FiWord"), ("ret", "FiWord")],
    "twof": [("val", "FiSFlo"), ("val", "FiDFlo"), ("ret", "FiDFlo"), ("ret", "FiSFlo")],
    "three": [("val", "FiWord"), ("val", "FiSFlo"), ("val", "FiChar"), ("ret", "FiChar"), ("ret", "FiWord"), ("ret", "FiSFlo")],
    "app": [("val", "FiWord"), ("val", "FiSFlo")],
    "appd": [("val", "FiWord"), ("val", "FiDFlo")],
    "asum": [("arr", "elt"), ("val", "FiSInt")],
    "ptrlen": [("val", "FiPtr"), ("val", "FiSInt")],
    "PackedArrayNew": [("val", "FiSInt")],
    "PackedArrayGet": [("arr", "elt"), ("val", "FiSInt")],
    "PackedArraySet": [("arr", "elt"), ("val", "FiSInt"), ("val", "FiWord")],
    "PackedRecordGet": [("val", "FiPtr")],
    "PackedRecordSet": [("val", "FiPtr"), ("val", "FiWord")],
}

PRELUDE = r'''#include "axllib"
SI ==> SingleInteger;
SF ==> SingleFloat;
DF ==> DoubleFloat;
import from Machine;
import from SI, SF, DF, Character;

Pt: BasicType with {
	pt: (SI, SI) -> %;
	px: % -> SI;
	py: % -> SI;
} == add {
	Rep == Record(x: SI, y: SI);
	import from Rep;
	pt(a: SI, b: SI): % == per [a, b];
	px(p: %): SI == rep(p).x;
	py(p: %): SI == rep(p).y;
	(a: %) = (b: %): Boolean == px a = px b and py a = py b;
	(p: TextWriter) << (a: %): TextWriter == p << "(" << px a << "," << py a << ")";
	sample: % == pt(0, 0);
	hash(a: %): SI == px a;
}
Cell: BasicType with {
	cell: SI -> %;
	val: % -> SI;
} == add {
	Rep == SI;
	cell(a: SI): % == per a;
	val(p: %): SI == rep p;
	(a: %) = (b: %): Boolean == val a = val b;
	(p: TextWriter) << (a: %): TextWriter == p << "<" << val a << ">";
	sample: % == cell 0;
	hash(a: %): SI == val a;
}
import from Pt, Cell;

q4(x: SFlo): SI == { import from Integer; integer((x::SF) * 4.0) :: SI }
q4(x: DFlo): SI == { import from Integer; integer((x::DF) * 4.0) :: SI }
sf(n: SI): SFlo == ((n::SF) / 4.0)::SFlo;
df(n: SI): DFlo == ((n::DF) / 4.0)::DFlo;

fmix(x: SFlo, k: SInt, y: DFlo, c: Char): SFlo == {
	if (c = (char "a")::Char)::Boolean then (x * convert(k)@SFlo) + convert(y)@SFlo else x;
}
dmix(x: DFlo, c: Char, z: SFlo): DFlo == x + x + convert(z)@DFlo;
narrow(h: HInt, b: XByte, t: Bool, n: SInt): SInt == {
	if t::Boolean then convert(h)@SInt + convert(b)@SInt + n else convert(h)@SInt - convert(b)@SInt;
}
two(a: SI, b: SI): (SI, SI) == (a + b, a * b);
twof(a: SFlo, b: DFlo): (DFlo, SFlo) == (b + b, a + a);
three(a: SI, x: SFlo, c: Char): (Char, SI, SFlo) == (c, a + 1, x + x);
app(f: SFlo -> SFlo, x: SFlo): SFlo == f(f x);
appd(f: (DFlo, SFlo) -> DFlo, x: DFlo): DFlo == f(x, convert(x)@SFlo);
asum(a: Arr, n: SInt): SInt == get(SInt)(a, 0) + get(SInt)(a, n - 1);
ptrlen(p: Ptr, n: SInt): SInt == if nil?(p)::Boolean then n else n + 1;
'''

# C-callable wrappers (no environment parameter).  Narrow parameter types (SFlo, Char, HInt, XByte) are kept out of the
# family: gc0GloIdDecl declares every exported function `extern T f();' and the standard-C definition with a promotable
# parameter type conflicts with that (recorded finding, kept visible by FOREIGN_NARROW in checks/c16.py).
FOREIGN = r'''export { c16fsum: (DFlo, DFlo, SI) -> DFlo; c16ptrid: (Ptr, SI) -> Ptr } to Foreign C;
c16fsum(a: DFlo, b: DFlo, c: SI): DFlo == a + b;
c16ptrid(p: Ptr, n: SI): Ptr == p;
'''
FOREIGN_NARROW = r'''#include "axllib"
import from Machine;
export { c16narrow: (SFlo, DFlo) -> DFlo } to Foreign C;
c16narrow(a: SFlo, b: DFlo): DFlo == convert(a)@DFlo + b;
print << "done" << newline;
'''


def generate(seed, n):
    """n abstract programs; each holds every item kind at least once, in a random order, with random parameters."""
    progs = []
    for k in range(n):
        r = random.Random(seed * 7919 + k)
        items = []

        def perm(m, cnt):
            return [r.randint(1, m) for _ in range(cnt)]
        for rep in range(2 if k % 2 == 0 else 1):
            items.append({"k": "fmix", "x4": r.randint(1, 400), "kk": r.randint(1, 12), "y4": r.randint(0, 400), "c": r.randint(0, 1)})
            items.append({"k": "dmix", "x4": r.randint(1, 4000), "z4": r.randint(0, 400)})
            items.append({"k": "narrow", "h": r.randint(0, 30000), "b": r.randint(0, 200), "t": r.randint(0, 1), "n": r.randint(0, 100000)})
            items.append({"k": "two", "a": r.randint(-50, 50), "b": r.randint(-50, 50)})
            items.append({"k": "twof", "a4": r.randint(0, 500), "b4": r.randint(0, 500)})
            items.append({"k": "three", "a": r.randint(-9, 99), "x4": r.randint(0, 300), "ch": r.choice("bcdwxyz")})
            items.append({"k": "app", "x4": r.randint(0, 300)})
            items.append({"k": "appd", "x4": r.randint(0, 3000)})
            m = r.randint(2, 6)
            items.append({"k": "asum", "vals": [r.randint(-1000, 1000) for _ in range(m)]})
            items.append({"k": "ptr", "n": r.randint(0, 50)})
            m = r.randint(2, 7)
            items.append({"k": "parr", "n": m, "a": r.randint(-3, 5), "b": r.randint(-4, 9),
                          "upd": [[r.randint(1, m), r.randint(-20, 20), r.randint(0, 99)] for _ in range(r.randint(0, 2))], "rd": perm(m, r.randint(2, 6))})
            m = r.randint(2, 6)
            items.append({"k": "arr", "n": m, "a": r.randint(0, 30), "b": r.randint(1, 5), "rd": perm(m, r.randint(1, 5))})
            m = r.randint(2, 5)
            items.append({"k": "cells", "n": m, "m": r.randint(1, 500), "rd": perm(m, r.randint(2, 5))})
        r.shuffle(items)
        progs.append({"ev": "prog", "id": "decl%d_%d" % (seed, k), "items": items, "foreign": k % 2 == 1})
    return progs


def _si(n):
    return "(%d)" % n if n < 0 else "%d" % n


def render(prog):
    out = [PRELUDE]
    if prog.get("foreign"):
        out.append(FOREIGN)
    for j, it in enumerate(prog["items"]):
        k = it["k"]
        v = "v%d" % j
        if k == "fmix":
            out.append('print << q4 fmix(sf %d, %d::SInt, df %d, (char "%s")::Char) << newline;' % (it["x4"], it["kk"], it["y4"], "a" if it["c"] else "b"))
        elif k == "dmix":
            out.append('print << q4 dmix(df %d, (char "k")::Char, sf %d) << newline;' % (it["x4"], it["z4"]))
        elif k == "narrow":
            out.append('print << narrow(convert(%d::SInt)@HInt, convert(%d::SInt)@XByte, %s::Bool, %d::SInt)::SI << newline;'
                       % (it["h"], it["b"], "true" if it["t"] else "false", it["n"]))
        elif k == "two":
            out.append("(%sa, %sb) := two(%s, %s);" % (v, v, _si(it["a"]), _si(it["b"])))
            out.append('print << %sa << " " << %sb << newline;' % (v, v))
        elif k == "twof":
            out.append("(%sa, %sb) := twof(sf %d, df %d);" % (v, v, it["a4"], it["b4"]))
            out.append('print << q4 %sa << " " << q4 %sb << newline;' % (v, v))
        elif k == "three":
            out.append('(%sa, %sb, %sc) := three(%s, sf %d, (char "%s")::Char);' % (v, v, v, _si(it["a"]), it["x4"], it["ch"]))
            out.append('print << %sa::Character << " " << %sb << " " << q4 %sc << newline;' % (v, v, v))
        elif k == "app":
            out.append("print << q4 app((t: SFlo): SFlo +-> t + t, sf %d) << newline;" % it["x4"])
        elif k == "appd":
            out.append("print << q4 appd((t: DFlo, s: SFlo): DFlo +-> t + convert(s)@DFlo, df %d) << newline;" % it["x4"])
        elif k == "asum":
            n = len(it["vals"])
            out.append("%s: Arr := array(SInt)(0::SInt, %d::SInt);" % (v, n))
            for i, x in enumerate(it["vals"]):
                out.append("set!(SInt)(%s, %d::SInt, %s::SInt);" % (v, i, _si(x)))
            out.append("print << asum(%s, %d::SInt)::SI << newline;" % (v, n))
        elif k == "ptr":
            out.append('print << ptrlen(nil$Machine, %d::SInt)::SI << " " << ptrlen(convert(12::SInt)@Ptr, %d::SInt)::SI << newline;' % (it["n"], it["n"]))
        elif k == "parr":
            out.append("%s: PrimitiveArray Pt := new(%d, pt(0, 0));" % (v, it["n"]))
            out.append("for i in 1..%d repeat %s.i := pt(%s * i + %s, i * i);" % (it["n"], v, _si(it["a"]), _si(it["b"])))
            for (i, x, y) in it["upd"]:
                out.append("%s.%d := pt(%s, %s);" % (v, i, _si(x), _si(y)))
            for i in it["rd"]:
                out.append('print << %s.%d << " ";' % (v, i))
            out.append("print << newline;")
        elif k == "arr":
            out.append("%s: Array Pt := new(%d, pt(7, 7));" % (v, it["n"]))
            out.append("for i in 1..%d repeat %s.i := pt(i + %d, i * %d);" % (it["n"], v, it["a"], it["b"]))
            for i in it["rd"]:
                out.append('print << %s.%d << " ";' % (v, i))
            out.append("print << #%s << newline;" % v)
        elif k == "cells":
            out.append("%s: PrimitiveArray Cell := new(%d, cell 1);" % (v, it["n"]))
            out.append("for i in 1..%d repeat %s.i := cell(i * %d);" % (it["n"], v, it["m"]))
            out.append("print << " + " << ".join("%s.%d" % (v, i) for i in it["rd"]) + " << newline;")
        else:
            raise ValueError(k)
    return "\n".join(out) + "\n"


def expected_text(lines):
    return "".join(l + "\n" for l in lines)


# ---------------------------------------------------------------------------------------------------------------
# function heads of the emitted C

_TOK = re.compile(r"[A-Za-z_][A-Za-z_0-9]*|\*|\S")


def _toks(s):
    return _TOK.findall(s)


def parse_heads(text):
    """Function DEFINITIONS `CF<n>_<name>(...)' of one emitted C file (either dialect).
    Returns {fn: {"params": [token lists of the parenthesised list], "decls": [token lists of the declarations between
    `)' and `{' (old C; [] in standard C)]}}."""
    out = {}
    for m in re.finditer(r"^(CF\d+_\w+)\(([^;{}]*?)\)\s*((?:[^;{}()]+;\s*)*)\{", text, re.M):
        fn, plist, decls = m.group(1), m.group(2), m.group(3)
        params = [_toks(p) for p in plist.split(",")] if plist.strip() else []
        dl = [_toks(d) for d in decls.split(";") if d.strip()]
        out[fn] = {"params": params, "decls": dl}
    return out


def head_events(prog_id, tag, std_text, old_text):
    """One `head' record (spec/CDeclEval.tla) per function defined in both outputs."""
    hs, ho = parse_heads(std_text), parse_heads(old_text)
    ev = []
    for fn in sorted(set(hs) & set(ho)):
        base = re.sub(r"^CF\d+_", "", fn)
        base = re.sub(r"^p__", "", base)
        sig = SIGNATURES.get(base)
        intended = []
        if sig is not None and len(sig) == len(hs[fn]["params"]) - 1:
            intended = [[s, t] for (s, t) in sig]
        ev.append({"ev": "head", "prog": prog_id + tag, "fn": fn, "std": hs[fn]["params"], "oldhead": ho[fn]["params"],
                   "olddecls": ho[fn]["decls"], "intended": intended})
    return ev, sorted(set(hs) ^ set(ho))
