"""Render an abstract program (gen/progen.py, spec/AldorSem.tla) as Aldor source text.

Rendering is purely syntactic: every construct is spelled in one fixed way, all literals are
type-qualified, every sub-expression is parenthesised, and `free` declarations are derived from
the assignments that occur in a function / lambda / generator body.

Dialects (DESIGN.md 3.1): "axllib" (default: SingleInteger / Integer / `print <<`) and "libaldor"
(MachineInteger / Integer (= AldorInteger) / `stdout <<`, the library for which Java class archives
exist; used by C12).  The dialect is chosen by render(prog, dialect=...) or, when that is None, by
prog["render_opts"]["dialect"]; without either the text is the axllib text, unchanged.
"""

TYPE_MACROS = "SI ==> SingleInteger;\nBI ==> Integer;\n"

DIALECTS = {
    "axllib": {"header": ['#include "axllib"', TYPE_MACROS.rstrip()], "print": "print", "nil": "nil", "pow_bi_exp": True},
    # libaldor: `^: (Integer, MachineInteger) -> Integer`; the empty list is `empty`; `error` writes its
    # message to the standard error stream; arrays are 0-based there and are not rendered in this dialect
    "libaldor": {"header": ['#include "aldor"', '#include "aldorio"', "SI ==> MachineInteger;\nBI ==> Integer;"],
                 "print": "stdout", "nil": "empty", "pow_bi_exp": False,
                 # libaldor has no base category Exception: an exception type is a plain category (cf. sal_gener.as)
                 "exn_cat": "with"},
}


def tname(t):
    if t == "si":
        return "SI"
    if t == "bi":
        return "BI"
    if t == "bool":
        return "Boolean"
    if t == "str":
        return "String"
    if t == "unit":
        return "()"
    k = t[0]
    if k == "list":
        return "List(%s)" % tname(t[1])
    if k == "arr":
        return "Array(%s)" % tname(t[1])
    if k == "rec":
        return "R%d" % t[1]
    if k == "un":
        return "U%d" % t[1]
    if k == "fn":
        return "((%s) -> %s)" % (", ".join(tname(x) for x in t[1]), tname(t[2]))
    if k == "gen":
        return "Generator(%s)" % tname(t[1])
    if k == "tup":
        return "(%s)" % ", ".join(tname(x) for x in t[1])
    if k == "adt":
        return "AD%d" % t[1]
    raise ValueError(t)


def esc(s):
    out = []
    for ch in s:
        if ch in '"_':
            out.append("_" + ch)
        else:
            out.append(ch)
    return '"' + "".join(out) + '"'


OPS = {"add": "+", "sub": "-", "mul": "*", "quo": "quo", "rem": "rem", "mod": "mod",
       "lt": "<", "le": "<=", "gt": ">", "ge": ">=", "eq": "=", "ne": "~="}


class Renderer(object):
    def __init__(self, prog, names=None, dialect=None):
        self.p = prog
        self.names = names or {}
        self.dialect = dialect or prog.get("render_opts", {}).get("dialect") or "axllib"
        self.D = DIALECTS[self.dialect]
        # local SingleInteger variables held as Pointer (`v: Pointer := e pretend Pointer`, read as `v pretend SI`): the same
        # program for the language definition, a different representation for the optimiser (copies through casts)
        self.ptrvars = set(prog.get("render_opts", {}).get("ptrvars", []))

    def nm(self, x):
        return self.names.get(x, x)

    def filt(self, x):
        f = x.get("filt")
        return "" if not f or f.get("e") == "none" else " | %s" % self.ex(f)

    # ---- which variables does a body assign without declaring them? ----
    def assigned(self, x, acc, declared):
        """Collect names assigned directly in x (not inside nested lam/gen bodies) -> acc; names bound -> declared."""
        if isinstance(x, dict):
            e = x.get("e")
            if e in ("lam", "gen"):
                return
            if e == "asg":
                acc.add(x["x"])
            if e == "masg":
                acc.update(x["xs"])
            if e == "let":
                declared.add(x["x"])
            if e in ("for", "forin", "collect"):
                declared.add(x["x"])
            if e == "pfor":
                declared.update(it["x"] for it in x["its"])
            for v in x.values():
                self.assigned(v, acc, declared)
        elif isinstance(x, list):
            for v in x:
                self.assigned(v, acc, declared)

    def free_decl(self, body, params):
        acc, declared = set(), set(params)
        self.assigned(body, acc, declared)
        fr = sorted(acc - declared)
        return "".join("free %s; " % self.nm(v) for v in fr)

    # ---- expressions ----
    def lit(self, x):
        n = "".join(str(d) for d in x["ds"])
        q = "SI" if x["t"] == "si" else "BI"
        return "(-%s@%s)" % (n, q) if x["neg"] else "%s@%s" % (n, q)

    def ex(self, x):
        e = x["e"]
        if e == "lit":
            return self.lit(x)
        if e == "bool":
            return "true" if x["b"] else "false"
        if e == "str":
            if x["s"] == "\n":
                return "newline"
            if x["s"].endswith("\n"):
                return esc(x["s"][:-1]) + " << newline"
            return esc(x["s"])
        if e == "unit":
            return "()"
        if e == "var":
            if x["x"] in self.ptrvars:
                return "(%s pretend SI)" % self.nm(x["x"])
            return self.nm(x["x"])
        if e == "prim":
            op = x["op"]
            a = [self.ex(y) for y in x["args"]]
            ty, o = op.split(".")
            if o == "neg":
                return "(- %s)" % a[0]
            if o in ("odd", "even", "zero"):
                return "%s?(%s)" % (o, a[0])
            if o == "not":
                return "(not %s)" % a[0]
            if o == "tobi":
                return "(%s::BI)" % a[0]
            if o in ("and", "or") and ty == "si":
                return "(%s %s %s)" % (a[0], "/\\" if o == "and" else "\\/", a[1])
            if o == "xor":
                return "xor(%s, %s)" % (a[0], a[1])
            if o == "cat":
                return "concat(%s, %s)" % (a[0], a[1])
            if o == "len":
                return "(#(%s))" % a[0]
            if o == "pow":
                if not self.D["pow_bi_exp"]:
                    # libaldor: `^: (Integer, MachineInteger) -> Integer` returns its base when the base is 0 or 1, so
                    # 0^0 = 0 there; AldorSem's bi.pow is the mathematical power (0^0 = 1): exponent 0 is spelled out
                    # (a literal exponent -- all the generator produces -- is decided here: no conditional expression,
                    # which inside a one-element bracket would run into the known singleton-bracket finding of C01)
                    ea = x["args"][1]
                    if ea.get("e") == "lit":
                        return "1@BI" if not any(ea["ds"]) else "(%s ^ %s)" % (a[0], a[1])
                    return "(if (%s = 0@SI) then 1@BI else (%s ^ %s))" % (a[1], a[0], a[1])
                return "(%s ^ (%s::BI))" % (a[0], a[1])
            return "(%s %s %s)" % (a[0], OPS[o], a[1])
        if e == "if":
            if x["b"].get("e") == "unit" and x.get("t") == "unit":
                return "if %s then %s" % (self.ex(x["c"]), self.ex(x["a"]))
            if x.get("t") == "unit":
                return "if %s then %s else %s" % (self.ex(x["c"]), self.ex(x["a"]), self.ex(x["b"]))
            return "(if %s then %s else %s)" % (self.ex(x["c"]), self.ex(x["a"]), self.ex(x["b"]))
        if e == "and":
            return "(%s and %s)" % (self.ex(x["a"]), self.ex(x["b"]))
        if e == "or":
            return "(%s or %s)" % (self.ex(x["a"]), self.ex(x["b"]))
        if e == "seq":
            if x.get("t", "unit") != "unit":
                return "({ " + self.seq_items(x["es"]) + " })"
            return "{ " + self.seq_items(x["es"]) + " }"
        if e == "exit":
            return "(%s) => %s" % (self.ex(x["c"]), self.ex(x["v"]))
        if e == "asg":
            if x["x"] in self.ptrvars:
                return "%s := ((%s) pretend Pointer)" % (self.nm(x["x"]), self.ex(x["v"]))
            return "%s := %s" % (self.nm(x["x"]), self.ex(x["v"]))
        if e == "let":
            # only at the head of a body: flattened by body()
            return "{ " + self.body_items(x) + " }"
        if e == "call":
            f = self.p["funs"][x["fi"] - 1]
            args = [self.ex(a) for a in x["args"]] + ["%s == %s" % (self.nm(k["p"]), self.ex(k["v"])) for k in x.get("kw", [])]
            return "%s(%s)" % (self.nm(f.get("oname", f["name"])), ", ".join(args))
        if e == "callv":
            return "(%s)(%s)" % (self.ex(x["f"]), ", ".join(self.ex(a) for a in x["args"]))
        if e == "print":
            return self.D["print"] + " << " + " << ".join(self.ex(a) for a in x["args"])
        if e == "list" and len(x["args"]) == 1 and x["args"][0].get("e") in ("if", "seq", "mac") \
                and not self.p.get("render_opts", {}).get("singleton_bracket"):
            # known finding C01 singleton-bracket: [ (if c then a else b) ] faults at run time
            return "cons(%s, (%s@%s))" % (self.ex(x["args"][0]), self.D["nil"], tname(x["t"]))
        if e == "list":
            return "([%s]@%s)" % (", ".join(self.ex(a) for a in x["args"]), tname(x["t"])) if x["args"] else "(%s@%s)" % (self.D["nil"], tname(x["t"]))
        if e == "cons":
            return "cons(%s, %s)" % (self.ex(x["h"]), self.ex(x["tl"]))
        if e == "first":
            return "first(%s)" % self.ex(x["l"])
        if e == "rest":
            return "rest(%s)" % self.ex(x["l"])
        if e == "empty":
            return "empty?(%s)" % self.ex(x["l"])
        if e == "len":
            return "(#(%s))" % self.ex(x["l"])
        if e in ("alen", "newarr", "aref", "aset") and self.dialect != "axllib":
            raise ValueError("arrays are not rendered in dialect %s" % self.dialect)
        if e == "alen":
            return "(#(%s))" % self.ex(x["a"])
        if e == "newarr":
            return "(new(%s, %s)@%s)" % (self.ex(x["n"]), self.ex(x["init"]), tname(x["t"]))
        if e == "aref":
            return "(%s.(%s))" % (self.ex(x["a"]), self.ex(x["i"]))
        if e == "aset":
            return "%s.(%s) := %s" % (self.ex(x["a"]), self.ex(x["i"]), self.ex(x["v"]))
        if e == "mkrec":
            return "([%s]@%s)" % (", ".join(self.ex(a) for a in x["args"]), tname(x["t"]))
        if e == "rget":
            return "(%s.f%d)" % (self.ex(x["r"]), x["i"])
        if e == "rset":
            return "%s.f%d := %s" % (self.ex(x["r"]), x["i"], self.ex(x["v"]))
        if e == "mkun":
            return "([t%d == %s]@%s)" % (x["tag"], self.ex(x["v"]), tname(x["t"]))
        if e == "uis":
            return "(%s case t%d)" % (self.ex(x["u"]), x["tag"])
        if e == "uget":
            return "(%s.t%d)" % (self.ex(x["u"]), x["tag"])
        if e == "lam":
            ps = ", ".join("%s: %s" % (self.nm(p), tname(t)) for p, t in zip(x["ps"], x["pts"]))
            return "((%s): %s +-> { %s%s })" % (ps, tname(x["rt"]), self.free_decl(x["body"], x["ps"]), self.body_items(x["body"]))
        if e == "gen":
            return "generate { %s%s }" % (self.free_decl(x["body"], []), self.body_items(x["body"]))
        if e == "while":
            return "while %s repeat %s" % (self.ex(x["c"]), self.ex(x["body"]))
        if e == "for":
            return "for %s in %s..%s%s repeat %s" % (self.nm(x["x"]), self.ex(x["lo"]), self.ex(x["hi"]), self.filt(x), self.ex(x["body"]))
        if e == "forin":
            return "for %s in %s%s repeat %s" % (self.nm(x["x"]), self.ex(x["src"]), self.filt(x), self.ex(x["body"]))
        if e == "pfor":
            its = " ".join("for %s in %s" % (self.nm(it["x"]), ("%s..%s" % (self.ex(it["lo"]), self.ex(it["hi"]))) if it["k"] == "range"
                                             else self.ex(it["src"])) for it in x["its"])
            return "%s%s repeat %s" % (its, self.filt(x), self.ex(x["body"]))
        if e == "break":
            return "break"
        if e == "iterate":
            return "iterate"
        if e == "ret":
            return "return %s" % self.ex(x["v"])
        if e == "yield":
            return "yield %s" % self.ex(x["v"])
        if e == "dcall":
            call = "%s(%s)" % (x["op"], ", ".join(self.ex(a) for a in x["args"]))
            d = x["dom"]
            if d["d"] == "self" or x.get("unqual"):
                return call
            return "(%s$%s)" % (call, self.domx(d))
        if e == "mac":
            return "%s(%s)" % (self.p["macs"][x["mi"] - 1]["name"], ", ".join(self.ex(a) for a in x["args"]))
        if e == "lmac":     # the macro gets another body inside this block only
            m = self.p["macs"][x["mi"] - 1]
            return "{ macro %s(%s) == (%s); %s }" % (m["name"], ", ".join(m["ps"]), self.ex(x["mbody"]), self.ex(x["body"]))
        if e == "throw":
            if x.get("args"):       # an exception that carries a value: ExP(v) builds the exception domain
                return "throw %s(%s)" % (x["exn"], ", ".join(self.ex(a) for a in x["args"]))
            return "throw %s" % x["exn"]
        if e == "try":
            # exn_has: how a handler names the exception's category; "(%s@Category)" when the exceptions are imported from
            # another unit (render_split(lib_exns=True)): the imported name is both a category and a domain
            def hbody(h):
                if h.get("ps"):     # the carried value is read through the exception's export pv
                    pt = dict((d_["exn"], d_["t"]) for d_ in self.p.get("exnp", []))[h["exn"]]
                    return "{ %s: %s := (pv$E); %s }" % (h["ps"][0], tname(pt), self.ex(h["body"]))
                return self.ex(h["body"])
            named = [h for h in x["hs"] if h["exn"] != "*"]
            rest = [h for h in x["hs"] if h["exn"] == "*"]
            hs = "".join("E has %s => %s; " % (getattr(self, "exn_has", "%s") % h["exn"], hbody(h)) for h in named)
            fin = "" if x["fin"].get("e") == "none" else " finally %s" % self.ex(x["fin"])
            other = self.ex(rest[0]["body"]) if rest else "throw E"      # the catch-all clause, or passing the exception on
            return "(try %s catch E in { %strue => %s; never }%s)" % (self.ex(x["body"]), hs, other, fin)
        if e == "error":
            return "error %s" % esc(x.get("msg", "halt"))
        if e == "where":
            defs = "; ".join("%s: %s == %s" % (self.nm(dd["x"]), tname(dd["t"]), self.ex(dd["v"])) for dd in x["defs"])
            return "(%s where { %s })" % (self.ex(x["body"]), defs)
        if e == "acall":
            return "(%s(%s)$AD%d)" % (x["op"], ", ".join(self.ex(a) for a in x["args"]), x["adt"])
        if e == "per":
            return "per(%s)" % self.ex(x["v"])
        if e == "rep":
            return "(rep(%s))" % self.ex(x["v"])
        if e == "collect":
            src = "%s..%s" % (self.ex(x["src"]["lo"]), self.ex(x["src"]["hi"])) if x["src"].get("e") == "range" else self.ex(x["src"])
            cond = "" if x["cond"].get("e") == "none" else " | %s" % self.ex(x["cond"])
            return "([%s for %s in %s%s]@%s)" % (self.ex(x["body"]), self.nm(x["x"]), src, cond, tname(x["t"]))
        if e == "tuple":
            return "(%s)" % ", ".join(self.ex(a) for a in x["args"])
        if e == "masg":
            return "(%s) := %s" % (", ".join(x["xs"]), self.ex(x["v"]))
        if e == "assert":
            return "assert(%s)" % self.ex(x["c"])
        raise ValueError(e)

    def domx(self, d):
        if d["d"] == "base":
            return self.p["doms"][d["i"] - 1]["name"]
        if d["d"] == "app":
            return "%s(%s)" % (self.p["doms"][d["i"] - 1]["name"], self.domx(d["arg"]))
        if d["d"] == "param":
            return "T"
        raise ValueError(d)

    def sig(self, o):
        return "(%s) -> %s" % (", ".join(tname(t) for t in o["pts"]), tname(o["rt"]))

    def opdef(self, o):
        ps = ", ".join("%s: %s" % (self.nm(a), tname(t)) for a, t in zip(o["ps"], o["pts"]))
        return "%s(%s): %s == %s" % (o["name"], ps, tname(o["rt"]), self.ex(o["body"]))

    def domain_decls(self):
        out = []
        p = self.p
        for c in p.get("cats", []):
            sigs = "; ".join("%s: %s" % (o["name"], self.sig(o)) for o in c["ops"])
            dfl = ""
            if c["defaults"]:
                dfl = "; default { %s }" % "; ".join(self.opdef(o) for o in c["defaults"])
            out.append("define %s: Category == with { %s%s };" % (c["name"], sigs, dfl))
        for k, a in enumerate(p.get("adts", [])):
            self.in_adt = k

            def at(t):
                return "%" if t == ["adt", k] else tname(t)
            sigs = "; ".join("%s: (%s) -> %s" % (o["name"], ", ".join(at(t) for t in o["pts"]), at(o["rt"])) for o in a["ops"])
            defs = "; ".join("%s(%s): %s == %s" % (o["name"], ", ".join("%s: %s" % (self.nm(q), at(t)) for q, t in zip(o["ps"], o["pts"])),
                                                   at(o["rt"]), self.ex(o["body"])) for o in a["ops"])
            out.append("AD%d: with { %s } == add { Rep == %s; import from Rep; %s };" % (k, sigs, tname(a["rep"]), defs))
            self.in_adt = None
        for d in p.get("doms", []):
            head = d["name"] if not d["pcat"] else "%s(T: %s)" % (d["name"], p["cats"][d["pcat"] - 1]["name"])
            out.append("%s: %s == add { %s };" % (head, p["cats"][d["cat"] - 1]["name"], "; ".join(self.opdef(o) for o in d["ops"])))
        return out

    def seq_items(self, es):
        return "; ".join(self.ex(y) for y in es) if es else "()"

    def body_items(self, x):
        """A body: a chain of lets followed by an expression; rendered as declarations; expression."""
        out = []
        while x.get("e") == "let":
            if x["x"] in self.ptrvars:
                out.append("%s: Pointer := ((%s) pretend Pointer)" % (self.nm(x["x"]), self.ex(x["v"])))
            else:
                out.append("%s: %s := %s" % (self.nm(x["x"]), tname(x["t"]), self.ex(x["v"])))
            x = x["body"]
        if x.get("e") == "seq":
            out.append(self.seq_items(x["es"]))
        else:
            out.append(self.ex(x))
        return "; ".join(out)

    # ---- whole program ----
    def types_used(self):
        acc = set()

        def wt(t):
            if isinstance(t, list):
                if t and isinstance(t[0], str) and t[0] in ("list", "arr", "gen"):
                    acc.add((t[0], t[1] if isinstance(t[1], str) else tuple(t[1])))
                    wt(t[1])
                elif t and t[0] == "fn":
                    for a in t[1]:
                        wt(a)
                    wt(t[2])
                elif t and t[0] == "tup":
                    for a in t[1]:
                        wt(a)

        def walk(x):
            if isinstance(x, dict):
                for k, v in x.items():
                    if k in ("t", "rt", "et"):
                        wt(v)
                    elif k == "pts":
                        for a in v:
                            wt(a)
                    else:
                        walk(v)
            elif isinstance(x, list):
                for v in x:
                    walk(v)
        walk(self.p)
        return acc

    def parts(self):
        """(preamble lines, [(kind, index, text)]): the header/macros/import lines and one text per top-level form
        ("f", i) = function p["funs"][i], ("t", i) = p["top"][i], in file order.  Used by program() and by the
        form-by-form rendering for the interactive loop (C13)."""
        p = self.p
        out = list(self.D["header"])
        for i, fs in enumerate(p.get("recs", [])):
            out.append("R%d ==> Record(%s);" % (i, ", ".join("f%d: %s" % (j + 1, tname(t)) for j, t in enumerate(fs))))
        for i, bs in enumerate(p.get("uns", [])):
            out.append("U%d ==> Union(%s);" % (i, ", ".join("t%d: %s" % (j + 1, tname(t)) for j, t in enumerate(bs))))
        imports = ["SI", "BI", "String", "Boolean"]
        for k, et in sorted(self.types_used(), key=repr):
            if isinstance(et, str):
                imports.append("%s(%s)" % ({"list": "List", "arr": "Array", "gen": "Generator"}[k], tname(et)))
        imports += ["R%d" % i for i in range(len(p.get("recs", [])))]
        imports += ["U%d" % i for i in range(len(p.get("uns", [])))]
        out.append("import from %s;" % ", ".join(imports))
        for m in p.get("macs", []):
            out.append("%s(%s) ==> %s;" % (m["name"], ", ".join(m["ps"]), self.ex(m["body"])))
        out += self.domain_decls()
        if p.get("dimports"):       # domains whose exports are used unqualified
            out.append("import from %s;" % ", ".join(p["doms"][k - 1]["name"] for k in p["dimports"]))
        payload = dict((d_["exn"], d_["t"]) for d_ in p.get("exnp", []))
        for ex in p.get("exns", []):
            if ex in payload:
                pt = tname(payload[ex])
                out.append("define %s: Category == %s { pv: %s };" % (ex, self.D.get("exn_cat", "Exception with"), pt))
                out.append("%s(v: %s): %s == add { pv: %s == v };" % (ex, pt, ex, pt))
                continue
            out.append("define %s: Category == %s;" % (ex, self.D.get("exn_cat", "Exception with")))
            out.append("define %s: %s@Category == add;" % (ex, ex))
        # functions are emitted where they were created relative to the top-level forms: progen
        # appends functions in creation order and only calls earlier ones, so all functions that a
        # form uses exist before it.  Globals a function mentions must precede it: emit each
        # function just before the first top-level form created after it.
        order = p.get("order")
        forms = []
        if order:
            for kind, i in order:
                forms.append(("fun", i, p["funs"][i]) if kind == "f" else ("top", i, p["top"][i]))
        else:
            forms = [("fun", i, f) for i, f in enumerate(p["funs"])] + [("top", i, t) for i, t in enumerate(p["top"])]
        texts = []
        for kind, i, f in forms:
            if kind == "fun":
                dfl = f.get("defs") or [{"e": "none"}] * len(f["ps"])
                ps = ", ".join("%s: %s%s" % (self.nm(a), tname(t), "" if dv.get("e") == "none" else " == %s" % self.ex(dv))
                               for a, t, dv in zip(f["ps"], f["pts"], dfl))
                texts.append(("f", i, "%s(%s): %s == { %s%s }" % (self.nm(f.get("oname", f["name"])), ps, tname(f["rt"]),
                                                                  self.free_decl(f["body"], f["ps"]), self.body_items(f["body"]))))
            elif f["d"] == "var":
                texts.append(("t", i, "%s: %s %s %s;" % (self.nm(f["x"]), tname(f["t"]), "==" if f.get("const") else ":=", self.ex(f["init"]))))
            else:
                texts.append(("t", i, self.ex(f["x"]) + ";"))
        return out, texts

    def program(self):
        pre, texts = self.parts()
        return "\n".join(pre + [t for (_, _, t) in texts]) + "\n"


def render(prog, names=None, dialect=None):
    return Renderer(prog, names, dialect).program()


def render_forms(prog, names=None, dialect=None):
    """One text per top-level form, for feeding a program form by form to the interactive loop:
    returns (preamble_lines, [(kind, index, text)]), see Renderer.parts."""
    return Renderer(prog, names, dialect).parts()


# ---- separate compilation (C05): one abstract program rendered as a library unit and a client unit ----

def _fun_refs(body, bound):
    """(free variable names, called function indices (0-based)) of a function body; bound = names bound so far."""
    free, calls = set(), set()

    def walk(x, bnd):
        if isinstance(x, dict):
            e = x.get("e")
            if e == "var":
                if x["x"] not in bnd:
                    free.add(x["x"])
                return
            if e == "asg":
                if x["x"] not in bnd:
                    free.add(x["x"])
                walk(x["v"], bnd)
                return
            if e == "masg":
                free.update(v for v in x["xs"] if v not in bnd)
                walk(x["v"], bnd)
                return
            if e == "call":
                calls.add(x["fi"] - 1)
            if e == "let":
                walk(x["v"], bnd)
                walk(x["body"], bnd | {x["x"]})
                return
            if e in ("for", "forin"):
                for k, v in x.items():
                    if k not in ("body", "filt"):
                        walk(v, bnd)
                walk(x.get("filt"), bnd | {x["x"]})
                walk(x["body"], bnd | {x["x"]})
                return
            if e == "pfor":
                names = set(it["x"] for it in x["its"])
                for it in x["its"]:
                    for k in ("lo", "hi", "src"):
                        walk(it.get(k), bnd)
                walk(x.get("filt"), bnd | names)
                walk(x["body"], bnd | names)
                return
            if e == "where":
                for dd in x["defs"]:
                    walk(dd["v"], bnd)
                walk(x["body"], bnd | set(dd["x"] for dd in x["defs"]))
                return
            if e == "collect":
                walk(x["src"], bnd)
                walk(x["cond"], bnd | {x["x"]})
                walk(x["body"], bnd | {x["x"]})
                return
            if e == "lam":
                walk(x["body"], bnd | set(x["ps"]))
                return
            for v in x.values():
                walk(v, bnd)
        elif isinstance(x, list):
            for v in x:
                walk(v, bnd)
    walk(body, set(bound))
    return free, calls


def lib_eligible(prog, throwers=False):
    """Indices (0-based, ascending) of the functions that can be moved into a library unit: they mention no
    file-level variable (an exported function must not capture variables of the client) and call only functions
    that can be moved as well."""
    info = {}

    local_nodes = ("mac", "dcall", "try") if throwers else ("mac", "dcall", "try", "throw")

    def unit_local(x):
        """mentions a macro, a domain defined in the file or an exception: those are rendered in the preamble of one unit
        (throwers=True: the exceptions are declared in the library unit, see render_split(lib_exns=True), so a function
        that throws -- but does not catch -- may move; so may a function with an overloaded name)"""
        if isinstance(x, dict):
            return x.get("e") in local_nodes or any(unit_local(v) for v in x.values())
        return isinstance(x, list) and any(unit_local(v) for v in x)
    for i, f in enumerate(prog["funs"]):
        free, calls = _fun_refs(f["body"], f["ps"])
        if unit_local(f["body"]) or (not throwers and f.get("oname", f["name"]) != f["name"]):
            free = free | {"<unit-local>"}
        info[i] = (free, calls)
    ok = set(i for i, (free, _) in info.items() if not free)
    changed = True
    while changed:
        changed = False
        for i in sorted(ok):
            if not info[i][1] <= ok:
                ok.discard(i)
                changed = True
    return sorted(ok)


def lib_closure(prog, funs):
    """The given function indices together with everything they call (transitively)."""
    out = set(funs)
    todo = list(funs)
    while todo:
        i = todo.pop()
        f = prog["funs"][i]
        for j in _fun_refs(f["body"], f["ps"])[1]:
            if j not in out:
                out.add(j)
                todo.append(j)
    return sorted(out)


def _throws(x):
    if isinstance(x, dict):
        return x.get("e") == "throw" or any(_throws(v) for v in x.values())
    return isinstance(x, list) and any(_throws(v) for v in x)


def split_plan(prog):
    """A split that puts exception throwers and their catchers into different units when the program allows it:
    {"lib_funs": [...], "lib_exns": bool, "throwers": n} or None if no function can be moved.  The library unit takes the
    movable functions that throw (closed under calls); functions holding a try stay in the client.  Without a movable
    thrower the first movable function is taken (still a separately compiled program)."""
    el = lib_eligible(prog, throwers=True)
    if not el:
        return None
    thr = [i for i in el if _throws(prog["funs"][i]["body"])]
    funs = lib_closure(prog, thr if thr else el[:1])
    return {"lib_funs": funs, "lib_exns": bool(prog.get("exns")), "throwers": len(thr)}


def render_split(prog, lib_funs, libref="plib.ao", libid="PLib", names=None, dialect=None, lib_doms=(), lib_exns=False):
    """(library unit text, client unit text): the functions lib_funs (0-based indices, closed under calls, all in
    lib_eligible(prog)) and the domains lib_doms (0-based indices into prog["doms"]) are defined in the library unit;
    the client unit holds every other form in the original order and imports the library
    (`#library <libid> "<libref>"`; libref = "x.ao", or "libx.al" for an archive).  Type macros and imports are
    repeated in both units.  Domains (feature dom) are self-contained (their operations mention only their own and
    their parameter's operations); as soon as one domain is in the library unit all categories are defined there and
    the client's remaining domains use the imported categories.  lib_exns=True: the exceptions of the program are
    declared in the library unit only (needed when a library function throws)."""
    r = Renderer(prog, names, dialect)
    pre, texts = r.parts()
    if lib_exns:
        rc = Renderer(prog, names, dialect)
        rc.exn_has = "(%s@Category)"
        ctexts = rc.parts()[1]
    else:
        ctexts = texts
    dd = r.domain_decls()
    ncat = len(prog.get("cats", []))
    cat_lines, dom_lines = dd[:ncat], dd[ncat:]
    common = [l for l in pre if l not in dd]
    exn_lines = []
    if lib_exns:       # the exception categories/domains are defined in the library unit only; the client imports them
        exn_lines = [l for l in common if any(l.startswith("define %s:" % ex) for ex in prog.get("exns", []))]
        common = [l for l in common if l not in exn_lines]
    lib = set(lib_funs)
    ldoms = sorted(set(lib_doms))
    lib_lines = common + exn_lines + (cat_lines if ldoms else []) + [dom_lines[i] for i in ldoms]
    lib_text = "\n".join(lib_lines + [t for (k, i, t) in texts if k == "f" and i in lib]) + "\n"
    head = [common[0], '#library %s "%s"' % (libid, libref), "import from %s;" % libid] + common[1:]
    head += ([] if ldoms else cat_lines) + [l for i, l in enumerate(dom_lines) if i not in ldoms]
    client_text = "\n".join(head + [t for (k, i, t) in ctexts if not (k == "f" and i in lib)]) + "\n"
    return lib_text, client_text


def expected_text(out_atoms):
    """Concatenate the output atoms computed by TLC (strings and [neg, ds] decimal digit records)."""
    parts = []
    for a in out_atoms:
        if isinstance(a, str):
            parts.append(a)
        else:
            parts.append(("-" if a["neg"] else "") + "".join(str(d) for d in a["ds"]))
    return "".join(parts)
