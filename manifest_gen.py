"""Regenerate MANIFEST.json from the META of every checks/cNN.py that exists."""
import importlib
import json
import os
import subprocess
import sys

VERIF = os.path.dirname(os.path.abspath(__file__))
sys.path.insert(0, os.path.join(VERIF, "lib"))
sys.path.insert(0, VERIF)

PENDING_REASON = "check not built yet in this round (see DESIGN.md section 5 for the planned TLA+ module); not claimed until it exists and is sound"


def main():
    props = [json.loads(l) for l in open(os.path.join(VERIF, "properties.jsonl"))]
    checks, na = [], []
    try:
        na_file = json.load(open(os.path.join(VERIF, "not_applicable.json")))
    except IOError:
        na_file = {}
    ready = set(l.strip() for l in open(os.path.join(VERIF, "checks", "READY")) if l.strip() and not l.startswith("#"))
    for p in props:
        pid = p["id"]
        path = os.path.join(VERIF, "checks", pid.lower() + ".py")
        if pid in na_file or not os.path.exists(path) or pid not in ready:
            na.append({"property_id": pid, "reason": na_file.get(pid, PENDING_REASON)})
            continue
        m = importlib.import_module("checks." + pid.lower()).META
        c = {"property_id": pid,
             "quick_cmd": "bin/verif check %s --tier quick" % pid,
             "thorough_cmd": "bin/verif check %s --tier thorough" % pid,
             "evidence_file": "/verif/evidence/%s.json" % pid,
             "replay_cmd_template": "bin/verif replay %s {path}" % pid,
             "engine": "tlc",
             "level_claimed": {"category": m.get("level", "model_checking"), "text": m["level_text"],
                               "design_ref": m.get("design_ref", "DESIGN.md section 5 " + pid)},
             "level_note": m["level_note"],
             "technique": m["technique"]}
        checks.append(c)
    try:
        hooks_commits = [l.strip() for l in open(os.path.join(VERIF, "hooks", "COMMITS")) if l.strip()]
    except IOError:
        hooks_commits = []
    man = {"version": 1,
           "setup_cmd": "bin/verif setup",
           "hooks": {"guard": "ALDOR_VERIF",
                     "enable": "lib/vlib.py:vbuild compiles the Makefile.am source lists of /repo/aldor/aldor/src with gcc -DALDOR_VERIF into /var/tmp/aldor-verif-cache/<content hash> (rebuilt whenever the working tree changes)",
                     "baseline_off_cmd": "make -k -j8 -C /repo/aldor check",
                     "source_commits": hooks_commits,
                     "add_only": True},
           "engines": [{"name": "tlc", "path": "/opt/veriftools/tla/tla2tools.jar",
                        "serves_properties": [c["property_id"] for c in checks],
                        "kind_free_text": "TLC 1.8.0 explicit-state model checker on the TLA+ modules in /verif/spec; trace validation and behaviour export bind them to the code built from /repo"}],
           "checks": checks,
           "not_applicable": na,
           "notes": "All checks: TLA+ spec + TLC + conformance (replay of TLC behaviours into the code / validation of recorded traces). See DESIGN.md."}
    with open(os.path.join(VERIF, "MANIFEST.json"), "w") as fh:
        json.dump(man, fh, indent=1)
    print("MANIFEST.json: %d checks, %d not applicable/pending" % (len(checks), len(na)))


if __name__ == "__main__":
    main()
