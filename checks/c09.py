"""C09 -- Garbage collection never changes what a program computes."""
import concurrent.futures
import os
import sys

import vlib
import progcheck
import progrun

sys.path.insert(0, os.path.join(vlib.VERIF, "gen"))
import progen  # noqa: E402

META = {
    "title": "Garbage collection never changes what a program computes",
    "level": "model_checking",
    "technique": "AldorSem.tla gives the output of allocation-heavy generated programs; hook H1 forces a collection at every k-th allocation (offset j) in the run-time allocator; every schedule must reproduce the specified output on the C route and the interpreter route",
    "design_ref": "DESIGN.md 5 C09, 4.2 (H1)",
    "level_text": "The schedule space 'collect at every k-th allocation, offset j' is enumerated (small k exhaustively over all offsets) and "
                  "applied through the guarded hook in store.c, which is the allocator of the interpreter and -- built with FOAM_RTS -- of "
                  "compiled programs; freed storage is poisoned (0xDD fill). Each run must print exactly the output TLC derived from the "
                  "language specification for that program, so a block reclaimed while still in use shows as a wrong result or a fault "
                  "instead of going unnoticed between two runs of the same binary.",
    "level_note": "Trusted: AldorSem.tla, renderer, gcc, libaxllib.a. The H2 allocator event trace of program runs is not validated here "
                  "(the allocator invariants are bound in C10 where the roots are known). Interpreter schedules use larger k because each "
                  "collection scans the whole compiler heap.",
}

HEAVY = ["bi", "str", "fun", "while", "for", "list", "arr", "rec", "un", "clos", "gen", "rec_fun", "brk", "exit"]


def schedules(tier):
    if tier == "quick":
        ks = [1, 2, 3, 5, 17, 100]
        return [(k, j) for k in ks for j in sorted({0, k - 1})]
    out = []
    for k in range(1, 17):
        out += [(k, j) for j in range(k)]
    k = 20
    while k <= 1000:
        out += [(k, 0), (k, k // 2), (k, k - 1)]
        k = int(k * 1.6) + 1
    return out


def run(chk, tier):
    b = vlib.vbuild()
    wd = vlib.scratch("c09")
    n = 40 if tier == "quick" else 250
    progs = []
    for i in range(n):
        g = progen.ProgGen(((chk.seed + 29) % 1000003) * 100003 + i, features=HEAVY, size=16)
        progs.append(g.program("a%d" % i))
    fam = progcheck.Family(chk, progs, "alloc", workers=vlib.NCPU, timeout=1500)
    scheds = schedules(tier)
    # compile every program once on the C route (no forced collection while compiling)
    with concurrent.futures.ThreadPoolExecutor(max_workers=vlib.NCPU) as ex:
        comp = list(ex.map(lambda p: progrun.run_program(b, p, "c", wd), fam.replayable))
    jobs = []
    for p, r in zip(fam.replayable, comp):
        e = fam.exp[p["id"]]
        c = progcheck.classify(r, e)
        chk.case(("c", p["id"], "none"))
        if c is not None:
            chk.violation("%s without forced collection: program %s %s" % (c[0], p["id"], c[1]),
                          {"program_id": p["id"], "source": progcheck.render.render(p), "got": r["out"][:2000], "expected": e["out"][:2000]},
                          key={"kind": c[0], "sig": c[1], "shapes": progcheck.shape_flags(p), "route": "c", "schedule": None})
            continue
        for (k, j) in scheds:
            jobs.append((p, r["dir"], k, j))

    def run_sched(job):
        p, d, k, j = job
        env = dict(os.environ)
        env["ALDOR_VERIF_GC"] = "%d:%d" % (k, j)
        rc, out, err, to = vlib.run(["./p"], cwd=d, timeout=120, env=env)
        return {"rc": rc, "out": out.decode(errors="replace"), "err": err.decode(errors="replace"), "phase": "run", "timeout": to}
    with concurrent.futures.ThreadPoolExecutor(max_workers=vlib.NCPU) as ex:
        res = list(ex.map(run_sched, jobs))
    for (p, d, k, j), r in zip(jobs, res):
        e = fam.exp[p["id"]]
        chk.case(("c", p["id"], k, j))
        c = progcheck.classify(r, e)
        if c is not None:
            chk.violation("%s under schedule k=%d j=%d (C route): program %s" % (c[0], k, j, p["id"]),
                          {"program_id": p["id"], "schedule": [k, j], "source": progcheck.render.render(p),
                           "got": r["out"][:2000], "err": r["err"][:500], "rc": r["rc"], "expected": e["out"][:2000]},
                          key={"kind": c[0], "sig": c[1], "route": "c", "schedule": [k, j], "shapes": progcheck.shape_flags(p)})
    chk.traces += len(jobs) + len(comp)
    # interpreter route: collections are expensive (the whole compiler heap is scanned): larger k, fewer programs
    isched = [(17, 0), (100, 99)] if tier == "quick" else [(5, 0), (17, 3), (50, 49), (100, 0), (400, 1), (1000, 999)]
    iprogs = fam.replayable[:4] if tier == "quick" else fam.replayable[:40]
    ijobs = [(p, k, j) for p in iprogs for (k, j) in isched]

    def run_interp(job):
        p, k, j = job
        env = dict(os.environ)
        env["ALDOR_VERIF_GC"] = "%d:%d" % (k, j)
        return progrun.run_program(b, p, "interp", os.path.join(wd, "i%d_%d" % (k, j)), env=env, timeout=300)
    with concurrent.futures.ThreadPoolExecutor(max_workers=vlib.NCPU) as ex:
        ires = list(ex.map(run_interp, ijobs))
    for (p, k, j), r in zip(ijobs, ires):
        e = fam.exp[p["id"]]
        chk.case(("interp", p["id"], k, j))
        c = progcheck.classify(r, e)
        if c is not None:
            chk.violation("%s under schedule k=%d j=%d (interpreter): program %s" % (c[0], k, j, p["id"]),
                          {"program_id": p["id"], "schedule": [k, j], "source": progcheck.render.render(p),
                           "got": r["out"][:2000], "err": r["err"][:500], "rc": r["rc"], "expected": e["out"][:2000]},
                          key={"kind": c[0], "sig": c[1], "route": "interp", "schedule": [k, j], "shapes": progcheck.shape_flags(p)})
    chk.traces += len(ijobs)
    chk.extra["schedules_c_route"] = len(scheds)
    chk.extra["schedules_interp_route"] = len(isched)
    chk.extra["programs_by_status"] = fam.status_count
    if fam.replayable:
        p = fam.replayable[0]
        chk.sample({"program": progcheck.render.render(p)[:1500], "expected_out": fam.exp[p["id"]]["out"][:300], "schedules": scheds[:6]})
    chk.rule = ("allocation-heavy generated programs x schedules (k, j): collect at every allocation n with n mod k = j, freed storage "
                "poisoned; a case is (route, program, k, j); expected output from TLC")
    chk.assumptions.append("the forced collection is applied at allocator entry, where an ordinary collection can also start (heap full)")
