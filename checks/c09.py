"""C09 -- Garbage collection never changes what a program computes."""
import concurrent.futures
import os
import sys

import vlib
import progcheck
import progrun

sys.path.insert(0, os.path.join(vlib.VERIF, "gen"))
import progen  # noqa: E402
import c09_scale  # noqa: E402
import corpus  # noqa: E402

META = {
    "title": "Garbage collection never changes what a program computes",
    "level": "model_checking",
    "technique": "AldorSem.tla gives the output of allocation-heavy generated programs; hook H1 forces a collection at every k-th allocation (offset j) in the run-time allocator; every schedule must reproduce the specified output on the C route and the interpreter route",
    "design_ref": "DESIGN.md 5 C09, 4.2 (H1)",
    "level_text": "The schedule space 'collect at every k-th allocation, offset j' is enumerated (small k exhaustively over all offsets) and "
                  "applied through the guarded hook in store.c, which is the allocator of the interpreter and -- built with FOAM_RTS -- of "
                  "compiled programs; freed storage is poisoned (0xDD fill). Each run must print exactly the output TLC derived from the "
                  "language specification for that program, so a block reclaimed while still in use shows as a wrong result or a fault "
                  "instead of going unnoticed between two runs of the same binary.",
    "level_note": "Trusted: AldorSem.tla, renderer, gcc, libaxllib.a. The H2 allocator event trace of program runs is not validated here "
                  "(the allocator invariants are bound in C10 where the roots are known). Interpreter schedules use larger k because each "
                  "collection scans the whole compiler heap.",
}

HEAVY = ["bi", "str", "fun", "while", "for", "list", "arr", "rec", "un", "clos", "gen", "rec_fun", "brk", "exit"]


def schedules(tier):
    if tier == "quick":
        ks = [1, 2, 3, 5, 17, 100]
        return [(k, j) for k in ks for j in sorted({0, k - 1})]
    out = []
    for k in range(1, 17):
        out += [(k, j) for j in range(k)]
    k = 20
    while k <= 1000:
        out += [(k, 0), (k, k // 2), (k, k - 1)]
        k = int(k * 1.6) + 1
    return out


def run(chk, tier):
    b = vlib.vbuild()
    wd = vlib.scratch("c09")
    n = 40 if tier == "quick" else 250
    progs = []
    for i in range(n):
        # every second program also allocates through several values at once, collect forms and private representations
        g = progen.ProgGen(((chk.seed + 29) % 1000003) * 100003 + i,
                           features=HEAVY + (["tup", "coll", "filt", "adt", "kwd", "strop", "where", "pfor", "bits"] if i % 2 else []), size=16)
        progs.append(g.program("a%d" % i))
    fam = progcheck.Family(chk, progs, "alloc", workers=vlib.NCPU, timeout=1500)
    scheds = schedules(tier)
    # compile every program once on the C route (no forced collection while compiling)
    with concurrent.futures.ThreadPoolExecutor(max_workers=vlib.NCPU) as ex:
        comp = list(ex.map(lambda p: progrun.run_program(b, p, "c", wd), fam.replayable))
    jobs = []
    for p, r in zip(fam.replayable, comp):
        e = fam.exp[p["id"]]
        c = progcheck.classify(r, e)
        chk.case(("c", p["id"], "none"))
        if c is not None:
            chk.violation("%s without forced collection: program %s %s" % (c[0], p["id"], c[1]),
                          {"program_id": p["id"], "source": progcheck.render.render(p), "got": r["out"][:2000], "expected": e["out"][:2000]},
                          key={"kind": c[0], "sig": c[1], "shapes": progcheck.shape_flags(p), "route": "c", "schedule": None})
            continue
        for (k, j) in scheds:
            jobs.append((p, r["dir"], k, j))

    def run_sched(job):
        p, d, k, j = job
        env = dict(os.environ)
        env["ALDOR_VERIF_GC"] = "%d:%d" % (k, j)
        rc, out, err, to = vlib.run(["./p"], cwd=d, timeout=120, env=env)
        return {"rc": rc, "out": out.decode(errors="replace"), "err": err.decode(errors="replace"), "phase": "run", "timeout": to}
    with concurrent.futures.ThreadPoolExecutor(max_workers=vlib.NCPU) as ex:
        res = list(ex.map(run_sched, jobs))
    for (p, d, k, j), r in zip(jobs, res):
        e = fam.exp[p["id"]]
        chk.case(("c", p["id"], k, j))
        c = progcheck.classify(r, e)
        if c is not None:
            chk.violation("%s under schedule k=%d j=%d (C route): program %s" % (c[0], k, j, p["id"]),
                          {"program_id": p["id"], "schedule": [k, j], "source": progcheck.render.render(p),
                           "got": r["out"][:2000], "err": r["err"][:500], "rc": r["rc"], "expected": e["out"][:2000]},
                          key={"kind": c[0], "sig": c[1], "route": "c", "schedule": [k, j], "shapes": progcheck.shape_flags(p)})
    chk.traces += len(jobs) + len(comp)
    # interpreter route: collections are expensive (the whole compiler heap is scanned): larger k, fewer programs
    isched = [(17, 0), (100, 99)] if tier == "quick" else [(5, 0), (17, 3), (50, 49), (100, 0), (400, 1), (1000, 999)]
    iprogs = fam.replayable[:4] if tier == "quick" else fam.replayable[:40]
    ijobs = [(p, k, j) for p in iprogs for (k, j) in isched]

    def run_interp(job):
        p, k, j = job
        env = dict(os.environ)
        env["ALDOR_VERIF_GC"] = "%d:%d" % (k, j)
        return progrun.run_program(b, p, "interp", os.path.join(wd, "i%d_%d" % (k, j)), env=env, timeout=300)
    with concurrent.futures.ThreadPoolExecutor(max_workers=vlib.NCPU) as ex:
        ires = list(ex.map(run_interp, ijobs))
    for (p, k, j), r in zip(ijobs, ires):
        e = fam.exp[p["id"]]
        chk.case(("interp", p["id"], k, j))
        c = progcheck.classify(r, e)
        if c is not None:
            chk.violation("%s under schedule k=%d j=%d (interpreter): program %s" % (c[0], k, j, p["id"]),
                          {"program_id": p["id"], "schedule": [k, j], "source": progcheck.render.render(p),
                           "got": r["out"][:2000], "err": r["err"][:500], "rc": r["rc"], "expected": e["out"][:2000]},
                          key={"kind": c[0], "sig": c[1], "route": "interp", "schedule": [k, j], "shapes": progcheck.shape_flags(p)})
    chk.traces += len(ijobs)
    # large-scale programs through the Obs monitor (equality with the run without forced collection)
    sd = os.path.join(wd, "scale")
    os.makedirs(sd)
    scale = c09_scale.family(chk.seed, tier)

    def build_scale(item):
        name, text = item
        d = os.path.join(sd, name)
        os.makedirs(d)
        open(os.path.join(d, "p.as"), "w").write(text)
        rc, out, err, to = vlib.aldor(b, ["-Fc", "-Fmain", "p.as"], d, timeout=300)
        if rc != 0 or to:
            raise vlib.MachineryError("scale program %s does not compile: %s" % (name, out.decode(errors="replace")[:500]))
        rc, out, err, to = vlib.link_c(b, d, ["p.c", "p-aldormain.c"], "p")
        if rc != 0 or to:
            raise vlib.MachineryError("scale program %s does not link: %s" % (name, (out + err).decode(errors="replace")[:500]))
        return d
    with concurrent.futures.ThreadPoolExecutor(max_workers=vlib.NCPU) as ex:
        dirs = list(ex.map(build_scale, scale))
    sjobs = [(n, d, None) for (n, t), d in zip(scale, dirs)] + \
            [(n, d, kj) for (n, t), d in zip(scale, dirs) for kj in c09_scale.SCHEDULES[tier]]

    def run_scale(job):
        name, d, kj = job
        env = dict(os.environ)
        env.pop("ALDOR_VERIF_GC", None)
        if kj:
            env["ALDOR_VERIF_GC"] = "%d:%d" % kj
        rc, out, err, to = vlib.run(["./p"], cwd=d, timeout=600, env=env)
        return rc, out.decode(errors="replace"), to
    with concurrent.futures.ThreadPoolExecutor(max_workers=vlib.NCPU) as ex:
        sres = list(ex.map(run_scale, sjobs))
    events, sdetail = [], {}
    for (name, d, kj), (rc, out, to) in zip(sjobs, sres):
        cfg = "none" if kj is None else "k%d_j%d" % kj
        if kj is None and (rc != 0 or to):
            # the statement also says that no run ends in a storage fault: collections happen here too, when the heap fills
            chk.violation("large-scale program %s fails with the collector running only when the heap fills (rc=%s timeout=%s)" % (name, rc, to),
                          {"program": name, "rc": rc, "timeout": to, "out": out[:500], "source": dict(scale)[name]},
                          key={"kind": "scale-fault", "program": name.rsplit("_", 1)[0], "schedule": "none"})
            continue
        o = "<timeout>" if to else out
        events.append({"ev": "Observe", "input": name, "cfg": cfg, "digest": corpus.digest(o, rc == 0)})
        sdetail[(name, cfg)] = (rc, o[:500])
        chk.case(("scale", name, cfg))
    trace = os.path.join(sd, "obs.ndjson")
    vlib.write_ndjson(trace, events)
    tr = vlib.tlc("TraceObs", "TraceObsAll", workers=1, env={"TRACE": trace}, timeout=600)
    chk.add_tlc("TraceObs[scale]", tr)
    if not any(isinstance(l, str) and l.startswith("SUMMARY") for l in tr.printed):
        raise vlib.MachineryError("TraceObs did not reach the end of the scale trace")
    for l in tr.printed:
        if isinstance(l, str) and l.startswith("DISAGREE"):
            parts = [p.strip().strip('"') for p in l[l.index("<<") + 2:l.rindex(">>")].split(",")]
            n_, cfg, first = parts[1], parts[2], parts[3]
            if (n_, first) not in sdetail:
                continue
            chk.violation("large-scale program %s: result under schedule %s differs from the run without forced collection" % (n_, cfg),
                          {"program": n_, "schedule": cfg, "got": sdetail[(n_, cfg)], "reference": sdetail[(n_, first)],
                           "source": dict(scale)[n_]},
                          key={"kind": "scale-disagree", "program": n_.rsplit("_", 1)[0], "schedule": cfg})
    chk.traces += len(sjobs)
    chk.extra["scale_programs"] = [n for n, t in scale]
    chk.extra["schedules_c_route"] = len(scheds)
    chk.extra["schedules_interp_route"] = len(isched)
    chk.extra["programs_by_status"] = fam.status_count
    if fam.replayable:
        p = fam.replayable[0]
        chk.sample({"program": progcheck.render.render(p)[:1500], "expected_out": fam.exp[p["id"]]["out"][:300], "schedules": scheds[:6]})
    chk.rule = ("allocation-heavy generated programs x schedules (k, j): collect at every allocation n with n mod k = j, freed storage "
                "poisoned; a case is (route, program, k, j); expected output from TLC")
    chk.assumptions.append("the forced collection is applied at allocator entry, where an ordinary collection can also start (heap full)")
