"""C09 -- Garbage collection never changes what a program computes."""
import concurrent.futures
import os
import sys

import vlib
import progcheck
import progrun

sys.path.insert(0, os.path.join(vlib.VERIF, "gen"))
import progen  # noqa: E402
import c09_scale  # noqa: E402
import corpus  # noqa: E402

META = {
    "title": "Garbage collection never changes what a program computes",
    "level": "model_checking",
    "technique": "AldorSem.tla gives the output of allocation-heavy generated programs; hook H1 forces a collection at every k-th allocation (offset j) in the run-time allocator; every schedule must reproduce the specified output on the C route and the interpreter route",
    "design_ref": "DESIGN.md 5 C09, 4.2 (H1)",
    "level_text": "The schedule space 'collect at every k-th allocation, offset j' is enumerated (small k exhaustively over all offsets) and "
                  "applied through the guarded hook in store.c, which is the allocator of the interpreter and -- built with FOAM_RTS -- of "
                  "compiled programs; freed storage is poisoned (0xDD fill). Each run must print exactly the output TLC derived from the "
                  "language specification for that program, so a block reclaimed while still in use shows as a wrong result or a fault "
                  "instead of going unnoticed between two runs of the same binary. Interactive sessions (aldor -gloop): the plain "
                  "histories Repl.tla exports for generated programs and a fixed deep-recursion session are run with collections requested "
                  "(`#int gc`) after the steps a schedule i mod k = j selects; the session must print the specified output under every schedule.",
    "level_note": "Trusted: AldorSem.tla, renderer, gcc, libaxllib.a. The H2 allocator event trace of program runs is not validated here "
                  "(the allocator invariants are bound in C10 where the roots are known). Interpreter schedules use larger k because each "
                  "collection scans the whole compiler heap.",
}

HEAVY = ["bi", "str", "fun", "while", "for", "list", "arr", "rec", "un", "clos", "gen", "rec_fun", "brk", "exit"]


def schedules(tier):
    if tier == "quick":
        ks = [1, 2, 3, 5, 17, 100]
        return [(k, j) for k in ks for j in sorted({0, k - 1})]
    out = []
    for k in range(1, 17):
        out += [(k, j) for j in range(k)]
    k = 20
    while k <= 1000:
        out += [(k, 0), (k, k // 2), (k, k - 1)]
        k = int(k * 1.6) + 1
    return out


DEEP_SESSION = """#include "axllib"
import from SingleInteger, List SingleInteger
depth(n: SingleInteger): SingleInteger == if n = 0 then 0 else 1 + depth(n - 1)
mk(n: SingleInteger): List SingleInteger == if n = 0 then nil else cons(n, mk(n - 1))
sum(l: List SingleInteger): SingleInteger == { s: SingleInteger := 0; for x in l repeat s := s + x; s }
keep: List SingleInteger == mk 40
print << "deep-a " << depth %(d)d << newline
print << "sum-a " << sum mk %(d)d << newline
print << "deep-b " << depth %(d2)d << newline
print << "keep " << sum keep << newline
print << "deep-c " << depth %(d)d << newline
"""


def gc_lines(text, ends, k, j):
    """The session text with a collection request (`#int gc`) after the i-th step whenever i mod k = j."""
    ls = text.split("\n")
    out = []
    step = 0
    endset = set(ends)
    for n, l in enumerate(ls, 1):
        out.append(l)
        if n in endset:
            if step % k == j:
                out.append("#int gc")
            step += 1
    return "\n".join(out)


def loop_phase(chk, b, wd, tier):
    """Interactive sessions (aldor -gloop) with collections requested between steps (`#int gc`): the session must print what
    Repl.tla / AldorSem specify for it whatever the schedule, and the fixed deep-recursion session (interpreter stack in
    several segments, live data across collections) must print the same with and without the requests."""
    import random
    import shutil
    import json
    import importlib
    c13 = importlib.import_module("checks.c13")
    import replhist
    b = dict(b)
    exe = os.path.join(wd, "aldor-loop")
    shutil.copy2(b["aldor"], exe)
    b["aldor"] = exe
    prefix = c13._setarch()
    rng = random.Random(chk.seed + 41)
    nprog = 6 if tier == "quick" else 60
    progs, batch_exp, _ = c13.select_programs(chk, (chk.seed + 41) % 1000003, [(nprog, 7, 0, 0, ())], rng)
    d = vlib.scratch("c09loop")
    path = os.path.join(d, "progs.ndjson")
    vlib.write_ndjson(path, progs)
    r = vlib.tlc("Repl", "Repl", workers=vlib.NCPU, env={"PROGS": path}, timeout=1500)
    chk.add_tlc("Repl[gc-sessions]", r)
    if r.violated:
        raise vlib.MachineryError("Repl.tla violates %s on the session programs" % r.violated)
    hs = [json.loads(l[5:]) for l in r.printed if isinstance(l, str) and l.startswith("HIST ")]
    hs = [h for h in hs if all(it["k"] == "ok" for it in h["hist"])]
    byid = {p["id"]: p for p in progs}
    if len(hs) < len(progs):
        raise vlib.MachineryError("Repl.tla exported %d plain histories for %d programs" % (len(hs), len(progs)))
    scheds = [None, (1, 0), (2, 1), (3, 0)] if tier == "quick" else [None, (1, 0), (2, 0), (2, 1), (3, 0), (3, 2), (5, 4)]
    jobs = []
    for h in hs:
        p = byid[h["id"]]
        text, steps, ends = replhist.render_history(p, h["hist"])
        for sc in scheds:
            jobs.append(("gen", h, sc, text if sc is None else gc_lines(text, ends, sc[0], sc[1])))
    depths = [(600, 300)] if tier == "quick" else [(600, 300), (260, 250), (1000, 700)]
    for (dd, d2) in depths:
        text = DEEP_SESSION % {"d": dd, "d2": d2}
        ends = list(range(1, len(text.split("\n"))))
        for sc in scheds + [(4, 3), (7, 6)]:
            jobs.append(("deep%d" % dd, None, sc, (text if sc is None else gc_lines(text, ends, sc[0], sc[1])) + "#quit\n"))

    def do(job):
        kind, h, sc, text = job
        dd = os.path.join(wd, "loop-%d" % (abs(hash((kind, h and h["id"], sc))) % 10 ** 9))
        os.makedirs(dd, exist_ok=True)
        res = c13.run_loop(b, text, dd, prefix, timeout=300)
        res["text"] = text
        return res
    with concurrent.futures.ThreadPoolExecutor(max_workers=vlib.NCPU) as ex:
        results = list(ex.map(do, jobs))
    ref = {}
    nreq = 0
    for (kind, h, sc, text), res in zip(jobs, results):
        nreq += res["out"].count("Garbage collection...")
        if kind == "gen":
            chk.case(("loop", h["id"], sc), nontrivial=sc is not None and len(h["out"]) > 0)
            v = c13.judge(h, res)
            if v is not None:
                chk.violation("%s in an interactive session with collections requested %s: program %s: %s"
                              % (v[0], "never" if sc is None else "after every step i with i mod %d = %d" % sc, h["id"], v[1]),
                              {"program_id": h["id"], "schedule": sc, "input": text, "stdout": res["out"][-4000:], "rc": res["rc"],
                               "observed_projection": v[2], "specified_projection": v[3]},
                              key={"kind": v[0], "route": "loop", "schedule": sc, "family": "gen"})
            continue
        # the fixed session: program lines only (the loop's own lines -- timings, the collector's report -- are not the program's)
        proj = [l.strip() for l in res["out"].split("\n") if l.startswith(("deep-", "sum-", "keep "))]
        fault = res["timeout"] or res["rc"] != 0 or "Program fault" in res["out"] or "Bug:" in res["out"]
        chk.case(("loop", kind, sc), nontrivial=sc is not None)
        if sc is None:
            if fault or len(proj) != 5 or "(Error)" in res["out"]:
                # (no collection was requested in this run: whatever stops it -- e.g. the C stack limit of the environment under
                #  the deepest recursion -- is not the subject of C09; the session is left out and the fact recorded)
                chk.extra.setdefault("fixed_sessions_not_usable", []).append({"session": kind, "rc": res["rc"]})
                ref[kind] = None
                continue
            ref[kind] = proj
        elif ref[kind] is None:
            continue
        elif fault or proj != ref[kind]:
            chk.violation("fixed deep-recursion session %s with collections requested after every step i with i mod %d = %d: %s"
                          % (kind, sc[0], sc[1], "the loop faulted or stopped (rc=%s)" % res["rc"] if fault else "program lines differ"),
                          {"schedule": sc, "input": text, "stdout": res["out"][-4000:], "rc": res["rc"], "expected_lines": ref[kind],
                           "got_lines": proj},
                          key={"kind": "loop-fault" if fault else "wrong-output", "route": "loop", "schedule": sc, "family": kind})
    if tier == "quick" and not any(v for v in ref.values()):
        raise vlib.MachineryError("no fixed deep-recursion session runs without collection requests")
    if nreq == 0:
        raise vlib.MachineryError("no collection request was honoured by the loop (`#int gc` not recognised?)")
    chk.traces += len(jobs)
    chk.extra["loop_sessions"] = {"generated_programs": len(hs), "fixed_sessions": len(depths), "runs": len(jobs),
                                  "collections_performed_on_request": nreq,
                                  "schedules": ["none" if s_ is None else "%d:%d" % s_ for s_ in scheds]}


def run(chk, tier):
    b = vlib.vbuild()
    wd = vlib.scratch("c09")
    loop_phase(chk, b, wd, tier)
    n = 40 if tier == "quick" else 250
    progs = []
    for i in range(n):
        # every second program also allocates through several values at once, collect forms and private representations
        g = progen.ProgGen(((chk.seed + 29) % 1000003) * 100003 + i,
                           features=HEAVY + (["tup", "coll", "filt", "adt", "kwd", "strop", "where", "pfor", "bits"] if i % 2 else []), size=16)
        progs.append(g.program("a%d" % i))
    fam = progcheck.Family(chk, progs, "alloc", workers=vlib.NCPU, timeout=1500)
    scheds = schedules(tier)
    # compile every program once on the C route (no forced collection while compiling)
    with concurrent.futures.ThreadPoolExecutor(max_workers=vlib.NCPU) as ex:
        comp = list(ex.map(lambda p: progrun.run_program(b, p, "c", wd), fam.replayable))
    jobs = []
    for p, r in zip(fam.replayable, comp):
        e = fam.exp[p["id"]]
        c = progcheck.classify(r, e)
        chk.case(("c", p["id"], "none"))
        if c is not None:
            chk.violation("%s without forced collection: program %s %s" % (c[0], p["id"], c[1]),
                          {"program_id": p["id"], "source": progcheck.render.render(p), "got": r["out"][:2000], "expected": e["out"][:2000]},
                          key={"kind": c[0], "sig": c[1], "shapes": progcheck.shape_flags(p), "route": "c", "schedule": None})
            continue
        for (k, j) in scheds:
            jobs.append((p, r["dir"], k, j))

    def run_sched(job):
        p, d, k, j = job
        env = dict(os.environ)
        env["ALDOR_VERIF_GC"] = "%d:%d" % (k, j)
        rc, out, err, to = vlib.run(["./p"], cwd=d, timeout=120, env=env)
        return {"rc": rc, "out": out.decode(errors="replace"), "err": err.decode(errors="replace"), "phase": "run", "timeout": to}
    with concurrent.futures.ThreadPoolExecutor(max_workers=vlib.NCPU) as ex:
        res = list(ex.map(run_sched, jobs))
    for (p, d, k, j), r in zip(jobs, res):
        e = fam.exp[p["id"]]
        chk.case(("c", p["id"], k, j))
        c = progcheck.classify(r, e)
        if c is not None:
            chk.violation("%s under schedule k=%d j=%d (C route): program %s" % (c[0], k, j, p["id"]),
                          {"program_id": p["id"], "schedule": [k, j], "source": progcheck.render.render(p),
                           "got": r["out"][:2000], "err": r["err"][:500], "rc": r["rc"], "expected": e["out"][:2000]},
                          key={"kind": c[0], "sig": c[1], "route": "c", "schedule": [k, j], "shapes": progcheck.shape_flags(p)})
    chk.traces += len(jobs) + len(comp)
    # interpreter route: collections are expensive (the whole compiler heap is scanned): larger k, fewer programs
    isched = [(17, 0), (100, 99)] if tier == "quick" else [(5, 0), (17, 3), (50, 49), (100, 0), (400, 1), (1000, 999)]
    iprogs = fam.replayable[:4] if tier == "quick" else fam.replayable[:40]
    ijobs = [(p, k, j) for p in iprogs for (k, j) in isched]

    def run_interp(job):
        p, k, j = job
        env = dict(os.environ)
        env["ALDOR_VERIF_GC"] = "%d:%d" % (k, j)
        return progrun.run_program(b, p, "interp", os.path.join(wd, "i%d_%d" % (k, j)), env=env, timeout=300)
    with concurrent.futures.ThreadPoolExecutor(max_workers=vlib.NCPU) as ex:
        ires = list(ex.map(run_interp, ijobs))
    for (p, k, j), r in zip(ijobs, ires):
        e = fam.exp[p["id"]]
        chk.case(("interp", p["id"], k, j))
        c = progcheck.classify(r, e)
        if c is not None:
            chk.violation("%s under schedule k=%d j=%d (interpreter): program %s" % (c[0], k, j, p["id"]),
                          {"program_id": p["id"], "schedule": [k, j], "source": progcheck.render.render(p),
                           "got": r["out"][:2000], "err": r["err"][:500], "rc": r["rc"], "expected": e["out"][:2000]},
                          key={"kind": c[0], "sig": c[1], "route": "interp", "schedule": [k, j], "shapes": progcheck.shape_flags(p)})
    chk.traces += len(ijobs)
    # large-scale programs through the Obs monitor (equality with the run without forced collection)
    sd = os.path.join(wd, "scale")
    os.makedirs(sd)
    scale = c09_scale.family(chk.seed, tier)

    def build_scale(item):
        name, text = item
        d = os.path.join(sd, name)
        os.makedirs(d)
        open(os.path.join(d, "p.as"), "w").write(text)
        rc, out, err, to = vlib.aldor(b, ["-Fc", "-Fmain", "p.as"], d, timeout=300)
        if rc != 0 or to:
            raise vlib.MachineryError("scale program %s does not compile: %s" % (name, out.decode(errors="replace")[:500]))
        rc, out, err, to = vlib.link_c(b, d, ["p.c", "p-aldormain.c"], "p")
        if rc != 0 or to:
            raise vlib.MachineryError("scale program %s does not link: %s" % (name, (out + err).decode(errors="replace")[:500]))
        return d
    with concurrent.futures.ThreadPoolExecutor(max_workers=vlib.NCPU) as ex:
        dirs = list(ex.map(build_scale, scale))
    sjobs = [(n, d, None) for (n, t), d in zip(scale, dirs)] + \
            [(n, d, kj) for (n, t), d in zip(scale, dirs) for kj in c09_scale.SCHEDULES[tier]]

    def run_scale(job):
        name, d, kj = job
        env = dict(os.environ)
        env.pop("ALDOR_VERIF_GC", None)
        if kj:
            env["ALDOR_VERIF_GC"] = "%d:%d" % kj
        rc, out, err, to = vlib.run(["./p"], cwd=d, timeout=600, env=env)
        return rc, out.decode(errors="replace"), to
    with concurrent.futures.ThreadPoolExecutor(max_workers=vlib.NCPU) as ex:
        sres = list(ex.map(run_scale, sjobs))
    events, sdetail = [], {}
    for (name, d, kj), (rc, out, to) in zip(sjobs, sres):
        cfg = "none" if kj is None else "k%d_j%d" % kj
        if kj is None and (rc != 0 or to):
            # the statement also says that no run ends in a storage fault: collections happen here too, when the heap fills
            chk.violation("large-scale program %s fails with the collector running only when the heap fills (rc=%s timeout=%s)" % (name, rc, to),
                          {"program": name, "rc": rc, "timeout": to, "out": out[:500], "source": dict(scale)[name]},
                          key={"kind": "scale-fault", "program": name.rsplit("_", 1)[0], "schedule": "none"})
            continue
        o = "<timeout>" if to else out
        events.append({"ev": "Observe", "input": name, "cfg": cfg, "digest": corpus.digest(o, rc == 0)})
        sdetail[(name, cfg)] = (rc, o[:500])
        chk.case(("scale", name, cfg))
    trace = os.path.join(sd, "obs.ndjson")
    vlib.write_ndjson(trace, events)
    tr = vlib.tlc("TraceObs", "TraceObsAll", workers=1, env={"TRACE": trace}, timeout=600)
    chk.add_tlc("TraceObs[scale]", tr)
    if not any(isinstance(l, str) and l.startswith("SUMMARY") for l in tr.printed):
        raise vlib.MachineryError("TraceObs did not reach the end of the scale trace")
    for l in tr.printed:
        if isinstance(l, str) and l.startswith("DISAGREE"):
            parts = [p.strip().strip('"') for p in l[l.index("<<") + 2:l.rindex(">>")].split(",")]
            n_, cfg, first = parts[1], parts[2], parts[3]
            if (n_, first) not in sdetail:
                continue
            chk.violation("large-scale program %s: result under schedule %s differs from the run without forced collection" % (n_, cfg),
                          {"program": n_, "schedule": cfg, "got": sdetail[(n_, cfg)], "reference": sdetail[(n_, first)],
                           "source": dict(scale)[n_]},
                          key={"kind": "scale-disagree", "program": n_.rsplit("_", 1)[0], "schedule": cfg})
    chk.traces += len(sjobs)
    chk.extra["scale_programs"] = [n for n, t in scale]
    chk.extra["schedules_c_route"] = len(scheds)
    chk.extra["schedules_interp_route"] = len(isched)
    chk.extra["programs_by_status"] = fam.status_count
    if fam.replayable:
        p = fam.replayable[0]
        chk.sample({"program": progcheck.render.render(p)[:1500], "expected_out": fam.exp[p["id"]]["out"][:300], "schedules": scheds[:6]})
    chk.rule = ("allocation-heavy generated programs x schedules (k, j): collect at every allocation n with n mod k = j, freed storage "
                "poisoned; a case is (route, program, k, j); expected output from TLC")
    chk.assumptions.append("the forced collection is applied at allocator entry, where an ordinary collection can also start (heap full)")
